"""C15 harness: every sequence header the encoder can generate encodes exactly the requested
video format.

Correspondence (tie C): Model/SeqHeader.v (iter_sequence_headers, rank_base_video_format_similarity,
decode_header, coded_keys) evaluated by coqc on the LIVE tables (BASE_VIDEO_FORMAT_PARAMETERS, PRESET_*,
LEVEL_CONSTRAINTS dumped from the imported modules) against the real encoder enumeration, the real
validator's decoded video parameters and the (key, value) pairs the validator handed to
assert_level_constraint.

Oracle: every yielded header -> minimal stream (sequence header + end of sequence) -> REAL validator
under the configured level: accepted, decoded video parameters / picture coding mode equal to the
configured ones.  For the levels whose data-unit pattern does not admit a picture-less sequence
(64, 65, 66) the header is parsed by the validator's own parse_info + sequence_header functions.

Addition (end of file, `accept_pass`): the validator's VERDICT on a sequence header -- the class of the
first failing check of decoder/sequence_header.py -- against Model/SeqHeaderAccept.v `header_check`, on
generated headers of valid and deliberately invalid targets and on mutated descriptions.
"""
import copy
import io
import multiprocessing
import os
import sys
import time
from collections import OrderedDict
from fractions import Fraction

from vlib import cz, clist

sys.path.insert(0, os.path.dirname(os.path.abspath(__file__)))

VP_KEYS = [
    "frame_width", "frame_height", "color_diff_format_index", "source_sampling", "top_field_first",
    "frame_rate_numer", "frame_rate_denom", "pixel_aspect_ratio_numer", "pixel_aspect_ratio_denom",
    "clean_width", "clean_height", "left_offset", "top_offset",
    "luma_offset", "luma_excursion", "color_diff_offset", "color_diff_excursion",
    "color_primaries_index", "color_matrix_index", "transfer_function_index",
]

# (field of SourceParameters, flag key, value keys in the encoder's `parameters` order, has index)
GROUPS = [
    ("frame_size", "custom_dimensions_flag", ["frame_width", "frame_height"], False),
    ("color_diff_sampling_format", "custom_color_diff_format_flag", ["color_diff_format_index"], False),
    ("scan_format", "custom_scan_format_flag", ["source_sampling"], False),
    ("frame_rate", "custom_frame_rate_flag", ["frame_rate_numer", "frame_rate_denom"], True),
    ("pixel_aspect_ratio", "custom_pixel_aspect_ratio_flag", ["pixel_aspect_ratio_numer", "pixel_aspect_ratio_denom"], True),
    ("clean_area", "custom_clean_area_flag", ["clean_width", "clean_height", "top_offset", "left_offset"], False),
    ("signal_range", "custom_signal_range_flag", ["luma_offset", "luma_excursion", "color_diff_offset", "color_diff_excursion"], True),
]


class Impl(object):
    """Everything imported from the implementation under test."""

    def __init__(self):
        import vc2_data_tables as t
        import vc2_conformance.encoder.sequence_header as esh
        import vc2_conformance.level_constraints as lc
        import vc2_conformance.constraint_table as ct
        import vc2_conformance.codec_features as cfm
        from vc2_conformance.pseudocode.video_parameters import set_source_defaults, VideoParameters
        from vc2_conformance import bitstream as bs
        from vc2_conformance import decoder
        from vc2_conformance.pseudocode.state import State
        from vc2_conformance.symbol_re import Matcher
        import common
        self.t, self.esh, self.lc, self.ct, self.cfm = t, esh, lc, ct, cfm
        self.set_source_defaults, self.VideoParameters = set_source_defaults, VideoParameters
        self.bs, self.decoder, self.State, self.Matcher, self.common = bs, decoder, State, Matcher, common
        self.KEYS = list(lc.LEVEL_CONSTRAINTS[0].keys())


_IMPL = None


def impl():
    global _IMPL
    if _IMPL is None:
        _IMPL = Impl()
    return _IMPL


# --------------------------------------------------------------------- Coq literals ----
MODEL_KEYS = [
    "level", "profile", "major_version", "minor_version", "base_video_format", "picture_coding_mode",
    "custom_dimensions_flag", "frame_width", "frame_height", "custom_color_diff_format_flag",
    "color_diff_format_index", "custom_scan_format_flag", "source_sampling", "custom_frame_rate_flag",
    "frame_rate_index", "frame_rate_numer", "frame_rate_denom", "custom_pixel_aspect_ratio_flag",
    "pixel_aspect_ratio_index", "pixel_aspect_ratio_numer", "pixel_aspect_ratio_denom",
    "custom_clean_area_flag", "clean_width", "clean_height", "left_offset", "top_offset",
    "custom_signal_range_flag", "custom_signal_range_index", "luma_offset", "luma_excursion",
    "color_diff_offset", "color_diff_excursion", "custom_color_spec_flag", "color_spec_index",
    "custom_color_primaries_flag", "color_primaries_index", "custom_color_matrix_flag", "color_matrix_index",
    "custom_transfer_function_flag", "transfer_function_index", "wavelet_index", "dwt_depth",
    "asym_transform_index_flag", "wavelet_index_ho", "asym_transform_flag", "dwt_depth_ho", "slices_x",
    "slices_y", "slices_have_same_dimensions", "slice_bytes_numerator", "slice_bytes_denominator",
    "slice_prefix_bytes", "slice_size_scaler", "custom_quant_matrix", "quant_matrix_values", "qindex",
    "total_slice_bytes",
]
KEY_ID = dict((k, i) for i, k in enumerate(MODEL_KEYS))


def cpair(p):
    return "(%s, %s)" % (cz(p[0]), cz(p[1]))


def c_kvs(pairs):
    return "[" + "; ".join("(%d, %s)" % (KEY_ID[k], cz(int(v))) for k, v in pairs) + "]"


def c_valueset(I, vs):
    if isinstance(vs, I.ct.AnyValue):
        return "VAny"
    return "(VSet %s %s)" % (clist(sorted(int(v) for v in vs._values)),
                             clist(sorted((int(a), int(b)) for a, b in vs._ranges), cpair))


def c_column(I, col):
    return "[" + "; ".join(c_valueset(I, col[k]) if k in col else "(VSet [] [])" for k in MODEL_KEYS) + "]"


def c_table(I, table):
    return "[" + ";\n  ".join(c_column(I, col) for col in table) + "]"


def c_tables(I):
    t = I.t

    def assoc(d, f):
        return "[" + "; ".join("(%s, %s)" % (cz(int(k)), f(v)) for k, v in d.items()) + "]"

    def base(b):
        return "(mkBase %s)" % " ".join(cz(int(x)) for x in (
            b.frame_width, b.frame_height, b.color_diff_format_index, b.source_sampling, b.top_field_first,
            b.frame_rate_index, b.pixel_aspect_ratio_index, b.clean_width, b.clean_height, b.left_offset,
            b.top_offset, b.signal_range_index, b.color_spec_index))

    def tup(v):
        return clist([int(x) for x in v])

    return "(mkTables %s\n %s\n %s\n %s\n %s)" % (
        assoc(t.BASE_VIDEO_FORMAT_PARAMETERS, base), assoc(t.PRESET_FRAME_RATES, tup),
        assoc(t.PRESET_PIXEL_ASPECT_RATIOS, tup), assoc(t.PRESET_SIGNAL_RANGES, tup),
        assoc(t.PRESET_COLOR_SPECS, tup))


def table_defs(I, table=None):
    return ("Definition T15 : tables := %s.\nDefinition TBL : list ccolumn := %s.\n"
            % (c_tables(I), c_table(I, I.lc.LEVEL_CONSTRAINTS if table is None else table)))


class Unrepresentable(Exception):
    pass


def g_group(d, flag, dt_keys, has_index):
    if not d[flag]:
        if len(d) != 1:
            raise Unrepresentable(repr(d))
        return "GDefault"
    if has_index and d["index"] != 0:
        if len(d) != 2:
            raise Unrepresentable(repr(d))
        return "(GPreset %s)" % cz(int(d["index"]))
    if set(d.keys()) != set([flag] + dt_keys + (["index"] if has_index else [])):
        raise Unrepresentable(repr(d))
    return "(GExplicit %s)" % clist([int(d[k]) for k in dt_keys])


def c_header(h):
    sp = h["video_parameters"]
    parts = []
    for field, flag, keys, has_index in GROUPS:
        parts.append(g_group(sp[field], flag, keys, has_index))
    cs = sp["color_spec"]
    if not cs["custom_color_spec_flag"]:
        c = "CSDefault"
    elif cs["index"] != 0:
        if len(cs) != 2:
            raise Unrepresentable(repr(cs))
        c = "(CSPreset %s)" % cz(int(cs["index"]))
    else:
        c = "(CSCustom %s %s %s)" % (
            g_group(cs["color_primaries"], "custom_color_primaries_flag", ["index"], False),
            g_group(cs["color_matrix"], "custom_color_matrix_flag", ["index"], False),
            g_group(cs["transfer_function"], "custom_transfer_function_flag", ["index"], False))
    pp = h["parse_parameters"]
    if set(pp.keys()) != {"profile", "level"}:
        raise Unrepresentable(repr(pp))
    return "(mkHeader %s %s %s (mkSrc %s %s) %s)" % (
        cz(int(pp["profile"])), cz(int(pp["level"])), cz(int(h["base_video_format"])),
        " ".join(parts), c, cz(int(h["picture_coding_mode"])))


def flat(vp):
    return [int(vp[k]) for k in VP_KEYS]


# ------------------------------------------------------------ configurations -----------
def make_cf(I, spec):
    """spec: JSON-able dict -> CodecFeatures."""
    t = I.t
    vp = I.VideoParameters((k, v) for k, v in zip(VP_KEYS, spec["vp"]))
    vp["top_field_first"] = bool(vp["top_field_first"])
    cf = I.common.make_codec_features(
        profile="hq" if spec.get("profile", 3) == 3 else "ld",
        fields=bool(spec["pcm"]),
        wavelet_index=t.WaveletFilters(spec.get("wavelet_index", 4)),
        dwt_depth=spec.get("dwt_depth", 1), dwt_depth_ho=0,
        slices_x=spec.get("slices_x", 1), slices_y=spec.get("slices_y", 1),
        picture_bytes=spec.get("picture_bytes", 4096),
        level=t.Levels(spec.get("level", 0)),
    )
    cf["video_parameters"] = vp
    return cf


def format_valid(vp, pcm):
    """The hypotheses of the property on the video format (what the validator requires of ANY
    sequence header irrespective of its encoding)."""
    w, h, cdf = vp[0], vp[1], vp[2]
    xm = 2 if cdf in (1, 2) else 1
    ym = (2 if cdf == 2 else 1) * (2 if pcm else 1)
    if w < 1 or h < 1 or w % xm or h % ym:
        return False
    if vp[5] < 1 or vp[6] < 1 or vp[7] < 1 or vp[8] < 1:
        return False
    if vp[9] + vp[11] > w or vp[10] + vp[12] > h:
        return False
    if vp[14] < 1 or vp[16] < 1:
        return False
    return True


def gen_formats(I, ctx):
    """[(spec, bucket)]: formats near every base video format, unconstrained level."""
    t, rng = I.t, ctx.rng
    out = []
    frs = [tuple(int(x) for x in v) for v in t.PRESET_FRAME_RATES.values()]
    pars = [tuple(int(x) for x in v) for v in t.PRESET_PIXEL_ASPECT_RATIOS.values()]
    sigs = [tuple(int(x) for x in v) for v in t.PRESET_SIGNAL_RANGES.values()]
    specs = [tuple(int(x) for x in v) for v in t.PRESET_COLOR_SPECS.values()]
    prim, mat, tfs = [int(x) for x in t.PresetColorPrimaries], [int(x) for x in t.PresetColorMatrices], [int(x) for x in t.PresetTransferFunctions]

    def p_size(v):
        w, h = v[0], v[1]
        dw, dh = rng.choice([(-4, 0), (0, -4), (4, 4), (-8, -8), (0, 4), (16, 0), (-(w - 4), -(h - 4)), (w, h)])
        v[0], v[1] = w + dw, h + dh
        v[9], v[10], v[11], v[12] = min(v[9], v[0]), min(v[10], v[1]), 0, 0

    def p_clean(v):
        w, h = v[0], v[1]
        cw, ch = rng.randint(1, w), rng.randint(1, h)
        v[9], v[10], v[11], v[12] = cw, ch, rng.randint(0, w - cw), rng.randint(0, h - ch)

    def p_custom_fr(v):
        v[5], v[6] = rng.choice([(1, 1), (30000, 1001), (rng.randint(1, 300), rng.randint(1, 5)), (2 ** 31 - 1, 2 ** 16 + 1), (25, 1)])

    def p_custom_par(v):
        v[7], v[8] = rng.choice([(1, 2), (64, 45), (rng.randint(1, 100), rng.randint(1, 100)), (2 ** 20, 3)])

    def p_custom_sig(v):
        bits = rng.choice([1, 8, 10, 12, 16, 20, 32])
        v[13], v[14], v[15], v[16] = (rng.choice([0, 1, 16, 1 << (bits - 1)]), rng.choice([(1 << bits) - 1, rng.randint(1, 1 << bits)]),
                                      rng.choice([0, 1 << (bits - 1)]), rng.choice([(1 << bits) - 1, rng.randint(1, 1 << bits), 1]))

    for bvf in t.BaseVideoFormats:
        base = flat(I.set_source_defaults(bvf))
        singles = [("base", lambda v: None)]
        for k in range(ctx.pick(2, 6)):
            singles.append(("size", p_size))
        for c in (0, 1, 2):
            singles.append(("cdf", lambda v, c=c: v.__setitem__(2, c)))
        singles.append(("scan", lambda v: v.__setitem__(3, 1 - v[3])))
        singles.append(("tff", lambda v: v.__setitem__(4, 1 - v[4])))
        for fr in frs:
            singles.append(("frame_rate_preset", lambda v, fr=fr: v.__setitem__(slice(5, 7), fr)))
        for k in range(ctx.pick(2, 5)):
            singles.append(("frame_rate_custom", p_custom_fr))
        # unreduced ratios equal in value to a preset / to the base format's own ratio: must be coded explicitly
        unred = [(k * a, k * b) for (a, b) in frs for k in (2, 3, 10)]
        for fr in (unred if not ctx.quick else rng.sample(unred, 6)) + [(2 * base[5], 2 * base[6]), (7 * base[5], 7 * base[6])]:
            singles.append(("frame_rate_unreduced", lambda v, fr=fr: v.__setitem__(slice(5, 7), fr)))
        unred = [(k * a, k * b) for (a, b) in pars for k in (2, 3, 11)]
        for p in (unred if not ctx.quick else rng.sample(unred, 4)) + [(2 * base[7], 2 * base[8]), (5 * base[7], 5 * base[8])]:
            singles.append(("par_unreduced", lambda v, p=p: v.__setitem__(slice(7, 9), p)))
        for p in pars:
            singles.append(("par_preset", lambda v, p=p: v.__setitem__(slice(7, 9), p)))
        for k in range(ctx.pick(1, 4)):
            singles.append(("par_custom", p_custom_par))
        for k in range(ctx.pick(2, 5)):
            singles.append(("clean", p_clean))
        for s in sigs:
            singles.append(("signal_preset", lambda v, s=s: v.__setitem__(slice(13, 17), s)))
        for k in range(ctx.pick(2, 5)):
            singles.append(("signal_custom", p_custom_sig))
        for s in specs:
            singles.append(("color_spec_preset", lambda v, s=s: v.__setitem__(slice(17, 20), s)))
        combos = [(a, b, c) for a in prim for b in mat for c in tfs]
        for s in (combos if not ctx.quick else rng.sample(combos, 8)):
            singles.append(("color_custom", lambda v, s=s: v.__setitem__(slice(17, 20), s)))
        # single-group perturbations
        for i, (bucket, f) in enumerate(singles):
            v = list(base)
            f(v)
            pcms = (0, 1) if (not ctx.quick or bucket in ("base", "size", "cdf", "scan")) else (i % 2,)
            for pcm in pcms:
                out.append(({"vp": v, "pcm": pcm, "near": int(bvf)}, bucket))
        # several groups at once
        for k in range(ctx.pick(8, 60)):
            v = list(base)
            fs = rng.sample(singles[1:], rng.randint(2, 6))
            for _, f in fs:
                f(v)
            if v[9] + v[11] > v[0] or v[10] + v[12] > v[1]:
                v[9], v[10], v[11], v[12] = v[0], v[1], 0, 0
            out.append(({"vp": v, "pcm": rng.randint(0, 1), "near": int(bvf)}, "multi"))
    res = []
    for spec, bucket in out:
        v, pcm = spec["vp"], spec["pcm"]
        if not format_valid(v, pcm):
            # repair the height parity rather than dropping the case
            ym = (2 if v[2] == 2 else 1) * (2 if pcm else 1)
            xm = 2 if v[2] in (1, 2) else 1
            v[0] += (-v[0]) % xm
            v[1] += (-v[1]) % ym
            v[9], v[10], v[11], v[12] = min(v[9], v[0]), min(v[10], v[1]), 0, 0
        if format_valid(v, pcm):
            res.append((spec, bucket))
    return res


def sample_vs(I, vs, rng, default):
    """A member of a ValueSet (default if it is AnyValue or `default` is a member)."""
    if isinstance(vs, I.ct.AnyValue):
        return default
    members = [int(x) for x in vs._values]
    for a, b in vs._ranges:
        members += [int(a), int(b), rng.randint(int(a), int(b))]
    if not members:
        return default
    if default in members and rng.random() < 0.5:
        return default
    return rng.choice(members)


def gen_level_formats(I, ctx):
    """Formats admitted by the REAL level columns: start from a base format the column allows and
    move every group the column lets us code explicitly to values the column allows."""
    t, rng = I.t, ctx.rng
    out = []
    for ci, col in enumerate(I.lc.LEVEL_CONSTRAINTS):
        lvl = sample_vs(I, col["level"], rng, 0)
        if lvl == 0:
            continue
        for rep in range(ctx.pick(6, 30)):
            bvf = sample_vs(I, col["base_video_format"], rng, 1)
            pcm = sample_vs(I, col["picture_coding_mode"], rng, rng.randint(0, 1))
            v = flat(I.set_source_defaults(t.BaseVideoFormats(bvf)))
            idx = dict((k, i) for i, k in enumerate(VP_KEYS))
            if rep > 0:
                for field, flag, keys, has_index in GROUPS:
                    if True not in col[flag] or rng.random() < 0.3:
                        continue
                    ikey = {"frame_rate": "frame_rate_index", "pixel_aspect_ratio": "pixel_aspect_ratio_index",
                            "signal_range": "custom_signal_range_index"}.get(field)
                    if ikey is not None:
                        presets = {"frame_rate": t.PRESET_FRAME_RATES, "pixel_aspect_ratio": t.PRESET_PIXEL_ASPECT_RATIOS,
                                   "signal_range": t.PRESET_SIGNAL_RANGES}[field]
                        i = sample_vs(I, col[ikey], rng, 0)
                        if i != 0 and i in [int(x) for x in presets]:
                            for k, x in zip(keys, presets[i]):
                                v[idx[k]] = int(x)
                            continue
                    for k in keys:
                        v[idx[k]] = sample_vs(I, col[k], rng, v[idx[k]])
                if True in col["custom_color_spec_flag"] and rng.random() < 0.7:
                    i = sample_vs(I, col["color_spec_index"], rng, 0)
                    if i != 0:
                        v[17:20] = [int(x) for x in t.PRESET_COLOR_SPECS[i]]
                    else:
                        for k in ("color_primaries_index", "color_matrix_index", "transfer_function_index"):
                            v[idx[k]] = sample_vs(I, col[k], rng, v[idx[k]])
            profile = sample_vs(I, col["profile"], rng, 3)
            sx = sample_vs(I, col["slices_x"], rng, 1)
            sy = sample_vs(I, col["slices_y"], rng, 1)
            spec = {"vp": v, "pcm": pcm, "near": bvf, "level": lvl, "profile": profile,
                    "wavelet_index": sample_vs(I, col["wavelet_index"], rng, 4),
                    "dwt_depth": sample_vs(I, col["dwt_depth"], rng, 1), "slices_x": sx, "slices_y": sy, "column": ci}
            if profile == 0:
                num = sample_vs(I, col["slice_bytes_numerator"], rng, 64)
                den = sample_vs(I, col["slice_bytes_denominator"], rng, 1)
                pb = Fraction(num, den) * sx * sy
                spec["picture_bytes"] = int(pb) if pb.denominator == 1 else 4096
            if format_valid(v, pcm):
                out.append((spec, "level-%d" % lvl))
    return out


# ------------------------------------------------------------------ running one case ----
def header_stream(I, h):
    bs, pc = I.bs, I.t.ParseCodes
    return bs.Sequence(data_units=[
        bs.DataUnit(parse_info=bs.ParseInfo(parse_code=pc.sequence_header), sequence_header=h),
        bs.DataUnit(parse_info=bs.ParseInfo(parse_code=pc.end_of_sequence))])


_PICTURELESS = {}


def pictureless_ok(I, level):
    """Does the level's data-unit pattern admit `sequence_header end_of_sequence`?"""
    if level not in _PICTURELESS:
        m = I.Matcher(I.lc.LEVEL_SEQUENCE_RESTRICTIONS[level].sequence_restriction_regex)
        _PICTURELESS[level] = bool(m.match_symbol("sequence_header") and m.match_symbol("end_of_sequence") and m.is_complete())
    return _PICTURELESS[level]


VERSION_KEY = "encoder-ignores-level-major_version"


def header_only(I, data):
    """The validator's own parse_info + sequence_header on the stream's first data unit."""
    state = I.State()
    vp, exc = None, None
    try:
        I.decoder.init_io(state, io.BytesIO(data))
        # the preamble of decoder.parse_sequence
        state["_generic_sequence_matcher"] = I.Matcher("sequence_header .* end_of_sequence")
        state["_num_pictures_in_sequence"] = 0
        state["_fragment_slices_remaining"] = 0
        I.decoder.parse_info(state)
        vp = I.decoder.sequence_header(state)
        verdict = "accept"
    except I.decoder.ConformanceError as e:
        verdict, exc = "conformance:" + type(e).__name__, e
    except Exception as e:
        verdict, exc = "crash:" + type(e).__name__, e
    return verdict, exc, vp, state


def decode_one(I, h, level):
    """Serialise the header into a minimal stream and run the real validator.
    Returns (verdict, video_parameters or None, pcm or None, constrained (key,value) list, version_conflict).
    version_conflict: the level pins major_version to values excluding the one autofill chose (the
    defect recorded under VERSION_KEY); the header is then re-checked with an admitted version forced,
    the way tests/encoder/test_encoder_sequence_header.py::test_iter_sequence_headers does."""
    data = I.common.serialise([header_stream(I, copy.deepcopy(h))])  # autofill mutates its argument
    if pictureless_ok(I, level):
        verdict, exc, _pics, state = I.common.validate(data)
        vp = state.get("video_parameters")
    else:
        verdict, exc, vp, state = header_only(I, data)
    conflict = None
    if (verdict == "conformance:ValueNotAllowedInLevel" and getattr(exc, "key", None) == "major_version"):
        conflict = "autofilled major_version %s, level %d allows %s" % (exc.value, int(level), exc.allowed_values)
        allowed = sorted(int(x) for x in exc.allowed_values.iter_values()) if not isinstance(exc.allowed_values, I.ct.AnyValue) else []
        if allowed:
            h2 = copy.deepcopy(h)
            h2["parse_parameters"]["major_version"] = allowed[0]
            data = I.common.serialise([header_stream(I, h2)])
            verdict, exc, vp, state = header_only(I, data)
    if verdict != "accept":
        verdict += ": " + str(exc).split("\n")[0][:200]
    lcv = [(k, int(v)) for k, v in state.get("_level_constrained_values", {}).items()
           if k not in ("major_version", "minor_version")]
    return verdict, (flat(vp) if vp is not None else None), state.get("picture_coding_mode"), lcv, conflict


def run_spec(args):
    """Worker: one configuration -> enumeration, oracle verdicts, observations for Coq."""
    spec, max_headers, want_corr = args
    I = impl()
    res = {"spec": spec, "fail": [], "n": 0, "corr": None, "error": None}
    try:
        cf = make_cf(I, spec)
        headers = list(I.esh.iter_sequence_headers(cf))
    except Exception as e:
        res["error"] = "%s: %s" % (type(e).__name__, e)
        return res
    res["n_headers"] = len(headers)
    target, pcm, level = flat(cf["video_parameters"]), int(cf["picture_coding_mode"]), cf["level"]
    idxs = list(range(len(headers)))
    if not want_corr and len(idxs) > max_headers:
        keep = set(idxs[:max_headers // 2]) | set(idxs[-(max_headers // 4):])
        step = max(1, len(idxs) // (max_headers // 4))
        keep |= set(idxs[::step])
        idxs = sorted(keep)
    obs = []
    for i in idxs:
        h = headers[i]
        verdict, vp, dpcm, lcv, conflict = decode_one(I, h, level)
        res["n"] += 1
        if conflict and not res.get("version_conflict"):
            res["version_conflict"] = {"index": i, "what": conflict}
        if verdict != "accept" or vp != target or dpcm != pcm:
            res["fail"].append({"index": i, "verdict": verdict, "decoded": vp, "decoded_pcm": dpcm,
                                "header": str(h)[:1500]})
        obs.append((h, vp, dpcm, lcv))
    try:
        first = I.esh.make_sequence_header(cf)
        if not headers or first != headers[0]:
            res["fail"].append({"index": -1, "verdict": "make_sequence_header != first enumerated header"})
    except I.esh.IncompatibleLevelAndVideoFormatError:
        if headers:
            res["fail"].append({"index": -1, "verdict": "make_sequence_header raised although headers exist"})
    if want_corr:
        try:
            cv = I.cfm.codec_features_to_trivial_level_constraints(cf)
            cands = [int(x) for x in I.ct.allowed_values_for(
                I.lc.LEVEL_CONSTRAINTS, "base_video_format", cv,
                I.lc.LEVEL_CONSTRAINT_ANY_VALUES["base_video_format"]).iter_values()]
            rank = [int(x) for x in I.esh.rank_allowed_base_video_format_similarity(cf)]
            extra = [(k, int(v)) for k, v in cv.items() if k not in ("level", "profile", "picture_coding_mode")]
            hobs = []
            nobs = len(obs)
            pick = sorted(set([0, 1, nobs // 2, nobs - 2, nobs - 1] + [(7 * k + spec.get("near", 0)) % max(1, nobs) for k in range(3)]))
            for j in [j for j in pick if 0 <= j < nobs]:
                h, vp, dpcm, lcv = obs[j]
                hobs.append("(%s, (%s, %s, %s))" % (c_header(h), clist(vp if vp is not None else []),
                                                   cz(-1 if dpcm is None else int(dpcm)), c_kvs(lcv)))
            res["corr"] = "(mkCase %s %s %s %s %s %s %s\n  [%s]\n  [%s])" % (
                cz(int(cf["level"])), cz(int(cf["profile"])), cz(pcm), c_kvs(extra), clist(target),
                clist(cands), clist(rank), ";\n   ".join(c_header(h) for h in headers), ";\n   ".join(hobs))
        except Unrepresentable as e:
            res["error"] = "header not representable in the model: %s" % e
    return res


def report(ctx, res):
    spec = res["spec"]
    if res["error"]:
        ctx.violation("iter_sequence_headers-raises" if "representable" not in res["error"] else "header-shape",
                      spec, "enumerating the headers failed: " + res["error"])
        return
    if res.get("version_conflict"):
        vc = res["version_conflict"]
        ctx.violation(VERSION_KEY, dict(spec, header_index=vc["index"]),
                      "the generated sequence header is rejected under its own level: " + vc["what"] +
                      " (every header of this configuration; re-checked with an admitted version forced)",
                      observed="ValueNotAllowedInLevel(major_version)", expected="accept")
    for f in res["fail"]:
        inp = dict(spec, header_index=f["index"])
        if f["verdict"] != "accept":
            key = "header-rejected:" + f["verdict"].split(":")[1] if ":" in f["verdict"] else "header-rejected"
            ctx.violation(key, inp, "validator verdict on generated header #%d: %s" % (f["index"], f["verdict"]),
                          observed=f.get("header"), expected="accept")
        else:
            ctx.violation("header-decodes-to-other-format", inp,
                          "header #%d decodes to different video parameters / picture coding mode" % f["index"],
                          observed={"vp": f["decoded"], "pcm": f["decoded_pcm"]}, expected={"vp": spec["vp"], "pcm": spec["pcm"]})


def run(ctx):
    I = impl()
    ctx.extra["rule"] = (
        "formats near each of the 23 base video formats at level 0: every single-group perturbation (frame size, each colour "
        "difference format, scan, top-field-first, every preset and custom frame rate / aspect ratio / signal range, unreduced ratios equal to presets and to the base format's own, clean areas, "
        "every colour spec preset and primaries x matrix x transfer function combinations) plus random multi-group ones, both "
        "picture coding modes; formats admitted by each column of the real level table (levels 1-7, 64-66). Every header of "
        "iter_sequence_headers (bounded per format for the oracle, all of them for the Coq cases) is serialised and validated. "
        "A case is non-trivial when the format differs from every base format default or a level is in force; distinct by (format, pcm, level).")
    if any(len(col) == 0 for col in I.lc.LEVEL_CONSTRAINTS):
        ctx.note("the level table contains an empty ('catch all') column, which the model does not cover")
    specs = gen_formats(I, ctx) + gen_level_formats(I, ctx)
    ncorr = ctx.pick(300, 4000)
    corr_idx = set(ctx.rng.sample(range(len(specs)), min(ncorr, len(specs))))
    # always include the level cases in the correspondence
    for i, (s, b) in enumerate(specs):
        if b.startswith("level-") and len(corr_idx) < ncorr + 150:
            corr_idx.add(i)
    max_headers = ctx.pick(16, 400)
    jobs = [(s, max_headers, i in corr_idx) for i, (s, b) in enumerate(specs)]
    t0 = time.time()
    with multiprocessing.Pool(min(14, os.cpu_count() or 2)) as pool:
        results = pool.map(run_spec, jobs, chunksize=8)
    ctx.note("implementation runs: %.1f s" % (time.time() - t0))
    cases, nheaders, nempty = [], 0, 0
    for (spec, bucket), res in zip(specs, results):
        report(ctx, res)
        nheaders += res["n"]
        if res.get("n_headers") == 0:
            nempty += 1
        nontrivial = bucket != "base"
        ctx.count(max(1, res["n"]), key=(tuple(spec["vp"]), spec["pcm"], spec.get("level", 0)) if nontrivial else None, bucket=bucket)
        if res["corr"] is not None:
            cases.append((res["corr"], spec))
    for s, b in specs[:2] + [x for x in specs if x[1].startswith("level-")][:2]:
        ctx.sample({"spec": s, "bucket": b})
    ctx.note("%d configurations, %d headers validated, %d configurations with no header (level does not admit the format)" % (len(specs), nheaders, nempty))
    ctx.extra["headers_validated"] = nheaders
    bad = ctx.coq_check_cases("seqhdr", ["Model.SeqHeader", "Corr.C15"], "check15 T15 TBL", [c for c, _ in cases],
                              ty="case15", shard=60, defs=table_defs(I))
    if bad:
        ctx.obligation("corr:iter_sequence_headers / decode_header agree with the implementation", False, "corr-shard",
                       "model and implementation differ on: %r" % [cases[i][1] for i in bad[:4]])
        ctx.note("the oracle above ran on these configurations as well (every header validated)")
    ctx.trusted.append("video format validity (non-zero sizes/rates, clean area inside the frame, dimensions multiples of the "
                       "subsampling) is a generator filter = hypothesis of the property")
    ctx.trusted.append("vc2_data_tables contents and LEVEL_CONSTRAINTS are dumped from the live modules into the case files; "
                       "the theorems hold for arbitrary tables")
    # ---- addition (c15b): the validator's verdict, see the end of this file
    accept_pass(ctx, I, specs)


def replay(ctx, data):
    if data["input"].get("accept_case"):  # addition (c15b)
        return replay_accept(ctx, data)
    I = impl()
    spec = data["input"]
    print("replaying", data.get("key"), spec)
    cf = make_cf(I, spec)
    headers = list(I.esh.iter_sequence_headers(cf))
    print("%d headers enumerated" % len(headers))
    target, pcm = flat(cf["video_parameters"]), int(cf["picture_coding_mode"])
    idx = spec.get("header_index")
    bad = 0
    for i, h in enumerate(headers):
        if idx is not None and idx >= 0 and i != idx:
            continue
        verdict, vp, dpcm, _, conflict = decode_one(I, h, cf["level"])
        if conflict:
            print("header #%d: %s" % (i, conflict))
        ok = verdict == "accept" and vp == target and dpcm == pcm and not conflict
        if not ok:
            bad += 1
            print("header #%d: verdict=%s decoded=%s pcm=%s (wanted %s, %s)\n%s" % (i, verdict, vp, dpcm, target, pcm, h))
    print("property violated on this input:", bool(bad))
    return 1 if bad else 0


def digest_conf(obj):
    import vlib
    return vlib.digest(obj)


# =========================================================================================
# ==== ADDITION (c15b): the validator's verdict on a sequence header ("is accepted") =========
# =========================================================================================
# Correspondence for Model/SeqHeaderAccept.v: `header_check T15 E15 (level_ok TBL) major minor h`
# (the ordered list of the validator's checks, level checks included) against the REAL
# decoder.sequence_header run on the serialised header, for
#   * headers of VALID targets (sample of the configurations above, the level ones included),
#   * headers the encoder enumerates for deliberately INVALID targets (zero sizes, clean area too
#     large, odd sizes with 4:2:0 / 4:2:2 / fields, zero frame-rate / aspect-ratio parts, zero
#     excursions, out-of-enum colour-difference / scan / primaries / matrix / transfer function),
#   * MUTATED descriptions (out-of-enum preset indices, base video format, picture coding mode,
#     profile, level, zero values, wrong versions) and FORCED major versions.
# The verdicts must agree in the CLASS of the first failing check (ValueNotAllowedInLevel: also
# the key; BadCustomSignalExcursion: also the component).  A non-ConformanceError exception of
# the real code is reported as a violation.  Per configuration, the model's `format_valid` is
# compared with what happened: format_valid -> every header accepted (the statement of
# C15_headers_accepted_partial on the implementation).

ACCEPT_CLASSES = set("""MajorVersionTooLow MinorVersionNotZero BadProfile ProfileNotSupportedByVersion BadLevel
BadBaseVideoFormat ZeroPixelFrameSize BadColorDifferenceSamplingFormat BadSourceSamplingMode
FrameRateHasZeroDenominator FrameRateHasZeroNumerator BadPresetFrameRateIndex PresetFrameRateNotSupportedByVersion
PixelAspectRatioContainsZeros BadPresetPixelAspectRatio CleanAreaOutOfRange BadPresetSignalRange
PresetSignalRangeNotSupportedByVersion BadPresetColorSpec PresetColorSpecNotSupportedByVersion
BadPresetColorPrimaries PresetColorPrimariesNotSupportedByVersion BadPresetColorMatrix
PresetColorMatrixNotSupportedByVersion BadPresetTransferFunction PresetTransferFunctionNotSupportedByVersion
BadPictureCodingMode PictureDimensionsNotMultipleOfFrameDimensions""".split())


def c_enums(I):
    t = I.t
    ens = [t.Profiles, t.Levels, t.BaseVideoFormats, t.PictureCodingModes, t.ColorDifferenceSamplingFormats,
           t.SourceSamplingModes, t.PresetFrameRates, t.PresetPixelAspectRatios, t.PresetSignalRanges,
           t.PresetColorSpecs, t.PresetColorPrimaries, t.PresetColorMatrices, t.PresetTransferFunctions]
    return "(mkEnums %s)" % " ".join(clist([int(x) for x in en]) for en in ens)


def accept_defs(I):
    return table_defs(I) + "Definition E15 : enums := %s.\n" % c_enums(I)


def c_verdict(verdict, exc):
    """Real verdict -> Coq `verdict` literal (None: a class the model does not have)."""
    if verdict == "accept":
        return "Accept"
    kind, cls = verdict.split(":", 1)
    if kind == "crash":
        return "(Reject E_KeyError)" if cls == "KeyError" else None
    if cls == "ValueNotAllowedInLevel":
        return "(RejectLevel K_%s)" % exc.key if exc.key in KEY_ID else None
    if cls == "BadCustomSignalExcursion":
        return "(Reject E_BadCustomSignalExcursion_%s)" % exc.component_type_name
    return "(Reject E_%s)" % cls if cls in ACCEPT_CLASSES else None


def _mutations(I):
    b = I.bs

    def sp(h):
        return h["video_parameters"]

    def pp(h):
        return h["parse_parameters"]

    def cspec(p=None, m=None, tf=None):
        def f(h):
            sp(h)["color_spec"] = b.ColorSpec(
                custom_color_spec_flag=True, index=0,
                color_primaries=b.ColorPrimaries(custom_color_primaries_flag=p is not None, **({"index": p} if p is not None else {})),
                color_matrix=b.ColorMatrix(custom_color_matrix_flag=m is not None, **({"index": m} if m is not None else {})),
                transfer_function=b.TransferFunction(custom_transfer_function_flag=tf is not None, **({"index": tf} if tf is not None else {})))
        return f

    def setf(field, value):
        return lambda h: sp(h).__setitem__(field, value)

    return [
        ("base_video_format=99", lambda h: h.__setitem__("base_video_format", 99)),
        ("base_video_format=23", lambda h: h.__setitem__("base_video_format", 23)),
        ("picture_coding_mode=2", lambda h: h.__setitem__("picture_coding_mode", 2)),
        ("picture_coding_mode=flip", lambda h: h.__setitem__("picture_coding_mode", 1 - int(h["picture_coding_mode"]))),
        ("profile=2", lambda h: pp(h).__setitem__("profile", 2)),
        ("profile=flip", lambda h: pp(h).__setitem__("profile", 3 - int(pp(h)["profile"]))),
        ("level=99", lambda h: pp(h).__setitem__("level", 99)),
        ("level=8", lambda h: pp(h).__setitem__("level", 8)),
        ("major_version=0", lambda h: pp(h).__setitem__("major_version", 0)),
        ("minor_version=1", lambda h: pp(h).__setitem__("minor_version", 1)),
        ("frame_size=0x5", setf("frame_size", b.FrameSize(custom_dimensions_flag=True, frame_width=0, frame_height=5))),
        ("frame_size=5x0", setf("frame_size", b.FrameSize(custom_dimensions_flag=True, frame_width=5, frame_height=0))),
        ("frame_size=2x2", setf("frame_size", b.FrameSize(custom_dimensions_flag=True, frame_width=2, frame_height=2))),
        ("frame_size=3x3", setf("frame_size", b.FrameSize(custom_dimensions_flag=True, frame_width=3, frame_height=3))),
        ("frame_size=1x1", setf("frame_size", b.FrameSize(custom_dimensions_flag=True, frame_width=1, frame_height=1))),
        ("cdf=3", setf("color_diff_sampling_format", b.ColorDiffSamplingFormat(custom_color_diff_format_flag=True, color_diff_format_index=3))),
        ("cdf=2", setf("color_diff_sampling_format", b.ColorDiffSamplingFormat(custom_color_diff_format_flag=True, color_diff_format_index=2))),
        ("scan=2", setf("scan_format", b.ScanFormat(custom_scan_format_flag=True, source_sampling=2))),
        ("frame_rate_index=99", setf("frame_rate", b.FrameRate(custom_frame_rate_flag=True, index=99))),
        ("frame_rate_index=15", setf("frame_rate", b.FrameRate(custom_frame_rate_flag=True, index=15))),
        ("frame_rate_index=12", setf("frame_rate", b.FrameRate(custom_frame_rate_flag=True, index=12))),
        ("frame_rate=0/1", setf("frame_rate", b.FrameRate(custom_frame_rate_flag=True, index=0, frame_rate_numer=0, frame_rate_denom=1))),
        ("frame_rate=1/0", setf("frame_rate", b.FrameRate(custom_frame_rate_flag=True, index=0, frame_rate_numer=1, frame_rate_denom=0))),
        ("frame_rate=0/0", setf("frame_rate", b.FrameRate(custom_frame_rate_flag=True, index=0, frame_rate_numer=0, frame_rate_denom=0))),
        ("par_index=7", setf("pixel_aspect_ratio", b.PixelAspectRatio(custom_pixel_aspect_ratio_flag=True, index=7))),
        ("par=0/1", setf("pixel_aspect_ratio", b.PixelAspectRatio(custom_pixel_aspect_ratio_flag=True, index=0, pixel_aspect_ratio_numer=0, pixel_aspect_ratio_denom=1))),
        ("par=1/0", setf("pixel_aspect_ratio", b.PixelAspectRatio(custom_pixel_aspect_ratio_flag=True, index=0, pixel_aspect_ratio_numer=1, pixel_aspect_ratio_denom=0))),
        ("clean=huge", setf("clean_area", b.CleanArea(custom_clean_area_flag=True, clean_width=1 << 20, clean_height=1, left_offset=0, top_offset=0))),
        ("clean=offset", setf("clean_area", b.CleanArea(custom_clean_area_flag=True, clean_width=1, clean_height=1, left_offset=0, top_offset=1 << 20))),
        ("clean=1x1", setf("clean_area", b.CleanArea(custom_clean_area_flag=True, clean_width=1, clean_height=1, left_offset=0, top_offset=0))),
        ("signal_index=9", setf("signal_range", b.SignalRange(custom_signal_range_flag=True, index=9))),
        ("signal_index=5", setf("signal_range", b.SignalRange(custom_signal_range_flag=True, index=5))),
        ("signal=luma_exc0", setf("signal_range", b.SignalRange(custom_signal_range_flag=True, index=0, luma_offset=0, luma_excursion=0, color_diff_offset=0, color_diff_excursion=255))),
        ("signal=cd_exc0", setf("signal_range", b.SignalRange(custom_signal_range_flag=True, index=0, luma_offset=0, luma_excursion=255, color_diff_offset=0, color_diff_excursion=0))),
        ("signal=both_exc0", setf("signal_range", b.SignalRange(custom_signal_range_flag=True, index=0, luma_offset=0, luma_excursion=0, color_diff_offset=0, color_diff_excursion=0))),
        ("color_spec_index=9", setf("color_spec", b.ColorSpec(custom_color_spec_flag=True, index=9))),
        ("color_spec_index=5", setf("color_spec", b.ColorSpec(custom_color_spec_flag=True, index=5))),
        ("primaries=9", cspec(p=9)), ("primaries=4", cspec(p=4)),
        ("matrix=9", cspec(m=9)), ("matrix=4", cspec(m=4)),
        ("tf=9", cspec(tf=9)), ("tf=4", cspec(tf=4)),
        ("color=all_bad", cspec(p=9, m=9, tf=9)),
    ]


ORDER_SENSITIVE = ["base_video_format=99", "picture_coding_mode=2", "profile=2", "level=99", "frame_rate_index=99",
                   "frame_size=0x5", "cdf=3", "scan=2", "par_index=7", "signal_index=9", "color_spec_index=9", "primaries=9",
                   "matrix=9", "tf=9", "frame_rate=1/0", "par=0/1", "signal=both_exc0", "clean=huge"]

_MUTS = None


def mutations(I):
    global _MUTS
    if _MUTS is None:
        _MUTS = OrderedDict(_mutations(I))
    return _MUTS


def accept_one(I, h, mutation=None, force_major=None):
    """(coq case or None, real verdict string, exception, major, minor) for one header description."""
    h = copy.deepcopy(h)
    if mutation is not None:
        mutations(I)[mutation](h)
    if force_major is not None and "major_version" not in h["parse_parameters"]:
        h["parse_parameters"]["major_version"] = force_major
    data = I.common.serialise([header_stream(I, copy.deepcopy(h))])
    verdict, exc, vp, state = header_only(I, data)
    major, minor = int(state.get("major_version", 0)), int(state.get("minor_version", 0))
    cv = c_verdict(verdict, exc)
    hh = copy.deepcopy(h)
    for k in ("major_version", "minor_version"):
        hh["parse_parameters"].pop(k, None)
    case = None if cv is None else "(%s, (%s, %s), %s)" % (c_header(hh), cz(major), cz(minor), cv)
    return case, verdict, exc, major, minor


def synthetic_table(I):
    """A level table under which custom values ARE allowed but restricted to small sets, so that the
    order of assert_in_enum / zero tests and assert_level_constraint is observable (no real level
    allows any custom colour specification, colour difference format, ...).  One column, level 0."""
    VS = I.ct.ValueSet
    col = OrderedDict(I.lc.LEVEL_CONSTRAINTS[0])
    col.update(
        profile=VS(0, 3), base_video_format=VS((0, 12)), picture_coding_mode=VS(0),
        frame_width=VS((1, 8192)), frame_height=VS((1, 8192)),
        color_diff_format_index=VS(0, 1, 2), source_sampling=VS(0, 1),
        frame_rate_index=VS((0, 6)), frame_rate_numer=VS((1, 1 << 20)), frame_rate_denom=VS((1, 2000)),
        pixel_aspect_ratio_index=VS((0, 3)), pixel_aspect_ratio_numer=VS((1, 4096)), pixel_aspect_ratio_denom=VS((1, 4096)),
        clean_width=VS((0, 8192)), clean_height=VS((0, 8192)),
        custom_signal_range_index=VS(0, 1, 2), luma_excursion=VS((1, 1 << 16)), color_diff_excursion=VS((1, 1 << 16)),
        color_spec_index=VS(0, 1, 2), color_primaries_index=VS(0, 1), color_matrix_index=VS(0, 1),
        transfer_function_index=VS(0, 1))
    return [col]


def run_accept(args):
    if args[1] == "synthetic":
        I = impl()
        orig = list(I.lc.LEVEL_CONSTRAINTS)
        try:
            I.lc.LEVEL_CONSTRAINTS[:] = synthetic_table(I)
            return _run_accept(args)
        finally:
            I.lc.LEVEL_CONSTRAINTS[:] = orig
    return _run_accept(args)


def _run_accept(args):
    """Worker: one configuration (valid or not) -> observations of the real validator on some headers."""
    spec, kind, seed, nper = args
    import random
    rng = random.Random(seed)
    I = impl()
    res = {"spec": spec, "kind": kind, "obs": [], "skipped": 0, "error": None, "all_accept": None, "n_headers": 0}
    try:
        import itertools
        cf = make_cf(I, spec)
        headers = list(itertools.islice(I.esh.iter_sequence_headers(cf), 400))
    except Exception as e:
        res["error"] = "%s: %s" % (type(e).__name__, e)
        return res
    n = len(headers)
    res["n_headers"] = n
    if n == 0:
        return res
    pick = sorted(set([0, n - 1, n // 2] + [rng.randrange(n) for _ in range(max(0, nper - 3))]))[:nper]
    plain = []
    for i in pick:
        variants = [(None, None)]
        if kind != "invalid":
            variants.append((None, rng.choice([1, 2, 3])))
        names = list(mutations(I))
        variants.append((rng.choice(names), None))
        if kind in ("level", "synthetic") and i == pick[0]:
            # under a level, every mutation whose failing test sits next to a level check (the ORDER of
            # assert_in_enum and assert_level_constraint decides the class); the real levels forbid
            # most custom flags, so only the first few are informative there
            variants += [(m, None) for m in (ORDER_SENSITIVE if kind == "synthetic" else ORDER_SENSITIVE[:6])]
        if kind == "mutate":
            variants += [(m, None) for m in rng.sample(names, 3)]
            variants.append((rng.choice(names), rng.choice([1, 2, 3])))
        for mut, fm in variants:
            try:
                case, verdict, exc, major, minor = accept_one(I, headers[i], mut, fm)
            except Unrepresentable:
                res["skipped"] += 1
                continue
            except Exception as e:  # the serialiser refused the description
                res["skipped"] += 1
                continue
            if mut is None and fm is None:
                plain.append(verdict)
            res["obs"].append({"index": i, "mutation": mut, "force_major": fm, "verdict": verdict,
                               "what": (str(exc).split("\n")[0][:160] if exc is not None else ""),
                               "case": case, "major": major})
    res["all_accept"] = all(v == "accept" for v in plain)
    return res


def gen_invalid_formats(I, ctx):
    """[(spec, what)]: deliberately invalid targets (and a few unusual valid ones) near some base formats."""
    t, rng = I.t, ctx.rng
    out = []
    bvfs = list(t.BaseVideoFormats)
    chosen = bvfs if not ctx.quick else rng.sample(bvfs, 6)

    def add(base, what, pcm, **chg):
        v = list(base)
        for k, x in chg.items():
            v[VP_KEYS.index(k)] = x
        out.append(({"vp": v, "pcm": pcm, "near": 0}, what))

    for bvf in chosen:
        base = flat(I.set_source_defaults(bvf))
        w, h = base[0], base[1]
        for pcm in (0, 1):
            add(base, "zero-width", pcm, frame_width=0, clean_width=0)
            add(base, "zero-height", pcm, frame_height=0, clean_height=0)
            add(base, "zero-size", pcm, frame_width=0, frame_height=0, clean_width=0, clean_height=0)
            add(base, "clean-too-wide", pcm, clean_width=w + 1)
            add(base, "clean-too-tall", pcm, clean_height=h + rng.randint(1, 9))
            add(base, "clean-offset", pcm, left_offset=rng.randint(1, 5), top_offset=rng.choice([0, 3]))
            add(base, "clean-inside", pcm, clean_width=w - 2, clean_height=h - 2, left_offset=2, top_offset=rng.choice([0, 2]))
            for cdf in (0, 1, 2):
                for fw, fh in [(1, 1), (2, 1), (1, 2), (2, 2), (3, 3), (2, 3), (3, 2), (4, 2), (2, 4), (4, 4), (5, 6), (6, 5),
                               (w + 1, h), (w, h + 1), (w + 1, h + 1), (w, h + 2)]:
                    if rng.random() < (0.25 if ctx.quick else 0.7):
                        add(base, "small/odd-size", pcm, frame_width=fw, frame_height=fh, color_diff_format_index=cdf,
                            clean_width=fw, clean_height=fh, left_offset=0, top_offset=0)
        pcm = rng.randint(0, 1)
        add(base, "zero-frame-rate-denom", pcm, frame_rate_denom=0)
        add(base, "zero-frame-rate-numer", pcm, frame_rate_numer=0)
        add(base, "zero-frame-rate", pcm, frame_rate_numer=0, frame_rate_denom=0)
        add(base, "zero-par-numer", pcm, pixel_aspect_ratio_numer=0)
        add(base, "zero-par-denom", pcm, pixel_aspect_ratio_denom=0)
        add(base, "zero-luma-excursion", pcm, luma_excursion=0)
        add(base, "zero-color-diff-excursion", pcm, color_diff_excursion=0)
        add(base, "zero-excursions", pcm, luma_excursion=0, color_diff_excursion=0)
        add(base, "zero-offsets", pcm, luma_offset=0, color_diff_offset=0)
        def beyond(en):
            return max(int(x) for x in en) + rng.choice([1, 5])
        add(base, "cdf-out-of-enum", pcm, color_diff_format_index=beyond(t.ColorDifferenceSamplingFormats))
        add(base, "scan-out-of-enum", pcm, source_sampling=beyond(t.SourceSamplingModes))
        add(base, "primaries-out-of-enum", pcm, color_primaries_index=beyond(t.PresetColorPrimaries))
        add(base, "matrix-out-of-enum", pcm, color_matrix_index=beyond(t.PresetColorMatrices))
        add(base, "tf-out-of-enum", pcm, transfer_function_index=beyond(t.PresetTransferFunctions))
    return out


def accept_pass(ctx, I, specs):
    t = I.t
    # the literals of Model/SeqHeaderAccept.v
    consts_ok = (int(t.ColorDifferenceSamplingFormats.color_4_2_2) == 1 and int(t.ColorDifferenceSamplingFormats.color_4_2_0) == 2
                 and int(t.PictureCodingModes.pictures_are_fields) == 1 and int(t.Profiles.high_quality) == 3
                 and all(int(l) in I.lc.LEVEL_SEQUENCE_RESTRICTIONS for l in t.Levels))
    ctx.obligation("corr:accept-enum-literals (color_4_2_2=1, color_4_2_0=2, pictures_are_fields=1, every level has a sequence restriction)",
                   consts_ok, "corr-shard", "checked on the live vc2_data_tables")
    import concurrent.futures
    pool_coq = concurrent.futures.ThreadPoolExecutor(max_workers=4)  # the independent coqc runs of this pass overlap
    f_cover = pool_coq.submit(ctx.coq_eval, "accept_cover", ["Model.SeqHeader", "Model.SeqHeaderAccept", "Corr.C15"],
                              "enums_cover T15 E15", defs=accept_defs(I))
    rng = ctx.rng
    valid = [s for s, b in specs if not b.startswith("level-")]
    lvl = [s for s, b in specs if b.startswith("level-")]
    jobs = []
    for s in rng.sample(valid, min(len(valid), ctx.pick(120, 2500))):
        jobs.append((s, "valid", rng.getrandbits(32), ctx.pick(4, 8)))
    for s in rng.sample(lvl, min(len(lvl), ctx.pick(50, 400))):
        jobs.append((s, "level", rng.getrandbits(32), ctx.pick(4, 8)))
    for s in rng.sample(valid, min(len(valid), ctx.pick(50, 500))) + rng.sample(lvl, min(len(lvl), ctx.pick(12, 100))):
        jobs.append((s, "mutate", rng.getrandbits(32), ctx.pick(4, 8)))
    syn = [s for s in valid if s["pcm"] == 0]
    for s in rng.sample(syn, min(len(syn), ctx.pick(30, 300))):
        jobs.append((s, "synthetic", rng.getrandbits(32), ctx.pick(3, 6)))
    inv = gen_invalid_formats(I, ctx)
    for s, what in inv:
        jobs.append((dict(s, what=what), "invalid", rng.getrandbits(32), ctx.pick(3, 6)))
    t0 = time.time()
    with multiprocessing.Pool(min(14, os.cpu_count() or 2)) as pool:
        results = pool.map(run_accept, jobs, chunksize=8)
    ctx.note("acceptance pass: %d configurations (%d deliberately invalid), implementation runs %.1f s" % (len(jobs), len(inv), time.time() - t0))
    cases, meta, fv_cases, fv_meta = [], [], [], []
    syn_cases, syn_meta = [], []
    hist, skipped, rejected = {}, 0, 0
    for res in results:
        spec, kind = res["spec"], res["kind"]
        if res["error"]:
            if kind != "invalid":
                ctx.violation("iter_sequence_headers-raises", spec, "enumerating the headers failed: " + res["error"])
            else:
                ctx.count(1, key=None, bucket="accept:invalid-target-refused-by-encoder")
            continue
        skipped += res["skipped"]
        for o in res["obs"]:
            inp = dict(spec, accept_case=True, header_index=o["index"], mutation=o["mutation"], force_major=o["force_major"])
            if kind == "synthetic":
                inp["synthetic_table"] = True
            bucket = "accept:" + ("mutated" if o["mutation"] else "forced-version" if o["force_major"] else kind)
            ctx.count(1, key=("acc", tuple(spec["vp"]), spec["pcm"], spec.get("level", 0), o["index"], o["mutation"], o["force_major"]),
                      bucket=bucket)
            cls = o["verdict"].split(":")[-1]
            hist[cls] = hist.get(cls, 0) + 1
            if o["verdict"] != "accept":
                rejected += 1
            if o["verdict"].startswith("crash:"):
                ctx.violation("validator-crash:" + cls, inp,
                              "the validator's sequence_header raised a non-ConformanceError exception: %s %s" % (cls, o["what"]),
                              observed=o["verdict"], expected="accept or a ConformanceError")
            if o["case"] is None:
                if not o["verdict"].startswith("crash:"):
                    ctx.obligation("corr:accept-unmodelled-class:" + cls, False, "corr-shard", "%r -> %s %s" % (inp, o["verdict"], o["what"]))
                continue
            if kind == "synthetic":
                syn_cases.append(o["case"])
                syn_meta.append((inp, o["verdict"], o["what"]))
                continue
            cases.append(o["case"])
            meta.append((inp, o["verdict"], o["what"]))
        if kind in ("valid", "invalid") and spec.get("level", 0) == 0 and res["all_accept"] is not None and res["n_headers"]:
            fv_cases.append("(%s, %s, %s)" % (clist(spec["vp"]), cz(spec["pcm"]), "true" if res["all_accept"] else "false"))
            fv_meta.append((spec, res["all_accept"]))
    ctx.note("acceptance pass: %d header observations (%d rejected by the real validator, %d descriptions the serialiser refused); real verdict classes: %s"
             % (len(cases), rejected, skipped, ", ".join("%s x%d" % kv for kv in sorted(hist.items()))))
    ctx.extra["accept_observations"] = len(cases)
    ctx.extra["accept_verdict_classes"] = hist
    for m in meta[:1] + [m for m in meta if m[1] != "accept"][:2]:
        ctx.sample({"accept_case": m[0], "real_verdict": m[1]})
    imports = ["Model.SeqHeader", "Model.SeqHeaderAccept", "Corr.C15"]
    t1 = time.time()
    CHK = ("(fun c : header * (Z * Z) * verdict => let '(h, (ma, mi), v) := c in "
           "verdict_eqb (header_check T15 E15 (level_ok (table_of TBL)) ma mi h) v)")
    syn_defs = table_defs(I, synthetic_table(I)) + "Definition E15 : enums := %s.\n" % c_enums(I)
    f_syn = pool_coq.submit(ctx.coq_check_cases, "seqhdr_accept_syn", imports, CHK, syn_cases,
                            ty="header * (Z * Z) * verdict", shard=900, defs=syn_defs)
    f_fv = pool_coq.submit(
        ctx.coq_check_cases, "seqhdr_format_valid", imports,
        "(fun c : list Z * Z * bool => let '(t, pcm, acc) := c in implb (format_valid E15 (vp_of_flat t) pcm) acc)",
        fv_cases, ty="list Z * Z * bool", shard=3000, defs=accept_defs(I))
    f_conv = pool_coq.submit(
        ctx.coq_eval, "accept_fv_converse", imports,
        "List.length (filter (fun c : list Z * Z * bool => let '(t, pcm, acc) := c in negb (format_valid E15 (vp_of_flat t) pcm) && acc) fvc)",
        defs=accept_defs(I) + "Definition fvc : list (list Z * Z * bool) := [%s]%%list.\n" % ";\n".join(fv_cases))
    bad = ctx.coq_check_cases(
        "seqhdr_accept", imports,
        "(fun c : header * (Z * Z) * verdict => let '(h, (ma, mi), v) := c in "
        "verdict_eqb (header_check T15 E15 (level_ok (table_of TBL)) ma mi h) v)",
        cases, ty="header * (Z * Z) * verdict", shard=900, defs=accept_defs(I))
    ctx.note("acceptance pass: Coq evaluation of %d cases %.1f s" % (len(cases), time.time() - t1))
    for n, i in enumerate(bad or []):
        inp, verdict, what = meta[i]
        mv = "(not evaluated)"
        if n < 4:  # what the model says, for the first few mismatches only (one coqc run each)
            mv = ctx.coq_eval("accept_mismatch_%d" % n, imports,
                              "let '(h, (ma, mi), v) := (%s : header * (Z * Z) * verdict) in header_check T15 E15 (level_ok (table_of TBL)) ma mi h" % cases[i],
                              defs=accept_defs(I))
        elif n >= 40:
            ctx.note("acceptance pass: %d further mismatches not itemised" % (len(bad) - n))
            break
        plain = not inp["mutation"] and not inp["force_major"] and format_valid(inp["vp"], inp["pcm"])
        if plain and verdict != "accept" and not (verdict.endswith("ValueNotAllowedInLevel") and "major_version" in what):
            ctx.violation("header-rejected:" + verdict.split(":")[-1], inp,
                          "the real validator rejects a generated header the model accepts: %s %s" % (verdict, what),
                          observed=verdict, expected="accept")
        else:
            ctx.obligation("corr:header_check agrees with decoder.sequence_header", False, "corr-shard",
                           "input %r: implementation %s (%s), model %s" % (inp, verdict, what, mv))
    # the same comparison under the synthetic level table (order of enum / zero tests and level checks)
    bads = f_syn.result()
    nlev = sum(1 for m in syn_meta if m[1].endswith("ValueNotAllowedInLevel"))
    ctx.note("acceptance pass, synthetic level table: %d cases, %d rejected by a level check, %d accepted"
             % (len(syn_cases), nlev, sum(1 for m in syn_meta if m[1] == "accept")))
    for n, i in enumerate(bads or []):
        if n >= 20:
            break
        inp, verdict, what = syn_meta[i]
        ctx.obligation("corr:header_check agrees with decoder.sequence_header (synthetic level table)", False, "corr-shard",
                       "input %r: implementation %s (%s)" % (inp, verdict, what))
    # format_valid (model, on the configuration only) -> every header accepted by the real validator
    badfv = f_fv.result()
    for i in (badfv or []):
        spec, _ = fv_meta[i]
        ctx.violation("valid-format-header-rejected", dict(spec, accept_case=True, header_index=None, mutation=None, force_major=None),
                      "format_valid holds of the target but the real validator rejects one of its generated headers",
                      observed="rejected", expected="accept")
    conv = f_conv.result()
    cover = f_cover.result()
    pool_coq.shutdown()
    ctx.obligation("corr:enums_cover holds of the live tables / enumerations (hypothesis of C15_headers_accepted_partial)",
                   cover is not None and cover.strip() == "true", "corr-shard", "enums_cover T15 E15 = %s" % cover)
    ctx.note("format_valid vs. the real validator on %d level-0 configurations: %d with every sampled header accepted; "
             "configurations NOT format_valid yet with every sampled header accepted: %s"
             % (len(fv_cases), sum(1 for _, a in fv_meta if a), conv))
    ctx.extra["rule"] += (
        " ACCEPTANCE PASS: for a sample of these configurations, for the level ones, and for deliberately invalid targets (zero "
        "sizes, clean area outside the frame, small/odd sizes x every colour difference format x both coding modes, zero frame "
        "rate / aspect ratio parts, zero excursions, out-of-enum enum-typed entries) a few enumerated headers each are run "
        "through the real decoder.sequence_header as generated, with a forced major_version, and with one mutation of the "
        "description (out-of-enum indices, zero values, wrong versions/profile/level/base format/coding mode); the class of the "
        "first failing check is compared with Model/SeqHeaderAccept.v header_check on the live tables.")
    ctx.trusted.append("acceptance model: the enum VALUES color_4_2_2/color_4_2_0/pictures_are_fields are literals of "
                       "Model/SeqHeaderAccept.v (checked against vc2_data_tables on every run); the stream-level checks "
                       "(repeated header byte-identical, data-unit sequence of the level, major_version minimal) are outside it")


def replay_accept(ctx, data):
    I = impl()
    spec = data["input"]
    if spec.get("synthetic_table"):
        I.lc.LEVEL_CONSTRAINTS[:] = synthetic_table(I)  # the replay process ends afterwards
    print("replaying (acceptance)", data.get("key"), spec)
    cf = make_cf(I, spec)
    headers = list(I.esh.iter_sequence_headers(cf))
    print("%d headers enumerated" % len(headers))
    idxs = range(len(headers)) if spec.get("header_index") is None else [spec["header_index"]]
    bad = 0
    for i in idxs:
        case, verdict, exc, major, minor = accept_one(I, headers[i], spec.get("mutation"), spec.get("force_major"))
        crash = verdict.startswith("crash:")
        plain = not spec.get("mutation") and not spec.get("force_major")
        fails = crash or (plain and format_valid(spec["vp"], spec["pcm"]) and verdict != "accept")
        if fails or len(idxs) == 1:
            print("header #%d (major_version %d): %s %s" % (i, major, verdict, str(exc).split("\n")[0] if exc else ""))
        bad += bool(fails)
    print("property violated on this input:", bool(bad))
    return 1 if bad else 0
