"""C12 harness: correspondence of Gen/Quant.v with the implementation (validates the
translator) and the property oracle on the implementation."""
from vlib import cz, cbool, clist


def impl():
    from vc2_conformance.pseudocode import quantization as q
    from vc2_conformance.pseudocode.vc2_math import sign
    import importlib
    lq = importlib.import_module('vc2_conformance.test_cases.decoder.lossless_quantization')
    return q, sign, lq


def run(ctx):
    q, sign, lq = impl()
    rng = ctx.rng
    ctx.extra["rule"] = (
        "correspondence: (idx, c) pairs - idx in 0..300 and c from structured set (0, +-1, k*qf/4+d, 2^k+-1, random up to 2^200); "
        "a case is non-trivial when forward_quant(c, idx) != 0 (distinct by (idx, c)). "
        "oracle: the five statements of the property evaluated on the implementation.")
    # ---- correspondence: all four functions -----------------------------------
    n = ctx.pick(1500, 20000)
    cases, meta = [], []
    for i in range(n):
        idx = rng.choice([rng.randrange(0, 12), rng.randrange(0, 128), rng.randrange(120, 260), rng.randrange(0, 301)])
        kind = rng.randrange(6)
        qf = q.quant_factor(idx)
        if kind == 0:
            c = rng.choice([0, 1, -1, 2, -2, 3, -3])
        elif kind == 1:
            c = rng.randrange(0, 50) * qf // 4 + rng.randrange(-3, 4)
        elif kind == 2:
            c = (1 << rng.randrange(0, 200)) + rng.randrange(-1, 2)
        elif kind == 3:
            c = rng.randrange(-(1 << 200), 1 << 200)
        else:
            c = rng.randrange(-5000, 5000)
        if rng.random() < 0.5:
            c = -c
        try:
            fq = q.forward_quant(c, idx)
            obs = (qf, q.quant_offset(idx), fq, q.inverse_quant(c, idx), q.inverse_quant(fq, idx))
        except Exception as e:   # the property implies that no call raises for idx >= 0
            ctx.violation("quant-raises", {"idx": idx, "c": c}, "exception %r" % (e,))
            continue
        cases.append("(%s, %s, %s)" % (cz(idx), cz(c), clist(obs)))
        meta.append((idx, c))
        ctx.count(1, key=(idx, c) if fq != 0 else None, bucket="idx<12" if idx < 12 else ("idx<128" if idx < 128 else "idx<=300"))
    ctx.sample({"idx": meta[0][0], "c": meta[0][1]})
    ctx.sample({"idx": meta[1][0], "c": str(meta[1][1])})
    check = ("fun '(idx, c, obs) => zlist_eqb obs [quant_factor idx; quant_offset idx; forward_quant c idx; "
             "inverse_quant c idx; inverse_quant (forward_quant c idx) idx] && quant_factor_dom idx && forward_quant_dom c idx && inverse_quant_dom c idx")
    bad = ctx.coq_check_cases("quant", ["Base.PyZ", "Gen.VC2Math", "Gen.Quant"], check, cases, shard=400)
    mism = [meta[i] for i in (bad or [])]
    if bad:
        ctx.obligation("corr:quant agrees with implementation", False, "corr-shard",
                       "model/implementation differ on (idx,c) = %r" % mism[:5])
    # negative index: Python raises (2 ** negative is a float -> TypeError/None paths); dom must say so
    neg = ctx.coq_eval("quant_neg", ["Base.PyZ", "Gen.Quant"], "forallb (fun i => negb (quant_factor_dom i)) [-1; -2; -5; -100]")
    if neg is not None and neg != "true":
        ctx.obligation("corr:quant_factor_dom false on negative indices", False, "corr-shard", str(neg))

    # ---- property oracle on the implementation -----------------------------------
    top = ctx.pick(300, 1024)
    mdq = lq.MINIMUM_DISTINCT_QINDEX
    prev_qf = None
    for idx in range(0, top + 1):
        qf = q.quant_factor(idx)
        if prev_qf is not None and not (prev_qf < qf):
            ctx.violation("quant_factor-not-increasing", {"idx": idx - 1}, "quant_factor(%d)=%d !< quant_factor(%d)=%d" % (idx - 1, prev_qf, idx, qf))
        prev_qf = qf
        if idx >= mdq and not (q.inverse_quant(1, idx) < q.inverse_quant(1, idx + 1)):
            ctx.violation("inverse_quant-1-not-increasing", {"idx": idx, "MINIMUM_DISTINCT_QINDEX": mdq},
                          "inverse_quant(1,%d) !< inverse_quant(1,%d)" % (idx, idx + 1))
        cs = [0, 1, -1, qf // 4, qf // 4 + 1, -(qf // 4), qf, -qf, 3 * qf // 4 + 1]
        # small QUANTISED magnitudes at every index (coefficients k*qf/4 quantise to about k)
        cs += [s_ * (k * qf // 4 + d) for k in (1, 2, 3, 7, 15, 16, 17) for d in (0, 1) for s_ in (1, -1)]
        cs += [rng.randrange(-(1 << rng.randrange(1, 260)), 1 << rng.randrange(1, 260)) for _ in range(ctx.pick(6, 40))]
        cs += mism_cs(mism, idx)
        for c in cs:
            try:
                r = q.inverse_quant(q.forward_quant(c, idx), idx)
            except Exception as e:  # the property implies no exception
                ctx.violation("quant-raises", {"idx": idx, "c": c}, "exception %r" % (e,))
                continue
            ctx.count(1)
            if not (r == 0 or sign(r) == sign(c)):
                ctx.violation("sign-not-kept", {"idx": idx, "c": c}, "sign changed", observed=r)
            if not (4 * abs(c - r) < qf):
                ctx.violation("error-not-below-step", {"idx": idx, "c": c}, "4*|c-r| >= quant_factor", observed=r, expected="|c-r|<%s/4" % qf)
            if idx == 0 and (r != c or q.forward_quant(c, 0) != c):
                ctx.violation("index0-not-lossless", {"c": c}, "index 0 changed the value", observed=r, expected=c)
    # ---- the test case generator's index choice (test_cases/decoder/lossless_quantization.py) ----------
    # compute_qindex_with_distinct_quant_factors must return (largest entry over ALL subbands) + MINIMUM_DISTINCT_QINDEX
    # (theorem C12_lossless_test_case_indices_distinct then gives distinctness); checked on every default matrix
    # and on random matrices of every shape (2D: LL/HL/LH/HH, horizontal-only: L/H)
    from vc2_data_tables import QUANTISATION_MATRICES
    mats = [("default:%r" % (k,), m) for k, m in QUANTISATION_MATRICES.items()]
    for i in range(ctx.pick(300, 3000)):
        d, dh = rng.randrange(0, 5), rng.randrange(0, 5)
        top = rng.choice([3, 8, 40, 127, 248, 249, 255, 256, 300, 1000])     # entries are unbounded exp-Golomb values
        m = {0: ({"L": rng.randrange(top + 1)} if dh else {"LL": rng.randrange(top + 1)})}
        for lvl in range(1, dh + 1):
            m[lvl] = {"H": rng.randrange(top + 1)}
        for lvl in range(dh + 1, dh + d + 1):
            m[lvl] = {o: rng.randrange(top + 1) for o in ("HL", "LH", "HH")}
        mats.append(("random:%d" % i, m))
    for name, m in mats:
        ctx.count(1, key="qm:" + name, bucket="lossless-test-case-qindex")
        entries = [v for sub in m.values() for v in sub.values()]
        try:
            qi = lq.compute_qindex_with_distinct_quant_factors(m)
        except Exception as e:
            ctx.violation("compute_qindex-raises", {"matrix": {str(k): v for k, v in m.items()}}, repr(e))
            continue
        eff = {v: max(qi - v, 0) for v in entries}
        deq = {v: q.inverse_quant(1, e) for v, e in eff.items()}
        if min(eff.values()) < mdq or len(set(deq.values())) != len(deq) or qi < 0:
            ctx.violation("lossless-test-case-qindex-not-distinct", {"matrix": {str(k): v for k, v in m.items()}},
                          "compute_qindex_with_distinct_quant_factors = %d: effective indices %r, dequantised values of 1 %r" % (
                              qi, sorted(eff.values()), sorted(deq.values())), observed=qi, expected=max(entries) + mdq)
    ctx.trusted.append("model = Gen/Quant.v, Gen/VC2Math.v, Gen/Consts.v regenerated from /repo by the translator on this run")


def mism_cs(mism, idx):
    return [c for (i, c) in mism if i == idx]


def replay(ctx, data):
    q, sign, lq = impl()
    inp = data["input"]
    print("replaying", data["key"], inp)
    idx = inp.get("idx", 0)
    if "matrix" in inp:
        m = {int(k): v for k, v in inp["matrix"].items()}
        qi = lq.compute_qindex_with_distinct_quant_factors(m)
        entries = [v for sub in m.values() for v in sub.values()]
        deq = {v: q.inverse_quant(1, max(qi - v, 0)) for v in entries}
        bad = min(max(qi - v, 0) for v in entries) < lq.MINIMUM_DISTINCT_QINDEX or len(set(deq.values())) != len(deq)
        print("qindex", qi, "entries", sorted(set(entries)), "dequantised 1 ->", deq, "violated:", bad)
        return 1 if bad else 0
    if "c" in inp:
        c = int(inp["c"])
        r = q.inverse_quant(q.forward_quant(c, idx), idx)
        print("idx=%d c=%d reconstructed=%d quant_factor=%d sign ok=%s bound ok=%s" % (
            idx, c, r, q.quant_factor(idx), r == 0 or sign(r) == sign(c), 4 * abs(c - r) < q.quant_factor(idx)))
        bad = not (r == 0 or sign(r) == sign(c)) or not (4 * abs(c - r) < q.quant_factor(idx)) or (idx == 0 and r != c)
    else:
        print("quant_factor", [q.quant_factor(i) for i in (idx, idx + 1)], "inverse_quant(1,.)", [q.inverse_quant(1, i) for i in (idx, idx + 1)])
        bad = not (q.quant_factor(idx) < q.quant_factor(idx + 1)) or (
            idx >= lq.MINIMUM_DISTINCT_QINDEX and not (q.inverse_quant(1, idx) < q.inverse_quant(1, idx + 1)))
    print("property violated on this input:", bad)
    return 1 if bad else 0
