"""C16 harness: the encoder respects any level table it claims to satisfy.

Level tables are swapped IN-PROCESS, the way the test suite does it: LEVEL_CONSTRAINTS (a list) and
LEVEL_SEQUENCE_RESTRICTIONS (a dict) are mutated in place, so every importing module (encoder and
validator alike) sees the synthetic definition; the originals are restored afterwards.

Oracle: for a small codec configuration and a synthetic SINGLE-COLUMN level table (+ data-unit ordering
pattern), `make_sequence` either raises an UnsatisfiableCodecFeaturesError subclass or returns a
sequence; in the latter case the serialised stream must be accepted by the validator under the same
table.  Tables are derived from what the stream of the configuration really contains (observed with a
fully open table by recording every assert_level_constraint call): every key is either admitted
(exactly / widened / any) or restricted (the observed value removed), flags are forced true/false,
preset indices are made preset-only, base formats are restricted, versions pinned.  Real level tables
are covered for the formats they admit (small level-1..3 formats with pictures; see also C15).

Correspondence (tie C): Model/LevelChoices.v decide_extended_transform_flag /
make_extended_transform_parameters against the implementation under the synthetic tables, and
Model/SeqHeader.v iter_sequence_headers / coded_keys under the synthetic tables (check15).
"""
import copy
import io
import multiprocessing
import os
import sys
import time
from collections import OrderedDict
from contextlib import contextmanager
from fractions import Fraction

from vlib import cz, clist, cbool, copt

sys.path.insert(0, os.path.dirname(os.path.abspath(__file__)))
import C15  # noqa: E402  (shared literal printers / header translation)

KEYS = C15.MODEL_KEYS
PREFIX = "encoder-ignores-level-"


def impl():
    I = C15.impl()
    if not hasattr(I, "enc"):
        import vc2_conformance.encoder as enc
        import vc2_conformance.encoder.pictures as encp
        import vc2_conformance.decoder.assertions as asr
        import importlib
        dsh = importlib.import_module("vc2_conformance.decoder.sequence_header")
        dps = importlib.import_module("vc2_conformance.decoder.picture_syntax")
        dtd = importlib.import_module("vc2_conformance.decoder.transform_data_syntax")
        I.enc, I.encp, I.asr, I.dec_modules = enc, encp, asr, [dsh, dps, dtd]
    return I


# ------------------------------------------------------------------- table swapping ------
@contextmanager
def swapped_level(I, table, level, regex):
    """Replace the level definition in place (encoder and validator see the same objects)."""
    lc = I.lc
    orig_c = list(lc.LEVEL_CONSTRAINTS)
    orig_r = dict(lc.LEVEL_SEQUENCE_RESTRICTIONS)
    try:
        del lc.LEVEL_CONSTRAINTS[:]
        lc.LEVEL_CONSTRAINTS.extend(table)
        if regex is not None:
            lc.LEVEL_SEQUENCE_RESTRICTIONS[I.t.Levels(level)] = lc.LevelSequenceRestrictions("synthetic", regex)
        yield
    finally:
        del lc.LEVEL_CONSTRAINTS[:]
        lc.LEVEL_CONSTRAINTS.extend(orig_c)
        lc.LEVEL_SEQUENCE_RESTRICTIONS.clear()
        lc.LEVEL_SEQUENCE_RESTRICTIONS.update(orig_r)


@contextmanager
def recording(I, log):
    """Record every (key, value) handed to assert_level_constraint (patched in each importing module)."""
    real = I.asr.assert_level_constraint

    def wrapper(state, key, value):
        log.append((key, int(value)))
        return real(state, key, value)

    saved = [(m, m.assert_level_constraint) for m in I.dec_modules]
    try:
        for m in I.dec_modules:
            m.assert_level_constraint = wrapper
        yield
    finally:
        for m, f in saved:
            m.assert_level_constraint = f


def vs_from(I, spec):
    """spec: "any" | list of ints / [lo, hi] pairs."""
    if spec == "any":
        return I.ct.AnyValue()
    return I.ct.ValueSet(*[tuple(x) if isinstance(x, (list, tuple)) else x for x in spec])


def build_table(I, colspec):
    """colspec: {key: spec} (one column) or a list of them (several columns); missing keys = any."""
    specs = colspec if isinstance(colspec, list) else [colspec]
    table = []
    for cs in specs:
        col = OrderedDict()
        for k in KEYS:
            col[k] = vs_from(I, cs.get(k, "any"))
        table.append(col)
    return table


# ------------------------------------------------------------------ configurations -------
def make_cf(I, conf):
    common = I.common
    kw = dict(conf["kw"])
    for k in ("wavelet_index", "wavelet_index_ho"):
        kw[k] = I.t.WaveletFilters(kw[k])
    kw["color_diff_format"] = I.t.ColorDifferenceSamplingFormats(kw["color_diff_format"])
    if kw.get("quantization_matrix") is not None:
        kw["quantization_matrix"] = {int(l): v for l, v in kw["quantization_matrix"].items()}
    cf = common.make_codec_features(level=I.t.Levels(conf["level"]), **kw)
    if conf.get("vp") is not None:
        vp = I.VideoParameters((k, v) for k, v in zip(C15.VP_KEYS, conf["vp"]))
        vp["top_field_first"] = bool(vp["top_field_first"])
        cf["video_parameters"] = vp
    return cf


def pictures_for(I, cf, conf):
    import random
    rng = random.Random(conf.get("pic_seed", 0))
    n = 2 if cf["picture_coding_mode"] == 1 else 1
    return [I.common.random_picture(cf, rng, kind=conf.get("pic_kind", "noise"), pic_num=i) for i in range(n * conf.get("frames", 1))]


def encode(I, cf, conf):
    """('unsat', class name) | ('crash', text) | ('ok', sequence)"""
    try:
        seq = I.enc.make_sequence(cf, pictures_for(I, cf, conf))
        return "ok", seq
    except I.enc.UnsatisfiableCodecFeaturesError as e:
        return "unsat", type(e).__name__
    except Exception as e:
        return "crash", "%s: %s" % (type(e).__name__, str(e)[:200])


def classify(I, verdict, exc):
    if verdict == "accept":
        return None
    name = type(exc).__name__
    if name == "ValueNotAllowedInLevel":
        if (exc.key in ("asym_transform_index_flag", "asym_transform_flag") and not exc.value
                and not isinstance(exc.allowed_values, I.ct.AnyValue) and exc.allowed_values == I.ct.ValueSet()):
            # decide_extended_transform_flag reads an EMPTY level entry as {False}; in a version-3 stream
            # (fragments, HO transform, new presets) the flag is coded and the validator rejects it
            return "empty-level-entry-read-as-false:" + str(exc.key)
        return PREFIX + str(exc.key)
    if name == "QuantisationMatrixValueNotAllowedInLevel":
        return PREFIX + "quant_matrix_values"
    return "validator-rejects:" + name


def run_table(I, conf, colspec, regex):
    """Encoder + validator under one synthetic definition.  Returns dict(result, key, detail)."""
    cf = make_cf(I, conf)
    with swapped_level(I, build_table(I, colspec), conf["level"], regex):
        kind, val = encode(I, cf, conf)
        if kind != "ok":
            return {"result": kind, "detail": val}
        try:
            data = I.common.serialise([val])
        except Exception as e:
            return {"result": "serialise-crash", "detail": "%s: %s" % (type(e).__name__, e)}
        verdict, exc, _pics, _state = I.common.validate(data)
        key = classify(I, verdict, exc)
        return {"result": "accept" if key is None else "reject", "key": key,
                "detail": None if key is None else (verdict + ": " + str(exc).split("\n")[0][:300])}


def observe(I, conf):
    """Encode under a fully open table and record what the validator checks: {key: sorted values}."""
    cf = make_cf(I, conf)
    log = []
    with swapped_level(I, build_table(I, {"level": [conf["level"]]}), conf["level"], ".*"):
        kind, val = encode(I, cf, conf)
        if kind != "ok":
            return None, "%s %s" % (kind, val)
        vcase = version_case(I, cf, val)   # before autofill mutates the sequence
        data = I.common.serialise([val])
        with recording(I, log):
            verdict, exc, _p, state = I.common.validate(data)
        if verdict != "accept":
            return None, "open table rejected: %s %s" % (verdict, str(exc)[:200])
        if vcase is not None:
            vcase = vcase % cz(int(state["major_version"]))
        qm = []
        if state.get("quant_matrix") and cf["quantization_matrix"] is not None:
            qm = sorted(set(int(v) for lv in cf["quantization_matrix"].values() for v in lv.values()))
    obs = OrderedDict()
    for k, v in log:
        obs.setdefault(k, set()).add(v)
    if qm:
        obs["quant_matrix_values"] = set(qm)
    names = [du["parse_info"]["parse_code"].name for du in val["data_units"]]
    return {"obs": OrderedDict((k, sorted(v)) for k, v in obs.items()), "units": names, "vcase": vcase}, None


def version_case(I, cf, seq):
    """Coq literal (with a %s hole for the observed major_version) for autofill_major_version."""
    hdr, tp = None, None
    for du in seq["data_units"]:
        if hdr is None and "sequence_header" in du:
            hdr = du["sequence_header"]
        if tp is None:
            if "picture_parse" in du:
                tp = du["picture_parse"]["wavelet_transform"]["transform_parameters"]
            elif "fragment_parse" in du and "transform_parameters" in du["fragment_parse"]:
                tp = du["fragment_parse"]["transform_parameters"]
    if hdr is None or tp is None:
        return None
    e = tp["extended_transform_parameters"]
    try:
        h = C15.c_header(hdr)
    except C15.Unrepresentable:
        return None
    return "(%s, %s, %s, (%s, %s, %s, %s), %%s)" % (
        cbool(cf["fragment_slice_count"] != 0), h, cz(int(tp["wavelet_index"])),
        cbool(e["asym_transform_index_flag"]), copt(e.get("wavelet_index_ho"), lambda x: cz(int(x))),
        cbool(e["asym_transform_flag"]), copt(e.get("dwt_depth_ho"), lambda x: cz(int(x))))


PATTERNS = [
    ".*",
    "sequence_header .* end_of_sequence",
    "(sequence_header (high_quality_picture | low_delay_picture))* end_of_sequence",
    "(sequence_header high_quality_picture)+ end_of_sequence",
    "sequence_header padding_data . * end_of_sequence",
    "sequence_header auxiliary_data? (high_quality_picture | low_delay_picture | padding_data)* end_of_sequence",
    "sequence_header (high_quality_picture_fragment | low_delay_picture_fragment | sequence_header)* end_of_sequence",
    "(sequence_header . .)* end_of_sequence",
    "sequence_header (. sequence_header)* padding_data end_of_sequence",
    "sequence_header end_of_sequence",
    "sequence_header ( (sequence_header | auxiliary_data | padding_data | low_delay_picture | high_quality_picture)* | "
    "(sequence_header | auxiliary_data | padding_data | low_delay_picture_fragment | high_quality_picture_fragment)*) end_of_sequence",
]

FLAG_KEYS = [k for k in KEYS if k.endswith("_flag")] + ["custom_quant_matrix", "slices_have_same_dimensions"]
INDEX_KEYS = ["frame_rate_index", "pixel_aspect_ratio_index", "custom_signal_range_index", "color_spec_index"]


def gen_configs(I, ctx):
    """Small valid configurations (level 1 is the number the synthetic definition uses)."""
    rng = ctx.rng
    out = []
    n = ctx.pick(70, 500)
    for i in range(n):
        kw = I.common.random_small_config(rng, max_w=12, max_h=8)
        kw = I.common.describe_config(kw)
        conf = {"kw": kw, "level": 1, "pic_seed": rng.randrange(1 << 30), "pic_kind": rng.choice(["noise", "mid", "extremes", "zeros"])}
        # video format: defaults of a base format with the small frame size, some groups moved to
        # preset / custom values (so that preset-only and flag-forcing tables have something to decide)
        bvf = rng.choice(list(I.t.BaseVideoFormats))
        v = C15.flat(I.set_source_defaults(bvf))
        v[0], v[1], v[2] = kw["frame_width"], kw["frame_height"], kw["color_diff_format"]
        v[3] = 1 if kw["interlaced"] else 0
        v[9], v[10], v[11], v[12] = v[0], v[1], 0, 0
        v[13], v[14], v[15], v[16] = kw["luma_offset"], kw["luma_excursion"], kw["color_diff_offset"], kw["color_diff_excursion"]
        r = rng.random()
        if r < 0.3:
            v[5], v[6] = [int(x) for x in rng.choice(list(I.t.PRESET_FRAME_RATES.values()))]
        elif r < 0.5:
            v[5], v[6] = rng.randint(1, 200), rng.randint(1, 3)
        if rng.random() < 0.3:
            v[7], v[8] = [int(x) for x in rng.choice(list(I.t.PRESET_PIXEL_ASPECT_RATIOS.values()))]
        if rng.random() < 0.3:
            s = [int(x) for x in rng.choice(list(I.t.PRESET_SIGNAL_RANGES.values()))]
            if s[1] < (1 << 17):
                v[13:17] = s
        r = rng.random()
        if r < 0.3:
            v[17:20] = [int(x) for x in rng.choice(list(I.t.PRESET_COLOR_SPECS.values()))]
        elif r < 0.5:
            v[17:20] = [rng.randrange(5), rng.randrange(5), rng.randrange(6)]
        conf["vp"] = v
        conf["near"] = int(bvf)
        out.append(conf)
    return out


def dc_band_dims(I, kw):
    """{comp: (DC-band width, height)} as the DECODER computes them (picture_dimensions + subband sizes)."""
    from vc2_conformance.pseudocode.video_parameters import picture_dimensions
    from vc2_conformance.pseudocode.slice_sizes import subband_width, subband_height
    cf = I.common.make_codec_features(**dict(kw, wavelet_index=I.t.WaveletFilters(kw["wavelet_index"]),
                                             wavelet_index_ho=I.t.WaveletFilters(kw["wavelet_index_ho"]),
                                             color_diff_format=I.t.ColorDifferenceSamplingFormats(kw["color_diff_format"])))
    st = I.State(dwt_depth=kw["dwt_depth"], dwt_depth_ho=kw["dwt_depth_ho"], slices_x=1, slices_y=1,
                 picture_coding_mode=cf["picture_coding_mode"])
    picture_dimensions(st, cf["video_parameters"])
    return dict((c, (subband_width(st, 0, c), subband_height(st, 0, c))) for c in ("Y", "C1"))


def gen_derived_configs(I, ctx):
    """Configurations around the boundaries of the DERIVED entries of codec_features_to_trivial_level_constraints:
    slices_have_same_dimensions (slice grids chosen by the divisibility of EACH component's DC band separately:
    luma only / chroma only / both / neither, for 4:4:4, 4:2:2, 4:2:0, frames and fields, symmetric and asymmetric
    depths) and slice_bytes_numerator/denominator (picture_bytes sharing a factor with the slice count)."""
    rng = ctx.rng
    out = []
    n = ctx.pick(36, 200)
    tries = 0
    while len(out) < n and tries < 50 * n:
        tries += 1
        cdf = rng.choice([0, 1, 2, 2])
        fields = rng.random() < 0.3
        xm = 2 if cdf in (1, 2) else 1
        ym = (2 if cdf == 2 else 1) * (2 if fields else 1)
        w = xm * rng.randint(1, 24 // xm)
        h = ym * rng.randint(1, 24 // ym)
        dh = rng.choice([0, 0, 1, 2])
        d = rng.choice([0, 1, 2]) if dh else rng.choice([1, 2, 3])
        profile = rng.choice(["hq", "hq", "ld"])
        kw = dict(profile=profile, lossless=(profile == "hq" and rng.random() < 0.5), wavelet_index=rng.randrange(7), dwt_depth=d,
                  dwt_depth_ho=dh, fragment_slice_count=0, frame_width=w, frame_height=h, color_diff_format=cdf, fields=fields,
                  interlaced=False, luma_offset=0, luma_excursion=255, color_diff_offset=128, color_diff_excursion=255,
                  quantization_matrix=None, slices_x=1, slices_y=1)
        kw["wavelet_index_ho"] = kw["wavelet_index"] if not dh else rng.randrange(7)
        if not I.common.has_default_quant_matrix(I.t.WaveletFilters(kw["wavelet_index"]), I.t.WaveletFilters(kw["wavelet_index_ho"]), d, dh):
            kw["quantization_matrix"] = {str(l): v for l, v in I.common.flat_quant_matrix(d, dh).items()}
        dims = dc_band_dims(I, kw)
        want = rng.choice([(True, False), (False, True), (True, True), (False, False)])   # (luma divisible, chroma divisible)
        axis = rng.choice(["x", "y", "xy"])

        def pick(ly, lc):
            cands = [k for k in range(1, max(ly, lc) + 3) if ((ly % k == 0), (lc % k == 0)) == want]
            return rng.choice(cands) if cands else None
        sx = pick(dims["Y"][0], dims["C1"][0]) if "x" in axis else rng.choice([k for k in range(1, 5) if dims["Y"][0] % k == 0 and dims["C1"][0] % k == 0])
        sy = pick(dims["Y"][1], dims["C1"][1]) if "y" in axis else rng.choice([k for k in range(1, 5) if dims["Y"][1] % k == 0 and dims["C1"][1] % k == 0])
        if sx is None or sy is None or sx * sy > 120:
            continue
        kw["slices_x"], kw["slices_y"] = sx, sy
        nsl = sx * sy
        if not kw["lossless"]:
            f = rng.choice([2, 3, 4, 6])
            kw["picture_bytes"] = rng.choice([nsl * rng.randint(8, 40), (nsl // f if nsl % f == 0 else nsl) * rng.randint(9, 60) * (f - 1),
                                              nsl * rng.randint(8, 40) + nsl // 2])
            if kw["picture_bytes"] < 6 * nsl:
                kw["picture_bytes"] = 8 * nsl
        out.append({"kw": kw, "level": 1, "vp": None, "family": "derived", "pic_seed": rng.randrange(1 << 30),
                    "pic_kind": rng.choice(["mid", "noise", "zeros"]), "dc": {c: list(v) for c, v in dims.items()}, "want": list(want)})
    return out


def gen_derived_tables(I, conf, ob):
    """Tables pinning each DERIVED trivial constraint to each of its possible values (everything else open)."""
    lvl = [conf["level"]]
    kw = conf["kw"]
    tables = [("derived-shsd-true", {"level": lvl, "slices_have_same_dimensions": [1]}, ".*", "slices_have_same_dimensions"),
              ("derived-shsd-false", {"level": lvl, "slices_have_same_dimensions": [0]}, ".*", "slices_have_same_dimensions"),
              ("derived-custom-qm-true", {"level": lvl, "custom_quant_matrix": [1]}, ".*", "custom_quant_matrix"),
              ("derived-custom-qm-false", {"level": lvl, "custom_quant_matrix": [0]}, ".*", "custom_quant_matrix")]
    if kw["profile"] == "ld":
        nsl = kw["slices_x"] * kw["slices_y"]
        fr = Fraction(kw["picture_bytes"], nsl)
        tables += [("derived-slice-bytes-reduced", {"level": lvl, "slice_bytes_numerator": [fr.numerator], "slice_bytes_denominator": [fr.denominator]}, ".*", None),
                   ("derived-slice-bytes-unreduced", {"level": lvl, "slice_bytes_numerator": [kw["picture_bytes"]], "slice_bytes_denominator": [nsl]}, ".*", "slice_bytes_numerator"),
                   ("derived-slice-bytes-doubled", {"level": lvl, "slice_bytes_numerator": [2 * fr.numerator], "slice_bytes_denominator": [2 * fr.denominator]}, ".*", "slice_bytes_numerator")]
    else:
        tables += [("derived-prefix-bytes-0", {"level": lvl, "slice_prefix_bytes": [0]}, ".*", None),
                   ("derived-prefix-bytes-1", {"level": lvl, "slice_prefix_bytes": [1]}, ".*", "slice_prefix_bytes")]
    return tables


def others(vals):
    """A small value set NOT containing any of vals."""
    top = max(vals) if vals else 0
    return [top + 1, top + 3]


def gen_tables(I, rng, conf, ob, ntables):
    """[(name, colspec, regex, restricted_key or None)]"""
    if conf.get("family") == "derived":
        return gen_derived_tables(I, conf, ob)
    obs, units = ob["obs"], ob["units"]
    exact = {"level": [conf["level"]]}
    for k, vals in obs.items():
        exact[k] = list(vals)
    # keys never observed in this stream (e.g. wavelet_index_ho in a v2 stream): no values allowed
    closed = dict(exact)
    for k in KEYS:
        closed.setdefault(k, [])
    tables = [("exact", dict(closed), ".*", None), ("exact-open-unseen", dict(exact), ".*", None)]
    keys = [k for k in obs.keys() if k != "level"]
    cand = []
    for k in keys:
        cand.append(("restrict:" + k, k))
    rng.shuffle(cand)
    for name, k in cand[:max(4, ntables // 2)]:
        spec = dict(exact)
        spec[k] = others(obs[k]) if rng.random() < 0.7 else []
        if k == "base_video_format":
            spec[k] = [(obs[k][0] + rng.randint(1, 22)) % 23]
        if k in FLAG_KEYS and obs[k] in ([0], [1]):
            spec[k] = [1 - obs[k][0]]
            # let the encoder find another encoding: open the values that flag brings with it
            for k2 in KEYS:
                if k2 not in obs:
                    spec[k2] = "any"
        tables.append((name, spec, ".*", k))
    for j in range(ntables - len(tables)):
        r = rng.random()
        spec = dict(exact)
        name, rk = "widen", None
        if r < 0.25:
            for k in keys:
                q = rng.random()
                if q < 0.3:
                    spec[k] = "any"
                elif q < 0.6 and k != "base_video_format":
                    spec[k] = list(obs[k]) + [[min(obs[k]), max(obs[k]) + rng.randint(0, 3)]]
        elif r < 0.45:
            name = "flags-forced"
            for k in FLAG_KEYS:
                if k.startswith("custom_") and k != "custom_quant_matrix" and rng.random() < 0.5:
                    spec[k] = [rng.randint(0, 1)]
            for k2 in KEYS:
                if k2 not in FLAG_KEYS and k2 not in ("level", "profile", "major_version", "minor_version"):
                    spec[k2] = "any"
        elif r < 0.6:
            name = "preset-only"
            for k in INDEX_KEYS:
                spec[k] = [[1, 20]]
            for k in FLAG_KEYS:
                if k.startswith("custom_") and k != "custom_quant_matrix":
                    spec[k] = "any"
            for k2 in ("color_primaries_index", "color_matrix_index", "transfer_function_index"):
                spec[k2] = "any"
        elif r < 0.75:
            name = "base-formats"
            spec = {"level": [conf["level"]], "base_video_format": sorted(rng.sample(range(23), rng.randint(1, 4)))}
        elif r < 0.9:
            name, rk = "version", "major_version"
            spec = {"level": [conf["level"]], "major_version": [rng.choice([1, 2, 3])], "minor_version": rng.choice(["any", [0], [1]])}
        else:
            name = "etp-flags"
            spec = {"level": [conf["level"]]}
            for k in ("asym_transform_index_flag", "asym_transform_flag"):
                spec[k] = rng.choice([[], [0], [1], [0, 1], "any"])
            spec["wavelet_index_ho"] = rng.choice(["any", [rng.randrange(7)], []])
            spec["dwt_depth_ho"] = rng.choice(["any", [rng.randrange(3)], []])
        tables.append((name, spec, ".*", rk))
    for j in range(max(2, ntables // 6)):
        tables.append(("pattern", {"level": [conf["level"]]}, rng.choice(PATTERNS), None))
    tables.extend(gen_multi_tables(I, rng, conf, max(4, ntables // 3)))
    return tables


GROUP_FLAGS = [  # (custom flag, VideoParameters indices of the group, index key, preset table name)
    ("custom_dimensions_flag", [0, 1], None, None),
    ("custom_color_diff_format_flag", [2], None, None),
    ("custom_scan_format_flag", [3], None, None),
    ("custom_frame_rate_flag", [5, 6], "frame_rate_index", "PRESET_FRAME_RATES"),
    ("custom_pixel_aspect_ratio_flag", [7, 8], "pixel_aspect_ratio_index", "PRESET_PIXEL_ASPECT_RATIOS"),
    ("custom_clean_area_flag", [9, 10, 11, 12], None, None),
    ("custom_signal_range_flag", [13, 14, 15, 16], "custom_signal_range_index", "PRESET_SIGNAL_RANGES"),
    ("custom_color_spec_flag", [17, 18, 19], "color_spec_index", "PRESET_COLOR_SPECS"),
]


def gen_multi_tables(I, rng, conf, n):
    """Level definitions with 2-4 columns which agree on everything the codec features fix and differ in
    base_video_format and in what the sequence header may contain.  X = the most similar base format,
    Y = a less similar one: the format is made inexpressible via (X, column of X) so that a correct encoder
    must either use (Y, column of Y) or report the configuration unsatisfiable."""
    lvl = [conf["level"]]
    target = list(conf["vp"])
    cf = make_cf(I, conf)
    rank = [int(b) for b in I.esh.rank_base_video_format_similarity(cf["video_parameters"])]
    if len(rank) < 2:
        return []
    out = []

    def differing(bvf):
        d = C15.flat(I.set_source_defaults(I.t.BaseVideoFormats(bvf)))
        return [g for g in GROUP_FLAGS if any(d[i] != target[i] for i in g[1])]

    def preset_of(g):
        if g[3] is None:
            return None
        for k, v in getattr(I.t, g[3]).items():
            if int(k) != 0 and [int(x) for x in v] == [target[i] for i in g[1]]:
                return int(k)
        return None

    for j in range(n):
        kind = rng.choice(["pair-flag", "pair-flag", "pair-index", "same-base", "random", "random"])
        xi = 0 if rng.random() < 0.75 else rng.randrange(len(rank))
        X = rank[xi]
        Y = rng.choice([b for b in rank if b != X])
        dx = differing(X)
        if kind == "pair-flag" and dx:
            g = rng.choice(dx)
            A = {"level": lvl, "base_video_format": [X], g[0]: [0]}
            B = {"level": lvl, "base_video_format": [Y]}
            if rng.random() < 0.4:   # B may not leave everything open either
                g2 = rng.choice(GROUP_FLAGS)
                B[g2[0]] = [1]
            cols = [A, B]
        elif kind == "pair-index" and [g for g in dx if preset_of(g) is not None]:
            g = rng.choice([g for g in dx if preset_of(g) is not None])
            k = preset_of(g)
            A = {"level": lvl, "base_video_format": [X], g[0]: [0]}
            B = {"level": lvl, "base_video_format": [Y], g[0]: [1], g[2]: [k]}
            cols = [A, B] + ([{"level": lvl, "base_video_format": [X], g[0]: [1], g[2]: [k + 1]}] if rng.random() < 0.3 else [])
        elif kind == "same-base" and dx:
            # two columns for the SAME base format with different freedoms + one for another format
            g = rng.choice(dx)
            cols = [{"level": lvl, "base_video_format": [X], g[0]: [0]},
                    {"level": lvl, "base_video_format": [X], g[0]: [1], "custom_clean_area_flag": [rng.randint(0, 1)]},
                    {"level": lvl, "base_video_format": [Y], g[0]: "any"}]
        else:
            kind = "random"
            cols = []
            for b in rng.sample(rank, min(len(rank), rng.randint(2, 4))):
                c = {"level": lvl, "base_video_format": [b]}
                for g in rng.sample(GROUP_FLAGS, rng.randint(1, 4)):
                    c[g[0]] = [rng.randint(0, 1)]
                    if g[2] is not None and rng.random() < 0.5:
                        c[g[2]] = rng.choice([[0], [[1, 20]], [preset_of(g) or 1]])
                cols.append(c)
        if rng.random() < 0.5:
            rng.shuffle(cols)
        out.append(("multi-" + kind, cols, ".*", None))
    return out


def run_conf(args):
    conf, ntables, seed = args
    import random
    rng = random.Random(seed)
    I = impl()
    res = {"conf": conf, "rows": [], "skip": None, "etp": []}
    try:
        ob, why = observe(I, conf)
    except Exception as e:
        ob, why = None, "observe crashed: %s: %s" % (type(e).__name__, e)
    if ob is None:
        res["skip"] = why
        return res
    res["units"] = ob["units"]
    res["vcase"] = ob["vcase"]
    res["hcases"] = []
    for name, spec, regex, rk in gen_tables(I, rng, conf, ob, ntables):
        try:
            r = run_table(I, conf, spec, regex)
        except Exception as e:
            r = {"result": "harness-crash", "detail": "%s: %s" % (type(e).__name__, e)}
        r.update(name=name, spec=spec, regex=regex)
        res["rows"].append(r)
        # correspondence material: the extended-transform-parameter decisions under this table
        try:
            res["etp"].append(None if isinstance(spec, list) else etp_case(I, conf, spec))
        except Exception as e:
            res["etp"].append(None)
        if (len(res["hcases"]) < 3 and name in ("exact", "widen", "flags-forced", "preset-only", "base-formats")
                or name.startswith("restrict:custom_")
                or (name.startswith("multi-") and len(res["hcases"]) < 6)):
            try:
                hc = header_case(I, conf, spec)
                if hc is not None:
                    res["hcases"].append(hc)
            except C15.Unrepresentable:
                pass
    return res


def etp_case(I, conf, spec):
    """(Coq literal, description) for decide_extended_transform_flag / make_extended_transform_parameters."""
    cf = make_cf(I, conf)
    table = build_table(I, spec)
    out = []
    with swapped_level(I, table, conf["level"], None):
        cv = I.cfm.codec_features_to_trivial_level_constraints(cf)
        admits = bool(I.ct.filter_constraint_table(table, cv))
        flags = []
        for flag, required in (("asym_transform_index_flag", cf["wavelet_index"] != cf["wavelet_index_ho"]),
                               ("asym_transform_flag", cf["dwt_depth_ho"] != 0)):
            try:
                f = bool(I.encp.decide_extended_transform_flag(cf, flag, required))
            except I.enc.UnsatisfiableCodecFeaturesError:
                f = None
            flags.append((flag, required, f))
        try:
            e = I.encp.make_extended_transform_parameters(cf)
            etp = (bool(e["asym_transform_index_flag"]), e.get("wavelet_index_ho"), bool(e["asym_transform_flag"]), e.get("dwt_depth_ho"))
        except I.enc.UnsatisfiableCodecFeaturesError:
            etp = None
    col = C15.c_column(I, table[0])
    extra = [(k, int(v)) for k, v in cv.items()]
    lit = "(%s, %s, (%s, %s, %s, %s), [%s], %s)" % (
        col, C15.c_kvs(extra),
        cz(int(cf["wavelet_index"])), cz(int(cf["wavelet_index_ho"])), cz(int(cf["dwt_depth"])), cz(int(cf["dwt_depth_ho"])),
        "; ".join("(%d, %s, %s)" % (C15.KEY_ID[fl], cbool(rq), copt(f, cbool)) for fl, rq, f in flags),
        "None" if etp is None else "(Some (%s, %s, %s, %s))" % (cbool(etp[0]), copt(etp[1], lambda x: cz(int(x))), cbool(etp[2]), copt(etp[3], lambda x: cz(int(x)))))
    return lit


def header_case(I, conf, spec):
    """Coq literal (table, case15): the sequence header enumeration under the synthetic table."""
    cf = make_cf(I, conf)
    table = build_table(I, spec)
    with swapped_level(I, table, conf["level"], ".*"):
        headers = list(I.esh.iter_sequence_headers(cf))
        if len(headers) > 60:
            return None
        cv = I.cfm.codec_features_to_trivial_level_constraints(cf)
        cands = [int(x) for x in I.ct.allowed_values_for(
            I.lc.LEVEL_CONSTRAINTS, "base_video_format", cv,
            I.lc.LEVEL_CONSTRAINT_ANY_VALUES["base_video_format"]).iter_values()]
        rank = [int(x) for x in I.esh.rank_allowed_base_video_format_similarity(cf)]
        hobs = []
        for h in headers[:2] + headers[-1:]:
            data = I.common.serialise([C15.header_stream(I, copy.deepcopy(h))])
            verdict, exc, vp, state = C15.header_only(I, data)
            if verdict != "accept":
                if getattr(exc, "key", None) in ("major_version", "minor_version"):
                    continue   # pinned versions: recorded by the oracle
                raise C15.Unrepresentable("validator rejected a header under the synthetic table: %s" % verdict)
            lcv = [(k, int(v)) for k, v in state["_level_constrained_values"].items() if k not in ("major_version", "minor_version")]
            hobs.append("(%s, (%s, %s, %s))" % (C15.c_header(h), clist(C15.flat(vp)), cz(int(state["picture_coding_mode"])), C15.c_kvs(lcv)))
    extra = [(k, int(v)) for k, v in cv.items() if k not in ("level", "profile", "picture_coding_mode")]
    case = "(mkCase %s %s %s %s %s %s %s\n  [%s]\n  [%s])" % (
        cz(int(cf["level"])), cz(int(cf["profile"])), cz(int(cf["picture_coding_mode"])), C15.c_kvs(extra),
        clist(C15.flat(cf["video_parameters"])), clist(cands), clist(rank),
        ";\n   ".join(C15.c_header(h) for h in headers), ";\n   ".join(hobs))
    return "([%s], %s)" % ("; ".join(C15.c_column(I, col) for col in table), case)


def small_level_confs(I, ctx):
    """Real level table: small formats admitted by the generalised levels 1 (QSIF/QCIF/SIF/CIF)."""
    rng = ctx.rng
    out = []
    # deterministic: custom quantisation matrix at the edge of / outside level 1's 0-127
    v = C15.flat(I.set_source_defaults(I.t.BaseVideoFormats(1)))
    for maxv in (127, 200):
        kw = dict(profile="hq", lossless=False, wavelet_index=4, wavelet_index_ho=4, dwt_depth=1, dwt_depth_ho=0, slices_x=11, slices_y=5,
                  fragment_slice_count=0, frame_width=v[0], frame_height=v[1], color_diff_format=v[2], fields=False, interlaced=bool(v[3]),
                  luma_offset=v[13], luma_excursion=v[14], color_diff_offset=v[15], color_diff_excursion=v[16],
                  quantization_matrix={"0": {"LL": maxv}, "1": {"HL": 1, "LH": 1, "HH": 2}}, picture_bytes=11 * 5 * 64)
        out.append({"kw": kw, "level": 1, "vp": v, "near": 1, "pic_seed": 1, "pic_kind": "mid", "real": True})
    for bvf in (1, 2):
        for rep in range(ctx.pick(1, 3)):
            base = I.t.BASE_VIDEO_FORMAT_PARAMETERS[I.t.BaseVideoFormats(bvf)]
            v = C15.flat(I.set_source_defaults(I.t.BaseVideoFormats(bvf)))
            wi = rng.randrange(5)
            d = rng.choice([1, 2])
            kw = dict(profile=rng.choice(["hq", "ld"]), lossless=False, wavelet_index=wi, wavelet_index_ho=wi, dwt_depth=d, dwt_depth_ho=0,
                      slices_x=rng.choice([1, 2, 11]), slices_y=rng.choice([1, 3, 5]), fragment_slice_count=rng.choice([0, 0, 3]),
                      frame_width=v[0], frame_height=v[1], color_diff_format=v[2], fields=False, interlaced=bool(v[3]),
                      luma_offset=v[13], luma_excursion=v[14], color_diff_offset=v[15], color_diff_excursion=v[16],
                      quantization_matrix=None)
            kw["picture_bytes"] = kw["slices_x"] * kw["slices_y"] * rng.choice([20, 64, 300])
            if rng.random() < 0.5:
                kw["quantization_matrix"] = {str(l): vv for l, vv in I.common.flat_quant_matrix(d, 0, rng, rng.choice([3, 127, 200])).items()}
            out.append({"kw": kw, "level": 1, "vp": v, "near": bvf, "pic_seed": rng.randrange(1 << 30), "pic_kind": "mid", "real": True})
    return out


def real_level_specs(I, ctx):
    """Formats admitted by the columns of the REAL level table (every level; levels 1-7 and 64, 65 have
    several columns) plus near misses: picture coding mode / scan format / frame rate / base format taken
    from a sibling column of the same level."""
    rng = ctx.rng
    base = C15.gen_level_formats(I, ctx)
    by_level = {}
    for spec, _b in base:
        by_level.setdefault(spec["level"], []).append(spec)
    out = [(s, "real-admitted") for s, _b in base]
    for spec, _b in base:
        sibs = [s for s in by_level[spec["level"]] if s["column"] != spec["column"]]
        for rep in range(ctx.pick(2, 6)):
            s2 = copy.deepcopy(spec)
            v = s2["vp"]
            r = rng.randrange(6)
            sib = rng.choice(sibs) if sibs else spec
            if r == 0:
                s2["pcm"] = sib["pcm"] if sib["pcm"] != s2["pcm"] else 1 - s2["pcm"]
            elif r == 1:
                v[3] = 1 - v[3]
            elif r == 2:
                v[5], v[6] = sib["vp"][5], sib["vp"][6]
            elif r == 3:
                s2["vp"] = list(sib["vp"])        # the sibling's format with this column's coding mode
            elif r == 4:
                v[5], v[6] = [int(x) for x in rng.choice(list(I.t.PRESET_FRAME_RATES.values()))]
            else:
                s2["pcm"] = 1 - s2["pcm"]
                v[3] = 1 - v[3]
            if C15.format_valid(s2["vp"], s2["pcm"]):
                out.append((s2, "real-near-miss"))
    return out


def run_real_header(spec):
    """REAL table, header level (the pictures of levels 2-7 / 64-66 are too big to encode per run): the
    encoder's make_sequence_header either raises IncompatibleLevelAndVideoFormatError or the header it
    puts into every sequence is accepted by the validator's parse_info + sequence_header under the level."""
    I = impl()
    cf = C15.make_cf(I, spec)
    try:
        h = I.esh.make_sequence_header(cf)
    except I.enc.UnsatisfiableCodecFeaturesError as e:
        return {"spec": spec, "result": "unsat", "detail": type(e).__name__}
    except Exception as e:
        return {"spec": spec, "result": "crash", "detail": "%s: %s" % (type(e).__name__, e)}
    data = I.common.serialise([C15.header_stream(I, copy.deepcopy(h))])
    verdict, exc, vp, state = C15.header_only(I, data)
    known = None
    if verdict != "accept" and getattr(exc, "key", None) == "major_version":
        known = PREFIX + "major_version"
        allowed = sorted(int(x) for x in exc.allowed_values.iter_values())
        if allowed:
            h2 = copy.deepcopy(h)
            h2["parse_parameters"]["major_version"] = allowed[0]
            verdict, exc, vp, state = C15.header_only(I, I.common.serialise([C15.header_stream(I, h2)]))
    key = classify(I, verdict, exc)
    return {"spec": spec, "result": "accept" if key is None else "reject", "key": key, "known": known,
            "detail": None if key is None else verdict + ": " + str(exc).split("\n")[0][:300], "header": str(h)[:1200]}


def run_real(conf):
    """Encoder + validator under the REAL tables."""
    I = impl()
    cf = make_cf(I, conf)
    kind, val = encode(I, cf, conf)
    if kind != "ok":
        return {"conf": conf, "result": kind, "detail": val}
    data = I.common.serialise([val])
    verdict, exc, _p, _s = I.common.validate(data)
    key = classify(I, verdict, exc)
    return {"conf": conf, "result": "accept" if key is None else "reject", "key": key,
            "detail": None if key is None else verdict + ": " + str(exc).split("\n")[0][:300]}


CHECK_ETP = "check16 "


def run(ctx):
    I = impl()
    ctx.extra["rule"] = (
        "random small configurations (both profiles, lossless/lossy, all wavelets, asymmetric depths, fragments, custom matrices, "
        "video formats with preset/custom groups) x synthetic level definitions: single-column ones derived from the values the "
        "configuration's own stream contains: exact, widened, one key restricted (value removed / flag inverted), flags forced, "
        "preset-only indices, restricted base formats, pinned versions, extended-transform flag/value sets, 11 ordering patterns; "
        "multi-column ones (2-4 columns agreeing on the configuration's fixed values, differing in base_video_format and in the admitted custom flags / preset indices, built so that the most similar base format cannot express the format through its own column); derived-constraint families (slice grids on the divisibility boundary of each component's DC band x slices_have_same_dimensions pinned true/false, reduced/unreduced slice_bytes, custom_quant_matrix, slice_prefix_bytes); plus the REAL table: small level-1 formats with pictures and, header level, every column's admitted formats and near misses (sibling column's coding mode / scan / frame rate / format). Non-trivial: the table restricts at least one key; distinct by (configuration, table).")
    confs = gen_configs(I, ctx) + gen_derived_configs(I, ctx)
    ntables = ctx.pick(14, 30)
    jobs = [(c, ntables, ctx.rng.randrange(1 << 30)) for c in confs]
    t0 = time.time()
    with multiprocessing.Pool(min(14, os.cpu_count() or 2)) as pool:
        results = pool.map(run_conf, jobs, chunksize=2)
        real = pool.map(run_real, small_level_confs(I, ctx), chunksize=1)
        rspecs = real_level_specs(I, ctx)
        realh = pool.map(run_real_header, [s for s, _b in rspecs], chunksize=8)
    ctx.note("implementation runs: %.1f s" % (time.time() - t0))
    hist = {}
    etp_cases = []
    skipped = 0
    for res in results:
        if res["skip"]:
            skipped += 1
            continue
        for r, e in zip(res["rows"], res["etp"]):
            b = "%s/%s" % (r["name"].split(":")[0], r["result"])
            hist[b] = hist.get(b, 0) + 1
            ctx.count(1, key=(C15.digest_conf(res["conf"]), C15.digest_conf(r["spec"]), r["regex"]) if r["name"] != "exact-open-unseen" else None, bucket=b)
            inp = {"conf": res["conf"], "colspec": r["spec"], "regex": r["regex"], "table": r["name"]}
            if r["result"] == "reject":
                ctx.violation(r["key"], inp, "encoder returned a sequence (no UnsatisfiableCodecFeaturesError) but the validator "
                              "rejects it under the same level definition: " + r["detail"], observed=r["detail"], expected="accept")
            elif r["result"] in ("serialise-crash", "harness-crash"):
                ctx.violation("serialise-crash", inp, "stream of an encoder-produced sequence could not be serialised/validated: " + str(r["detail"]))
            elif r["result"] == "unsat" and r["name"] in ("exact", "exact-open-unseen"):
                ctx.note("encoder refused a table admitting exactly its own stream: %s %r" % (r["detail"], inp["conf"]["kw"]))
            if e is not None:
                etp_cases.append((e, inp))
    for r in real:
        b = "real-level/%s" % r["result"]
        hist[b] = hist.get(b, 0) + 1
        ctx.count(1, key=C15.digest_conf(r["conf"]), bucket=b)
        if r["result"] == "reject":
            ctx.violation(r["key"], {"conf": r["conf"], "real": True}, "REAL level table: encoder returned a sequence but the validator rejects it: "
                          + r["detail"], observed=r["detail"], expected="accept")
    seen_known = False
    for (spec, bucket), r in zip(rspecs, realh):
        b = "%s-L%d/%s" % (bucket, spec["level"], r["result"])
        hist[b] = hist.get(b, 0) + 1
        ctx.count(1, key=C15.digest_conf(spec), bucket=b)
        if r.get("known") and not seen_known:
            seen_known = True
            ctx.violation(r["known"], {"real_header": spec}, "REAL level table: the header make_sequence_header returns is rejected under "
                          "its own level (autofilled major_version); re-checked with an admitted version", observed="ValueNotAllowedInLevel(major_version)")
        if r["result"] == "reject":
            ctx.violation(r["key"], {"real_header": spec}, "REAL level table: make_sequence_header returned a header (no unsatisfiable error) "
                          "but the validator rejects it under the same level: " + r["detail"], observed=r["header"], expected="accept")
    ctx.extra["outcomes"] = hist
    ctx.note("%d configurations (%d skipped: not encodable under the open table), outcomes %r" % (len(confs), skipped, hist))
    for res in results[:3]:
        if not res["skip"]:
            ctx.sample({"conf": res["conf"], "table": res["rows"][2]["name"], "colspec": res["rows"][2]["spec"], "result": res["rows"][2]["result"]})
    # ---- correspondence -------------------------------------------------------------------
    ncorr = ctx.pick(400, 4000)
    if len(etp_cases) > ncorr:
        etp_cases = ctx.rng.sample(etp_cases, ncorr)
    bad = ctx.coq_check_cases("etp", ["Model.SeqHeader", "Model.LevelChoices", "Corr.C15", "Corr.C16"], "check16", [c for c, _ in etp_cases], shard=100)
    if bad:
        ctx.obligation("corr:decide_extended_transform_flag / make_extended_transform_parameters agree with the implementation", False,
                       "corr-shard", "differ on: %r" % [etp_cases[i][1] for i in bad[:3]])
    vcases = [(r["vcase"], r["conf"]) for r in results if not r["skip"] and r.get("vcase")]
    bad = ctx.coq_check_cases("version", ["Model.SeqHeader", "Model.LevelChoices", "Corr.C15", "Corr.C16"], "check16v", [c for c, _ in vcases], shard=200)
    if bad:
        ctx.obligation("corr:autofill_major_version agrees with the implementation", False, "corr-shard",
                       "differ on: %r" % [vcases[i][1] for i in bad[:3]])
    hcases = [(h, r["conf"]) for r in results if not r["skip"] for h in r.get("hcases", [])]
    bad = ctx.coq_check_cases("hdr", ["Model.SeqHeader", "Corr.C15", "Corr.C16"], "check16h T15", [c for c, _ in hcases],
                              shard=40, defs=C15.table_defs(I))
    if bad:
        ctx.obligation("corr:iter_sequence_headers under synthetic tables agrees with the implementation", False, "corr-shard",
                       "differ on: %r" % [hcases[i][1] for i in bad[:3]])
    ctx.trusted.append("LEVEL_CONSTRAINTS / LEVEL_SEQUENCE_RESTRICTIONS are replaced in place for encoder and validator alike (as the test suite does)")


def replay(ctx, data):
    I = impl()
    inp = data["input"]
    print("replaying", data.get("key"))
    if inp.get("real_header") is not None:
        r = run_real_header(inp["real_header"])
        print("outcome:", r)
        bad = r["result"] == "reject" or bool(r.get("known"))
        print("property violated on this input:", bad)
        return 1 if bad else 0
    if inp.get("real"):
        r = run_real(inp["conf"])
    else:
        r = run_table(I, inp["conf"], inp["colspec"], inp["regex"])
    print("configuration:", inp["conf"])
    print("level definition:", inp.get("colspec"), inp.get("regex"))
    print("outcome:", r)
    bad = r["result"] in ("reject", "serialise-crash")
    print("property violated on this input:", bad)
    return 1 if bad else 0
