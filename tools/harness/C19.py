"""C19 harness: sequence completion (vc2_conformance/symbol_re.py: make_matching_sequence,
used by encoder/sequence.py: make_sequence).

Correspondence (tie C): the real make_matching_sequence against Model/MatchSeq.v
(queue-based search with the greedy `continue`, on top of the C18 Matcher model).

Oracle: an exhaustive reference search in Python, independent of the model and of the
real Matcher: patterns are decided with Brzozowski derivatives (the decision procedure
of tools/harness/C18.py over the harness' own parser), the search is a breadth-first
search over (derivatives, required symbols consumed, consecutive insertions) WITHOUT
the greedy step.  Every real result is classified: sound?  shortest?  impossibility
justified?
"""
import collections
import concurrent.futures
import itertools
import json
import os
import signal
import subprocess
import sys

import vlib
from vlib import cz, clist, copt

import C18 as h18  # pattern enumerator / parser / derivative oracle (imported, not edited)

KNOWN_KEY = "make_matching_sequence:greedy-continue"
CASE_TY = "list Z * list (list token) * Z * list Z * Z * option (list Z)"
GENERIC = "sequence_header .* end_of_sequence"
PRIO_REAL = ["padding_data", "sequence_header"]


def impl():
    from vc2_conformance import symbol_re
    return symbol_re


# ----------------------------------------------------------------------------------
# running the real code (in worker processes; a pure function of the case)
# ----------------------------------------------------------------------------------
class CountingDeque(collections.deque):
    """the search queue, counting the iterations of the `while queue` loop (one popleft each)"""
    pops = 0

    def popleft(self):
        CountingDeque.pops += 1
        return collections.deque.popleft(self)


class CaseTimeout(Exception):
    pass


def _alarm(_sig, _frm):
    raise CaseTimeout()


CASE_TIMEOUT_S = 40  # the slowest real combination takes ~1.5 s on an idle machine


def run_real(case):
    """-> (kind, result, number of loop iterations)"""
    init, pats, limit, prio = case
    from vc2_conformance import symbol_re as sr
    sr.deque = CountingDeque  # same class, instrumented; the function's logic is untouched
    CountingDeque.pops = 0
    kw = {}
    if limit is not None:
        kw["depth_limit"] = limit
    if prio is not None:
        kw["symbol_priority"] = list(prio)
    old = signal.signal(signal.SIGALRM, _alarm)
    signal.alarm(CASE_TIMEOUT_S)
    try:
        out = sr.make_matching_sequence(list(init), *pats, **kw)
        return ("ok", list(out), CountingDeque.pops)
    except sr.ImpossibleSequenceError:
        return ("imp", None, CountingDeque.pops)
    except CaseTimeout:
        return ("err", "no-result-within-%ds" % CASE_TIMEOUT_S, 0)
    except Exception as e:  # anything else is not something the function documents
        return ("err", type(e).__name__, CountingDeque.pops)
    finally:
        signal.alarm(0)
        signal.signal(signal.SIGALRM, old)


def run_all_real(cases, workers=16, batch=320, max_timeouts=6):
    """all cases in worker processes; gives up (kind "skip") once several calls did not return in time"""
    if len(cases) < 50:
        return [run_real(c) for c in cases]
    out = []
    with concurrent.futures.ProcessPoolExecutor(max_workers=workers) as ex:
        for k in range(0, len(cases), batch):
            if sum(1 for o in out if o[0] == "err" and str(o[1]).startswith("no-result")) >= max_timeouts:
                out.extend([("skip", None, 0)] * (len(cases) - len(out)))
                break
            out.extend(ex.map(run_real, cases[k:k + batch], chunksize=4))
    return out


# ----------------------------------------------------------------------------------
# Coq literals: the symbol names of a case numbered 1.. in sorted (string) order,
# WILDCARD "." as a sequence symbol = -1
# ----------------------------------------------------------------------------------
class SortedNames(object):
    def __init__(self, names):
        self.ids = dict((n, i + 1) for i, n in enumerate(sorted(set(names))))

    def __call__(self, n):
        return -1 if n == "." else self.ids[n]


def case_names(case):
    init, pats, _limit, prio = case
    names = set(init) | set(prio or [])
    for p in pats:
        names.update(v for k, v in h18.my_tokens(p) if k == "string")
    names.discard(".")
    return names


def coq_case(case, obs):
    init, pats, limit, prio = case
    nm = SortedNames(case_names(case))
    toks = "[" + "; ".join(h18.coq_tokens(nm, h18.my_tokens(p)) for p in pats) + "]"
    o = copt([nm(s) for s in obs[1]], clist) if obs[0] == "ok" else "None"
    return "(%s, %s, %s, %s, %d, %s)" % (clist([nm(s) for s in init]), toks, cz(3 if limit is None else limit),
                                         clist([nm(s) for s in (prio or [])]), obs[2] + 1, o)


# ----------------------------------------------------------------------------------
# the reference search (the property's own words, no greedy step)
# ----------------------------------------------------------------------------------
def is_subseq(a, b):
    it = iter(b)
    return all(any(x == y for y in it) for x in a)


class Reference(object):
    def __init__(self):
        self.orc = h18.Oracle()

    def exprs(self, pats):
        out = []
        for p in pats:
            r = h18.my_parse(h18.my_tokens(p))
            if r is None:
                return None
            out.append(h18.conv(h18.desugar(r)))
        return tuple(out)

    def matches(self, D, seq):
        for s in seq:
            D = tuple(self.orc.d(x, s) for x in D)
        return all(self.orc.ends(x) for x in D)

    def shortest(self, D0, init, limit, alphabet):
        """A shortest sequence that contains `init` in order (only insertions, at most `limit`
        consecutive ones) and is matched by every pattern; None if there is none.
        `alphabet`: every symbol named anywhere in the case plus "." (which no pattern names,
        so it stands for all other symbols)."""
        orc, n = self.orc, len(init)

        def step(D, s):
            D2 = tuple(orc.d(x, s) for x in D)
            for x in D2:
                if x == h18.NUL or not orc.viable(x, alphabet):
                    return None
            return D2

        start = (D0, 0, 0)
        seen = {start: None}
        level = [start]
        while level:
            nxt = []
            for st in level:
                D, i, c = st
                if i == n and all(orc.ends(x) for x in D):
                    out = []
                    while seen[st] is not None:
                        st, s = seen[st]
                        out.append(s)
                    return out[::-1]
                moves = []
                if i < n:
                    moves.append((init[i], i + 1, 0))
                if c < limit:
                    moves.extend((s, i, c + 1) for s in alphabet)
                for s, i2, c2 in moves:
                    D2 = step(D, s)
                    if D2 is None:
                        continue
                    st2 = (D2, i2, c2)
                    if st2 not in seen:
                        seen[st2] = (st, s)
                        nxt.append(st2)
            level = nxt
        return None


def classify(ref, case, obs):
    """-> (list of failure classes, reference answer)"""
    init, pats, limit, prio = case
    lim = 3 if limit is None else limit
    D0 = ref.exprs(pats)
    alphabet = tuple(sorted(case_names(case))) + (".",)
    best = ref.shortest(D0, list(init), lim, alphabet)
    fails = []
    if obs[0] == "ok":
        out = obs[1]
        if not is_subseq(init, out):
            fails.append("result-not-a-supersequence")
        if not ref.matches(D0, out):
            fails.append("result-not-matched-by-a-pattern")
        if not fails:
            if best is None or len(best) > len(out):
                fails.append("reference-search-disagrees")
            elif len(best) < len(out):
                fails.append("not-shortest")
    elif obs[0] == "imp":
        if best is not None:
            fails.append("impossible-but-a-completion-exists")
    else:
        fails.append("exception-" + str(obs[1]))
    return fails, best


GREEDY_ONLY = set(["not-shortest", "impossible-but-a-completion-exists"])


# ----------------------------------------------------------------------------------
# generators
# ----------------------------------------------------------------------------------
HAND = [
    # the two witnesses of the known finding
    (["a", "b"], ["(a c) | (x a b)"], None, None),
    (["a", "b"], ["a x x x b | y a b"], None, None),
    (["a"], [". . a | b c a", ".*"], None, None),
    ([], ["(a | b | c | .) (d | e)"], None, None),
    ([], [], None, None),
    (["a", "b"], [], None, None),
    (["a"], ["a"], 0, None),
    (["a"], ["x a"], 0, None),
    (["a"], ["x a"], -1, None),
    (["a"], ["x x x x a"], None, None),
    (["a"], ["x x x x a"], 4, None),
    (["a", "a"], ["x x a x x x a x"], None, None),
    (["a"], [". a ."], None, None),
    (["a"], [". a ."], None, ["x", "b"]),
    (["a"], [". a .", ". . b"], None, ["x", "b"]),
    (["a"], ["(b | .) a (. | b | x)"], None, ["x"]),
    (["a"], ["(b | .) a (. | b | x)"], None, []),
    (["b"], ["(x | a | .) b", "(a | .) (b | x)"], None, None),
    (["a"], ["a $"], None, None),
    (["a"], ["a b? $", ". b"], None, None),
    (["a", "b"], ["a x* b", "a . . b"], None, ["b", "x", "b"]),
    (["x"], [".* a .*"], None, ["b"]),
]


def subsequences(w, maxlen):
    out = set()
    for n in range(0, min(maxlen, len(w)) + 1):
        for idx in itertools.combinations(range(len(w)), n):
            out.add(tuple(w[i] for i in idx))
    return out


def enumerated(ctx, sr, ref):
    """(kind, case) for the small alphabet {a, b, x}.
    kind enum: pattern ASTs from the C18 enumerator x ALL required lists up to length L;
    kinds words / words2: alternations of short words (the shape on which the greedy step loses
    completeness) x the required lists that are subsequences of some jointly matched sequence
    (so that a completion exists) + a few arbitrary ones."""
    rng = ctx.rng
    leaves = [("s", "a"), ("s", "b"), ("s", "x"), h18.ANY]
    memo, pool = {}, []
    for size in range(1, 7):
        pool += [r for r in h18.enum_asts(size, leaves, ("*", "?", "+"), memo)]
    flexible = [r for r in pool if "." in h18.show(r) and "*" in h18.show(r)]
    L = ctx.pick(3, 4)
    inits = [list(t) for n in range(0, L + 1) for t in itertools.product("abx", repeat=n)]

    def pick_pattern(src=None):
        while True:
            p = h18.show(rng.choice(src or pool))
            if h18.real_parse(sr, p)[0] == 0:
                return p

    def word():
        items = []
        for s in [rng.choice("abx") for _ in range(rng.randrange(1, 5))]:
            k = rng.random()
            items.append("." if k < 0.15 else (s + "*" if k < 0.23 else (s + "?" if k < 0.31 else s)))
        return " ".join(items)

    def word_pattern():
        k = rng.random()
        p = "%s | %s" % (word(), word()) if k < 0.75 else ("%s | %s | %s" % (word(), word(), word()) if k < 0.85 else word())
        if rng.random() < 0.2:
            p = "(%s) .*" % p
        return p

    out = []
    nsets = ctx.pick(300, 2500)
    for i in range(nsets):
        k = rng.random()
        if k < 0.4:
            pats = [pick_pattern()] + ([pick_pattern(flexible if rng.random() < 0.5 else None)] if rng.random() < 0.6 else [])
            kind = "enum"
        elif k < 0.8:
            pats = [word_pattern()] + ([pick_pattern(flexible)] if rng.random() < 0.3 else [])
            kind = "words"
        else:
            pats = [word_pattern(), word_pattern()]
            kind = "words2"
        r = rng.random()
        prio = None if r < 0.6 else rng.choice([["x"], ["b", "a"], ["a", "x", "b"], []])
        r = rng.random()
        limit = None if r < 0.75 else rng.choice([0, 1, 2, 4])
        if limit == 4 and L > 3:
            limit = 2
        if kind == "enum":
            use = inits
        else:
            D0 = ref.exprs(pats)
            lim = 3 if limit is None else limit
            targets = set()
            for seed in ([], ["a"], ["b"], ["x"], ["a", "b"], ["b", "x"], ["x", "a"], ["a", "a"], ["b", "a", "b"]):
                w = ref.shortest(D0, seed, max(lim, 3), ("a", "b", "x", "."))
                if w is not None and len(w) <= 7:
                    targets.update(subsequences([s for s in w], L))
            targets = [list(t) for t in sorted(targets) if "." not in t]
            use = targets + [rng.choice(inits) for _ in range(6)]
            if len(use) > 40:
                use = [use[j] for j in sorted(rng.sample(range(len(use)), 40))]
        for init in use:
            out.append((kind, (init, pats, limit, prio)))
    return out


def real_combinations(ctx, sr):
    """every level pattern x test-case pattern x picture / fragment lists, as make_sequence calls it"""
    found, _names = h18.real_pattern_strings(sr)
    levels = [(s, p) for s, p in found if s.startswith("csv:")]
    tcs = [("none", None)] + [(s, p) for s, p in found if s.startswith("test_cases")]
    tcs.append(("docstring:make_sequence", "(. padding_data)+ end_of_sequence"))
    tcs.append(("extra:aux-first", "sequence_header auxiliary_data .*"))
    lists = []
    counts = ctx.pick([0, 1, 3], [0, 1, 2, 3, 5, 8])
    for pic in ["low_delay_picture", "high_quality_picture"]:
        for n in counts:
            lists.append([pic] * n)
    for fr in ["low_delay_picture_fragment", "high_quality_picture_fragment"]:
        for npics, per in ctx.pick([(1, 3), (2, 3)], [(1, 2), (1, 3), (2, 3), (3, 4), (2, 9)]):
            lists.append([fr] * (npics * per))
    lists.append(["low_delay_picture", "high_quality_picture"])
    lists.append(["high_quality_picture", "high_quality_picture_fragment", "high_quality_picture_fragment"])
    lists.append(["padding_data", "high_quality_picture"])
    out = []
    for ls, lp in levels:
        for ts, tp in tcs:
            for init in lists:
                pats = [GENERIC, lp] + ([tp] if tp else [])
                out.append(("real:%s/%s" % (ls.replace("csv:", ""), ts.split(":")[0].split("/")[-1]), (init, pats, None, PRIO_REAL)))
    return out


def load_corpus():
    path = os.path.join(vlib.VERIF, "corpus", "C19", "cases.jsonl")
    out = []
    if os.path.exists(path):
        for line in open(path):
            line = line.strip()
            if line and not line.startswith("#"):
                d = json.loads(line)
                out.append(("corpus", (d["init"], d["patterns"], d.get("depth_limit"), d.get("symbol_priority"))))
    return out


def hypothesis_ok(ref, case):
    """the property's hypotheses: patterns parse, `$` only where nothing mandatory follows"""
    for p in case[1]:
        toks = h18.my_tokens(p)
        r = h18.my_parse(toks) if toks is not None else None
        if r is None or not h18.eos_ok(h18.desugar(r)):
            return False
    return True


HASHSEED_SCRIPT = r"""
import sys, json
sys.path.insert(0, %r)
import C19
cases = json.load(sys.stdin)
print(json.dumps([C19.run_real(tuple(c)) for c in cases]))
"""


def other_hash_seeds(ctx, cases, obs, seeds):
    """re-run a sample of the cases in fresh interpreters with other PYTHONHASHSEEDs"""
    diffs = []
    payload = json.dumps([list(c) for c in cases])
    for seed in seeds:
        env = dict(os.environ)
        env["PYTHONHASHSEED"] = str(seed)
        p = subprocess.run([sys.executable, "-c", HASHSEED_SCRIPT % os.path.dirname(os.path.abspath(__file__))],
                           input=payload, capture_output=True, text=True, env=env, timeout=900)
        if p.returncode != 0:
            ctx.obligation("harness:hash-seed rerun (seed %s)" % seed, False, "harness", p.stderr[-2000:])
            continue
        res = json.loads(p.stdout)
        for i, (a, b) in enumerate(zip(res, obs)):
            if "no-result" in str(a[1]) or "no-result" in str(b[1]):
                continue  # a timing effect, reported by the oracle
            if list(a) != list(b):
                diffs.append((seed, i, a, b))
    return diffs


# ----------------------------------------------------------------------------------
def run(ctx):
    sr = impl()
    ref = Reference()
    ctx.extra["rule"] = (
        "make_matching_sequence calls: (1) %d sampled pattern sets over {a,b,x,.} (<= 2 patterns): pattern ASTs up to 6 nodes with * ? + x EVERY required list up to length %d "
        "over {a,b,x}; alternations of short words x the required lists that are subsequences of a jointly matched sequence (+ arbitrary ones); default and explicit "
        "depth_limit / symbol_priority; (2) the real combinations: the generic pattern + every level "
        "pattern of level_sequence_restrictions.csv x every test-case pattern literal found in test_cases/**/*.py (+ the docstring example) x picture / fragment lists, "
        "symbol_priority as in make_sequence; (3) hand-written and corpus cases. Non-trivial = the result differs from the required list (insertions were needed) or "
        "impossibility was reported. Oracle: exhaustive reference search without the greedy step over Brzozowski derivatives (bounded consecutive insertions)."
        % (ctx.pick(300, 2500), ctx.pick(3, 4)))
    tagged = load_corpus() + [("hand", c) for c in HAND] + real_combinations(ctx, sr) + enumerated(ctx, sr, ref)
    tagged = [(k, c) for k, c in tagged if hypothesis_ok(ref, c)]
    cases = [c for _k, c in tagged]
    obs = run_all_real(cases)
    nskip = sum(1 for o in obs if o[0] == "skip")
    if nskip:
        ctx.obligation("harness:every generated call was run", False, "harness",
                       "%d calls skipped after several calls did not return within %d s" % (nskip, CASE_TIMEOUT_S))
        keep = [i for i, o in enumerate(obs) if o[0] != "skip"]
        tagged, cases, obs = [tagged[i] for i in keep], [cases[i] for i in keep], [obs[i] for i in keep]

    # ---- correspondence ------------------------------------------------------------------
    imports = ["Model.Regex", "Model.NFA", "Model.Matcher", "Model.MatchSeq", "Corr.C19"]
    lits = [coq_case(c, o) for c, o in zip(cases, obs)]
    small = [i for i, (k, _c) in enumerate(tagged) if not k.startswith("real")]
    big = [i for i, (k, _c) in enumerate(tagged) if k.startswith("real")]
    bad = set()
    failed = False
    for name, idxs, shard in (("seq_small", small, ctx.pick(400, 800)), ("seq_real", big, ctx.pick(16, 16))):
        b = ctx.coq_check_cases(name, imports, "chk_seq", [lits[i] for i in idxs], ty=CASE_TY, shard=shard, timeout=1500)
        if b is None:
            failed = True
        else:
            bad.update(idxs[j] for j in b)
    # the theorems' hypothesis (eos_ok, Coq's definition) holds on every generated pattern set
    seen_ps, ps_lits = set(), []
    for c in cases:
        key = tuple(c[1])
        if key not in seen_ps:
            seen_ps.add(key)
            nm = SortedNames(case_names(c))
            ps_lits.append("[" + "; ".join(h18.coq_tokens(nm, h18.my_tokens(p)) for p in c[1]) + "]")
    b = ctx.coq_check_cases("eos_ok", imports, "chk_eos_ok", ps_lits, ty="list (list token)", shard=1500, timeout=900)
    if b:
        ctx.obligation("corr:generated patterns satisfy the theorems' hypothesis eos_ok", False, "corr-shard", "%d pattern sets do not" % len(b))
    # order independence, sampled: candidate set enumerated in reverse inside the model
    sample = [i for i in small if i % 7 == 0][: ctx.pick(1500, 6000)]
    b = ctx.coq_check_cases("seq_rev", imports, "chk_seq_rev", [lits[i] for i in sample], ty=CASE_TY, shard=ctx.pick(400, 800), timeout=1500)
    if b:
        ctx.obligation("corr:model result independent of the candidate set's enumeration order", False, "corr-shard",
                       "differs on %r" % [cases[sample[j]] for j in b[:5]])

    # ---- hash seeds: does the real result depend on set iteration order? -------------------------
    hs = [i for i in range(len(cases)) if (i % 11 == 0 or tagged[i][0] in ("hand", "corpus"))][: ctx.pick(1200, 5000)]
    hs += [i for i in big if len(cases[i][0]) <= 3][: ctx.pick(24, 80)]
    diffs = other_hash_seeds(ctx, [cases[i] for i in hs], [obs[i] for i in hs], ctx.pick([1, 7], [1, 2, 3, 7, 12345]))
    for seed, j, a, b_ in diffs[:5]:
        ctx.violation("make_matching_sequence:result-depends-on-hash-seed", case_json(cases[hs[j]]),
                      "result differs between PYTHONHASHSEED=0 and PYTHONHASHSEED=%s (set iteration order leaks into the result)" % seed,
                      observed=a, expected=list(b_))
    ctx.extra["hash_seed_reruns"] = len(hs)

    # ---- oracle + classification ----------------------------------------------------------------
    reported = {}
    n_known = 0
    for i, ((kind, case), o) in enumerate(zip(tagged, obs)):
        fails, best = classify(ref, case, o)
        nontrivial = (o[0] == "imp") or (o[0] == "ok" and o[1] != list(case[0]))
        cls = "impossible" if o[0] == "imp" else ("error" if o[0] == "err" else ("unchanged" if not nontrivial else "insertions"))
        ctx.count(1, key=(case if nontrivial else None), bucket="%s:%s" % (kind.split("/")[0].split(":")[0], cls))
        if i in (0, 1) or (kind.startswith("real") and nontrivial and len(ctx.samples) < 5) or (kind == "enum" and nontrivial and len(ctx.samples) < 6):
            ctx.sample({"kind": kind, "input": case_json(case), "result": o[1] if o[0] == "ok" else o[0]})
        if fails:
            if set(fails) <= GREEDY_ONLY and not failed and i not in bad:
                key = KNOWN_KEY
                n_known += 1
                desc = ("%s: the search matches the next required symbol as soon as every pattern accepts it and never tries an insertion there; "
                        "reproduced by the model (Model/MatchSeq.v), result is sound but not complete/shortest" % fails[0])
            else:
                key = "make_matching_sequence:" + fails[0] + ("" if i not in bad else ":model-differs")
                desc = "%s (model %s)" % (", ".join(fails), "differs" if i in bad else ("not evaluated" if failed else "agrees"))
            if reported.get(key, 0) < 6:
                reported[key] = reported.get(key, 0) + 1
                ctx.violation(key, case_json(case), desc, observed=(o[1] if o[0] == "ok" else o[0]), expected=best)
        elif i in bad:
            ctx.obligation("corr:make_matching_sequence agrees with the model", False, "corr-shard",
                           "model and implementation differ (property holds there) on %r -> %r" % (case_json(case), o))
    ctx.extra["known_finding_inputs_this_run"] = n_known
    ctx.note("%d calls, %d of them fail completeness/shortestness only and are reproduced by the greedy model" % (len(cases), n_known))
    ctx.trusted.append("C19: symbol names numbered per case in sorted order (alphabetical order = Z order, WILDCARD '.' = -1 sorts first); "
                       "Python's sorted() is a stable sort by the key; the model's fuel is the number of loop iterations the real call made (counted by an instrumented deque class) + 1; patterns reach the model as token lists through the C18 model of parse_regex")
    ctx.trusted.append("C19 oracle: reference breadth-first search in tools/harness/C19.py over the derivative decision procedure of tools/harness/C18.py")


def case_json(case):
    init, pats, limit, prio = case
    return {"init": list(init), "patterns": list(pats), "depth_limit": limit, "symbol_priority": prio}


def replay(ctx, data):
    inp = data["input"]
    case = (inp["init"], inp["patterns"], inp.get("depth_limit"), inp.get("symbol_priority"))
    ref = Reference()
    print("replaying", data.get("key"), inp)
    if not hypothesis_ok(ref, case):
        print("patterns outside the property's hypotheses")
        return 0
    o = run_real(case)
    fails, best = classify(ref, case, o)
    print("  make_matching_sequence ->", o[1] if o[0] == "ok" else o[0])
    print("  reference search (no greedy step) ->", best)
    print("  failures:", fails)
    print("property violated on this input:", bool(fails))
    return 1 if fails else 0
