"""C04 harness: lossless and unquantised encodings reconstruct pictures exactly.

Correspondence (tie C) of Model/EncoderSlices.v with the real
  encoder.pictures.apply_dc_prediction, decoder.transform_data_syntax.dc_prediction,
  encoder.pictures.transform_and_slice_picture (gathering coefficient arrays into slices),
  encoder.pictures.make_transform_data_hq_lossless,
  the decoder's slice reading (arrays present when picture_decode is entered)
and the property oracle: REAL encoder -> serialiser -> REAL validator on lossless configurations and
on lossy ones whose slices all get qindex 0; decoded pictures must equal the inputs exactly."""
import random
from copy import deepcopy

from vlib import cz, cbool, clist

import common
import C14 as H14


def impl():
    from vc2_conformance import encoder
    from vc2_conformance.encoder import pictures as P
    from vc2_conformance.decoder import transform_data_syntax as T
    from vc2_conformance.decoder import stream as S
    from vc2_data_tables import WaveletFilters, ColorDifferenceSamplingFormats
    return encoder, P, T, S, WaveletFilters, ColorDifferenceSamplingFormats


ORIENTS = ["L", "LL", "H", "HL", "LH", "HH"]


def band_lit(b):
    return "[" + "; ".join(clist(r) for r in b) + "]"


def bands_in_order(transform):
    """[(level, orient, array)] in bitstream order"""
    out = []
    for level in sorted(transform):
        for orient in sorted(transform[level], key=ORIENTS.index):
            out.append((level, orient, transform[level][orient]))
    return out


def st_args(state, cf):
    return [state["luma_width"], state["luma_height"], state["color_diff_width"], state["color_diff_height"],
            cf["dwt_depth"], cf["dwt_depth_ho"], cf["slices_x"], cf["slices_y"]]


class Capture(object):
    """wraps a module-level function to keep the state it is called with"""

    def __init__(self, module, name, grab):
        self.module, self.name, self.grab, self.got = module, name, grab, []

    def __enter__(self):
        self.orig = getattr(self.module, self.name)

        def w(state, *a):
            self.got.append(self.grab(state))
            return self.orig(state, *a)
        setattr(self.module, self.name, w)
        return self

    def __exit__(self, *a):
        setattr(self.module, self.name, self.orig)


def grab_decoder(state):
    return dict((t, deepcopy(state[t])) for t in ("y_transform", "c1_transform", "c2_transform"))


# ------------------------------------------------------------------------------- C04 x C11 adaptor tie
TRANSFORMS = ("y_transform", "c1_transform", "c2_transform")
STATE_KEYS = ("luma_width", "luma_height", "color_diff_width", "color_diff_height", "luma_depth", "color_diff_depth",
              "wavelet_index", "wavelet_index_ho", "dwt_depth", "dwt_depth_ho")

# Coq side of the tie (Proofs/IntegChainDefs.v holds pic_encode / pic_decode; `tbl` = the live LIFTING_FILTERS,
# dumped by the C11 harness's table_def).  The matrix function 10*level + orientation code makes the
# orientation of every subband observable through the sb_qm field.
ADAPTOR_DEFS = """
Definition flt4 (i : Z) : filter := nth (Z.to_nat i) tbl (mk_filter 0 []).
Definition sb3_eqb (a b : subband) : bool :=
  (sb_level a =? sb_level b) && (sb_qm a =? sb_qm b) && band_eqb (sb_band a) (sb_band b).
Definition check_adaptor (c : (Z * Z) * list Z * (Z * Z) * picture
                              * (list subband * list subband * list subband)
                              * (list band * list band * list band) * picture) : bool :=
  let '(wi, wiho, a, (ld, cd), p, (ey, e1, e2), bl, (dy, d1, d2)) := c in
  let st := mkst a in
  let e := pic_encode (flt4 wi) (flt4 wiho) st (fun l o => 10 * l + o) ld cd p in
  let d := pic_decode (flt4 wi) (flt4 wiho) st ld cd bl in
  list_eqb sb3_eqb (fst (fst e)) ey && list_eqb sb3_eqb (snd (fst e)) e1 && list_eqb sb3_eqb (snd e) e2
  && band_eqb (fst (fst d)) dy && band_eqb (snd (fst d)) d1 && band_eqb (snd d) d2.
"""


def adaptor_case(rng, est, cf, pic):
    """REAL picture_encode on the picture: every subband in the order transform_and_slice_picture visits them, as
    (level, 10*level + orientation index, array); REAL picture_decode on those arrays (half of the time perturbed, so that
    clipping happens and the inverse transform runs on data that is not a forward transform's output)."""
    from vc2_conformance.pseudocode import picture_encoding as pe
    from vc2_conformance.pseudocode import picture_decoding as pd
    from vc2_conformance.pseudocode.state import State
    st = State((k, est[k]) for k in STATE_KEYS)
    p = dict((c, deepcopy(pic[c])) for c in ("Y", "C1", "C2"))
    pe.picture_encode(st, p)
    enc = [bands_in_order(st[t]) for t in TRANSFORMS]
    st2 = State((k, est[k]) for k in STATE_KEYS)
    st2["picture_number"] = 0
    perturb = rng.random() < 0.5
    for t in TRANSFORMS:
        st2[t] = deepcopy(st[t])
        if perturb:
            depth = est["luma_depth"] if t == "y_transform" else est["color_diff_depth"]
            for level in st2[t]:
                for orient in st2[t][level]:
                    for row in st2[t][level][orient]:
                        for x in range(len(row)):
                            if rng.random() < 0.3:
                                row[x] += rng.randint(-(1 << depth), 1 << depth)
    dec_in = [[deepcopy(a) for (l, o, a) in bands_in_order(st2[t])] for t in TRANSFORMS]
    pd.picture_decode(st2)
    dec = [st2["current_picture"][c] for c in ("Y", "C1", "C2")]
    lit = "((%s, %s), %s, (%s, %s), (%s, %s, %s), (%s, %s, %s), (%s, %s, %s), (%s, %s, %s))" % (
        cz(int(est["wavelet_index"])), cz(int(est["wavelet_index_ho"])), clist(st_args(est, cf)),
        cz(est["luma_depth"]), cz(est["color_diff_depth"]),
        band_lit(pic["Y"]), band_lit(pic["C1"]), band_lit(pic["C2"]),
        *(["[" + "; ".join("(%s, %s, %s)" % (cz(l), cz(10 * l + ORIENTS.index(o)), band_lit(a)) for (l, o, a) in e) + "]" for e in enc]
          + ["[" + "; ".join(band_lit(a) for a in d) + "]" for d in dec_in]
          + [band_lit(d) for d in dec]))
    return lit, perturb


# ------------------------------------------------------------------------------- one configuration
def build(I, inp):
    encoder, P, T, S, WF, CDF = I
    kw = dict(inp["config"])
    kw["wavelet_index"] = WF(kw["wavelet_index"])
    kw["wavelet_index_ho"] = WF(kw["wavelet_index_ho"])
    kw["color_diff_format"] = CDF(kw["color_diff_format"])
    if kw.get("quantization_matrix") is not None:
        kw["quantization_matrix"] = dict((int(l), v) for l, v in kw["quantization_matrix"].items())
    cf = common.make_codec_features(**kw)
    prng = random.Random(inp["picture_seed"])
    pics = [common.random_picture(cf, prng, inp["picture_kind"], pic_num=i) for i in range(2 if kw.get("fields") else 1)]
    return kw, cf, pics


def enough_picture_bytes(P, profile, tcs):
    """a picture_bytes value generous enough for qindex 0 in every slice"""
    need = 1
    for tc in tcs:
        for row in tc:
            for sc in row:
                if profile == "hq":
                    b = sum((P.calculate_coeffs_bits(c[0]) + 7) // 8 for c in sc)
                else:
                    b = (P.calculate_coeffs_bits(sc[0][0]) + P.calculate_coeffs_bits(P.interleave(sc[1][0], sc[2][0])) + 7 + 24) // 8 + 1
                need = max(need, b)
    n = len(tcs[0]) * len(tcs[0][0])
    return n * (need + 4 + 2)


def run_config(ctx, I, inp, cases=None, verbose=False):
    """encode, serialise, validate; property oracle; optionally collect correspondence cases. Returns bucket."""
    encoder, P, T, S, WF, CDF = I
    kw, cf, pics = build(I, inp)
    profile = kw["profile"]
    mins = inp.get("minimum_slice_size_scaler", 1)
    # encoder side: coefficient arrays the slices are gathered from, and the slices
    tcs, enc_states = [], []
    for pic in pics:
        with Capture(P, "picture_encode", lambda st: st) as cap:
            tcs.append(H14.plain_tc(P.transform_and_slice_picture(cf, pic)))
        enc_states.append(cap.got[0])
    if not kw["lossless"]:
        kw["picture_bytes"] = inp["config"]["picture_bytes"] = enough_picture_bytes(P, profile, tcs)
        cf = common.make_codec_features(**kw)
    kind = "lossless" if kw["lossless"] else "lossy-q0"
    try:
        seq = encoder.make_sequence(cf, pics, minimum_slice_size_scaler=mins)
    except Exception as e:
        from vc2_conformance.encoder.exceptions import UnsatisfiableCodecFeaturesError
        if isinstance(e, UnsatisfiableCodecFeaturesError) and not kw["lossless"]:
            return "skipped-insufficient"
        ctx.violation(kind + "-encoder-raises:" + type(e).__name__, inp, "make_sequence raises %r" % (e,))
        return "encoder-raises"
    coded = H14.get_pictures(seq, profile)
    qs = [sl["qindex"] for (sls, _) in coded for sl in sls]
    if any(q != 0 for q in qs):
        return "skipped-qindex-nonzero"  # outside the property's hypothesis
    try:
        data = common.serialise([seq])
    except Exception as e:
        ctx.violation(kind + "-encoder-output-not-serialisable:" + type(e).__name__, inp, "serialising the encoder's output raises %r" % (e,))
        if verbose:
            print("serialising raised", repr(e))
        return "serialise-raises"
    with Capture(S, "picture_decode", grab_decoder) as dcap:
        verdict, exc, out, _ = common.validate(data)
    if verbose:
        print("config", {k: v for k, v in inp["config"].items()}, "verdict", verdict, "pictures", len(out))
    if verdict != "accept":
        ctx.violation(kind + "-stream-rejected:" + verdict, inp, "validator says %s: %r" % (verdict, exc))
        return "rejected"
    if len(out) != len(pics):
        ctx.violation(kind + "-picture-count", inp, "%d pictures decoded, %d encoded" % (len(out), len(pics)))
        return "count"
    for i, (pic, (dec, _, _)) in enumerate(zip(pics, out)):
        if not common.pictures_equal(pic, dec) or dec.get("pic_num") != pic["pic_num"]:
            diffs = [(c, y, x, pic[c][y][x], dec[c][y][x]) for c in ("Y", "C1", "C2") for y in range(len(pic[c]))
                     for x in range(len(pic[c][y])) if pic[c][y][x] != dec[c][y][x]][:5]
            ctx.violation(kind + "-roundtrip-differs", dict(inp, picture=i), "decoded picture %d differs from the input at (comp,y,x,in,out) %r" % (i, diffs),
                          observed=diffs)
            if verbose:
                print("picture", i, "DIFFERS", diffs)
            return "differs"
    if verbose:
        print("all %d pictures reconstructed exactly" % len(pics))
    if cases is not None:
        for pic, tc, est, (sls, s), dec in zip(pics, tcs, enc_states, coded, dcap.got):
            args = st_args(est, cf)
            qm = est["quant_matrix"]
            # gather: arrays (after the encoder's DC prediction) -> slices
            b3 = []
            for t in ("y_transform", "c1_transform", "c2_transform"):
                b3.append("[" + "; ".join("(%s, %s, %s)" % (cz(l), cz(qm[l][o]), band_lit(a)) for (l, o, a) in bands_in_order(est[t])) + "]")
            cases["gather"].append("(%s, (%s, %s, %s), %s)" % (clist(args), b3[0], b3[1], b3[2], H14.rows_lit(tc)))
            # lossless packer
            if kw["lossless"]:
                s2, td = P.make_transform_data_hq_lossless(H14.real_tc(P, tc), mins)
                cases["lossless"].append("(%s, %s, (%s, [%s]))" % (H14.rows_lit(tc), cz(mins), cz(s2),
                                                                  "; ".join(H14.slice_obs_lit(*o) for o in H14.hq_obs(td))))
            # scatter: slice coefficient lists -> decoder arrays at picture_decode
            sx, sy = kw["slices_x"], kw["slices_y"]
            shape = [(l, qm[l][o]) for (l, o, a) in bands_in_order(est["y_transform"])]
            if profile == "hq":
                lists = [[[list(sls[y * sx + x][t]) for x in range(sx)] for y in range(sy)] for t in ("y_transform", "c1_transform", "c2_transform")]
            else:
                lists = [[[list(sls[y * sx + x][t]) for x in range(sx)] for y in range(sy)] for t in ("y_transform", "c_transform")] + [[]]
            ll = ["[" + "; ".join("[" + "; ".join(clist(v) for v in row) + "]" for row in rows) + "]" for rows in lists]
            obs = ["[" + "; ".join(band_lit(a) for (l, o, a) in bands_in_order(dec[t])) + "]" for t in ("y_transform", "c1_transform", "c2_transform")]
            cases["scatter"].append("(%s, %s, [%s], (%s, %s, %s), (%s, %s, %s))" % (
                clist(args), cbool(profile == "ld"), "; ".join("(%s, %s)" % (cz(l), cz(q)) for (l, q) in shape), ll[0], ll[1], ll[2], obs[0], obs[1], obs[2]))
            # C04 x C11 adaptor: picture -> subband list (order, levels, orientations, shapes, values) and back
            lit, perturbed = adaptor_case(ctx.rng, est, cf, pic)
            cases["adaptor"].append(lit)
            ctx.count(1, key=("adaptor", repr(inp), pic.get("pic_num")) if cf["dwt_depth"] + cf["dwt_depth_ho"] > 0 else None,
                      bucket="corr-adaptor-" + ("perturbed" if perturbed else "exact"))
            cases["meta"].append(inp)
    return kind + "-" + profile


# ------------------------------------------------------------------------------- DC prediction
def rand_band(rng):
    h = rng.choice([0, 1, 1, 2, 3, 4, 5])
    w = rng.choice([0, 1, 2, 3, 4, 6])
    mag = rng.choice([3, 300, 1 << 20, 1 << 70])
    return [[rng.randint(-mag, mag) for _ in range(w)] for _ in range(h)]


def corr_dc(ctx, I):
    encoder, P, T, S, WF, CDF = I
    cases, meta = [], []
    for _ in range(ctx.pick(300, 3000)):
        b = rand_band(ctx.rng)
        e = deepcopy(b)
        P.apply_dc_prediction(e)
        d = deepcopy(b)
        T.dc_prediction(d)
        # the property's own statement on the implementation
        r = deepcopy(e)
        T.dc_prediction(r)
        if r != b:
            ctx.violation("dc_prediction-does-not-undo-apply_dc_prediction", {"band": b}, "round trip changes the band", observed=r, expected=b)
        cases.append("(%s, %s, %s)" % (band_lit(b), band_lit(e), band_lit(d)))
        meta.append(b)
        ctx.count(1, key=("dc", repr(b)) if len(b) > 1 and len(b[0]) > 1 else None, bucket="corr-dc")
    bad = ctx.coq_check_cases("dc", ["Base.PyZ", "Model.EncoderSlices", "Corr.C04"], "check_dc", cases, shard=100)
    for i in (bad or []):
        ctx.obligation("corr:dc prediction agrees with the model", False, "corr-shard", "differ at band %r" % (meta[i],))


def corr_lossless_synthetic(ctx, I, cases):
    """the lossless packer on slices whose sizes sit at the slice_size_scaler thresholds (255*m bytes)"""
    encoder, P, T, S, WF, CDF = I
    rng = ctx.rng

    def comp():
        if rng.random() < 0.3:
            return ([0] * rng.randint(0, 3), [0] * 3)
        nbytes = 255 * rng.choice([1, 1, 2, 3, 5]) + rng.choice([-1, 0, 0, 1])
        bits = 8 * nbytes + rng.choice([0, 0, -2, 2, -6])
        vals = [rng.choice([1, -1]) * (1 << ((bits - 2) // 2))] + [0] * rng.randint(0, 2)
        return (vals, [0] * len(vals))
    for _ in range(ctx.pick(40, 400)):
        tc = [[(comp(), comp(), comp()) for _ in range(rng.choice([1, 2]))] for _ in range(rng.choice([1, 2]))]
        mins = rng.choice([1, 1, 1, 2, 4])
        s, td = P.make_transform_data_hq_lossless(H14.real_tc(P, tc), mins)
        for k, sl in enumerate(td["hq_slices"]):
            for name, t in (("slice_y_length", "y_transform"), ("slice_c1_length", "c1_transform"), ("slice_c2_length", "c2_transform")):
                if not (0 <= sl[name] <= 255) or 8 * s * sl[name] < P.calculate_coeffs_bits(list(sl[t])):
                    ctx.violation("lossless-packer-length-field", {"coeffs": tc, "minimum_slice_size_scaler": mins},
                                  "%s = %d with slice_size_scaler %d for %d bits of coefficients (8-bit field)" % (
                                      name, sl[name], s, P.calculate_coeffs_bits(list(sl[t]))), observed=sl[name])
        cases["lossless"].append("(%s, %s, (%s, [%s]))" % (H14.rows_lit(tc), cz(mins), cz(s), "; ".join(H14.slice_obs_lit(*o) for o in H14.hq_obs(td))))
        ctx.count(1, key=("lossless-synth", repr(tc), mins), bucket="corr-lossless-synthetic-scaler%d" % min(s, 4))


def run(ctx):
    I = impl()
    rng = ctx.rng
    ctx.extra["rule"] = (
        "oracle: random small configurations (common.random_small_config: lossless HQ, and lossy HQ/LD with picture_bytes raised until every "
        "slice gets qindex 0; all wavelet pairs, symmetric/asymmetric depths, 1-4 x 1-3 slices, fragments, fields (two pictures), subsampling, "
        "bit depths 1-16 and up to 32, custom matrices, minimum_slice_size_scaler 1-7) x picture kinds (noise, zeros, max, mid, extremes, ramp): "
        "real make_sequence -> autofill_and_serialise_stream -> real validator; decoded pictures must equal the inputs.  correspondence on the same "
        "runs: coefficient arrays captured at picture_encode -> slices (gather), make_transform_data_hq_lossless, slice coefficient lists -> arrays "
        "captured at the decoder's picture_decode (scatter, with DC prediction for LD); plus apply_dc_prediction / dc_prediction on random bands "
        "(0-5 x 0-6, magnitudes to 2^70); plus, for the end-to-end theorems, the real picture_encode / picture_decode against the adaptor "
        "pic_encode / pic_decode of Proofs/IntegChainDefs.v on the same pictures (subband order, levels, orientations, shapes, offset; decode half of "
        "the time on perturbed coefficients so that clipping occurs).  A case is non-trivial when the picture is not constant.")
    corr_dc(ctx, I)
    cases = {"gather": [], "lossless": [], "scatter": [], "adaptor": [], "meta": []}
    ncorr = ctx.pick(50, 700)
    for i in range(ctx.pick(200, 4000)):
        lossless = rng.random() < 0.55
        kw = common.random_small_config(rng, lossless=lossless, deep=rng.random() < 0.15,
                                        max_w=(12 if i < ncorr else 16), max_h=(8 if i < ncorr else 12))
        inp = {"config": common.describe_config(kw), "picture_kind": rng.choice(["noise", "zeros", "max", "mid", "extremes", "ramp", "noise", "extremes", "twin", "skew"]),
               "picture_seed": rng.randrange(1 << 30), "minimum_slice_size_scaler": rng.choice([1, 1, 1, 2, 3, 7])}
        b = run_config(ctx, I, inp, cases if i < ncorr else None)
        ctx.count(1, key=("cfg", repr(inp)) if inp["picture_kind"] in ("noise", "extremes", "ramp", "twin", "skew") else None, bucket="stack-" + b)
        if i < 2:
            ctx.sample(inp)
    corr_lossless_synthetic(ctx, I, cases)
    imports = ["Base.PyZ", "Model.EncoderSlices", "Corr.C04"]
    for name, chk, shard in (("gather", "check_gather", 6), ("lossless", "check_hq_lossless", 6), ("scatter", "check_scatter", 6)):
        bad = ctx.coq_check_cases(name, imports, chk, cases[name], shard=shard)
        ctx.count(len(cases[name]), bucket="corr-" + name)
        for k in (bad or []):
            ctx.obligation("corr:%s agrees with the model" % name, False, "corr-shard",
                           "differ at %r" % (cases["meta"][k] if name != "lossless" else cases[name][k][:300],))
    # the adaptor of the end-to-end theorems (C04_end_to_end_*): Proofs/IntegChainDefs.v pic_encode / pic_decode against the
    # real picture_encode / picture_decode, with the live filter table
    import vc2_data_tables as tables
    import C11 as H11
    tdef, _ = H11.table_def(tables)
    bad = ctx.coq_check_cases("adaptor", ["Base.PyZ", "Gen.StateRec", "Model.Lifting", "Model.Wavelet", "Model.EncoderSlices", "Corr.C04",
                                          "Proofs.IntegChainDefs"], "check_adaptor", cases["adaptor"], shard=6,
                              defs=tdef + ADAPTOR_DEFS)
    for k in (bad or []):
        ctx.obligation("corr:picture_encode/picture_decode subband order, orientations, shapes, offset and clip agree with the adaptor of "
                       "C04_end_to_end_* (IntegChainDefs.pic_encode / pic_decode)", False, "corr-shard", "differ at %r" % (cases["meta"][k],))
    ctx.trusted.append("Gen/Quant.v, Gen/ExpGolombLen.v, Gen/SliceSizes.v, Gen/VC2Math.v regenerated from /repo by the translator on this run")
    ctx.trusted.append("C04_end_to_end_*: Model/Lifting.v + Model/Wavelet.v are C11's hand models (tied by the C11 run); their composition with "
                       "offset/clip and the subband ordering (Proofs/IntegChainDefs.v) is tied here by the adaptor cases.  The byte-level container "
                       "around slices is covered only by the end-to-end oracle (encoder -> validator), not by the C04 theorems")


def replay(ctx, data):
    I = impl()
    inp = data["input"]
    print("replaying", data.get("key"))
    before = len(ctx.violations)
    if "coeffs" in inp:
        P = I[1]
        tc = [[tuple((list(c[0]), list(c[1])) for c in sc) for sc in row] for row in inp["coeffs"]]
        sc, td = P.make_transform_data_hq_lossless(H14.real_tc(P, tc), inp["minimum_slice_size_scaler"])
        lens = [[sl[n] for n in ("slice_y_length", "slice_c1_length", "slice_c2_length")] for sl in td["hq_slices"]]
        need = [[P.calculate_coeffs_bits(list(sl[t])) for t in ("y_transform", "c1_transform", "c2_transform")] for sl in td["hq_slices"]]
        print("slice_size_scaler", sc, "length fields", lens, "bits needed", need)
        bad = any(not (0 <= l <= 255) or 8 * sc * l < b for ls, bs_ in zip(lens, need) for l, b in zip(ls, bs_))
    elif "band" in inp:
        encoder, P, T = I[0], I[1], I[2]
        b = deepcopy(inp["band"])
        P.apply_dc_prediction(b)
        T.dc_prediction(b)
        print("band", inp["band"], "-> after apply_dc_prediction, dc_prediction:", b)
        bad = b != inp["band"]
    else:
        run_config(ctx, I, inp, None, verbose=True)
        bad = len(ctx.violations) > before
    for v in ctx.violations[before:]:
        print("VIOLATED:", v["key"], "-", v["description"])
    print("property violated on this input:", bad)
    return 1 if bad else 0
