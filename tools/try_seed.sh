#!/bin/sh
# tools/try_seed.sh <Cnn> <dir with patch.diff demo.py> [--no-suite]
# Confirms a seeded change (suite still passes, demo fails with it / passes without) in a scratch worktree
# and runs the property's check against that worktree.  Prints a summary; leaves nothing behind.
PID="$1"; DIR="$2"; NOSUITE="$3"
WT=/scratch/seedtest-$PID-$$
git -C /repo worktree add -q $WT HEAD || exit 9
cd $WT
if ! git apply "$DIR/patch.diff"; then echo "PATCH DOES NOT APPLY"; git -C /repo worktree remove --force $WT; exit 9; fi
mkdir -p /scratch/seedtest-cwd; cd /scratch/seedtest-cwd
echo "== demo on changed tree:"; PYTHONPATH=$WT timeout 600 /venv/bin/python "$DIR/demo.py" > /scratch/seedtest-$PID-demo1.log 2>&1; echo "exit $?"; tail -3 /scratch/seedtest-$PID-demo1.log
echo "== demo on unchanged tree:"; PYTHONPATH=/repo timeout 600 /venv/bin/python "$DIR/demo.py" > /scratch/seedtest-$PID-demo0.log 2>&1; echo "exit $?"; tail -2 /scratch/seedtest-$PID-demo0.log
if [ "$NOSUITE" != "--no-suite" ]; then
  echo "== test suite on changed tree:"
  cd $WT
  PYTHONPATH=$WT env -u BBC_VC2_CONFORMANCE_VERIF /venv/bin/python -m pytest -q -p no:cacheprovider --timeout=900 --continue-on-collection-errors --junitxml=/scratch/seedtest-$PID.xml > /scratch/seedtest-$PID-suite.log 2>&1
  tail -1 /scratch/seedtest-$PID-suite.log
  /venv/bin/python - <<PY
import json, xml.etree.ElementTree as ET
b = json.load(open('/root/.vp/BASELINE.json')); stable = set(b['stable_pass']); passed = set()
for tc in ET.parse('/scratch/seedtest-$PID.xml').getroot().iter('testcase'):
    if not any(ch.tag in ('failure','error','skipped') for ch in tc): passed.add((tc.get('classname') + '::' + tc.get('name')).replace('$WT', '/repo'))
missing = sorted(stable - passed)
print("stable tests passing: %d/%d" % (len(stable & passed), len(stable)), missing[:5])
PY
fi
echo "== check $PID against changed tree:"
cd /verif && VERIF_REPO=$WT ./check $PID 2>&1 | grep -E "VIOLATION|KNOWN-FINDING|obligations" | cut -c1-160 | head -20
cp /verif/build/evidence-scratch/$PID.json /scratch/seedtest-$PID-evidence.json 2>/dev/null
mkdir -p /scratch/seedtest-$PID-replays; cp /verif/replays/$PID-*.json /scratch/seedtest-$PID-replays/ 2>/dev/null
git -C /repo worktree remove --force $WT
