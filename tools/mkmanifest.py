"""Writes /verif/MANIFEST.json from the table below (run after adding a check)."""
import json
import os

VERIF = os.path.dirname(os.path.dirname(os.path.abspath(__file__)))

TRUST = ("Coq 8.16.1 kernel (vm_compute yes, native_compute no); no axioms declared (Print Assumptions output recorded in the "
         "evidence file on every run); ")
T_TIE = TRUST + ("tie T: model regenerated from /repo's source by tools/pytrans.py on every run (translator trusted, "
                 "cross-checked by differential evaluation of the generated model in Coq vs the implementation). ")
C_TIE = TRUST + ("tie C: hand-written Gallina model tied to the code by the correspondence run (model evaluated by vm_compute "
                 "inside coqc on the same inputs as the implementation; generators/canonicalisation trusted). ")

# id -> (claimed?, level text, note, technique, design_ref)
CHECKS = {
    "C12": (True,
            "Theorems over the regenerated model of pseudocode/quantization.py for ALL integers c and all indices idx>=0: sign kept or zero, "
            "4|c-iq(fq(c))| < quant_factor, index 0 lossless, quant_factor strictly increasing, inverse_quant(1,.) strictly increasing from "
            "MINIMUM_DISTINCT_QINDEX (read from the source) and not below; no exception for idx>=0.",
            T_TIE, "Coq proof (lia over Euclidean division) about a model regenerated from the Python source; differential run validates the translator",
            "DESIGN.md 3 C12"),
    "C03": (True,
            "Theorems: fragment split satisfies the validator's continuity rule for every slice grid/fragment size; lossless HQ length fields fit 8 bits (arithmetic re-extracted from the source each run); C03_structure: for the data-unit-level model of make_sequence + autofill (picture units / fragment split -> model of make_matching_sequence with the generic pattern, the level's pattern and any extra patterns -> data_unit_makers -> C07's autofilled major_version -> offsets) the validator model, with its ordering automata instantiated by the proved C18 Matcher, satisfies all ten structure rules and units_valid and ACCEPTS, for any level table, pictures and unit lengths (version rule via a proved equivalence of C01's and C07's formulations; ordering rules via C19_sound + C18). Remaining hypotheses: the search returned, the patterns' '$' discipline, and for level 0 only that no end_of_sequence precedes the last unit. PARTIAL: payload validity and the decoded parameters/numbers over the configuration space are decided by the differential run encoder -> serialiser -> validator (random configurations incl. random video metadata).",
            C_TIE + "Fragment-split model compared with make_picture_data_units on a grid; Gen/EncLossless is tie T (statement-level extraction); field validity inside data units is outside the model.",
            "Coq proof of the fragment-split/continuity refinement + differential encoder->validator run over a random configuration space",
            "DESIGN.md 3 C03"),
    "C05": (True,
            "Theorems: picture-number literals of the generator (regenerated from source) and any legal consecutive numbering satisfy the validator's rule; metamorphic lemmas: slice padding bits irrelevant (all slices, LD and HQ; from C08); padding/auxiliary units and repeated identical headers keep verdict and observed picture numbers with the generic pattern concrete (only the level's pattern remains a hypothesis, none for level 0); absent next_parse_offset irrelevant; concatenation = concatenation (C10); alternative header encodings decode identically (C15). PARTIAL: prefix bytes, extended-transform flags, slice size scaler, picture CONTENT under stream edits, conformance and name uniqueness are decided by running every registered generator (plus a focused sweep with multi-row/column slice grids) through the real serialiser and validator.",
            T_TIE + "Metamorphic lemmas are over the hand models of C08/C10/C15 (tie C).",
            "Coq proof over source-extracted test-case constants + differential run of all decoder test case generators",
            "DESIGN.md 3 C05"),
    "C24": (True,
            "Theorem: for command families whose write sets are pairwise path-disjoint, every execution (any serial order, any concurrent "
            "interleaving of the atomic writes, any length) leaves the same file system. PARTIAL: the hypotheses are measured on the real "
            "worker commands (per-command write sets by tree diff, disjointness) and determinism across processes/hash seeds is decided by "
            "comparing the trees of the serial run, a shuffled one-by-one run and a 16-way concurrent run byte for byte.",
            C_TIE + "Process scheduling, pickle, the OS file system and hash randomisation are runtime behaviour the model cannot exhibit; "
            "natural pictures are replaced by the test suite's small ones in the harness's subprocesses.",
            "Coq proof of write-commutation + measured hypotheses + differential serial/shuffled/concurrent generator runs",
            "DESIGN.md 3 C24"),
    "C25": (True,
            "Theorems on the command's logic core: exit status 0 iff the decoder accepts, 2 iff it raises a conformance error, never 3 unless "
            "another exception occurs (excluded by C02); the output callback writes picture k to pattern%k for every number of pictures, "
            "numbered from 0, no file overwritten for an injective pattern. PARTIAL: the real main() (argparse, file contents, located "
            "explanation) is compared with the in-process decoder on encoder streams and mutants with sampled filename patterns.",
            C_TIE + "The Cli model is a transcription of run()/_output_picture; file I/O, JSON/raw writers, argparse are trusted/differentially tested.",
            "Coq proof on the exit-status/numbering state machine + differential run of the real command",
            "DESIGN.md 3 C25"),
    "C26": (True,
            "Theorems on the viewer's classification: status 255 iff the failure is classed as a viewer-internal exception; every other "
            "outcome yields a status in {0,1,2,3,4}; tracebacks (any depth) whose innermost viewer/vc2 frame lies in bitstream/vc2.py are "
            "parse failures. PARTIAL (weakest of the 28): that the display code itself never raises is decided only by running the real "
            "viewer main() on random bytes and mutated streams with default and sampled options.",
            C_TIE + "The display callback, argparse and the deserialiser are exercised by the differential run only.",
            "Coq proof on the status classification + fuzz-style differential run of the real viewer",
            "DESIGN.md 3 C26"),
    "C23": (True,
            "Theorems (every depth >= 1, unbounded): sample pack/unpack round trip, padding bits masked, whole-picture and file round trip with "
            "the dimensions the code computes, compare tool exits 0 iff metadata and all samples are equal, reported counts = number of differing "
            "positions, metadata precedence, exit-code set, directory mode. PARTIAL: numpy object arithmetic, json, str/int, the file system and the "
            "float PSNR are trusted; domain: every component non-empty, excursions >= 1.",
            C_TIE + "intlog2, picture_dimensions, video_depth and the bytes-per-sample expression come from the regenerated translation of vc2_math.py, video_parameters.py and file_format.py (tie T); the hand dimension/depth/bytes-per-sample functions are proved equal to them (C23_dimensions_match_source, C23_bytes_per_sample_matches_source).",
            "Coq proofs over hand models of file_format / picture_compare + differential run on real files at depths 1..64 (and beyond)",
            "DESIGN.md 3 C23"),
    "C22": (True,
            "Theorems: whatever integer reaches the clip the sample lies in [0, 2^depth-1]; picture counts (>= 1, even for fields), numbering from 0, "
            "line counts and plane sizes equal to dimensions_and_depths for any regular format. PARTIAL: the float colour pipeline (numpy, matrices, "
            "transfer functions, PIL) is not modelled and is covered only by running every generator over a sweep of regular formats "
            "(depths 1..63 plus a probe at >= 64 bits: one known finding).",
            C_TIE + "intlog2, picture_dimensions and video_depth from the regenerated translation (tie T); the hand dimension functions are proved equal to them (C22_component_dims_match_source).",
            "Coq proofs over the integer tail of the generators + oracle sweep of all generators on regular formats",
            "DESIGN.md 3 C22"),
    "C13": (True,
            "21 theorems over the regenerated model of slice_sizes.py, for all integer states with slices>=1, sizes>=0, depths>=0: per-dimension "
            "and 2-D slice partition (in order, disjoint, exists-unique cover of every coefficient), subband sizes = least-multiple padded picture "
            "divided exactly by the per-level power of two and equal to the transform's synthesis shapes, same-dimensions flag <-> all slice sizes "
            "equal (both directions, plus strengthened forms), slice_bytes non-negative and telescoping to floor(slices*num/den), no call raises.",
            T_TIE + "synth_shape (what dwt/idwt produce) is tied to the real dwt() array shapes by the oracle on each run, not to the C11 model.",
            "Coq proofs (lia/nia with Euclidean division, induction for cover/telescoping) about a model regenerated from the Python source",
            "DESIGN.md 3 C13"),
    "C20": (True,
            "40 theorems over byte-level state-machine models of BitstreamWriter, BitstreamReader and the validator's reader, unbounded in values and "
            "lengths: every primitive round-trips through both readers with exact position advance, exp-Golomb length functions (regenerated from "
            "source) equal the bits written, out-of-range values raise and write nothing, bounded-block laws for zero and negative lengths, both readers "
            "agree on every byte string and every read program for block lengths >= 0 (negative lengths: refutation witness + proof they are "
            "unreachable in the validator), tell/seek laws.",
            C_TIE + "exp_golomb length functions are tie T. record_bitstream_start/finish only by correspondence.",
            "Coq refinement proofs on hand models + exhaustive (10-bit) and random differential runs against both real readers and the writer",
            "DESIGN.md 3 C20"),
    "C07": (True,
            "15 theorems over a model of the four autofill passes, for all stream descriptions: explicit values preserved, automatic picture numbers "
            "(count up, restart per sequence, wrap at 2^32, repeat across fragments), automatic parse offsets = true distances (next = 0 iff last unit "
            "of a sequence), automatic major_version = least version accepted by an independent model of the validator's version rules built from the "
            "regenerated version_constraints translation. 'Omitted fields take defaults' is a table comparison in the harness.",
            C_TIE + "version implications are tie T. Unit byte lengths are parameters measured on the serialised bytes.",
            "Coq proofs on a hand model of vc2_autofill + regenerated version rules; differential run through the real serialiser/deserialiser/validator",
            "DESIGN.md 3 C07"),
    "C28": (True,
            "Theorems for all inputs and all enum/default tables over a step-by-step model of read_dict_list_csv and read_codec_features_csv: an Ok "
            "result has every field in its documented domain (enums, minimums, picture_bytes iff lossy, matrix shape for the declared depths) and unique "
            "names; the outcome is Ok or InvalidCodecFeaturesError, never another class. PARTIAL: csv.reader, str.strip/lower/split and int() are "
            "oracles whose results the model's cells carry (tied by ~6000 differential cases per run).",
            C_TIE + "Text-level primitives are oracles (total: value or ValueError).",
            "Coq proofs over a control-flow model with text primitives as oracles + cell-by-cell mutation and random CSV differential run",
            "DESIGN.md 3 C28"),
    "C15": (True,
            "Theorems for arbitrary data tables and level tables: every header the enumeration yields decodes to exactly the configured parameters/coding mode; all level-checked keys are admitted by one column; ACCEPTANCE: the validator's sequence-header function is modelled as its ordered list of checks and every enumerated header of a format_valid configuration passes all non-level checks given a major_version at least the header's version bound (the autofilled version suffices), and all incremental level checks when the admitting columns admit the written versions (known finding otherwise); format_valid is proved NECESSARY as well. PARTIAL: the tie between the level predicate and allowed_values_for is C17's theorem; stream-level checks are C01's; ~33k generated headers and ~300 deliberately invalid targets are validated per run (first error class compared).",
            C_TIE + "Candidate base-format list and allowed-value emptiness are model inputs dumped from the live functions.",
            "Coq proofs on a hand model of the header option enumeration and decoder + differential run through the real validator under real levels",
            "DESIGN.md 3 C15"),
    "C16": (True,
            "Theorems on the encoder's level decision logic: extended-transform flag choice sound/complete/prefers False, coded ETP values describe the "
            "transform, all decided or filtered keys admitted by the column, unsatisfiable iff no option. The property as stated is REFUTED on the "
            "implementation for eight recorded keys (known findings; model witness for major_version); ordering pattern and slice-level keys are decided "
            "by the oracle with synthetic single-column tables swapped in for encoder and validator.",
            C_TIE + "Synthetic tables are swapped in-process; the model describes the repaired ETP behaviour (fix c482ac9).",
            "Coq proofs on the decision logic + oracle over synthetic level tables; known findings keyed per constrained key",
            "DESIGN.md 3 C16"),
    "C27": (True,
            "19 theorems over a model of fixeddict.py generic in key and value type: for every accepted construction and every operation history "
            "(setitem, setdefault, update, |=, copies, pickle, removals) stored keys are a subset of the declared entries; exact rejection/retention "
            "theorems; copies and pickle round trips are identical objects of the same class; forged pickles cannot yield undeclared keys; refutation "
            "witness for the pinned (unfixed) |= and proof that it was the only hole.",
            C_TIE + "CPython's dispatch of C-level dict methods to the Python overrides is runtime behaviour covered only by the differential run on all 38 library types.",
            "Coq invariant proof by induction over operation histories + differential run after every operation on all fixeddict types",
            "DESIGN.md 3 C27"),
    "C17": (True,
            "All five statements of the property are theorems on hand models of constraint_table.py and assert_level_constraint: value-set containment "
            "after any tree of add_value/add_range/union for every set iteration order (no lo<=hi hypothesis needed), disjointness correct for lo<=hi "
            "ranges, allowed_values_for <-> is_allowed_combination for tables without empty-dict columns and fresh keys, one-at-a-time checking <-> every "
            "prefix allowed for distinct keys (exact one-column rule for repeated keys), CSV cell semantics with dittos. Refutation witnesses show each "
            "hypothesis is needed. PARTIAL only for CSV text tokenisation.",
            C_TIE + "Python sets are modelled up to permutation; csv.reader/strip/lower/int/partition are outside the model (exercised by printed tables and the shipped CSVs).",
            "Coq proofs by induction over operation trees closed under permutation + differential run incl. exhaustive small value sets",
            "DESIGN.md 3 C17"),
    "C11": (True,
            "8 theorems over hand models of the lifting stages and the 2-D transform with the filter tables as VARIABLES: every lift is undone by the "
            "swapped lift (sequential in-place loop, any L, D, taps, S), 1-D round trip for every stage list, and C11_roundtrip: for all filters (hence all "
            "7x7 pairs), all depths d, dh >= 0, all picture sizes >= 1x1 and all integer samples, idwt_pad_removal(idwt(dwt(dwt_pad_addition pic))) = pic; "
            "every subband of dwt has the subband_width/height of the regenerated slice geometry.",
            C_TIE + "Padding sizes and shapes use Gen/SliceSizes.v (tie T). The model is faithful where Python returns normally (S>=0, len(taps)>=L, rectangular rows).",
            "Coq proofs (loop invariant: writes and reads have opposite parity; induction on depth) + differential run comparing every coefficient array in both directions",
            "DESIGN.md 3 C11"),
    "C18": (True,
            "11 theorems for ALL patterns and ALL symbol sequences over a model of the parser, Thompson construction and Matcher (repaired, directed empty "
            "transitions): NFA paths <-> language, matcher alive <-> viable prefix, match_symbol exact and state unchanged on failure, is_complete <-> match, "
            "valid_next_symbols (symbols, WILDCARD, END_OF_SEQUENCE) exact, under the property's hypothesis on '$' (shown necessary). The pinned behaviour is "
            "proved to violate the property and to only over-approximate. Parser fuel sufficient; print/parse language-equal.",
            C_TIE + "Tokenizer not modelled (harness reading compared with tokenize_regex). Thorough tier uses an OCaml extraction (ExtrOcamlBasic only) cross-checked against vm_compute.",
            "Coq proofs (path semantics, construction invariants, closure termination) + exhaustive small-pattern differential run through the real parser and Matcher + derivative oracle",
            "DESIGN.md 3 C18"),
    "C14": (True,
            "Theorems, unbounded in coefficients/slice counts/picture_bytes, over a model of quantize_to_fit and both lossy packers built on the regenerated "
            "quantisation, exp-Golomb length, slice_bytes and safe-scaler arithmetic: chosen qindex fits, is >= minimum and minimal (search terminates; fits is "
            "monotone), qindex within its 7/8-bit field or the Insufficient*PictureBytes error (repaired behaviour), every HQ length field in 0..255 for any "
            "picture_bytes and scaler override, HQ total within slice_size_scaler of picture_bytes (exact formula), LD slices exactly slice_bytes with "
            "slice_y_length < 2^length_bits, LD sizes sum to picture_bytes.",
            C_TIE + "Arithmetic is tie T (Gen/Quant, ExpGolombLen, SliceSizes, EncBudget). Slice wire sizes are measured on the real serialiser.",
            "Coq proofs on a hand model over translated arithmetic + 560 correspondence cases + full-stack oracle re-checking minimality by exhaustive re-quantisation",
            "DESIGN.md 3 C04/C14"),
    "C04": (True,
            'Theorems: DC prediction round trip, index 0 identity, truncated-trailing-zero blocks, gather/scatter inverse (C13 cover lemmas), lossless and index-0 slices round-trip with 8-bit length fields, and C04_end_to_end_{hq_lossless,hq_lossy_q0,ld_lossy_q0}: with the CONCRETE transform of C11 (filters as variables), for all depths, slice grids, picture sizes and in-range pictures, decode_model(encode p) = p -- the only remaining hypothesis is that the quantisation matrix has an entry for every level/orientation present. PARTIAL: the byte container around the slices is covered by the full-stack oracle (exact picture equality through the real validator).',
            C_TIE + "Uses Gen/* (tie T), Proofs/SliceSizesProofs.v and the C11 development; the adaptor between the two models is tied by its own correspondence cases against picture_encode/picture_decode.",
            "Coq proofs on hand model over translated arithmetic + full-stack lossless / qindex-0 round-trip oracle",
            "DESIGN.md 3 C04/C14"),
    "C08": (True,
            "Theorems for all bit strings, slice parameters and fuel over self-contained models of BOTH slice readers (validator: bits_left/flush_inputb; "
            "deserialiser: bounded blocks, clamped slice_y_length): when the validator reads a slice the deserialiser reads it too, leaves the same unread bits, "
            "and its dequantised coefficients equal the validator's; qindex/length fields agree; they fail together except for InvalidSliceYLength, raised by the "
            "validator exactly when the deserialiser clamps; padding bits are irrelevant; whole slice sequences agree. Header part: for every bit string, whenever the validator model reads a sequence header, parse_info, picture header, "
            "transform parameters (any version/profile, custom matrices of any depth) or fragment header without a conformance error, the deserialiser's description "
            "program run by the SerDes interpreter succeeds on the same bits, consumes the same number of bits and stores field for field the validator's values "
            "(C08_*_agree); the descriptions are tied to bitstream/vc2.py by differential runs (C06 harness, tools/harness/C08_headers.py). PARTIAL: padding/auxiliary "
            "bodies, the whole-data-unit/stream composition and behaviour on rejected streams are compared only by the differential oracle.",
            C_TIE + "Geometry/quantisation/intlog2/mean are tie T.",
            "Coq proofs relating two reader models + per-slice differential run of both real parsers + whole-stream oracle",
            "DESIGN.md 3 C08"),
    "C09": (True,
            "Theorems: for arbitrary integer coefficient arrays the clipped+offset samples lie in [0, 2^depth-1] with depth = intlog2(excursion+1) >= 1; pad removal "
            "yields exactly width x height; picture number = coded number; over any unit list one picture is output per picture unit and per completed fragmented "
            "picture, carrying the coded number. The inverse transform itself is C11's.",
            C_TIE + "clip/intlog2/picture_dimensions/video_depth are tie T; the hand dimension and depth functions are proved equal to the translated source (C09_dimensions_and_depth_match_source).",
            "Coq proofs on hand models of picture_decode's tail and the call sites + differential run on re-packed extreme/random/dangling coefficient streams",
            "DESIGN.md 3 C09"),
    "C01": (True,
            "Theorems for unit lists of ANY length and ANY deterministic ordering matchers over a statement-by-statement model of the validator's "
            "stream-level state machine (option-valued fields where the code tests presence): for individually valid data units, run = Accept <-> ten "
            "independent rule checkers all hold (ends, offsets, identical headers, profile codes, version support+minimality, picture numbers mod 2^32 and "
            "field parity, whole frames, fragments, level pattern, generic pattern); no rejection is a non-conformance exception; a stream of sequences is "
            "accepted iff each is. Witnesses show the two crashes of the pinned code.",
            C_TIE + "Matchers are abstract automata in the theorems and table dumps of the real Matcher in the correspondence run; a permissive level table lets tiny pictures carry real levels.",
            "Coq product-automaton refinement proof + differential run on ~7700 real byte streams (exhaustive orderings up to length 4-5, structured mutations) + independent rule oracle",
            "DESIGN.md 3 C01"),
    "C10": (True,
            "Theorems: the regenerated retained_state_fields are I/O-only and every State entry the stream model touches is erased by reset_state; a "
            "concatenation is accepted iff each sequence is accepted alone (any number, any position), and the observed picture list of the concatenation is the "
            "concatenation of the per-sequence lists, picture numbers AND contents, for every decoding function of the sequence-local state and the unit payloads "
            "(C10_content_is_concatenated); all State entry names regenerated from /repo are proved partitioned into the retained I/O entries and sequence-local "
            "entries that reset_state erases (C10_state_entries_partition, C10_sequence_starts_from_initial_state). PARTIAL: that the concrete decoder is such a "
            "function of the sequence's own header and payloads is compared by the differential run only (real sample arrays hashed, differing configurations, both orders).",
            C_TIE + "Field lists are tie T (Gen/StateFields.v, incl. a shape check of reset_state).",
            "Coq proofs on the stream model + regenerated state field lists + differential run on lists of up to 3-4 differing sequences with a non-conformant one at each position",
            "DESIGN.md 3 C10"),
    "C02": (True,
            "Stage 1: the stream-level state machine over abstract data units never ends in a non-conformance exception. Stage 2 (over actual bits): for all bit strings, all tables satisfying the decidable consistency predicate tables_ok (evaluated on the live vc2_data_tables each run), all level predicates and all matcher answers, parse_info, sequence_header, picture_header + transform_parameters, fragment_header and a whole picture data unit including every slice (composed with C08's readers) end in Ok / a ConformanceError class / UnexpectedEndOfStream -- never a Python exception, never out of fuel; every state[...] of an absent key is an explicit crash in the model and a witness shows crashes are reachable when tables_ok fails. PARTIAL: slice-reader KeyError/IndexError rest on C13 and the matrix shape, level assertions inside slices, wavelet/picture_decode, the bit-level refinement of the stream model, and the exception classes' explain/offending_offset/bitstream_viewer_hint are covered by the byte-mutation run (10 000 mutants per quick run) only.",
            C_TIE + "Headers.v is compared field-by-field and error-class-by-error-class with the real decoder functions (~1300 cases per run, real and permissive level tables); declared sizes are capped as the property allows.",
            'Coq no-crash proofs (stream level; bit-level weakest-precondition calculus over a state/error monad) + differential header parsing + byte-level mutation run with all reporting methods exercised',
            "DESIGN.md 3 C02"),
    "C21": (True,
            "All five statements proved for ALL programs (dependent free monad: arbitrary data-dependent control flow), descriptions and default tables over a model "
            "of the SerDes framework with Python's parent/child aliasing: serialise-then-deserialise returns the same results, consumes exactly the produced bits and "
            "yields a description equal up to zero-padding/defaults; unused value -> UnusedTargetError; missing value -> KeyError/ListTargetExhausted unless a default; the "
            "deserialiser only ever extends the root (second write = ReusedTarget); set_context_type keeps the tree consistent on every reachable state.",
            C_TIE + "Self-contained bit-list I/O inside the model; strictly typed leaf values (duck-typed cases filtered).",
            "Coq proofs by induction on free-monad programs + 2000 random program/description cases per run against the real Serialiser/Deserialiser with real fixeddict types",
            "DESIGN.md 3 C21"),
    "C06": (True,
            "Theorems for ALL programs of the SerDes model in the class conv_ok (no is_target_complete, no negative lengths, hole-free computed values): "
            "if deserialising bits succeeds and verifies, serialising the resulting description with the same program returns the same results and writes "
            "exactly the consumed bits (incl. reads past bounded-block ends, block and byte-align padding), and re-deserialising gives a syntactically equal "
            "description. Five real vc2.py descriptions (parse_info+padding/aux, sequence_header, fragment_header, hq_slice, ld_slice with clamped lengths) are "
            "written as programs, proved conv_ok and compared with the real functions each run. Stream level (C06_stream_des_ser): the parse_stream/parse_sequence loops over ANY conv_ok data-unit bodies reproduce the "
            "input bits and re-deserialise to the same context (fuel exhaustion excluded by the statement); instantiated with sequence header, padding and "
            "auxiliary bodies. PARTIAL: picture/fragment bodies as functions of the decoder state set by the preceding sequence header enter the stream "
            "theorem as parameters and `_state` is modelled as a constant; that part is covered by the differential des->ser->des run on 1300+ parseable byte "
            "strings (encoder streams, mutants, hand-packed huge-value streams).",
            C_TIE + "Slice coefficient counts and slice_bytes passed to the slice programs come from the real slice_sizes functions.",
            "Coq proof of the des->ser converse by a path-wise 'future description' invariant + differential run on real streams and mutants",
            "DESIGN.md 3 C06"),
    "C19": (True,
            "Theorems over a model of the queue-based search built on the proved C18 matcher: every returned sequence contains the required symbols in order "
            "with only insertions and matches every pattern (full strength, all inputs/limits/priorities); the search terminates; the result does not depend on "
            "the iteration order of the candidate set. PARTIAL: completeness and shortestness over ALL completions are REFUTED by two machine-checked witnesses "
            "(known finding make_matching_sequence:greedy-continue); what the code computes is proved instead: a shortest GREEDY completion, impossibility iff no greedy completion.",
            C_TIE + "Fuel = the real call's iteration count from an instrumented deque; symbols numbered per case in sorted order.",
            "Coq BFS-queue invariant proofs over the C18 matcher theorems + differential run + exhaustive non-greedy reference search classifying every case",
            "DESIGN.md 3 C19"),
}

NOT_YET = "check not built yet (work in progress; see DESIGN.md section 7 work order)"


def main():
    props = [json.loads(l) for l in open(os.path.join(VERIF, "properties.jsonl"))]
    checks, na = [], []
    for p in props:
        pid = p["id"]
        c = CHECKS.get(pid)
        if c is None or not c[0]:
            na.append({"property_id": pid, "reason": (c[1] if c else NOT_YET)})
            continue
        checks.append({
            "property_id": pid,
            "quick_cmd": "./check %s --tier quick" % pid,
            "thorough_cmd": "./check %s --tier thorough" % pid,
            "evidence_file": "/verif/evidence/%s.json" % pid,
            "replay_cmd_template": "./check %s --replay {path}" % pid,
            "engine": "coq-proof+correspondence",
            "level_claimed": {"category": "proof", "text": c[1], "design_ref": c[4]},
            "level_note": c[2],
            "technique": c[3],
        })
    hooks_commits = []
    hp = os.path.join(VERIF, "hooks_commits.txt")
    if os.path.exists(hp):
        hooks_commits = [l.split()[0] for l in open(hp) if l.strip() and not l.startswith("#")]
    m = {
        "version": 1,
        "setup_cmd": "sh /verif/setup.sh",
        "hooks": {
            "guard": "BBC_VC2_CONFORMANCE_VERIF",
            "enable": "checks run the implementation in-process with BBC_VC2_CONFORMANCE_VERIF=1 and PYTHONPATH=/repo; no build step",
            "baseline_off_cmd": "cd /repo && env -u BBC_VC2_CONFORMANCE_VERIF /venv/bin/python -m pytest -ra -q -p no:cacheprovider --timeout=900 --continue-on-collection-errors",
            "source_commits": hooks_commits,
            "add_only": True,
        },
        "engines": [{
            "name": "coq-proof+correspondence",
            "path": "/verif/check",
            "serves_properties": [c["property_id"] for c in checks],
            "kind_free_text": "Rocq/Coq 8.16.1 development under /verif/coq (models, proofs, one Props/Cnn.v per property) re-checked "
                              "against /repo on every run: models of pure-integer modules are regenerated by a Python->Gallina translator, "
                              "hand models are compared with the implementation by evaluating them in coqc (vm_compute) on generated cases; "
                              "a property oracle on the implementation searches for a concrete failing input when anything breaks.",
        }],
        "checks": checks,
        "not_applicable": na,
        "notes": "Known findings and fixes: /verif/known_findings.txt. Seeded-change experiments: /verif/seeded/. Design: /verif/DESIGN.md.",
    }
    with open(os.path.join(VERIF, "MANIFEST.json"), "w") as f:
        json.dump(m, f, indent=1)
    print("claimed %d, not claimed %d" % (len(checks), len(na)))


if __name__ == "__main__":
    main()
