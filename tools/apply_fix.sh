#!/bin/sh
# tools/apply_fix.sh <patch.diff> "<fix: commit message>"
# applies the patch to /repo, runs the pinned test suite (guard off), compares with BASELINE stable_pass, commits.
set -e
PATCH="$1"; MSG="$2"
cd /repo
git apply --check "$PATCH"
git apply "$PATCH"
mkdir -p /scratch/junit
env -u BBC_VC2_CONFORMANCE_VERIF /venv/bin/python -m pytest -ra -q -p no:cacheprovider --timeout=900 --continue-on-collection-errors --junitxml=/scratch/junit/run.xml > /scratch/junit/run.log 2>&1 || true
tail -3 /scratch/junit/run.log
/venv/bin/python - <<'PY'
import json, xml.etree.ElementTree as ET, sys
b = json.load(open('/root/.vp/BASELINE.json'))
stable = set(b['stable_pass'])
passed = set()
for tc in ET.parse('/scratch/junit/run.xml').getroot().iter('testcase'):
    ok = not any(ch.tag in ('failure','error','skipped') for ch in tc)
    if ok:
        passed.add(tc.get('classname') + '::' + tc.get('name'))
missing = sorted(stable - passed)
print("stable tests passing: %d/%d" % (len(stable & passed), len(stable)))
if missing:
    print("NOT PASSING:", missing[:20]); sys.exit(1)
PY
git add -A
git commit -qm "$MSG"
git log --oneline | head -1
