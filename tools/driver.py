"""/verif/check <Cnn> [--tier quick|thorough] [--replay PATH] -- see vlib.py / DESIGN.md 2.3."""
from __future__ import print_function

import argparse
import importlib
import json
import os
import re
import sys
import time
import traceback

HERE = os.path.dirname(os.path.abspath(__file__))
sys.path.insert(0, HERE)
import vlib
from vlib import VERIF, COQ, BUILD, sh

TRUSTED_COMMON = [
    "Coq 8.16.1 kernel (coqc; vm_compute is used, native_compute is not)",
    "tools/pytrans.py + tools/gen_all.py: Python->Gallina translation (tie T), CPython int operators = mathematical integers",
    "tools/harness/*.py + tools/vlib.py: correspondence harness (tie C): generators, canonicalisation, literal printing",
    "CPython 3.12, numpy, bitarray, vc2_data_tables contents",
]


def build_cone(ctx, lock):
    """gen + make Props/Cnn.vo (+ Corr/Cnn.vo when present); records obligations."""
    prop = ctx.prop
    t = time.time()
    lock.exclusive()
    try:
        rc, out = sh([vlib.PY, os.path.join(HERE, "gen_all.py")], timeout=120, env=vlib.pyenv())
        gen = None
        try:
            gen = json.loads(out.strip().split("\n")[-1])
        except Exception:
            pass
        if rc != 0 or gen is None:
            ctx.obligation("translate:gen_all", False, "translation", out)
            gen = {"ok": [], "failed": {}}
        sh(["sh", os.path.join(COQ, "mkproject.sh")], timeout=120)
        targets = ["Props/%s.vo" % prop]
        if os.path.exists(os.path.join(COQ, "Corr", prop + ".v")):
            targets.append("Corr/%s.vo" % prop)
        targets.append("Base/CorrLib.vo")
        cone = []
        for tg in targets:
            for f in vlib.cone_files(tg[:-1]):
                if f not in cone:
                    cone.append(f)
        gen_in_cone = [f[4:-2] for f in cone if f.startswith("Gen/")]
        for g in gen_in_cone:
            if g in gen.get("failed", {}):
                ctx.obligation("translate:%s" % g, False, "translation", gen["failed"][g])
            elif g in gen.get("ok", []) or g == "StateRec":
                ctx.obligation("translate:%s" % g, True, "translation", "regenerated from /repo")
        bad = vlib.lint(cone)
        ctx.obligation("lint:no-axioms-no-admits", not bad, "lint", "\n".join(bad))
        rc, out = sh(["timeout", "3000", "make", "-j%d" % vlib.NPROC, "-k"] + targets, timeout=3100, cwd=COQ)
        ok = rc == 0
        failed_files = set(re.findall(r'File "\./([^"]+)"', out))
        ctx.extra["make_output_tail"] = out[-1500:] if not ok else ""
        # every statement in the cone is an obligation; a file that failed to compile
        # (or depends on one that did) has its statements undischarged
        n_stmt = 0
        for f in cone:
            vo = os.path.join(COQ, f + "o")
            fresh = os.path.exists(vo) and os.path.getmtime(vo) >= os.path.getmtime(os.path.join(COQ, f))
            fok = fresh and (ok or f not in failed_files)
            for kind, name in vlib.statements(f):
                n_stmt += 1
                ctx.obligation("%s:%s" % (f[:-2], name), fok, "theorem" if f.startswith("Props/") else "lemma",
                               "" if fok else "not compiled")
            if not fok and not vlib.statements(f):
                ctx.obligation("compile:%s" % f, False, "model", "not compiled")
        if not ok:
            ctx.obligation("make:%s" % " ".join(targets), False, "build", out)
        ctx.extra["cone_files"] = cone
        ctx.extra["build_s"] = round(time.time() - t, 1)
        return ok, cone
    finally:
        lock.release()


def print_assumptions(ctx):
    prop = ctx.prop
    names = [n for (k, n) in vlib.statements("Props/%s.v" % prop) if k == "Theorem"]
    if not names:
        ctx.obligation("props:%s has theorems" % prop, False, "theorem", "no Theorem in Props file")
        return
    text = "From VC2 Require Import Props.%s.\n" % prop
    for n in names:
        text += 'Print Assumptions %s.\n' % n
    rc, out = ctx.coq_run("assumptions", text, timeout=600)
    if rc != 0:
        ctx.obligation("print-assumptions", False, "axioms", out)
        return
    blocks = re.split(r"(?=Closed under the global context|Axioms:)", out)
    blocks = [b for b in blocks if b.strip()]
    axioms = {}
    for n, b in zip(names, blocks):
        if b.startswith("Closed"):
            axioms[n] = []
        else:
            axioms[n] = re.findall(r"^([\w.']+)\s*:", b, re.M)
    ctx.extra["print_assumptions"] = axioms
    allowed = re.compile(
        r"(functional_extensionality|propositional_extensionality|proof_irrelevance|classic|"
        r"JMeq_eq|eq_rect_eq|Eqdep|constructive_|epsilon|ClassicalDedekindReals|sig_forall_dec|sig_not_dec)",
        re.I,
    )
    bad = [a for n in axioms for a in axioms[n] if not allowed.search(a)]
    ctx.obligation("print-assumptions: only stdlib axioms", len(blocks) == len(names) and not bad, "axioms",
                   json.dumps(axioms))
    used = sorted(set(a for n in axioms for a in axioms[n]))
    ctx.trusted.append("Print Assumptions over %d theorems of Props/%s.v: %s" % (
        len(names), prop, "Closed under the global context" if not used else "axioms " + ", ".join(used)))


def coqchk(ctx):
    t = time.time()
    rc, out = sh(["timeout", "1500", "coqchk", "-silent", "-o", "-Q", COQ, "VC2", "VC2.Props.%s" % ctx.prop],
                 timeout=1600, cwd=COQ)
    ok = rc == 0
    tail = out[-2500:]
    ctx.obligation("coqchk:Props/%s.vo" % ctx.prop, ok, "coqchk", tail)
    ctx.extra["coqchk_s"] = round(time.time() - t, 1)
    ctx.extra["coqchk_tail"] = tail
    ctx.trusted.append("coqchk -o re-checked Props/%s.vo and its dependencies: %s" % (ctx.prop, "ok" if ok else "FAILED"))


def finish(ctx, level_note=""):
    prop = ctx.prop
    kf = vlib.known_findings()
    mine = [k for k in kf["finding"] if k["property"] == prop]
    known_hit = {}
    fresh = []
    for v in ctx.violations:
        hit = [k for k in mine if k["key"] == v["key"]]
        if hit:
            known_hit.setdefault(hit[0]["key"], []).append(v)
        else:
            fresh.append(v)
    failed_obl = [o for o in ctx.obligations if not o["ok"]]
    os.makedirs(os.path.join(VERIF, "replays"), exist_ok=True)
    lines, rc = [], 0
    for k in mine:
        if k["key"] in known_hit:
            lines.append("KNOWN-FINDING: property=%s key=%s %s (%d failing inputs seen this run, e.g. %s)" % (
                prop, k["key"], k["text"], len(known_hit[k["key"]]),
                json.dumps(known_hit[k["key"]][0]["input"], default=repr)[:200]))
        else:
            lines.append("KNOWN-FINDING: property=%s key=%s %s (listed; not reproduced on this run)" % (prop, k["key"], k["text"]))
    seen_keys = set()
    for v in fresh:
        if v["key"] in seen_keys:
            continue
        seen_keys.add(v["key"])
        rp = os.path.join("replays", "%s-%s.json" % (prop, vlib.digest([v["key"], v["input"]])))
        with open(os.path.join(VERIF, rp), "w") as f:
            json.dump({"property": prop, "kind": "failing-input", "seed": ctx.seed, "tier": ctx.tier,
                       "replay_cmd": "./check %s --replay %s" % (prop, rp), **v}, f, indent=1, default=repr)
        lines.append("VIOLATION property=%s replay=%s" % (prop, rp))
        rc = 1
    # failing obligations caused only by a known finding's model divergence are the harness' business:
    # harnesses must not record them as failed obligations.
    if failed_obl and not fresh:
        rp = os.path.join("replays", "%s-unproved.json" % prop)
        with open(os.path.join(VERIF, rp), "w") as f:
            json.dump({"property": prop, "kind": "unproved", "seed": ctx.seed, "tier": ctx.tier,
                       "failed_obligations": failed_obl,
                       "explanation": "The listed theorem / translation / correspondence obligations no longer check "
                                      "against /repo's working tree; the search found no concrete failing input."},
                      f, indent=1, default=repr)
        lines.append("VIOLATION property=%s replay=%s no-failing-input-found" % (prop, rp))
        rc = 1
    n_obl = len(ctx.obligations)
    n_ok = len([o for o in ctx.obligations if o["ok"]])
    ev = {
        "property_id": prop,
        "tier": ctx.tier,
        "seed": ctx.seed,
        "level": "proof",
        "coverage": {
            "obligations": n_obl,
            "discharged": n_ok,
            "checker_cmd": "cd /verif/coq && make Props/%s.vo  (coqc 8.16.1, full .vo build of the dependency cone) ; "
                           "coqc on generated correspondence shards under build/corr/%s" % (prop, prop),
            "trusted_base": TRUSTED_COMMON + ctx.trusted,
            "theorems": [o["name"] for o in ctx.obligations if o["kind"] == "theorem"],
            "obligation_kinds": {k: len([o for o in ctx.obligations if o["kind"] == k])
                                 for k in sorted(set(o["kind"] for o in ctx.obligations))},
            "failed_obligations": [{"name": o["name"], "detail": o["detail"][-600:]} for o in failed_obl],
            "evaluations": ctx.evaluations,
            "distinct_nontrivial": len(ctx.nontrivial),
            "rule": ctx.extra.pop("rule", ""),
            "samples": ctx.samples or ["(no sampled cases)"],
            "traces_validated_against_impl": ctx.corr_cases,
            "correspondence_mismatches": ctx.corr_mismatches,
            "input_distribution": ctx.distribution,
            "exhaustive": ctx.exhaustive,
            "known_findings_reported": [k["key"] for k in mine],
            "notes": ctx.notes,
            "extra": ctx.extra,
        },
        "assumptions": ctx.assumptions,
        "wall_s": round(time.time() - ctx.t0, 2),
        "violations": len(fresh) + (1 if (failed_obl and not fresh) else 0),
    }
    # evidence/ only ever describes runs against /repo itself; runs against a scratch tree
    # (VERIF_REPO=...) are development experiments and are recorded under build/
    evdir = os.path.join(VERIF, "evidence") if os.path.realpath(vlib.REPO) == "/repo" else os.path.join(BUILD, "evidence-scratch")
    os.makedirs(evdir, exist_ok=True)
    with open(os.path.join(evdir, prop + ".json"), "w") as f:
        json.dump(ev, f, indent=1, default=repr)
    for l in lines:
        print(l)
    print("%s %s: %d/%d obligations, %d evaluations (%d distinct non-trivial), %d corr cases, %d mismatches, %.1fs -> %s" % (
        prop, ctx.tier, n_ok, n_obl, ctx.evaluations, len(ctx.nontrivial), ctx.corr_cases, ctx.corr_mismatches,
        time.time() - ctx.t0, "FAIL" if rc else "ok"))
    return rc


def main():
    ap = argparse.ArgumentParser()
    ap.add_argument("prop")
    ap.add_argument("--tier", default=os.environ.get("VERIF_TIER", "quick"), choices=["quick", "thorough"])
    ap.add_argument("--replay")
    ap.add_argument("--no-build", action="store_true", help="(development) skip gen/make")
    args = ap.parse_args()
    seed = int(os.environ.get("VERIF_SEED", "20260921"))
    ctx = vlib.Ctx(args.prop, args.tier, seed)
    sys.path.insert(0, os.path.join(HERE, "harness"))
    try:
        harness = importlib.import_module(args.prop)
    except ImportError:
        traceback.print_exc()
        print("no harness for %s" % args.prop)
        return 2
    if args.replay:
        data = json.load(open(os.path.join(VERIF, args.replay) if not os.path.isabs(args.replay) else args.replay))
        if data.get("kind") == "unproved":
            print("replay: the following obligations did not check:")
            for o in data["failed_obligations"]:
                print(" - %s\n     %s" % (o["name"], o["detail"][-800:].replace("\n", "\n     ")))
            return 1
        return harness.replay(ctx, data)
    import glob
    for f in glob.glob(os.path.join(VERIF, "replays", args.prop + "-*.json")):
        os.remove(f)
    # change-directed effort: compare the anchored sources with the fingerprints recorded when the
    # checks were last validated against /repo (tools/model_pins.json, written by tools/mkpins.py)
    try:
        pins = json.load(open(os.path.join(HERE, "model_pins.json"))).get(args.prop, {})
        now = vlib.source_fingerprints(args.prop)
        changed = sorted(f for f in set(pins) | set(now) if pins.get(f) != now.get(f))
        if pins and changed and args.tier == "quick":
            ctx.escalated = True
            ctx.extra["escalated_because_sources_changed"] = changed
            ctx.note("anchored sources differ from the pinned fingerprints (%s): generator sizes tripled for this run" % ", ".join(changed))
    except Exception:
        pass
    lock = vlib.Lock()
    if not args.no_build:
        ok, cone = build_cone(ctx, lock)
    if not args.no_build:
        if ok:
            print_assumptions(ctx)
            if args.tier == "thorough":
                coqchk(ctx)
    try:
        harness.run(ctx)
    except Exception:
        ctx.obligation("harness:%s" % args.prop, False, "harness", traceback.format_exc())
    return finish(ctx)


if __name__ == "__main__":
    sys.exit(main())
