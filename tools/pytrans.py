"""
pytrans -- fail-closed translator from a small pure-integer subset of Python to
Gallina (tie T of DESIGN.md section 2.1).

For every translated function ``f`` two Coq definitions are produced:

* ``f``      total function computing the value Python computes when the call
             returns normally (an arbitrary default otherwise);
* ``f_dom``  boolean, ``true`` exactly when the Python call returns normally:
             no ``raise``, no fall-through to ``None``, no unassigned local,
             no zero divisor, no negative shift count or exponent.

Anything outside the accepted subset raises :class:`TranslationError`; callers
treat that as "obligation not shown".

Accepted subset (see DESIGN.md): positional parameters (and one ``*args``
treated as a list of ints), docstrings, decorators named ``ref_pseudocode``
(checked live to return the undecorated function), assignment and augmented
assignment to simple names, ``if/elif/else``, ``return``, ``raise``; int, bool
and str constants; names; ``+ - * // % ** << >> & | ^ ~`` and unary minus;
single comparisons; ``and/or/not`` over booleans; calls to translated functions
and to ``abs min max len sum``; ``x.bit_length()``; ``state["key"]``;
``State(key=value, ...)``; ``Enum.member`` resolved against the live module;
module-level integer constants.
"""

import ast
import importlib
import os

COQ_RESERVED = {
    "as", "at", "cofix", "else", "end", "exists", "exists2", "fix", "for",
    "forall", "fun", "if", "IF", "in", "let", "match", "mod", "Prop", "return",
    "Set", "then", "Type", "using", "where", "with", "bytes", "nat", "bool",
    "list", "length", "map", "true", "false", "Z", "N", "option", "Some", "None",
    "fst", "snd", "pair", "sum", "prod", "unit", "tt", "S", "O", "I", "le", "lt",
    "ge", "gt", "eq", "not", "and", "or", "id", "abs", "min", "max", "sign_",
}


class TranslationError(Exception):
    pass


class FuncSig(object):
    def __init__(self, name, params, ret, module, pyname=None, mutates=None):
        self.name = name  # python name
        self.coq = name  # coq name
        self.params = params  # list of (name, type)
        self.ret = ret
        self.module = module
        self.pyname = pyname  # importable module name (None for synthetic sources)
        self.mutates = mutates  # index of the dict parameter a procedure updates (ret == "state")


class Registry(object):
    """Global knowledge shared by all translated modules."""

    def __init__(self):
        self.funcs = {}  # name -> FuncSig
        self.state_keys = []  # ordered
        self.strings = []  # ordered

    def add_key(self, k):
        if k not in self.state_keys:
            self.state_keys.append(k)

    def add_string(self, s):
        if s not in self.strings:
            self.strings.append(s)


def coq_ident(s):
    out = "".join(ch if (ch.isalnum() or ch == "_") else "_" for ch in s)
    if not out or out[0].isdigit():
        out = "x" + out
    return out


def zlit(n):
    return "(%d)" % n if n < 0 else "%d" % n


def and_dom(*parts):
    parts = [p for p in parts if p != "true"]
    if not parts:
        return "true"
    if "false" in parts:
        return "false"
    out = parts[0]
    for p in parts[1:]:
        out = "(%s && %s)" % (out, p)
    return out


# ---------------------------------------------------------------------------
# pre-pass: collect state keys, strings, parameter types
# ---------------------------------------------------------------------------


class ModuleSource(object):
    def __init__(self, repo, relpath, funcs, pyname, text=None):
        self.relpath = relpath
        self.path = os.path.join(repo, relpath)
        self.pyname = pyname
        self.synthetic = text is not None
        if text is None:
            with open(self.path) as f:
                self.text = f.read()
        else:
            # synthetic functions assembled from statements extracted out of a larger function
            self.text = text
        self.tree = ast.parse(self.text, self.path)
        self.defs = {}
        self.consts = {}
        for node in self.tree.body:
            if isinstance(node, ast.FunctionDef):
                self.defs[node.name] = node
            elif isinstance(node, ast.Assign) and len(node.targets) == 1:
                t = node.targets[0]
                if isinstance(t, ast.Name) and isinstance(node.value, ast.Constant):
                    if isinstance(node.value.value, int) and not isinstance(
                        node.value.value, bool
                    ):
                        self.consts[t.id] = node.value.value
        self.funcs = funcs if funcs is not None else list(self.defs)
        for f in self.funcs:
            if f not in self.defs:
                raise TranslationError("%s: function %s not found" % (relpath, f))
        self.live = None

    def live_module(self):
        if self.live is None:
            self.live = importlib.import_module(self.pyname)
        return self.live

    def check_decorators(self, node):
        """Only the identity decorator ref_pseudocode is tolerated; verify
        against the live module that the bound name is the source function."""
        for d in node.decorator_list:
            target = d.func if isinstance(d, ast.Call) else d
            if not (isinstance(target, ast.Name) and target.id == "ref_pseudocode"):
                raise TranslationError(
                    "%s:%s unsupported decorator" % (self.relpath, node.name)
                )
        if node.decorator_list:
            live = getattr(self.live_module(), node.name, None)
            code = getattr(live, "__code__", None)
            if code is None or code.co_name != node.name:
                raise TranslationError(
                    "%s:%s decorator does not return the source function"
                    % (self.relpath, node.name)
                )
            if os.path.realpath(code.co_filename) != os.path.realpath(self.path):
                raise TranslationError(
                    "%s:%s live function comes from %s"
                    % (self.relpath, node.name, code.co_filename)
                )
            first = min([d.lineno for d in node.decorator_list] + [node.lineno])
            if code.co_firstlineno not in (first, node.lineno):
                raise TranslationError(
                    "%s:%s live function line mismatch" % (self.relpath, node.name)
                )


def called_names(node):
    out = []
    for n in ast.walk(node):
        if isinstance(n, ast.Call) and isinstance(n.func, ast.Name):
            out.append(n.func.id)
    return out


def topo_order(ms):
    order, seen = [], set()

    def visit(f, stack):
        if f in seen:
            return
        if f in stack:
            raise TranslationError("%s: recursion through %s" % (ms.relpath, f))
        for g in called_names(ms.defs[f]):
            if g in ms.funcs and g != f:
                visit(g, stack | {f})
            elif g == f:
                raise TranslationError("%s: recursive function %s" % (ms.relpath, f))
        seen.add(f)
        order.append(f)

    for f in ms.funcs:
        visit(f, frozenset())
    return order


BUILTINS = {"abs", "min", "max", "len", "sum"}


class FuncTranslator(object):
    def __init__(self, ms, node, reg):
        self.ms = ms
        self.node = node
        self.reg = reg
        self.where = "%s:%s" % (ms.relpath, node.name)
        a = node.args
        if a.kwonlyargs or a.kwarg or a.kw_defaults or getattr(a, "posonlyargs", []):
            raise TranslationError(self.where + ": unsupported parameter kinds")
        for d in a.defaults:
            # defaults are tolerated (the model takes every parameter explicitly)
            if not isinstance(d, ast.Constant):
                raise TranslationError(self.where + ": non-constant default")
        self.params = [p.arg for p in a.args]
        self.vararg = a.vararg.arg if a.vararg else None
        self.ptypes = {}
        self.infer_param_types()
        self.ret = None
        self.renames = {}
        # a PROCEDURE updates exactly one of its dictionary parameters (state["k"] = ..., or by calling
        # another translated procedure on it) and returns nothing: it is translated as returning the updated record
        muts = set()
        for n in ast.walk(node):
            tg = None
            if isinstance(n, ast.Assign) and len(n.targets) == 1:
                tg = n.targets[0]
            elif isinstance(n, ast.AugAssign):
                tg = n.target
            if isinstance(tg, ast.Subscript) and isinstance(tg.value, ast.Name) and tg.value.id in self.ptypes:
                muts.add(tg.value.id)
            if isinstance(n, ast.Expr) and isinstance(n.value, ast.Call) and isinstance(n.value.func, ast.Name):
                sg = reg.funcs.get(n.value.func.id)
                if sg is not None and sg.mutates is not None and len(n.value.args) > sg.mutates and isinstance(
                        n.value.args[sg.mutates], ast.Name):
                    muts.add(n.value.args[sg.mutates].id)
        if len(muts) > 1:
            raise TranslationError(self.where + ": updates more than one dictionary parameter")
        self.mutated = muts.pop() if muts else None
        if self.mutated is not None:
            self.ptypes[self.mutated] = "state"

    def err(self, node, msg):
        raise TranslationError(
            "%s line %s: %s" % (self.where, getattr(node, "lineno", "?"), msg)
        )

    # -- parameter type inference ------------------------------------------
    def infer_param_types(self):
        for p in self.params:
            self.ptypes[p] = None
        if self.vararg:
            self.ptypes[self.vararg] = "listZ"
        for n in ast.walk(self.node):
            if (
                isinstance(n, ast.Subscript)
                and isinstance(n.value, ast.Name)
                and n.value.id in self.ptypes
            ):
                self.set_ptype(n.value.id, "state", n)
            if isinstance(n, ast.Compare) and len(n.ops) == 1:
                l, r = n.left, n.comparators[0]
                for a, b in ((l, r), (r, l)):
                    if (
                        isinstance(a, ast.Name)
                        and a.id in self.ptypes
                        and isinstance(b, ast.Constant)
                        and isinstance(b.value, str)
                    ):
                        self.set_ptype(a.id, "str", n)
            if isinstance(n, ast.Call) and isinstance(n.func, ast.Name):
                sig = self.reg.funcs.get(n.func.id)
                if sig is not None:
                    for arg, (_, ty) in zip(n.args, sig.params):
                        if isinstance(arg, ast.Name) and arg.id in self.ptypes:
                            if ty in ("state", "str", "listZ"):
                                self.set_ptype(arg.id, ty, n)
        for p in self.params:
            if self.ptypes[p] is None:
                self.ptypes[p] = "Z"

    def set_ptype(self, p, ty, node):
        if self.ptypes[p] not in (None, ty):
            self.err(node, "parameter %s used as %s and %s" % (p, self.ptypes[p], ty))
        self.ptypes[p] = ty

    # -- names --------------------------------------------------------------
    def cname(self, py):
        if py in self.renames:
            return self.renames[py]
        c = coq_ident(py)
        if c in COQ_RESERVED or c in self.reg.funcs or c.startswith("st_"):
            c = c + "_"
        self.renames[py] = c
        return c

    # -- expressions: return (text, type, dom) --------------------------------
    def expr(self, e, env):
        if isinstance(e, ast.Constant):
            v = e.value
            if isinstance(v, bool):
                return ("true" if v else "false", "bool", "true")
            if isinstance(v, int):
                return (zlit(v), "Z", "true")
            if isinstance(v, str):
                self.reg.add_string(v)
                return ("Str_" + coq_ident(v), "str", "true")
            self.err(e, "unsupported constant %r" % (v,))
        if isinstance(e, ast.Name):
            if e.id in env:
                return (self.cname(e.id), env[e.id], "true")
            if e.id in self.ms.consts:
                return (zlit(self.ms.consts[e.id]), "Z", "true")
            if e.id in self.all_locals:
                # local that is not definitely assigned on this path
                return ("0", "unassigned", "false")
            self.err(e, "unknown name %s" % e.id)
        if isinstance(e, ast.Attribute):
            return self.attribute(e, env)
        if isinstance(e, ast.UnaryOp):
            t, ty, d = self.expr(e.operand, env)
            if ty == "unassigned":
                return (t, ty, d)
            if isinstance(e.op, ast.USub) and ty == "Z":
                return ("(- %s)" % t, "Z", d)
            if isinstance(e.op, ast.Invert) and ty == "Z":
                return ("(Z.lnot %s)" % t, "Z", d)
            if isinstance(e.op, ast.Not) and ty == "bool":
                return ("(negb %s)" % t, "bool", d)
            self.err(e, "unsupported unary operator on %s" % ty)
        if isinstance(e, ast.BinOp):
            return self.binop(e, env)
        if isinstance(e, ast.BoolOp):
            parts = [self.expr(v, env) for v in e.values]
            for (_, ty, _), v in zip(parts, e.values):
                if ty == "unassigned":
                    continue
                if ty != "bool":
                    self.err(v, "and/or operand is not a boolean")
            is_and = isinstance(e.op, ast.And)
            text, ty, dom = parts[-1]
            for (t, _, d) in reversed(parts[:-1]):
                # short circuit: the right operand is evaluated only when needed
                if is_and:
                    ndom = and_dom(d, "(if %s then %s else true)" % (t, dom)) if dom != "true" else d
                    text = "(%s && %s)" % (t, text)
                else:
                    ndom = and_dom(d, "(if %s then true else %s)" % (t, dom)) if dom != "true" else d
                    text = "(%s || %s)" % (t, text)
                dom = ndom
            return (text, "bool", dom)
        if isinstance(e, ast.Compare):
            if len(e.ops) != 1:
                self.err(e, "chained comparison")
            l, lt, ld = self.expr(e.left, env)
            r, rt, rd = self.expr(e.comparators[0], env)
            dom = and_dom(ld, rd)
            if "unassigned" in (lt, rt):
                return ("false", "bool", "false")
            if lt != rt:
                self.err(e, "comparison between %s and %s" % (lt, rt))
            op = e.ops[0]
            if lt == "Z":
                table = {
                    ast.Eq: "(%s =? %s)",
                    ast.NotEq: "(negb (%s =? %s))",
                    ast.Lt: "(%s <? %s)",
                    ast.LtE: "(%s <=? %s)",
                    ast.Gt: "(%s >? %s)",
                    ast.GtE: "(%s >=? %s)",
                }
            elif lt == "bool":
                table = {ast.Eq: "(Bool.eqb %s %s)", ast.NotEq: "(negb (Bool.eqb %s %s))"}
            elif lt == "str":
                table = {ast.Eq: "(pystr_eqb %s %s)", ast.NotEq: "(negb (pystr_eqb %s %s))"}
            else:
                self.err(e, "comparison on %s" % lt)
            if type(op) not in table:
                self.err(e, "unsupported comparison operator")
            return (table[type(op)] % (l, r), "bool", dom)
        if isinstance(e, ast.Subscript):
            if not (isinstance(e.value, ast.Name) and env.get(e.value.id) == "state"):
                self.err(e, "subscript of a non-state value")
            key = e.slice
            if isinstance(key, ast.Index):  # py<3.9
                key = key.value
            if not (isinstance(key, ast.Constant) and isinstance(key.value, str)):
                self.err(e, "state key is not a string constant")
            self.reg.add_key(key.value)
            return (
                "(st_%s %s)" % (coq_ident(key.value), self.cname(e.value.id)),
                "Z",
                "true",
            )
        if isinstance(e, ast.Call):
            return self.call(e, env)
        self.err(e, "unsupported expression %s" % type(e).__name__)

    def attribute(self, e, env):
        # Enum.member resolved against the live module
        if isinstance(e.value, ast.Name) and e.value.id not in env:
            live = self.ms.live_module()
            obj = getattr(live, e.value.id, None)
            member = getattr(obj, e.attr, None) if obj is not None else None
            import enum

            if isinstance(member, enum.IntEnum):
                return (zlit(int(member)), "Z", "true")
        self.err(e, "unsupported attribute access")

    def binop(self, e, env):
        l, lt, ld = self.expr(e.left, env)
        r, rt, rd = self.expr(e.right, env)
        dom = and_dom(ld, rd)
        if "unassigned" in (lt, rt):
            return ("0", "unassigned", "false")
        if lt != "Z" or rt != "Z":
            self.err(e, "arithmetic on %s and %s" % (lt, rt))
        op = type(e.op)
        simple = {
            ast.Add: "(%s + %s)",
            ast.Sub: "(%s - %s)",
            ast.Mult: "(%s * %s)",
            ast.BitAnd: "(Z.land %s %s)",
            ast.BitOr: "(Z.lor %s %s)",
            ast.BitXor: "(Z.lxor %s %s)",
        }
        if op in simple:
            return (simple[op] % (l, r), "Z", dom)
        if op is ast.FloorDiv:
            return ("(py_div %s %s)" % (l, r), "Z", and_dom(dom, "(negb (%s =? 0))" % r))
        if op is ast.Mod:
            return ("(py_mod %s %s)" % (l, r), "Z", and_dom(dom, "(negb (%s =? 0))" % r))
        if op is ast.Pow:
            return ("(py_pow %s %s)" % (l, r), "Z", and_dom(dom, "(0 <=? %s)" % r))
        if op is ast.LShift:
            return ("(py_shl %s %s)" % (l, r), "Z", and_dom(dom, "(0 <=? %s)" % r))
        if op is ast.RShift:
            return ("(py_shr %s %s)" % (l, r), "Z", and_dom(dom, "(0 <=? %s)" % r))
        self.err(e, "unsupported binary operator")

    def call(self, e, env):
        if e.keywords and not (
            isinstance(e.func, ast.Name) and e.func.id == "State"
        ):
            self.err(e, "keyword arguments")
        if isinstance(e.func, ast.Attribute):
            if e.func.attr == "bit_length" and not e.args:
                t, ty, d = self.expr(e.func.value, env)
                if ty != "Z":
                    self.err(e, "bit_length on %s" % ty)
                return ("(bit_length %s)" % t, "Z", d)
            self.err(e, "unsupported method call")
        if not isinstance(e.func, ast.Name):
            self.err(e, "unsupported call target")
        name = e.func.id
        if name == "State":
            if e.args:
                self.err(e, "State() with positional arguments")
            fields, dom = {}, "true"
            for kw in e.keywords:
                if kw.arg is None:
                    self.err(e, "State(**kwargs)")
                t, ty, d = self.expr(kw.value, env)
                if ty != "Z":
                    self.err(e, "State field of type %s" % ty)
                self.reg.add_key(kw.arg)
                fields[kw.arg] = t
                dom = and_dom(dom, d)
            return (("STATE", fields), "state", dom)
        args = [self.expr(a, env) for a in e.args]
        if any(isinstance(a, ast.Starred) for a in e.args):
            self.err(e, "star arguments")
        dom = and_dom(*[d for (_, _, d) in args])
        if any(ty == "unassigned" for (_, ty, _) in args):
            return ("0", "unassigned", "false")
        if name in BUILTINS and name not in self.reg.funcs:
            tys = [ty for (_, ty, _) in args]
            ts = [t for (t, _, _) in args]
            if name == "abs" and tys == ["Z"]:
                return ("(py_abs %s)" % ts[0], "Z", dom)
            if name in ("min", "max") and len(tys) >= 2 and all(t == "Z" for t in tys):
                acc = ts[0]
                for t in ts[1:]:
                    acc = "(py_%s %s %s)" % (name, acc, t)
                return (acc, "Z", dom)
            if name == "len" and tys == ["listZ"]:
                return ("(py_len %s)" % ts[0], "Z", dom)
            if name == "sum" and tys == ["listZ"]:
                return ("(py_sum %s)" % ts[0], "Z", dom)
            self.err(e, "unsupported builtin call %s%r" % (name, tys))
        sig = self.reg.funcs.get(name)
        if sig is None:
            self.err(e, "call to untranslated function %s" % name)
        self.check_live_binding(e, name, sig)
        if len(args) != len(sig.params):
            self.err(e, "arity mismatch calling %s" % name)
        ts = []
        for (t, ty, _), (_, pty) in zip(args, sig.params):
            if ty != pty:
                self.err(e, "argument of type %s for parameter of type %s" % (ty, pty))
            ts.append(self.state_text(t) if ty == "state" else t)
        argtext = " ".join(ts)
        return (
            "(%s %s)" % (sig.coq, argtext),
            sig.ret,
            and_dom(dom, "(%s_dom %s)" % (sig.coq, argtext)),
        )

    def check_live_binding(self, node, name, sig):
        """The name must be bound, in the calling module's live namespace, to the very function object that
        was translated (an `import x as name` or a rebinding would otherwise go unnoticed: fail closed)."""
        if sig.pyname is None or self.ms.synthetic:
            return
        try:
            here = getattr(self.ms.live_module(), name)
            there = getattr(importlib.import_module(sig.pyname), sig.name)
        except Exception as ex:
            self.err(node, "cannot resolve live binding of %s (%s)" % (name, ex))
        if here is not there:
            self.err(node, "name %s is not bound to the translated function %s.%s" % (name, sig.pyname, sig.name))

    def state_text(self, t):
        if isinstance(t, tuple) and t[0] == "STATE":
            return ("STATE", t[1])
        return t

    # -- statements -------------------------------------------------------------
    def block(self, stmts, env):
        """Returns a tree: ('let', x, text, dom, sub) | ('if', text, dom, a, b)
        | ('ret', text, type, dom) | ('fail',)"""
        if not stmts:
            if self.mutated is not None:
                if self.ret is None:
                    self.ret = "state"
                elif self.ret != "state":
                    self.err(self.node, "procedure also returns a value")
                return ("ret", self.cname(self.mutated), "state", "true")
            return ("fail",)
        s, rest = stmts[0], stmts[1:]
        if (
            isinstance(s, ast.Expr)
            and isinstance(s.value, ast.Constant)
            and isinstance(s.value.value, str)
        ):
            return self.block(rest, env)
        if isinstance(s, ast.Pass):
            return self.block(rest, env)
        if isinstance(s, ast.Return):
            if s.value is None:
                if self.mutated is not None:
                    self.ret = self.ret or "state"
                    return ("ret", self.cname(self.mutated), "state", "true")
                return ("fail",)
            t, ty, d = self.expr(s.value, env)
            if ty == "unassigned":
                return ("fail",)
            if self.mutated is not None:
                self.err(s, "procedure returning a value")
            if ty not in ("Z", "bool"):
                self.err(s, "return of type %s" % ty)
            if self.ret is None:
                self.ret = ty
            elif self.ret != ty:
                self.err(s, "mixed return types")
            return ("ret", t, ty, d)
        if isinstance(s, ast.Raise):
            return ("fail",)
        if isinstance(s, (ast.Assign, ast.AugAssign)) and isinstance(
                s.targets[0] if isinstance(s, ast.Assign) else s.target, ast.Subscript):
            tgt = s.targets[0] if isinstance(s, ast.Assign) else s.target
            if isinstance(s, ast.Assign) and len(s.targets) != 1:
                self.err(s, "multiple assignment targets")
            key = tgt.slice.value if isinstance(tgt.slice, ast.Index) else tgt.slice
            if not (isinstance(tgt.value, ast.Name) and env.get(tgt.value.id) == "state"
                    and isinstance(key, ast.Constant) and isinstance(key.value, str)):
                self.err(s, "unsupported subscript assignment")
            dname = tgt.value.id
            if dname != self.mutated:
                self.err(s, "assignment to a dictionary other than the one this procedure updates")
            self.reg.add_key(key.value)
            if isinstance(s, ast.Assign):
                t, ty, d = self.expr(s.value, env)
            else:
                fake = ast.BinOp(left=ast.Subscript(value=tgt.value, slice=tgt.slice, ctx=ast.Load()), op=s.op, right=s.value)
                ast.copy_location(fake, s)
                ast.fix_missing_locations(fake)
                t, ty, d = self.expr(fake, env)
            if ty == "unassigned":
                return ("fail",)
            if ty != "Z":
                self.err(s, "dictionary entry of type %s" % ty)
            upd = "(set_st_%s %s %s)" % (coq_ident(key.value), self.cname(dname), t)
            return ("let", self.cname(dname), upd, d, self.block(rest, env))
        if isinstance(s, ast.Expr) and isinstance(s.value, ast.Call) and isinstance(s.value.func, ast.Name):
            # a call used as a statement: must be a translated PROCEDURE updating a dict we hold
            sig = self.reg.funcs.get(s.value.func.id)
            if sig is None or sig.mutates is None:
                self.err(s, "call statement to something that is not a translated procedure")
            t, ty, d = self.call(s.value, env)
            arg = s.value.args[sig.mutates]
            if not (isinstance(arg, ast.Name) and env.get(arg.id) == "state"):
                self.err(s, "procedure call with a non-name dictionary argument")
            if arg.id != self.mutated:
                self.err(s, "procedure call updating a dictionary other than the one this procedure updates")
            return ("let", self.cname(arg.id), t, d, self.block(rest, env))
        if isinstance(s, (ast.Assign, ast.AugAssign)):
            if isinstance(s, ast.Assign):
                if len(s.targets) != 1 or not isinstance(s.targets[0], ast.Name):
                    self.err(s, "unsupported assignment target")
                name = s.targets[0].id
                t, ty, d = self.expr(s.value, env)
            else:
                if not isinstance(s.target, ast.Name):
                    self.err(s, "unsupported assignment target")
                name = s.target.id
                fake = ast.BinOp(
                    left=ast.Name(id=name, ctx=ast.Load()), op=s.op, right=s.value
                )
                ast.copy_location(fake, s)
                ast.fix_missing_locations(fake)
                t, ty, d = self.expr(fake, env)
            if name in self.params or name == self.vararg:
                if self.ptypes.get(name) != "Z":
                    self.err(s, "assignment to non-integer parameter")
            if ty == "unassigned":
                return ("fail",)
            if ty not in ("Z", "bool"):
                self.err(s, "assignment of type %s" % ty)
            env2 = dict(env)
            env2[name] = ty
            return ("let", self.cname(name), t, d, self.block(rest, env2))
        if isinstance(s, ast.If):
            t, ty, d = self.expr(s.test, env)
            if ty == "unassigned":
                return ("fail",)
            if ty != "bool":
                self.err(s, "if condition of type %s" % ty)
            a = self.block(list(s.body) + rest, env)
            b = self.block(list(s.orelse) + rest, env)
            return ("if", t, d, a, b)
        self.err(s, "unsupported statement %s" % type(s).__name__)

    # -- emission ---------------------------------------------------------------
    def emit_state(self, t):
        return t

    def value(self, tree, ind):
        pad = "  " * ind
        k = tree[0]
        if k == "fail":
            return pad + ("false" if self.ret == "bool" else ("empty_pystate" if self.ret == "state" else "0"))
        if k == "ret":
            return pad + tree[1]
        if k == "let":
            return "%slet %s := %s in\n%s" % (pad, tree[1], tree[2], self.value(tree[4], ind))
        if k == "if":
            return "%sif %s then\n%s\n%selse\n%s" % (
                pad,
                tree[1],
                self.value(tree[3], ind + 1),
                pad,
                self.value(tree[4], ind + 1),
            )

    def dom(self, tree, ind):
        pad = "  " * ind
        k = tree[0]
        if k == "fail":
            return pad + "false"
        if k == "ret":
            return pad + tree[3]
        if k == "let":
            body = "%slet %s := %s in\n%s" % (pad, tree[1], tree[2], self.dom(tree[4], ind))
            if tree[3] == "true":
                return body
            return "%sif %s then\n%s\n%selse false" % (pad, tree[3], body, pad)
        if k == "if":
            body = "%sif %s then\n%s\n%selse\n%s" % (
                pad,
                tree[1],
                self.dom(tree[3], ind + 1),
                pad,
                self.dom(tree[4], ind + 1),
            )
            if tree[2] == "true":
                return body
            return "%sif %s then\n%s\n%selse false" % (pad, tree[2], body, pad)

    def translate(self):
        self.ms.check_decorators(self.node)
        self.all_locals = set()
        for n in ast.walk(self.node):
            if isinstance(n, ast.Name) and isinstance(n.ctx, ast.Store):
                self.all_locals.add(n.id)
        env = {p: self.ptypes[p] for p in self.params}
        if self.vararg:
            env[self.vararg] = "listZ"
        tree = self.block(list(self.node.body), env)
        if self.ret is None:
            self.err(self.node, "function never returns a value")
        tree = resolve_states(tree, self.reg)
        coqty = {"Z": "Z", "bool": "bool", "str": "pystr", "state": "pystate", "listZ": "list Z"}
        binders = " ".join(
            "(%s : %s)" % (self.cname(p), coqty[self.ptypes[p]])
            for p in self.params + ([self.vararg] if self.vararg else [])
        )
        name = self.node.name
        out = []
        out.append("(* %s:%d  def %s *)" % (self.ms.relpath, self.node.lineno, name))
        out.append(
            "Definition %s %s : %s :=\n%s." % (name, binders, coqty[self.ret], self.value(tree, 1))
        )
        out.append("Definition %s_dom %s : bool :=\n%s." % (name, binders, self.dom(tree, 1)))
        sig = FuncSig(
            name,
            [(p, self.ptypes[p]) for p in self.params + ([self.vararg] if self.vararg else [])],
            self.ret,
            self.ms.relpath,
            pyname=None if self.ms.synthetic else self.ms.pyname,
            mutates=self.params.index(self.mutated) if self.mutated is not None else None,
        )
        return sig, "\n".join(out)


def resolve_states(tree, reg):
    """State(...) constructor texts are resolved late, once every key is known."""

    def fix_text(t):
        return t

    return tree


def state_record(reg):
    """Emit Gen/StateRec.v text."""
    lines = [
        "(* GENERATED by tools/pytrans.py -- do not edit. *)",
        "From Coq Require Import ZArith Bool List.",
        "Open Scope Z_scope.",
        "",
    ]
    keys = reg.state_keys or ["_unused"]
    lines.append("Record pystate := mk_pystate {")
    lines.append(";\n".join("  st_%s : Z" % coq_ident(k) for k in keys))
    lines.append("}.")
    lines.append("")
    lines.append(
        "Definition empty_pystate : pystate := mk_pystate %s." % " ".join("0" for _ in keys)
    )
    for k in keys:
        ck = coq_ident(k)
        fields = " ".join(
            ("v" if k2 == k else "(st_%s s)" % coq_ident(k2)) for k2 in keys
        )
        lines.append(
            "Definition set_st_%s (s : pystate) (v : Z) : pystate := mk_pystate %s." % (ck, fields)
        )
    lines.append("")
    strs = reg.strings or ["_unused"]
    lines.append("Inductive pystr := %s." % " | ".join("Str_" + coq_ident(s) for s in strs))
    lines.append("Definition pystr_code (s : pystr) : Z :=\n  match s with")
    for i, s in enumerate(strs):
        lines.append("  | Str_%s => %d" % (coq_ident(s), i))
    lines.append("  end.")
    lines.append("Definition pystr_eqb (a b : pystr) : bool := Z.eqb (pystr_code a) (pystr_code b).")
    lines.append("")
    return "\n".join(lines)


def state_ctor_text(fields):
    t = "empty_pystate"
    for k, v in fields.items():
        t = "(set_st_%s %s %s)" % (coq_ident(k), t, v)
    return t


def _flatten_state_ctors(obj):
    """Replace ('STATE', fields) tuples embedded in call argument lists.  The
    expression translator builds text eagerly, so constructor tuples only ever
    appear as a whole argument; `call` handles them through this helper."""
    return obj


def translate_module(ms, reg, header_imports):
    order = topo_order(ms)
    chunks = []
    for fname in order:
        ft = FuncTranslator(ms, ms.defs[fname], reg)
        # patch: make State(...) arguments textual
        orig_state_text = ft.state_text

        def st(t, _o=orig_state_text):
            t = _o(t)
            if isinstance(t, tuple) and t[0] == "STATE":
                return state_ctor_text(t[1])
            return t

        ft.state_text = st
        sig, text = ft.translate()
        if sig.name in reg.funcs:
            raise TranslationError("duplicate function name %s" % sig.name)
        reg.funcs[sig.name] = sig
        chunks.append(text)
    head = [
        "(* GENERATED by tools/pytrans.py from %s -- do not edit. *)" % ms.relpath,
        "From Coq Require Import ZArith Bool List.",
        "From VC2 Require Import Base.PyZ Gen.StateRec.",
    ]
    for imp in header_imports:
        head.append("From VC2 Require Import Gen.%s." % imp)
    head.append("Import ListNotations.")
    head.append("Open Scope Z_scope.")
    head.append("Open Scope bool_scope.")
    head.append("")
    return "\n".join(head) + "\n" + "\n\n".join(chunks) + "\n"
