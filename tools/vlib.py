"""Common machinery of the /verif checks (see DESIGN.md section 2.3).

A check for property Cnn =
  1. regenerate coq/Gen/*.v from /repo (tie T)                     [gen]
  2. make Props/Cnn.vo  (the whole dependency cone is re-checked)   [proof]
  3. Print Assumptions for every theorem of Props/Cnn.v             [axioms]
  4. tools/harness/Cnn.py : correspondence (tie C) + property oracle
  5. evidence/Cnn.json, VIOLATION / KNOWN-FINDING lines, exit code
"""
from __future__ import print_function

import concurrent.futures
import fcntl
import hashlib
import json
import os
import random
import re
import subprocess
import sys
import time

VERIF = os.path.dirname(os.path.dirname(os.path.abspath(__file__)))
COQ = os.path.join(VERIF, "coq")
BUILD = os.path.join(VERIF, "build")
REPO = os.environ.get("VERIF_REPO", "/repo")
PY = "/venv/bin/python"
NPROC = int(os.environ.get("VERIF_JOBS", "16"))

COQ_HEADER = """From Coq Require Import ZArith List Bool String.
Import ListNotations.
Open Scope Z_scope.
"""


def sh(cmd, timeout=None, cwd=None, env=None):
    """Run a command; returns (rc, output). rc 124 on timeout."""
    try:
        p = subprocess.run(
            cmd,
            shell=isinstance(cmd, str),
            cwd=cwd,
            env=env,
            stdout=subprocess.PIPE,
            stderr=subprocess.STDOUT,
            timeout=timeout,
        )
        return p.returncode, p.stdout.decode("utf-8", "replace")
    except subprocess.TimeoutExpired as e:
        out = e.stdout.decode("utf-8", "replace") if e.stdout else ""
        return 124, out + "\n[timeout after %ss]" % timeout


def pyenv():
    env = dict(os.environ)
    env["PYTHONPATH"] = REPO + os.pathsep + os.path.join(VERIF, "tools")
    env["PYTHONHASHSEED"] = "0"
    env["BBC_VC2_CONFORMANCE_VERIF"] = "1"
    return env


class Lock(object):
    def __init__(self):
        os.makedirs(BUILD, exist_ok=True)
        self.f = open(os.path.join(BUILD, ".lock"), "a+")

    def shared(self):
        fcntl.flock(self.f, fcntl.LOCK_SH)

    def exclusive(self):
        fcntl.flock(self.f, fcntl.LOCK_EX)

    def release(self):
        fcntl.flock(self.f, fcntl.LOCK_UN)


def known_findings():
    """Parse /verif/known_findings.txt.  Lines:
       finding: property=<id> key=<key> <text>
       fixed: property=<id> <commit> <text>
    """
    out = {"finding": [], "fixed": []}
    path = os.path.join(VERIF, "known_findings.txt")
    if not os.path.exists(path):
        return out
    for line in open(path):
        line = line.strip()
        if not line or line.startswith("#"):
            continue
        m = re.match(r"finding:\s+property=(\S+)\s+key=(\S+)\s+(.*)$", line)
        if m:
            out["finding"].append({"property": m.group(1), "key": m.group(2), "text": m.group(3)})
            continue
        m = re.match(r"fixed:\s+property=(\S+)\s+(\S+)\s+(.*)$", line)
        if m:
            out["fixed"].append({"property": m.group(1), "commit": m.group(2), "text": m.group(3)})
    return out


def source_fingerprints(prop):
    """{relative path: sha1 of the docstring-free AST} for the source files a property is anchored in
    (properties.jsonl anchors.files, globs expanded) in the tree under test."""
    import ast, glob as _glob
    out = {}
    for line in open(os.path.join(VERIF, "properties.jsonl")):
        p = json.loads(line)
        if p["id"] != prop:
            continue
        for pat in p["anchors"]["files"]:
            for path in sorted(_glob.glob(os.path.join(REPO, pat))):
                rel = os.path.relpath(path, REPO)
                if not path.endswith(".py"):
                    out[rel] = hashlib.sha1(open(path, "rb").read()).hexdigest()
                    continue
                try:
                    tree = ast.parse(open(path).read())
                    for node in ast.walk(tree):
                        body = getattr(node, "body", None)
                        if isinstance(body, list) and body and isinstance(body[0], ast.Expr) and isinstance(
                                getattr(body[0], "value", None), ast.Constant) and isinstance(body[0].value.value, str):
                            body[0] = ast.Pass()
                    out[rel] = hashlib.sha1(ast.dump(tree).encode()).hexdigest()
                except SyntaxError:
                    out[rel] = "syntax-error"
    return out


def cone_files(prop_file):
    """Transitive closure of `From VC2 Require Import|Export A.B` starting at a .v file."""
    seen, todo = [], [prop_file]
    while todo:
        f = todo.pop()
        if f in seen or not os.path.exists(os.path.join(COQ, f)):
            continue
        seen.append(f)
        text = open(os.path.join(COQ, f)).read()
        text = re.sub(r"\(\*.*?\*\)", "", text, flags=re.S)
        for m in re.finditer(r"From\s+VC2\s+Require\s+(?:Import|Export)\s+((?:[A-Za-z_]\w*(?:\.[A-Za-z_]\w*)*\s*)+)\.", text):
            for mod in m.group(1).split():
                todo.append(mod.replace(".", "/") + ".v")
    return seen


STATEMENT_RE = re.compile(r"^\s*(Theorem|Lemma|Corollary|Example|Fact|Proposition)\s+([\w']+)", re.M)


def statements(vfile):
    text = open(os.path.join(COQ, vfile)).read()
    text = re.sub(r"\(\*.*?\*\)", "", text, flags=re.S)
    return [(k, n) for (k, n) in STATEMENT_RE.findall(text)]


FORBIDDEN = re.compile(
    r"\b(Admitted|admit|Axiom|Axioms|Parameter|Parameters|Conjecture|Conjectures|Admit\s+Obligations|"
    r"Unset\s+Guard\s+Checking|Unset\s+Positivity\s+Checking|Unset\s+Universe\s+Checking|bypass_check|"
    r"type-in-type|impredicative-set|native_compute)\b"
)


def lint(files):
    """Returns list of 'file:line: text' for forbidden constructs (comments stripped)."""
    bad = []
    for f in files:
        text = open(os.path.join(COQ, f)).read()
        text = re.sub(r"\(\*.*?\*\)", lambda m: "\n" * m.group(0).count("\n"), text, flags=re.S)
        for i, line in enumerate(text.split("\n"), 1):
            if FORBIDDEN.search(line):
                bad.append("%s:%d: %s" % (f, i, line.strip()))
            if re.search(r"^\s*(Variable|Variables|Hypothesis|Hypotheses)\b", line):
                # only allowed inside a Section: checked coarsely
                pre = "\n".join(text.split("\n")[:i])
                if len(re.findall(r"^\s*Section\b", pre, re.M)) <= len(re.findall(r"^\s*End\b", pre, re.M)):
                    bad.append("%s:%d: %s (outside a section)" % (f, i, line.strip()))
    return bad


class Ctx(object):
    def __init__(self, prop, tier, seed):
        self.prop = prop
        self.tier = tier
        self.seed = seed
        self.rng = random.Random(seed)
        self.t0 = time.time()
        self.obligations = []  # dict(name, kind, ok, detail)
        self.evaluations = 0
        self.nontrivial = set()
        self.samples = []
        self.distribution = {}
        self.violations = []  # dict(key, input, desc, ...)
        self.trusted = []
        self.assumptions = []
        self.notes = []
        self.corr_cases = 0
        self.corr_mismatches = 0
        self.exhaustive = False
        self.escalated = False
        self.extra = {}
        self.workdir = os.path.join(BUILD, "corr", prop)
        os.makedirs(self.workdir, exist_ok=True)

    @property
    def quick(self):
        return self.tier == "quick"

    def pick(self, quick, thorough):
        """Size of a generator: the quick or thorough value.  When the sources a property is anchored in
        differ from the pinned ones (self.escalated, see driver.source_changed) a quick run spends three
        times the usual effort (never more than the thorough value): the moment the code has changed is
        the moment the differential run is worth more."""
        if self.tier != "quick":
            return thorough
        if self.escalated and isinstance(quick, int) and isinstance(thorough, int) and not isinstance(quick, bool):
            return max(quick, min(thorough, 3 * quick))
        return quick

    # ---- bookkeeping -------------------------------------------------------
    def obligation(self, name, ok, kind="lemma", detail=""):
        self.obligations.append({"name": name, "kind": kind, "ok": bool(ok), "detail": detail[-3000:]})

    def count(self, n=1, key=None, bucket=None):
        """Record n evaluated cases; `key` identifies a distinct non-trivial case;
        `bucket` feeds the input-distribution histogram."""
        self.evaluations += n
        if key is not None:
            self.nontrivial.add(key if isinstance(key, (str, int)) else repr(key))
        if bucket is not None:
            self.distribution[bucket] = self.distribution.get(bucket, 0) + n

    def sample(self, obj, limit=6):
        if len(self.samples) < limit:
            self.samples.append(obj)

    def violation(self, key, inp, desc, observed=None, expected=None):
        """A concrete failing input of the PROPERTY (confirmed on the implementation)."""
        self.violations.append(
            {"key": key, "input": inp, "description": desc, "observed": observed, "expected": expected}
        )

    def note(self, s):
        self.notes.append(s)

    # ---- evaluating the model inside Coq (tie C) -----------------------------
    def coq_run(self, name, text, timeout=600):
        """Compile a throw-away .v file against the project; returns (rc, output)."""
        path = os.path.join(self.workdir, name + ".v")
        with open(path, "w") as f:
            f.write(text)
        cmd = ["coqc", "-Q", COQ, "VC2", "-w", "-notation-overridden,-deprecated-hint-without-locality", path]
        rc, out = sh(cmd, timeout=timeout, cwd=self.workdir)
        if rc != 0 and re.search(r"bad magic|corrupted|End_of_file|inconsistent assumptions|Cannot find a physical path|"
                                 r"not found in loadpath|Unable to locate library", out):
            # a concurrent check may be rebuilding shared .vo files: wait for it, retry once
            lk = Lock()
            lk.exclusive()
            lk.release()
            rc, out = sh(cmd, timeout=timeout, cwd=self.workdir)
        for ext in (".vo", ".vok", ".vos", ".glob"):
            try:
                os.remove(os.path.join(self.workdir, name + ext))
            except OSError:
                pass
        try:
            os.remove(os.path.join(self.workdir, "." + name + ".aux"))
        except OSError:
            pass
        return rc, out

    def coq_check_cases(self, name, imports, check, cases, ty=None, shard=300, timeout=600, defs=""):
        """Evaluate `check : T -> bool` (a Coq term using the imported models) on every
        case (Coq terms of type T, typically (input, implementation's observation)).
        Returns the sorted list of indices whose check is false; compile failures
        are recorded as failed obligations and returned as None."""
        if not cases:
            return []
        shards = [cases[i : i + shard] for i in range(0, len(cases), shard)]
        jobs = []
        for k, sh_cases in enumerate(shards):
            text = [COQ_HEADER]
            for imp in imports:
                text.append("From VC2 Require Import %s." % imp)
            text.append("From VC2 Require Import Base.CorrLib.")
            text.append(defs)
            tyann = (" : list (%s)" % ty) if ty else ""
            text.append("Definition chk := %s." % check)
            text.append("Definition cases%s := cases_for chk [\n%s\n]." % (tyann, ";\n".join(sh_cases)))
            text.append("Eval vm_compute in (bad_indices chk cases).")
            jobs.append(("%s_%03d" % (name, k), "\n".join(text), k * shard, len(sh_cases)))
        bad, failed = [], False
        with concurrent.futures.ThreadPoolExecutor(max_workers=NPROC) as ex:
            futs = {ex.submit(self.coq_run, j[0], j[1], timeout): j for j in jobs}
            for fut in concurrent.futures.as_completed(futs):
                j = futs[fut]
                rc, out = fut.result()
                m = re.search(r"=\s*\[(.*?)\]\s*:\s*list Z", out.replace("\n", " "))
                if rc != 0 or not m:
                    failed = True
                    self.obligation("corr:%s" % j[0], False, "corr-shard", out)
                    continue
                idx = [int(x.replace("%Z", "")) + j[2] for x in m.group(1).split(";") if x.strip()]
                bad.extend(idx)
                self.obligation("corr:%s" % j[0], True, "corr-shard", "%d cases, %d mismatches" % (j[3], len(idx)))
        self.corr_cases += len(cases)
        self.corr_mismatches += len(bad)
        if failed:
            return None
        return sorted(bad)

    def coq_eval(self, name, imports, term, timeout=600, defs=""):
        """Evaluate one Coq term with vm_compute; returns the printed value (string) or None."""
        text = [COQ_HEADER]
        for imp in imports:
            text.append("From VC2 Require Import %s." % imp)
        text.append(defs)
        text.append("Eval vm_compute in (%s)." % term)
        rc, out = self.coq_run(name, "\n".join(text), timeout)
        if rc != 0:
            self.obligation("coq-eval:%s" % name, False, "corr-shard", out)
            return None
        m = re.search(r"=\s*(.*)\s*:\s*[^:]*$", out.replace("\n", " ").strip())
        return m.group(1).strip() if m else out


# --- literal printers --------------------------------------------------------------

def cz(n):
    n = int(n)
    return "(%d)" % n if n < 0 else "%d" % n


def cbool(b):
    return "true" if b else "false"


def clist(xs, f=cz):
    return "[" + "; ".join(f(x) for x in xs) + "]"


def copt(x, f=cz):
    return "None" if x is None else "(Some %s)" % f(x)


def cstr(s):
    return '"%s"%%string' % s.replace('"', '""')


def digest(obj):
    return hashlib.sha1(json.dumps(obj, sort_keys=True, default=repr).encode()).hexdigest()[:12]
