"""Record the fingerprints of the sources each property is anchored in (run after validating the
checks against /repo HEAD): tools/model_pins.json.  Used only to decide how much effort a quick run
spends (vlib.Ctx.pick); never to decide a verdict."""
import json, os, sys
HERE = os.path.dirname(os.path.abspath(__file__))
sys.path.insert(0, HERE)
import vlib
pins = {}
for line in open(os.path.join(vlib.VERIF, "properties.jsonl")):
    pid = json.loads(line)["id"]
    pins[pid] = vlib.source_fingerprints(pid)
json.dump(pins, open(os.path.join(HERE, "model_pins.json"), "w"), indent=1, sort_keys=True)
print("pinned", sum(len(v) for v in pins.values()), "files for", len(pins), "properties")
