import json,sys
pid=sys.argv[1]
p=[json.loads(l) for l in open('/verif/properties.jsonl') if json.loads(l)['id']==pid][0]
wt="/tmp/seed-%s-wt"%pid
print(f"""You are helping evaluate a verification effort by playing the role of a developer who accidentally introduces a subtle bug. You work ONLY inside your own scratch git worktree of the Python project bbc/vc2_conformance (VC-2 video codec conformance toolkit). Do not read or use anything under /verif, and do not touch /repo itself.

Setup (do this first):
  git -C /repo worktree add {wt} HEAD
Work only in {wt}. NEVER use `git stash` (the stash is shared by all worktrees of /repo and other people are working in parallel): to get a clean tree temporarily use `git diff > /tmp/mychange.diff; git checkout -- .` and later `git apply /tmp/mychange.diff`. Run Python as `cd {wt} && PYTHONPATH={wt} /venv/bin/python ...` (the PYTHONPATH matters: without it the installed copy from /repo is imported). The full test suite is `cd {wt} && PYTHONPATH={wt} /venv/bin/python -m pytest -q -p no:cacheprovider --timeout=900 -x -q` (about 2-4 minutes; 14 tests fail on the untouched tree already: tests/test_color_conversion.py::test_float_to_int_clipped[...] several, tests/scripts/.../test_parallel..., tests/verification/test_compare.py::TestCompareSources::test_tokenisation_errors — ignore exactly those; run without -x to see the list and compare before/after).

The semantic property (id {pid}) that the project is supposed to satisfy:
  Title: {p['title']}
  Statement: {p['statement']}
  Quantified over: {p['quantifier']['text']}
  Why the existing tests cannot settle it: {p['why_tests_cant']}
  Code it is anchored in: {', '.join(p['anchors']['files'])}

Your task: make ONE realistic code change (a plausible refactoring slip, off-by-one, wrong operator, missed case, stale state, two cooperating edits that each look fine alone...) to the project's source (not its tests) such that
  (a) the project still imports/compiles and the existing test suite passes exactly as before (same set of passing tests),
  (b) the property above no longer holds,
  (c) the breakage needs something SPECIFIC to manifest — an unusual input, a particular size/depth/ordering, a multi-step sequence of operations, a rare combination of options, a boundary value — NOT something that ordinary use or the most common inputs would expose at once. Prefer a change whose failing inputs are a small fraction of the input space.
Then write a demonstration: a small standalone Python program `demo.py` (run as `PYTHONPATH=<tree> /venv/bin/python demo.py`) that exits non-zero (printing what went wrong) on your changed tree and exits 0 on the unchanged tree (test it against both: the unchanged tree is /repo, i.e. `PYTHONPATH=/repo`).

Deliver in /tmp/seed-out/{pid}/ :  patch.diff (output of `git -C {wt} diff`), demo.py, and notes.md (what the change is, why the tests miss it, what exactly is needed for it to manifest, the commands you ran and their results, including the before/after test-suite summary lines). When finished remove your worktree: `git -C /repo worktree remove --force {wt}`.
Reply with a short summary (the idea of the change, the trigger condition, confirmation that the suite passes and the demo fails/passes as required).""")
