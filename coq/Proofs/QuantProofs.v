(* Proofs about the GENERATED model Gen/Quant.v (tie T): property C12. *)
From Coq Require Import ZArith List Bool Lia ZifyBool.
From VC2 Require Import Base.PyZ Gen.StateRec Gen.VC2Math Gen.Quant.
Import ListNotations.
Open Scope Z_scope.
Ltac Zify.zify_post_hook ::= Z.to_euclidean_division_equations.

Ltac py_unfold := unfold py_div, py_mod, py_pow, py_abs, py_min, py_max, py_shl, py_shr in *.

(* ---- the four residue classes of the index ---------------------------- *)

Definition qf_num (j : Z) : Z :=
  if j =? 1 then 503829 else if j =? 2 then 665857 else 440253.

Lemma pow2_ge1 k : 0 <= k -> 1 <= 2 ^ k.
Proof. intros Hk. pose proof (Z.pow_pos_nonneg 2 k ltac:(lia) Hk). lia. Qed.

Lemma quant_factor_cases idx :
  0 <= idx ->
  let b := 2 ^ (idx / 4) in
  1 <= b /\
  ((idx mod 4 = 0 /\ quant_factor idx = 4 * b) \/
   (idx mod 4 = 1 /\ quant_factor idx = (503829 * b + 52958) / 105917) \/
   (idx mod 4 = 2 /\ quant_factor idx = (665857 * b + 58854) / 117708) \/
   (idx mod 4 = 3 /\ quant_factor idx = (440253 * b + 32722) / 65444)).
Proof.
  intros Hidx b.
  assert (Hb : 1 <= b) by (apply pow2_ge1; apply Z.div_pos; lia).
  split; [exact Hb|].
  unfold quant_factor; py_unfold. fold b.
  destruct (idx mod 4 =? 0) eqn:E0; [left; split; [lia|reflexivity]|].
  destruct (idx mod 4 =? 1) eqn:E1; [right; left; split; [lia|reflexivity]|].
  destruct (idx mod 4 =? 2) eqn:E2; [right; right; left; split; [lia|reflexivity]|].
  destruct (idx mod 4 =? 3) eqn:E3; [right; right; right; split; [lia|reflexivity]|].
  exfalso. pose proof (Z.mod_pos_bound idx 4 ltac:(lia)). lia.
Qed.

Lemma quant_factor_dom_ok idx : 0 <= idx -> quant_factor_dom idx = true.
Proof.
  intros Hidx. unfold quant_factor_dom; py_unfold.
  assert (H4 : 0 <= idx / 4) by (apply Z.div_pos; lia).
  pose proof (Z.mod_pos_bound idx 4 ltac:(lia)) as Hm.
  replace (negb (4 =? 0)) with true by reflexivity.
  replace (0 <=? idx / 4) with true by lia.
  cbn [andb].
  destruct (idx mod 4 =? 0) eqn:E0; [reflexivity|].
  destruct (idx mod 4 =? 1) eqn:E1; [reflexivity|].
  destruct (idx mod 4 =? 2) eqn:E2; [reflexivity|].
  destruct (idx mod 4 =? 3) eqn:E3; [reflexivity|].
  lia.
Qed.

Lemma quant_factor_ge4 idx : 0 <= idx -> 4 <= quant_factor idx.
Proof.
  intros Hidx. destruct (quant_factor_cases idx Hidx) as [Hb [[_ H]|[[_ H]|[[_ H]|[_ H]]]]];
    rewrite H; lia.
Qed.

Lemma succ_div_mod idx :
  0 <= idx ->
  (idx mod 4 = 3 /\ (idx + 1) mod 4 = 0 /\ (idx + 1) / 4 = idx / 4 + 1) \/
  (idx mod 4 < 3 /\ (idx + 1) mod 4 = idx mod 4 + 1 /\ (idx + 1) / 4 = idx / 4).
Proof. intros. lia. Qed.

Theorem quant_factor_strict_mono idx : 0 <= idx -> quant_factor idx < quant_factor (idx + 1).
Proof.
  intros Hidx.
  destruct (quant_factor_cases idx Hidx) as [Hb Hc].
  destruct (quant_factor_cases (idx + 1) ltac:(lia)) as [Hb' Hc'].
  destruct (succ_div_mod idx Hidx) as [[Hm [Hm' Hd]]|[Hm [Hm' Hd]]].
  - rewrite Hd in *. rewrite Z.pow_add_r in * by (try apply Z.div_pos; lia).
    change (2 ^ 1) with 2 in *.
    set (b := 2 ^ (idx / 4)) in *.
    destruct Hc as [[? Hq]|[[? Hq]|[[? Hq]|[? Hq]]]];
    destruct Hc' as [[? Hq']|[[? Hq']|[[? Hq']|[? Hq']]]]; lia.
  - rewrite Hd in *. set (b := 2 ^ (idx / 4)) in *.
    destruct Hc as [[? Hq]|[[? Hq]|[[? Hq]|[? Hq]]]];
    destruct Hc' as [[? Hq']|[[? Hq']|[[? Hq']|[? Hq']]]]; lia.
Qed.

(* ---- offsets ------------------------------------------------------------ *)

Lemma quant_offset_bounds idx :
  0 <= idx -> 1 <= quant_offset idx /\ quant_offset idx + 2 < quant_factor idx.
Proof.
  intros Hidx. unfold quant_offset; py_unfold.
  destruct (idx =? 0) eqn:E0.
  { assert (idx = 0) by lia; subst. vm_compute. split; [discriminate|reflexivity]. }
  destruct (idx =? 1) eqn:E1.
  { assert (idx = 1) by lia; subst. vm_compute. split; [discriminate|reflexivity]. }
  assert (H2 : 2 <= idx) by lia.
  assert (Hq : 6 <= quant_factor idx).
  { clear E0 E1.
    assert (Hm : forall n, 0 <= n -> quant_factor 2 <= quant_factor (2 + n)).
    { intros n Hn. pattern n. apply natlike_ind; [rewrite Z.add_0_r; lia| |exact Hn].
      intros x Hx IH. pose proof (quant_factor_strict_mono (2 + x) ltac:(lia)).
      replace (2 + Z.succ x) with (2 + x + 1) by lia. lia. }
    specialize (Hm (idx - 2) ltac:(lia)). replace (2 + (idx - 2)) with idx in Hm by lia.
    change (quant_factor 2) with 6 in Hm. exact Hm. }
  lia.
Qed.

Lemma quant_offset_dom_ok idx : 0 <= idx -> quant_offset_dom idx = true.
Proof.
  intros Hidx. unfold quant_offset_dom.
  destruct (idx =? 0); [reflexivity|]. destruct (idx =? 1); [reflexivity|].
  rewrite quant_factor_dom_ok by assumption. reflexivity.
Qed.

(* ---- reconstruction ------------------------------------------------------- *)

Lemma sign_pos a : 0 < a -> sign a = 1.
Proof. intros. unfold sign. destruct (a >? 0) eqn:E; [reflexivity|lia]. Qed.
Lemma sign_zero : sign 0 = 0.
Proof. reflexivity. Qed.
Lemma sign_neg a : a < 0 -> sign a = -1.
Proof.
  intros. unfold sign. destruct (a >? 0) eqn:E; [lia|].
  destruct (a =? 0) eqn:E0; [lia|]. destruct (a <? 0) eqn:E1; [reflexivity|lia].
Qed.
Lemma sign_dom_ok a : sign_dom a = true.
Proof.
  unfold sign_dom. destruct (a >? 0) eqn:E; [reflexivity|].
  destruct (a =? 0) eqn:E0; [reflexivity|]. destruct (a <? 0) eqn:E1; [reflexivity|lia].
Qed.

(* magnitude-level statement: everything is about q, o with the two bounds *)
Lemma recon_core (c q o : Z) :
  0 <= c -> 4 <= q -> 1 <= o -> o + 2 < q ->
  let m := (4 * c) / q in
  let r := if m =? 0 then 0 else (m * q + o + 2) / 4 in
  0 <= m /\ 0 <= r /\ (m = 0 -> r = 0) /\ (0 < m -> 0 < r) /\ 4 * Z.abs (c - r) < q.
Proof.
  intros Hc Hq Ho Hoq m r.
  assert (Hm : 0 <= m) by (apply Z.div_pos; lia).
  assert (Hdm : q * m <= 4 * c < q * m + q).
  { unfold m. pose proof (Z.mul_div_le (4 * c) q ltac:(lia)).
    pose proof (Z.mul_succ_div_gt (4 * c) q ltac:(lia)). lia. }
  unfold r. destruct (m =? 0) eqn:E.
  - assert (m = 0) by lia. repeat split; try lia.
  - assert (1 <= m) by lia.
    replace (m * q) with (q * m) by lia.
    set (p := q * m) in *.
    assert (q <= p) by (unfold p; nia).
    repeat split; try lia.
Qed.

Lemma forward_quant_nonneg c idx :
  0 <= idx -> 0 <= c -> forward_quant c idx = (4 * c) / quant_factor idx.
Proof.
  intros Hi Hc. unfold forward_quant; py_unfold.
  destruct (c >=? 0) eqn:E; [|lia]. rewrite Z.abs_eq by lia. reflexivity.
Qed.

Lemma forward_quant_neg c idx :
  0 <= idx -> c < 0 -> forward_quant c idx = - ((4 * - c) / quant_factor idx).
Proof.
  intros Hi Hc. unfold forward_quant; py_unfold.
  destruct (c >=? 0) eqn:E; [lia|]. rewrite Z.abs_neq by lia. reflexivity.
Qed.

Lemma inverse_quant_eq v idx :
  inverse_quant v idx =
  sign v * (if Z.abs v =? 0 then 0 else (Z.abs v * quant_factor idx + quant_offset idx + 2) / 4).
Proof.
  unfold inverse_quant; py_unfold.
  destruct (Z.abs v =? 0) eqn:E; cbn [negb].
  - assert (Z.abs v = 0) by lia. lia.
  - reflexivity.
Qed.

Theorem recon_full c idx :
  0 <= idx ->
  let r := inverse_quant (forward_quant c idx) idx in
  (r = 0 \/ sign r = sign c) /\ 4 * Z.abs (c - r) < quant_factor idx.
Proof.
  intros Hidx r.
  pose proof (quant_factor_ge4 idx Hidx) as Hq.
  destruct (quant_offset_bounds idx Hidx) as [Ho Hoq].
  destruct (Z.lt_trichotomy c 0) as [Hc|[Hc|Hc]].
  - (* negative *)
    pose proof (recon_core (- c) _ _ ltac:(lia) Hq Ho Hoq) as Hcore.
    cbv zeta in Hcore. destruct Hcore as (Hm & Hr & Hm0 & Hmp & Hb).
    unfold r. rewrite forward_quant_neg by lia. rewrite inverse_quant_eq.
    set (m := 4 * - c / quant_factor idx) in *.
    rewrite Z.abs_opp, (Z.abs_eq m) by lia.
    destruct (m =? 0) eqn:E.
    + assert (m = 0) by lia. rewrite Z.mul_0_r. split; [left; reflexivity|].
      specialize (Hm0 ltac:(lia)). lia.
    + assert (0 < m) by lia. specialize (Hmp ltac:(lia)).
      rewrite (sign_neg (- m)) by lia.
      set (x := (m * quant_factor idx + quant_offset idx + 2) / 4) in *.
      split; [right; rewrite !sign_neg by lia; reflexivity|lia].
  - subst c. unfold r. rewrite forward_quant_nonneg by lia.
    rewrite Z.mul_0_r, Z.div_0_l by lia. rewrite inverse_quant_eq. cbn. split; [left; reflexivity|lia].
  - pose proof (recon_core c _ _ ltac:(lia) Hq Ho Hoq) as Hcore.
    cbv zeta in Hcore. destruct Hcore as (Hm & Hr & Hm0 & Hmp & Hb).
    unfold r. rewrite forward_quant_nonneg by lia. rewrite inverse_quant_eq.
    set (m := 4 * c / quant_factor idx) in *.
    rewrite (Z.abs_eq m) by lia.
    destruct (m =? 0) eqn:E.
    + assert (m = 0) by lia. rewrite Z.mul_0_r. split; [left; reflexivity|].
      specialize (Hm0 ltac:(lia)). lia.
    + assert (0 < m) by lia. specialize (Hmp ltac:(lia)).
      rewrite (sign_pos m) by lia.
      set (x := (m * quant_factor idx + quant_offset idx + 2) / 4) in *.
      split; [right; rewrite !sign_pos by lia; reflexivity|lia].
Qed.

Theorem quant_dom_ok c idx :
  0 <= idx -> forward_quant_dom c idx = true /\ inverse_quant_dom c idx = true.
Proof.
  intros Hidx. pose proof (quant_factor_ge4 idx Hidx).
  unfold forward_quant_dom, inverse_quant_dom.
  rewrite quant_factor_dom_ok, quant_offset_dom_ok, sign_dom_ok by assumption.
  replace (negb (quant_factor idx =? 0)) with true by lia.
  split.
  - destruct (c >=? 0); reflexivity.
  - py_unfold. destruct (negb (Z.abs c =? 0)); reflexivity.
Qed.

Theorem index0_lossless c : forward_quant c 0 = c /\ inverse_quant c 0 = c.
Proof.
  split.
  - unfold forward_quant; py_unfold. change (quant_factor 0) with 4.
    destruct (c >=? 0) eqn:E; lia.
  - rewrite inverse_quant_eq. change (quant_factor 0) with 4. change (quant_offset 0) with 1.
    destruct (Z.abs c =? 0) eqn:E.
    + assert (c = 0) by lia. subst. reflexivity.
    + destruct (Z.lt_trichotomy c 0) as [Hc|[Hc|Hc]]; [rewrite sign_neg by lia|lia|rewrite sign_pos by lia]; lia.
Qed.

(* ---- inverse_quant 1 is strictly increasing from index 7 ------------------ *)

Definition iq1 (idx : Z) : Z := inverse_quant 1 idx.

Lemma iq1_eq idx : iq1 idx = (quant_factor idx + quant_offset idx + 2) / 4.
Proof. unfold iq1. rewrite inverse_quant_eq. change (sign 1) with 1. change (Z.abs 1 =? 0) with false.
  cbv iota. change (Z.abs 1) with 1. rewrite !Z.mul_1_l. reflexivity. Qed.

Lemma quant_offset_ge2 idx : 2 <= idx -> quant_offset idx = (quant_factor idx + 1) / 2.
Proof. intros. unfold quant_offset; py_unfold. destruct (idx =? 0) eqn:E0; [lia|]. destruct (idx =? 1) eqn:E1; [lia|]. reflexivity. Qed.

Lemma iq1_mono_large idx : 16 <= idx -> iq1 idx < iq1 (idx + 1).
Proof.
  intros Hidx. rewrite !iq1_eq, !quant_offset_ge2 by lia.
  assert (H0 : 0 <= idx) by lia.
  destruct (quant_factor_cases idx H0) as [_ Hc].
  destruct (quant_factor_cases (idx + 1) ltac:(lia)) as [_ Hc'].
  assert (Hb : 16 <= 2 ^ (idx / 4)).
  { change 16 with (2 ^ 4). apply Z.pow_le_mono_r; lia. }
  destruct (succ_div_mod idx H0) as [[Hm [Hm' Hd]]|[Hm [Hm' Hd]]].
  - rewrite Hd in *. rewrite Z.pow_add_r in * by (try apply Z.div_pos; lia).
    change (2 ^ 1) with 2 in *.
    set (b := 2 ^ (idx / 4)) in *.
    destruct Hc as [[? Hq]|[[? Hq]|[[? Hq]|[? Hq]]]];
    destruct Hc' as [[? Hq']|[[? Hq']|[[? Hq']|[? Hq']]]]; lia.
  - rewrite Hd in *. set (b := 2 ^ (idx / 4)) in *.
    destruct Hc as [[? Hq]|[[? Hq]|[[? Hq]|[? Hq]]]];
    destruct Hc' as [[? Hq']|[[? Hq']|[[? Hq']|[? Hq']]]]; lia.
Qed.

Lemma iq1_mono_small : forallb (fun i => iq1 i <? iq1 (i + 1)) [7;8;9;10;11;12;13;14;15] = true.
Proof. vm_compute. reflexivity. Qed.

Theorem iq1_strict_mono idx : 7 <= idx -> iq1 idx < iq1 (idx + 1).
Proof.
  intros Hidx. destruct (Z_lt_le_dec idx 16) as [Hs|Hl]; [|apply iq1_mono_large; exact Hl].
  pose proof iq1_mono_small as Hsm. rewrite forallb_forall in Hsm.
  assert (Hin : In idx [7;8;9;10;11;12;13;14;15]).
  { assert (idx = 7 \/ idx = 8 \/ idx = 9 \/ idx = 10 \/ idx = 11 \/ idx = 12 \/ idx = 13 \/ idx = 14 \/ idx = 15) as Hd by lia.
    cbn [In]. intuition. }
  specialize (Hsm idx Hin). lia.
Qed.

(* 7 is tight: below it two indices dequantise 1 to the same value *)
Theorem iq1_not_mono_below_7 : iq1 5 = iq1 6 /\ iq1 6 < iq1 7.
Proof. vm_compute. split; reflexivity. Qed.

(* ---- what the lossless-quantisation test case needs from the index it picks ------------- *)
Lemma iq1_lt a b : 7 <= a -> a < b -> iq1 a < iq1 b.
Proof.
  intros Ha Hab.
  assert (H : forall n, 0 <= n -> iq1 a < iq1 (a + 1 + n)).
  { intros n Hn. pattern n. apply natlike_ind; [| |exact Hn].
    - rewrite Z.add_0_r. apply iq1_strict_mono. exact Ha.
    - intros x Hx IH. replace (a + 1 + Z.succ x) with ((a + 1 + x) + 1) by lia.
      pose proof (iq1_strict_mono (a + 1 + x) ltac:(lia)). lia. }
  specialize (H (b - a - 1) ltac:(lia)). replace (a + 1 + (b - a - 1)) with b in H by lia. exact H.
Qed.

(* with qindex = (largest matrix entry) + m and m >= 7, every subband is dequantised at an
   effective index >= 7 and different matrix entries give different dequantised values of 1 *)
Theorem distinct_for_matrix (m vmax v1 v2 : Z) :
  7 <= m -> 0 <= v1 <= vmax -> 0 <= v2 <= vmax -> v1 <> v2 ->
  let q := vmax + m in
  7 <= Z.max (q - v1) 0 /\ 7 <= Z.max (q - v2) 0 /\
  inverse_quant 1 (Z.max (q - v1) 0) <> inverse_quant 1 (Z.max (q - v2) 0).
Proof.
  intros Hm H1 H2 Hne q. unfold q.
  rewrite !Z.max_l by lia. split; [lia|]. split; [lia|].
  fold (iq1 (vmax + m - v1)). fold (iq1 (vmax + m - v2)).
  destruct (Z_lt_le_dec v1 v2) as [Hlt|Hge].
  - pose proof (iq1_lt (vmax + m - v2) (vmax + m - v1) ltac:(lia) ltac:(lia)). lia.
  - pose proof (iq1_lt (vmax + m - v1) (vmax + m - v2) ltac:(lia) ltac:(lia)). lia.
Qed.
