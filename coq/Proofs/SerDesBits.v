(* Proofs about Model/SerDes.v, part 1: bit-level writer/reader round trips (C21, C06). *)
From Coq Require Import ZArith List Bool Lia.
From VC2 Require Import Model.SerDes.
Import ListNotations.
Open Scope Z_scope.

(* ====================================================================== *)
Ltac inv H := inversion H; subst; clear H.

Lemma rbind_ok {A B} (r : res A) (f : A -> res B) b :
  rbind r f = Ok b -> exists a, r = Ok a /\ f a = Ok b.
Proof. destruct r; simpl; intros H; [eauto | discriminate]. Qed.

(* the reader that faces writer [w] with [bs] still unread *)
Definition rd_of (w : io) (bs : list bool) : io := mkio bs (pos w) (rem w).

Lemma write_bit_read_bit w b w' :
  write_bit w b = Ok w' ->
  exists X, bits w' = bits w ++ X /\
    forall R, read_bit (rd_of w (X ++ R)) = Ok (b, rd_of w' R).
Proof.
  unfold write_bit, read_bit, rd_of. destruct w as [bs p [r|]]; simpl.
  - destruct (r - 1 <=? -1) eqn:E.
    + destruct b; intros H; inv H. exists []. simpl. rewrite app_nil_r. split; auto.
    + intros H; inv H. exists [b]. simpl. split; auto.
  - intros H; inv H. exists [b]. simpl. split; auto.
Qed.

Lemma write_bits_read_bits l : forall w w',
  write_bits w l = Ok w' ->
  exists X, bits w' = bits w ++ X /\
    forall R, read_bits (length l) (rd_of w (X ++ R)) = Ok (l, rd_of w' R).
Proof.
  induction l as [|b l IH]; simpl; intros w w' H.
  - inv H. exists []. rewrite app_nil_r. split; auto.
  - apply rbind_ok in H. destruct H as (w1 & H1 & H2).
    destruct (write_bit_read_bit _ _ _ H1) as (X1 & E1 & R1).
    destruct (IH _ _ H2) as (X2 & E2 & R2).
    exists (X1 ++ X2). split. { rewrite E2, E1, app_assoc. reflexivity. }
    intros R. rewrite <- app_assoc, R1. simpl. rewrite R2. reflexivity.
Qed.

Lemma write_bits_app l1 l2 w :
  write_bits w (l1 ++ l2) = rbind (write_bits w l1) (fun w' => write_bits w' l2).
Proof.
  revert w. induction l1; simpl; intros; auto.
  destruct (write_bit w a); simpl; auto.
Qed.

Lemma read_bits_app n1 n2 r l1 r1 l2 r2 :
  read_bits n1 r = Ok (l1, r1) -> read_bits n2 r1 = Ok (l2, r2) ->
  read_bits (n1 + n2) r = Ok (l1 ++ l2, r2).
Proof.
  revert r l1. induction n1; simpl; intros r l1 H1 H2.
  - inv H1. auto.
  - apply rbind_ok in H1. destruct H1 as ([b ra] & Ha & H1). rewrite Ha. simpl.
    apply rbind_ok in H1. destruct H1 as ([l rb] & Hb & H1). inv H1.
    rewrite (IHn1 _ _ Hb H2). reflexivity.
Qed.

(* ---- fixed width integers ---- *)
Lemma bits_of_length n v : length (bits_of n v) = n.
Proof. induction n; simpl; auto. Qed.

Lemma z_of_bits_bits_of n : forall acc v, 0 <= v ->
  z_of_bits acc (bits_of n v) = acc * 2 ^ Z.of_nat n + v mod 2 ^ Z.of_nat n.
Proof.
  induction n; intros acc v Hv.
  - simpl. rewrite Z.mod_1_r. lia.
  - cbn [bits_of z_of_bits]. rewrite IHn by auto.
    rewrite Nat2Z.inj_succ, Z.pow_succ_r by lia.
    rewrite Z.testbit_spec' by lia.
    rewrite (Z.mul_comm 2 (2 ^ Z.of_nat n)).
    pose proof (Z.pow_pos_nonneg 2 (Z.of_nat n)).
    rewrite (Z.rem_mul_r v (2 ^ Z.of_nat n) 2) by lia.
    lia.
Qed.

Lemma bit_length_bound n v : 0 <= v -> bit_length v <= n -> v < 2 ^ n.
Proof.
  unfold bit_length. intros Hv. destruct (v =? 0) eqn:E.
  - apply Z.eqb_eq in E. subst. intros. apply Z.pow_pos_nonneg; lia.
  - apply Z.eqb_neq in E. rewrite Z.abs_eq by lia. intros H.
    destruct (Z.log2_spec v) as [_ H2]; [lia|].
    eapply Z.lt_le_trans; [exact H2|]. apply Z.pow_le_mono_r; lia.
Qed.

Lemma enc_nbits_ok n v bs : enc_nbits n v = Ok bs ->
  0 <= v /\ bs = bits_of (Z.to_nat n) v /\ z_of_bits 0 bs = v.
Proof.
  unfold enc_nbits. destruct (v <? 0) eqn:E1; simpl; [discriminate|].
  destruct (n <? bit_length v) eqn:E2; [discriminate|]. intros H; inv H.
  apply Z.ltb_ge in E1, E2. split; auto. split; auto.
  rewrite z_of_bits_bits_of by auto.
  assert (0 <= bit_length v).
  { unfold bit_length. destruct (v =? 0); [lia|]. pose proof (Z.log2_nonneg (Z.abs v)). lia. }
  rewrite Z2Nat.id by lia. rewrite Z.mod_small; [lia|]. split; auto. apply bit_length_bound; auto.
Qed.

Lemma enc_nbits_ok2 n v bs : enc_nbits n v = Ok bs ->
  0 <= v /\ bit_length v <= n /\ bs = bits_of (Z.to_nat n) v.
Proof.
  unfold enc_nbits. destruct (v <? 0) eqn:E1; [discriminate|].
  destruct (n <? bit_length v) eqn:E2; [discriminate|]. intros H; inv H.
  apply Z.ltb_ge in E1, E2. auto.
Qed.

(* ---- bytes ---- *)
Lemma bytes_of_bits_bits_of8 b r : 0 <= b -> bit_length b <= 8 ->
  bytes_of_bits (bits_of 8 b ++ r) = b :: bytes_of_bits r.
Proof.
  intros H0 H8. change (bits_of 8 b ++ r) with
    (Z.testbit b 7 :: Z.testbit b 6 :: Z.testbit b 5 :: Z.testbit b 4 :: Z.testbit b 3 ::
     Z.testbit b 2 :: Z.testbit b 1 :: Z.testbit b 0 :: r).
  cbn [bytes_of_bits]. f_equal.
  change [Z.testbit b 7; Z.testbit b 6; Z.testbit b 5; Z.testbit b 4; Z.testbit b 3;
     Z.testbit b 2; Z.testbit b 1; Z.testbit b 0] with (bits_of 8 b).
  rewrite z_of_bits_bits_of by auto. change (Z.of_nat 8) with 8.
  rewrite Z.mod_small; [lia|]. split; auto. apply bit_length_bound; auto.
Qed.

Lemma bytes_of_bits_zeros k : bytes_of_bits (repeat false (8 * k)) = repeat 0 k.
Proof.
  induction k; [reflexivity|].
  replace (8 * S k)%nat with (S (S (S (S (S (S (S (S (8 * k)))))))))%nat by lia.
  cbn [repeat bytes_of_bits]. rewrite IHk. reflexivity.
Qed.

Lemma write_byte_list_ok l : forall w w', write_byte_list w l = Ok w' ->
  exists bs, write_bits w bs = Ok w' /\ length bs = (8 * length l)%nat /\
             forall r, bytes_of_bits (bs ++ r) = l ++ bytes_of_bits r.
Proof.
  induction l as [|b l IH]; simpl; intros w w' H.
  - inv H. exists []. simpl. auto.
  - apply rbind_ok in H. destruct H as (bs1 & H1 & H). apply rbind_ok in H. destruct H as (w1 & H2 & H3).
    destruct (IH _ _ H3) as (bs2 & Hw & Hl & Hb).
    exists (bs1 ++ bs2). rewrite write_bits_app, H2. simpl. split; auto.
    apply enc_nbits_ok2 in H1. destruct H1 as (E1 & E2 & ->). split.
    + rewrite app_length, Hl, bits_of_length. change (Z.to_nat 8) with 8%nat. lia.
    + intros r. rewrite <- app_assoc. change (Z.to_nat 8) with 8%nat.
      rewrite bytes_of_bits_bits_of8 by auto. rewrite Hb. reflexivity.
Qed.

(* ---- exp-golomb ---- *)
Lemma read_uint_loop_interleave bs : forall fuel acc r r1 r2,
  (length bs < fuel)%nat ->
  read_bits (length (interleave bs)) r = Ok (interleave bs, r1) ->
  read_bit r1 = Ok (true, r2) ->
  read_uint_loop fuel acc r = Ok (z_of_bits acc bs - 1, r2).
Proof.
  induction bs as [|b bs IH]; intros fuel acc r r1 r2 Hf Hr H1.
  - simpl in Hr. inv Hr. destruct fuel; [simpl in Hf; lia|]. simpl. rewrite H1. reflexivity.
  - destruct fuel; [simpl in Hf; lia|]. simpl in Hf.
    cbn [interleave flat_map app length read_bits] in Hr.
    apply rbind_ok in Hr. destruct Hr as ([b0 ra] & Ha & Hr).
    apply rbind_ok in Hr. destruct Hr as ([l0 rb0] & Hb & Hr). inv Hr.
    apply rbind_ok in Hb. destruct Hb as ([b1 rb] & Hb & Hr).
    apply rbind_ok in Hr. destruct Hr as ([l1 rc] & Hc & Hr). inv Hr.
    cbn [read_uint_loop]. rewrite Ha. simpl. rewrite Hb. simpl.
    cbn [z_of_bits]. eapply IH; eauto. lia.
Qed.

Lemma bits_of_top k v : 2 ^ Z.of_nat k <= v < 2 ^ (Z.of_nat k + 1) ->
  z_of_bits 1 (bits_of k v) = v.
Proof.
  intros H. rewrite z_of_bits_bits_of by (pose proof (Z.pow_pos_nonneg 2 (Z.of_nat k)); lia).
  rewrite Z.pow_add_r in H by lia. change (2 ^ 1) with 2 in H.
  pose proof (Z.pow_pos_nonneg 2 (Z.of_nat k)).
  assert (v mod 2 ^ Z.of_nat k = v - 2 ^ Z.of_nat k).
  { symmetry. apply Z.mod_unique with (q := 1); lia. }
  lia.
Qed.

Lemma count_zero_bits l : forall w w' X, write_bits w l = Ok w' -> bits w' = bits w ++ X ->
  (length (filter negb l) <= length X)%nat.
Proof.
  induction l as [|b l IH]; simpl; intros w w' X H E; [lia|].
  apply rbind_ok in H. destruct H as (w1 & H1 & H2).
  destruct (write_bit_read_bit _ _ _ H1) as (X1 & E1 & _).
  destruct (write_bits_read_bits _ _ _ H2) as (X2 & E2 & _).
  rewrite E2, E1, <- app_assoc in E. apply app_inv_head in E. subst X.
  specialize (IH _ _ _ H2 E2). rewrite app_length.
  destruct b; simpl; [lia|].
  assert (length X1 = 1%nat); [|lia].
  unfold write_bit in H1. destruct (rem w).
  - destruct (z - 1 <=? -1); [discriminate|]. inv H1. simpl in E1.
    apply app_inv_head in E1. subst. reflexivity.
  - inv H1. simpl in E1. apply app_inv_head in E1. subst. reflexivity.
Qed.

Lemma interleave_length bs : length (interleave bs) = (2 * length bs)%nat.
Proof. induction bs; simpl; auto. rewrite IHbs. lia. Qed.

Lemma interleave_zeros bs : (length bs <= length (filter negb (interleave bs)))%nat.
Proof. induction bs; simpl; auto. destruct a; simpl; lia. Qed.

Lemma filter_app_len {A} (f : A -> bool) l1 l2 :
  length (filter f (l1 ++ l2)) = (length (filter f l1) + length (filter f l2))%nat.
Proof. induction l1; simpl; auto. destruct (f a); simpl; lia. Qed.

Lemma enc_uint_roundtrip v bs w w' :
  enc_uint v = Ok bs -> write_bits w bs = Ok w' ->
  exists X, bits w' = bits w ++ X /\ forall R, read_uint (rd_of w (X ++ R)) = Ok (v, rd_of w' R).
Proof.
  unfold enc_uint. destruct (v <? 0) eqn:E; [discriminate|]. apply Z.ltb_ge in E.
  intros H; inv H. intros Hw.
  destruct (write_bits_read_bits _ _ _ Hw) as (X & EX & HR). exists X. split; auto.
  intros R. specialize (HR R).
  set (k := Z.to_nat (bit_length (v + 1) - 1)) in *.
  set (body := bits_of k (v + 1)) in *.
  rewrite write_bits_app in Hw. apply rbind_ok in Hw. destruct Hw as (w1 & Hw1 & Hw2).
  destruct (write_bits_read_bits _ _ _ Hw1) as (X1 & EX1 & HR1).
  destruct (write_bits_read_bits _ _ _ Hw2) as (X2 & EX2 & HR2).
  assert (X = X1 ++ X2).
  { rewrite EX2, EX1, <- app_assoc in EX. apply app_inv_head in EX. auto. }
  subst X. unfold read_uint.
  assert (Hv : z_of_bits 1 body = v + 1).
  { apply bits_of_top. subst k. unfold bit_length. destruct (v + 1 =? 0) eqn:E0; [apply Z.eqb_eq in E0; lia|].
    rewrite Z.abs_eq by lia. rewrite Z2Nat.id by (pose proof (Z.log2_nonneg (v + 1)); lia).
    replace (Z.log2 (v + 1) + 1 - 1) with (Z.log2 (v + 1)) by lia.
    replace (Z.log2 (v + 1) + 1) with (Z.succ (Z.log2 (v + 1))) by lia.
    apply Z.log2_spec. lia. }
  rewrite (read_uint_loop_interleave body _ 1 _ (rd_of w1 (X2 ++ R)) (rd_of w' R)).
  - rewrite Hv. f_equal. f_equal. lia.
  - unfold rd_of; cbn [bits]. rewrite !app_length.
    pose proof (count_zero_bits _ _ _ _ Hw1 EX1). pose proof (interleave_zeros body). lia.
  - rewrite <- app_assoc. apply HR1.
  - specialize (HR2 R). simpl in HR2. apply rbind_ok in HR2. destruct HR2 as ([b r'] & Hb & H2). inv H2.
    exact Hb.
Qed.

Lemma enc_sint_roundtrip v bs w w' :
  enc_sint v = Ok bs -> write_bits w bs = Ok w' ->
  exists X, bits w' = bits w ++ X /\ forall R, read_sint (rd_of w (X ++ R)) = Ok (v, rd_of w' R).
Proof.
  unfold enc_sint. intros H Hw. apply rbind_ok in H. destruct H as (l & Hl & H). inv H.
  rewrite write_bits_app in Hw. apply rbind_ok in Hw. destruct Hw as (w1 & Hw1 & Hw2).
  destruct (enc_uint_roundtrip _ _ _ _ Hl Hw1) as (X1 & E1 & R1).
  destruct (write_bits_read_bits _ _ _ Hw2) as (X2 & E2 & R2).
  exists (X1 ++ X2). split. { rewrite E2, E1, app_assoc. auto. }
  intros R. unfold read_sint. rewrite <- app_assoc, R1. simpl.
  destruct (v =? 0) eqn:E0.
  - apply Z.eqb_eq in E0. subst v. simpl. specialize (R2 R). simpl in R2.
    injection R2 as R2'. rewrite R2'. unfold rd_of. rewrite H, H0. reflexivity.
  - apply Z.eqb_neq in E0. destruct (Z.abs v =? 0) eqn:E1'; [apply Z.eqb_eq in E1'; lia|].
    specialize (R2 R). simpl in R2. apply rbind_ok in R2. destruct R2 as ([b r'] & Hb & H2).
    inv H2. rewrite Hb. simpl. destruct (v <? 0) eqn:E3; f_equal; f_equal.
    + apply Z.ltb_lt in E3. lia.
    + apply Z.ltb_ge in E3. lia.
Qed.

(* ====================================================================== *)
(* a value written by a primitive and the value read back: equal; bit and byte strings come back
   right-padded with zeros to the primitive's length *)
Definition dle (a b : val) : Prop :=
  match a, b with
  | VI x, VI y => x = y
  | VB x, VB y => x = y
  | VBits l, VBits l' => exists k, l' = l ++ repeat false k
  | VBytes l, VBytes l' => exists k, l' = l ++ repeat 0 k
  | _, _ => False
  end.

Lemma write_then_read_bits bs w w' n :
  write_bits w bs = Ok w' -> length bs = n ->
  exists X, bits w' = bits w ++ X /\ forall R, read_bits n (rd_of w (X ++ R)) = Ok (bs, rd_of w' R).
Proof. intros H <-. apply write_bits_read_bits; auto. Qed.

Lemma write_val_read_val k v w w' :
  write_val k v w = Ok w' ->
  exists X v', bits w' = bits w ++ X /\ dle v v' /\
    forall R, read_val k (rd_of w (X ++ R)) = Ok (v', rd_of w' R).
Proof.
  destruct k, v; cbn [write_val read_val]; try discriminate; intros H.
  - (* bool *) destruct (write_bit_read_bit _ _ _ H) as (X & E & HR).
    exists X, (VB b). split; auto. split; [reflexivity|]. intros R. rewrite HR. reflexivity.
  - (* nbits *) apply rbind_ok in H. destruct H as (bs & H1 & H2).
    apply enc_nbits_ok in H1. destruct H1 as (Hz & -> & Hv).
    destruct (write_then_read_bits _ _ _ (Z.to_nat n) H2 (bits_of_length _ _)) as (X & E & HR).
    exists X, (VI z). split; auto. split; [reflexivity|]. intros R. rewrite HR. simpl. rewrite Hv. reflexivity.
  - (* uint_lit *) apply rbind_ok in H. destruct H as (bs & H1 & H2).
    apply enc_nbits_ok in H1. destruct H1 as (Hz & -> & Hv).
    destruct (write_then_read_bits _ _ _ (Z.to_nat (n * 8)) H2 (bits_of_length _ _)) as (X & E & HR).
    exists X, (VI z). split; auto. split; [reflexivity|]. intros R. rewrite HR. simpl. rewrite Hv. reflexivity.
  - (* bitarray *) apply rbind_ok in H. destruct H as (bs & H1 & H2).
    unfold enc_bitarray in H1. destruct (n <? zlen l) eqn:E1; [discriminate|]. inv H1.
    apply Z.ltb_ge in E1. unfold zlen in *.
    assert (Hl : length (l ++ repeat false (Z.to_nat (n - Z.of_nat (length l)))) = Z.to_nat n).
    { rewrite app_length, repeat_length. lia. }
    destruct (write_then_read_bits _ _ _ _ H2 Hl) as (X & E & HR).
    exists X, (VBits (l ++ repeat false (Z.to_nat (n - Z.of_nat (length l))))). split; auto.
    split; [eexists; reflexivity|]. intros R. rewrite HR. reflexivity.
  - (* bytes *) destruct (n <? zlen l) eqn:E1; [discriminate|]. apply Z.ltb_ge in E1. unfold zlen in *.
    apply rbind_ok in H. destruct H as (w1 & H1 & H2).
    destruct (write_byte_list_ok _ _ _ H1) as (bs1 & Hw1 & Hl1 & Hb1).
    set (k := Z.to_nat (n - Z.of_nat (length l))) in *.
    assert (Hk : Z.to_nat (8 * (n - Z.of_nat (length l))) = (8 * k)%nat) by (subst k; lia).
    rewrite Hk in H2.
    assert (Hw : write_bits w (bs1 ++ repeat false (8 * k)) = Ok w').
    { rewrite write_bits_app, Hw1. exact H2. }
    assert (Hl : length (bs1 ++ repeat false (8 * k)) = Z.to_nat (n * 8)).
    { rewrite app_length, repeat_length, Hl1. subst k. lia. }
    destruct (write_then_read_bits _ _ _ _ Hw Hl) as (X & E & HR).
    exists X, (VBytes (l ++ repeat 0 k)). split; auto. split; [eexists; reflexivity|].
    intros R. rewrite HR. cbn [rbind]. rewrite Hb1, bytes_of_bits_zeros. reflexivity.
  - (* uint *) apply rbind_ok in H. destruct H as (bs & H1 & H2).
    destruct (enc_uint_roundtrip _ _ _ _ H1 H2) as (X & E & HR).
    exists X, (VI z). split; auto. split; [reflexivity|]. intros R. rewrite HR. reflexivity.
  - (* sint *) apply rbind_ok in H. destruct H as (bs & H1 & H2).
    destruct (enc_sint_roundtrip _ _ _ _ H1 H2) as (X & E & HR).
    exists X, (VI z). split; auto. split; [reflexivity|]. intros R. rewrite HR. reflexivity.
Qed.

(* the writer only changes bits/pos/rem consistently: pos and rem of reader and writer stay equal
   (this is what [rd_of] expresses) *)

