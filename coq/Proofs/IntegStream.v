(* Integration for C05 (decoder test cases), stream level: metamorphic lemmas over the validator model
   Model/Stream.v, composed from C01 (validator = ten rules: StreamRefine.iff_one_sequence and its
   refinement relation R / step_spec) and C10 (StreamLift.pictures_concat).

   Observation = the one C10 uses: run_obs = (verdict, number of sequences gone through, picture
   NUMBERS output in order).  The model does not carry picture contents; "same observation" below
   means same verdict and same list of output picture numbers.

   Technique: the ten rules minus the two data-unit ORDERING patterns (which are abstract automata,
   property C18/C19's business) are `core_rules` = rules_ok instantiated with automata that accept
   everything after a leading sequence header; rules_ok = core_rules && the two patterns
   (rules_split).  core_rules is a one-pass product checker (StreamRefine.prod_ok), on which
   inserting a neutral data unit / zeroing next_parse_offset is a one-step computation. *)
From Coq Require Import ZArith List Bool Lia ZifyBool Btauto.
From VC2 Require Import Base.PyZ Gen.StateRec Gen.ParseCodes Gen.Version Model.Stream
  Proofs.StreamProofs Proofs.StreamRefine Proofs.StreamLift.
Import ListNotations.
Open Scope Z_scope.

(* ---- automata that accept any sequence starting with a sequence header ---- *)
Definition tg_step (g : bool) (sym : symbol) : option bool :=
  if g then Some true else match sym with SSeqHdr => Some true | _ => None end.
Definition tg_complete (_ : bool) : bool := true.
Definition tl_start (_ : Z) : unit := tt.
Definition tl_step (_ : Z) (_ : unit) (_ : symbol) : option unit := Some tt.
Definition tl_complete (_ : Z) (_ : unit) : bool := true.

Lemma tg_gen : gen_first_is_seqhdr_b false tg_step = true.
Proof. vm_compute. reflexivity. Qed.

Definition core_rules (us : list dunit) : bool :=
  rules_ok bool false tg_step tg_complete unit tl_start tl_step tl_complete us.

Lemma tg_accepts_true syms : automaton_accepts bool tg_step tg_complete true syms = true.
Proof. induction syms as [|x r IH]; [reflexivity|]. cbn [automaton_accepts tg_step]. exact IH. Qed.
Lemma tl_accepts l syms : automaton_accepts unit (tl_step l) (tl_complete l) tt syms = true.
Proof. induction syms as [|x r IH]; [reflexivity|]. cbn [automaton_accepts tl_step]. exact IH. Qed.

(* the pictures a conformant sequence outputs, read off the data units by the fragment rule's own
   bookkeeping (Model/Stream.v frag_step): a picture data unit outputs its picture; a slice fragment
   outputs the fragmented picture when it completes it *)
Fixpoint pics_from (o : frag_open) (us : list dunit) : list Z :=
  match us with
  | [] => []
  | u :: r =>
      let o' := match frag_step o u with Some o' => o' | None => o end in
      match u_kind u with
      | KPic _ n _ => [n]
      | KFragData _ n _ _ _ => match o' with None => [n] | Some _ => [] end
      | _ => []
      end ++ pics_from o' r
  end.

Section Meta.
  Variable gst : Type.
  Variable gstart : gst.
  Variable gstep : gst -> symbol -> option gst.
  Variable gcomplete : gst -> bool.
  Variable lst : Type.
  Variable lstart : Z -> lst.
  Variable lstep : Z -> lst -> symbol -> option lst.
  Variable lcomplete : Z -> lst -> bool.
  Variable level_known : Z -> bool.
  Hypothesis Hgen : gen_first_is_seqhdr_b gstart gstep = true.

  Notation Mrun := (run gst gstart gstep gcomplete lst lstart lstep lcomplete level_known false).
  Notation Mrun_from := (run_from gst gstart gstep gcomplete lst lstart lstep lcomplete level_known false).
  Notation Mrun_obs := (run_obs gst gstart gstep gcomplete lst lstart lstep lcomplete level_known false).
  Notation Mstep := (step gst gstep gcomplete lst lstart lstep lcomplete level_known false).
  Notation Mrules_ok := (rules_ok gst gstart gstep gcomplete lst lstart lstep lcomplete).
  Notation Mpics_of := (pics_of gst gstart gstep gcomplete lst lstart lstep lcomplete level_known false).
  Notation init := (init_state gst gstart lst).
  Notation Mlevel_ok := (level_pattern_ok lst lstart lstep lcomplete).
  Notation Mgeneric_ok := (generic_pattern_ok gst gstart gstep gcomplete).

  (* the ten rules = the eight pattern-free rules and the two ordering patterns *)
  Lemma rules_split us : Mrules_ok us = core_rules us && Mlevel_ok us && Mgeneric_ok us.
  Proof.
    unfold core_rules, rules_ok, level_pattern_ok, generic_pattern_ok.
    destruct us as [|u0 rest]; [reflexivity|].
    unfold ends_ok. change (first_hdr (u0 :: rest)) with (match u_kind u0 with KSeqHdr h => Some h | _ => None end).
    destruct (u_kind u0) eqn:Ek; try reflexivity.
    change (tl_start (h_level h)) with tt. rewrite tl_accepts.
    assert (automaton_accepts bool tg_step tg_complete false (map u_symbol (u0 :: rest)) = true) as ->.
    { cbn [map automaton_accepts]. unfold u_symbol at 1. rewrite Ek. cbn [kind_symbol tg_step]. apply tg_accepts_true. }
    btauto.
  Qed.

  (* ---------------------------------------------------------------- the product checker, trivial automata *)
  Section Core.
    Variable h0 : hdr.
    Notation P := (prod_ok bool tg_step tg_complete unit tl_step tl_complete h0).
    Notation Hd := (head_ok bool tg_step unit tl_step h0).
    Notation Nx := (cnext bool tg_step unit tl_step h0).
    Notation C := (cst bool unit).

    Definition set_ppo (u : dunit) (v : Z) : dunit := mkUnit (u_kind u) (u_len u) (u_npo u) v.

    (* a data unit the decoder skips: padding, auxiliary data, or a repeat of the sequence's header,
       with a correct next_parse_offset *)
    Definition neutral (x : dunit) : Prop :=
      (u_kind x = KPad \/ u_kind x = KAux \/ u_kind x = KSeqHdr h0) /\ u_npo x = u_len x.

    Lemma P_cons c u r :
      P c (u :: r) = if is_eos_kind (u_kind u)
                     then match r with [] => Hd c u && final_ok bool tg_complete unit tl_complete h0 (Nx c u) | _ => false end
                     else Hd c u && P (Nx c u) r.
    Proof. reflexivity. Qed.

    Lemma neutral_facts x : neutral x ->
      is_eos_kind (u_kind x) = false /\ unit_version x = 1 /\ is_new_picture x = false /\
      (forall o, frag_step o x = Some o) /\ npo_ok x = true /\ hdr_same h0 x = true /\
      profile_allows (h_profile h0) (u_symbol x) = true /\ symbol_version (u_symbol x) = 1 /\
      (forall c : C, picnum_head bool unit h0 c x = true) /\
      (forall (c : C), match u_kind x with KPic _ n _ | KFragFirst _ n _ => Some n | _ => c_last _ _ c end = c_last _ _ c).
    Proof.
      intros [[Hk|[Hk|Hk]] Hn]; unfold unit_version, is_new_picture, frag_step, npo_ok, hdr_same, u_symbol, picnum_head;
        rewrite Hk; cbn [is_eos_kind kind_symbol profile_allows]; rewrite ?Hn, ?Z.eqb_refl;
        (repeat split; try reflexivity; try (intros [[[[? ?] ?] ?]|]; reflexivity)).
    Qed.

    Lemma insert_here (c : C) x u b :
      1 <= c_accv _ _ c -> c_g _ _ c = true -> 1 <= h_major h0 -> neutral x -> u_ppo x = u_ppo u ->
      P c (x :: set_ppo u (u_len x) :: b) = P c (u :: b).
    Proof.
      intros Hacc Hg Hmaj Hx Hppo.
      destruct (neutral_facts x Hx) as (Xe & Xv & Xn & Xf & Xnpo & Xh & Xp & Xs & Xpn & Xl).
      rewrite (P_cons c x). rewrite Xe.
      assert (HdX : Hd c x = (u_ppo u =? c_prev _ _ c)).
      { unfold head_ok, code_ok, supp_ok. rewrite Xnpo, Xh, Xp, Xs, Xpn, Xf, Hg, Hppo. cbn [tl_step tg_step].
        replace (1 <=? h_major h0) with true by lia. btauto. }
      rewrite HdX.
      assert (ENx : Nx c x = mkC bool unit (u_len x) (c_last _ _ c) (c_idx _ _ c) (c_o _ _ c) tt true (c_accv _ _ c)).
      { unfold cnext, new_pic. rewrite Xl, Xn, Xf, Xv, Hg. cbn [tl_step tg_step]. f_equal; lia. }
      rewrite ENx. set (c1 := mkC bool unit (u_len x) _ _ _ _ _ _).
      assert (EH : (u_ppo u =? c_prev _ _ c) && Hd c1 (set_ppo u (u_len x)) = Hd c u).
      { unfold head_ok, c1, set_ppo, npo_ok, hdr_same, code_ok, supp_ok, picnum_head, u_symbol, frag_step.
        cbn [u_kind u_len u_npo u_ppo c_prev c_last c_idx c_o c_ls c_g]. rewrite Hg, Z.eqb_refl.
        destruct (c_ls _ _ c). cbn [tl_step tg_step]. btauto. }
      assert (EN : Nx c1 (set_ppo u (u_len x)) = Nx c u).
      { unfold cnext, c1, set_ppo, new_pic, is_new_picture, unit_version, u_symbol, frag_step.
        cbn [u_kind u_len u_npo u_ppo c_prev c_last c_idx c_o c_ls c_g c_accv]. rewrite Hg.
        destruct (c_ls _ _ c). reflexivity. }
      rewrite (P_cons c1), (P_cons c u). change (u_kind (set_ppo u (u_len x))) with (u_kind u). rewrite EN.
      rewrite <- EH. destruct (is_eos_kind (u_kind u)); [destruct b|]; btauto.
    Qed.

    Lemma Nx_inv (c : C) u : 1 <= c_accv _ _ c -> c_g _ _ c = true ->
      1 <= c_accv _ _ (Nx c u) /\ c_g _ _ (Nx c u) = true.
    Proof. intros H1 H2. unfold cnext. cbn [c_accv c_g]. rewrite H2. cbn [tg_step]. split; [lia|reflexivity]. Qed.

    (* inserting a neutral unit x just before u (whose previous_parse_offset is corrected) anywhere *)
    Lemma insert_anywhere x u b : 1 <= h_major h0 -> neutral x -> u_ppo x = u_ppo u ->
      forall a (c : C), 1 <= c_accv _ _ c -> c_g _ _ c = true ->
      P c (a ++ x :: set_ppo u (u_len x) :: b) = P c (a ++ u :: b).
    Proof.
      intros Hmaj Hx Hppo. induction a as [|y a IH]; intros c Hacc Hg.
      - apply insert_here; assumption.
      - cbn [app]. rewrite !(P_cons c y). destruct (is_eos_kind (u_kind y)).
        + destruct a; reflexivity.
        + destruct (Nx_inv c y Hacc Hg) as (A1 & A2). rewrite (IH _ A1 A2). reflexivity.
    Qed.

    (* next_parse_offset := 0 on pictures and fragments *)
    Definition zero_npo (u : dunit) : dunit :=
      if is_picture_kind (u_kind u) || is_fragment_kind (u_kind u) then mkUnit (u_kind u) (u_len u) 0 (u_ppo u) else u.

    Lemma zero_npo_kind u : u_kind (zero_npo u) = u_kind u /\ u_len (zero_npo u) = u_len u /\ u_ppo (zero_npo u) = u_ppo u.
    Proof. unfold zero_npo. destruct (_ || _); repeat split; reflexivity. Qed.

    Lemma zero_npo_head (c : C) u : Hd c u = true -> Hd c (zero_npo u) = true.
    Proof.
      unfold zero_npo. destruct (is_picture_kind (u_kind u) || is_fragment_kind (u_kind u)) eqn:E; [|auto].
      set (u' := mkUnit (u_kind u) (u_len u) 0 (u_ppo u)).
      assert (E1 : npo_ok u' = true).
      { unfold npo_ok, u'. cbn [u_kind u_npo u_len]. destruct (u_kind u); cbn in E; try discriminate; reflexivity. }
      unfold head_ok. rewrite E1.
      change (hdr_same h0 u') with (hdr_same h0 u). change (code_ok h0 u') with (code_ok h0 u).
      change (supp_ok h0 u') with (supp_ok h0 u). change (picnum_head bool unit h0 c u') with (picnum_head bool unit h0 c u).
      change (frag_step (c_o bool unit c) u') with (frag_step (c_o bool unit c) u).
      change (u_symbol u') with (u_symbol u). change (u_ppo u') with (u_ppo u).
      destruct (npo_ok u); [intros H; exact H|].
      rewrite andb_false_r. cbn. discriminate.
    Qed.

    Lemma zero_npo_next (c : C) u : Nx c (zero_npo u) = Nx c u.
    Proof.
      unfold zero_npo. destruct (_ || _); [|reflexivity].
      unfold cnext, new_pic, is_new_picture, unit_version, u_symbol, frag_step. cbn [u_kind u_len]. reflexivity.
    Qed.

    Lemma zero_npo_all : forall us (c : C), P c us = true -> P c (map zero_npo us) = true.
    Proof.
      induction us as [|u r IH]; intros c H; [discriminate|].
      cbn [map]. rewrite P_cons in *. rewrite (proj1 (zero_npo_kind u)), zero_npo_next.
      destruct (is_eos_kind (u_kind u)).
      - destruct r; [|discriminate]. cbn [map]. apply andb_prop in H. destruct H as [H1 H2].
        rewrite (zero_npo_head c u H1), H2. reflexivity.
      - apply andb_prop in H. destruct H as [H1 H2]. rewrite (zero_npo_head c u H1), (IH _ H2). reflexivity.
    Qed.
  End Core.

  (* ---------------------------------------------------------------- what an accepted sequence outputs *)
  Lemma obs_tail h0 :
    hdr_version h0 <= h_major h0 -> profile_known (h_profile h0) = true -> level_known (h_level h0) = true ->
    forall rest s c npo i p,
    R gst lst h0 s c npo -> forallb (unit_valid level_known (Some h0)) rest = true -> eos_at_most_last rest = true ->
    Mrun_from false s rest = Accept ->
    Mrun_obs false s rest i p = (Accept, i + 1, p ++ pics_from (c_o _ _ c) rest).
  Proof.
    intros H0v Hpk Hlk. induction rest as [|u r IH]; intros s c npo i p HR Hval Hone Hacc.
    - exfalso. exact (eof_not_accept gst lst s Hacc).
    - change (forallb (unit_valid level_known (Some h0)) (u :: r)) with
          (unit_valid level_known (Some h0) u && forallb (unit_valid level_known (Some h0)) r) in Hval.
      apply andb_prop in Hval. destruct Hval as (Hu & Hr).
      change (eos_at_most_last (u :: r)) with
          ((negb (is_eos_kind (u_kind u)) || match r with [] => true | _ => false end) && eos_at_most_last r) in Hone.
      apply andb_prop in Hone. destruct Hone as (Hone1 & Hone).
      pose proof (step_spec gst gstep gcomplete lst lstart lstep lcomplete level_known h0 H0v Hpk Hlk s c npo u r HR Hu) as Hs.
      rewrite run_obs_cons. rewrite run_from_cons' in Hacc.
      destruct (Mstep s u r) as [s'| |v]; unfold step_post in Hs.
      + destruct Hs as (_ & _ & Heos & HR').
        rewrite (IH s' _ _ i _ HR' Hr Hone Hacc). f_equal.
        cbn [pics_from]. change (c_o gst lst (cnext gst gstep lst lstep h0 c u))
          with (match frag_step (c_o gst lst c) u with Some o => o | None => c_o gst lst c end).
        destruct HR' as (_ & _ & _ & Hf & _).
        change (c_o gst lst (cnext gst gstep lst lstep h0 c u))
          with (match frag_step (c_o gst lst c) u with Some o => o | None => c_o gst lst c end) in Hf.
        set (o' := match frag_step (c_o gst lst c) u with Some o => o | None => c_o gst lst c end) in *.
        destruct (u_kind u); rewrite <- ?app_assoc; try reflexivity.
        unfold frel in Hf. destruct o' as [[[[n0 sx] rcv] rem]|].
        * destruct Hf as (Hf & Hpos & _). replace (f_remaining (vf s') =? 0) with false by lia. reflexivity.
        * rewrite Hf. cbn [Z.eqb]. rewrite <- app_assoc. reflexivity.
      + destruct Hs as (_ & _ & Heos & _). rewrite Heos in Hone1. destruct r; [|discriminate].
        cbn [pics_from run_obs]. rewrite (eos_symbol u Heos). rewrite !app_nil_r. reflexivity.
      + destruct Hs as (Hv & _). contradiction.
  Qed.

  Theorem obs_sequence us :
    units_valid level_known us = true -> one_sequence us = true -> Mrun us = Accept ->
    Mrun_obs true init us 0 [] = (Accept, 1, pics_from None (tl us)).
  Proof.
    destruct us as [|u0 rest]; [discriminate|]. intros Hval Hone Hacc.
    unfold one_sequence in Hone.
    change (eos_at_most_last (u0 :: rest)) with
        ((negb (is_eos_kind (u_kind u0)) || match rest with [] => true | _ => false end) && eos_at_most_last rest) in Hone.
    apply andb_prop in Hone. destruct Hone as (_ & Hone).
    destruct (u_kind u0) as [h0| | | | | |] eqn:Ek.
    2-7: (exfalso; destruct (not_header_rejected gst gstart gstep gcomplete lst lstart lstep lcomplete level_known Hgen u0 rest) as (H1 & _);
          [intros h; rewrite Ek; discriminate|exact (H1 Hacc)]).
    unfold units_valid in Hval.
    change (first_hdr (u0 :: rest)) with (match u_kind u0 with KSeqHdr h => Some h | _ => None end) in Hval.
    rewrite Ek in Hval.
    change (forallb (unit_valid level_known (Some h0)) (u0 :: rest)) with
        (unit_valid level_known (Some h0) u0 && forallb (unit_valid level_known (Some h0)) rest) in Hval.
    apply andb_prop in Hval. destruct Hval as (Hv0 & Hrest).
    pose proof (first_step gst gstart gstep gcomplete lst lstart lstep lcomplete level_known Hgen u0 h0 rest Ek Hv0) as Hfs.
    assert (profile_known (h_profile h0) = true /\ level_known (h_level h0) = true) as (Hpk & Hlk).
    { unfold unit_valid in Hv0. rewrite Ek in Hv0.
      apply andb_prop in Hv0. destruct Hv0 as (_ & Hv0). apply andb_prop in Hv0. destruct Hv0 as (Hv0 & _).
      apply andb_prop in Hv0. exact Hv0. }
    unfold run in Hacc. rewrite run_from_cons' in Hacc. rewrite run_obs_cons.
    destruct (Mstep init u0 rest) as [s'| |v].
    - destruct Hfs as (g1 & ls1 & Eg & El & Hfc & HR).
      unfold first_conds in Hfc. apply andb_prop in Hfc. destruct Hfc as (_ & Hver).
      assert (hdr_version h0 <= h_major h0) as H0v by lia.
      rewrite Ek. rewrite (obs_tail h0 H0v Hpk Hlk rest s' _ _ 0 [] HR Hrest Hone Hacc). reflexivity.
    - contradiction.
    - destruct Hfs as (Hv & _). contradiction.
  Qed.

  (* ---------------------------------------------------------------- preservation of the hypotheses *)
  Lemma pics_insert h0 x u b : neutral h0 x -> forall a o,
    pics_from o (a ++ x :: set_ppo u (u_len x) :: b) = pics_from o (a ++ u :: b).
  Proof.
    intros Hx. destruct (neutral_facts h0 x Hx) as (_ & _ & _ & Xf & _).
    induction a as [|y a IH]; intros o.
    - cbn [app pics_from]. rewrite Xf. destruct Hx as [[Hk|[Hk|Hk]] _]; rewrite Hk; reflexivity.
    - cbn [app pics_from]. rewrite IH. reflexivity.
  Qed.

  Lemma eos_insert x u' u b : is_eos_kind (u_kind x) = false -> is_eos_kind (u_kind u') = is_eos_kind (u_kind u) -> forall a,
    eos_at_most_last (a ++ u :: b) = true -> eos_at_most_last (a ++ x :: u' :: b) = true.
  Proof.
    intros Hx Hu. induction a as [|y a IH]; intros H.
    - cbn [app] in *. change (eos_at_most_last (x :: u' :: b)) with
        ((negb (is_eos_kind (u_kind x)) || false) && ((negb (is_eos_kind (u_kind u')) || match b with [] => true | _ => false end) && eos_at_most_last b)).
      change (eos_at_most_last (u :: b)) with
        ((negb (is_eos_kind (u_kind u)) || match b with [] => true | _ => false end) && eos_at_most_last b) in H.
      rewrite Hx, Hu. exact H.
    - cbn [app] in *.
      change (eos_at_most_last (y :: a ++ u :: b)) with
        ((negb (is_eos_kind (u_kind y)) || match a ++ u :: b with [] => true | _ => false end) && eos_at_most_last (a ++ u :: b)) in H.
      change (eos_at_most_last (y :: a ++ x :: u' :: b)) with
        ((negb (is_eos_kind (u_kind y)) || match a ++ x :: u' :: b with [] => true | _ => false end) && eos_at_most_last (a ++ x :: u' :: b)).
      apply andb_prop in H. destruct H as (H1 & H2). rewrite (IH H2), andb_true_r.
      destruct a; exact H1.
  Qed.

  Lemma core_insert u0 h0 a x u b :
    u_kind u0 = KSeqHdr h0 -> neutral h0 x -> u_ppo x = u_ppo u ->
    core_rules (u0 :: a ++ x :: set_ppo u (u_len x) :: b) = core_rules (u0 :: a ++ u :: b).
  Proof.
    intros Ek Hx Hppo. unfold core_rules. rewrite !(rules_ok_cons bool false tg_step tg_complete unit tl_start tl_step tl_complete tg_gen u0 h0 _ Ek).
    cbn [tg_step tl_step]. rewrite <- !prod_ok_tail_rules.
    destruct (hdr_version h0 <=? h_major h0) eqn:Ev; [|rewrite !andb_false_r; reflexivity].
    assert (1 <= hdr_version h0) by (unfold hdr_version, MINIMUM_MAJOR_VERSION; lia).
    rewrite (insert_anywhere h0 x u b ltac:(lia) Hx Hppo a); [reflexivity| |reflexivity].
    unfold c0. cbn [c_accv]. lia.
  Qed.

  (* ---------------------------------------------------------------- (b) neutral data units *)
  (* Inserting a padding / auxiliary data unit, or a repeat of the sequence's own header, with correct
     offsets (its next_parse_offset = its length, its previous_parse_offset = that of the unit it is put
     before, whose previous_parse_offset becomes the new unit's length) anywhere after the first data
     unit of an accepted sequence: still accepted -- PROVIDED the two data-unit ordering patterns allow
     the new parse-code sequence (abstract automata here; that is C18/C19's subject) -- and the
     observation (verdict, sequence count, pictures output) is unchanged. *)
  Theorem insert_neutral_irrelevant u0 h0 a x u b :
    let us := u0 :: a ++ u :: b in
    let us' := u0 :: a ++ x :: set_ppo u (u_len x) :: b in
    u_kind u0 = KSeqHdr h0 -> neutral h0 x -> PARSE_INFO_HEADER_BYTES <= u_len x -> u_ppo x = u_ppo u ->
    units_valid level_known us = true -> one_sequence us = true -> Mrun us = Accept ->
    Mlevel_ok us' = true -> Mgeneric_ok us' = true ->
    Mrun us' = Accept /\ Mrun_obs true init us' 0 [] = Mrun_obs true init us 0 [] /\ eos_only_last us' = true.
  Proof.
    intros us us' Ek Hx Hlen Hppo Hval Hone Hacc Hlv Hgn.
    destruct (neutral_facts h0 x Hx) as (Xe & _).
    assert (Hval' : units_valid level_known us' = true).
    { unfold units_valid, us, us' in *.
      change (first_hdr (u0 :: a ++ u :: b)) with (match u_kind u0 with KSeqHdr h => Some h | _ => None end) in Hval.
      change (first_hdr (u0 :: a ++ x :: set_ppo u (u_len x) :: b)) with (match u_kind u0 with KSeqHdr h => Some h | _ => None end).
      rewrite Ek in *. cbn [forallb] in *. rewrite forallb_app in *. cbn [forallb] in *.
      apply andb_prop in Hval. destruct Hval as (V0 & Hval). apply andb_prop in Hval. destruct Hval as (Va & Hval).
      apply andb_prop in Hval. destruct Hval as (Vu & Vb).
      rewrite V0, Va, Vb. change (unit_valid level_known (Some h0) (set_ppo u (u_len x))) with (unit_valid level_known (Some h0) u).
      rewrite Vu. rewrite !andb_true_r. cbn [andb].
      unfold unit_valid in V0 |- *. apply andb_prop in V0. destruct V0 as (_ & V0). rewrite Ek in V0.
      replace (PARSE_INFO_HEADER_BYTES <=? u_len x) with true by lia. cbn [andb].
      destruct Hx as [[Hk|[Hk|Hk]] _]; rewrite Hk; [reflexivity|reflexivity|exact V0]. }
    assert (Hone' : one_sequence us' = true).
    { unfold one_sequence, us, us' in *. apply (eos_insert x (set_ppo u (u_len x)) u b Xe eq_refl (u0 :: a)). exact Hone. }
    pose proof (proj1 (iff_one_sequence gst gstart gstep gcomplete lst lstart lstep lcomplete level_known Hgen us Hval Hone) Hacc) as Hr.
    rewrite rules_split in Hr. apply andb_prop in Hr. destruct Hr as (Hr & _). apply andb_prop in Hr. destruct Hr as (Hcore & _).
    assert (Hr' : Mrules_ok us' = true).
    { rewrite rules_split. unfold us'. rewrite (core_insert u0 h0 a x u b Ek Hx Hppo). fold us. rewrite Hcore. fold us'. rewrite Hlv, Hgn. reflexivity. }
    pose proof (proj2 (iff_one_sequence gst gstart gstep gcomplete lst lstart lstep lcomplete level_known Hgen us' Hval' Hone') Hr') as Hacc'.
    split; [exact Hacc'|]. split.
    - rewrite (obs_sequence us Hval Hone Hacc), (obs_sequence us' Hval' Hone' Hacc'). unfold us, us'. cbn [tl].
      rewrite (pics_insert h0 x u b Hx). reflexivity.
    - unfold rules_ok, ends_ok in Hr'. destruct (first_hdr us'); [|discriminate].
      repeat (apply andb_prop in Hr'; destruct Hr' as (Hr' & _)). exact Hr'.
  Qed.

  (* ---------------------------------------------------------------- (d) absent next_parse_offset *)
  Lemma zero_npo_symbols us : map u_symbol (map zero_npo us) = map u_symbol us.
  Proof.
    rewrite map_map. apply map_ext. intros u. unfold u_symbol. rewrite (proj1 (zero_npo_kind u)). reflexivity.
  Qed.
  Lemma zero_npo_first_hdr us : first_hdr (map zero_npo us) = first_hdr us.
  Proof. destruct us as [|u r]; [reflexivity|]. cbn [map first_hdr]. rewrite (proj1 (zero_npo_kind u)). reflexivity. Qed.

  Lemma zero_npo_pics : forall us o, pics_from o (map zero_npo us) = pics_from o us.
  Proof.
    induction us as [|u r IH]; intros o; [reflexivity|]. cbn [map pics_from].
    assert (E : frag_step o (zero_npo u) = frag_step o u) by (unfold frag_step; rewrite (proj1 (zero_npo_kind u)); reflexivity).
    rewrite E, (proj1 (zero_npo_kind u)), IH. reflexivity.
  Qed.

  Lemma zero_npo_eos : forall us, eos_at_most_last (map zero_npo us) = eos_at_most_last us.
  Proof.
    induction us as [|u r IH]; [reflexivity|]. cbn [map].
    change (eos_at_most_last (zero_npo u :: map zero_npo r)) with
      ((negb (is_eos_kind (u_kind (zero_npo u))) || match map zero_npo r with [] => true | _ => false end) && eos_at_most_last (map zero_npo r)).
    change (eos_at_most_last (u :: r)) with
      ((negb (is_eos_kind (u_kind u)) || match r with [] => true | _ => false end) && eos_at_most_last r).
    rewrite IH, (proj1 (zero_npo_kind u)). destruct r; reflexivity.
  Qed.

  (* Setting next_parse_offset to 0 on every picture and fragment data unit of an accepted sequence:
     still accepted (no hypothesis on the patterns: the parse codes are unchanged), same observation. *)
  Theorem zero_npo_irrelevant us :
    units_valid level_known us = true -> one_sequence us = true -> Mrun us = Accept ->
    Mrun (map zero_npo us) = Accept /\
    Mrun_obs true init (map zero_npo us) 0 [] = Mrun_obs true init us 0 [] /\ eos_only_last (map zero_npo us) = true.
  Proof.
    intros Hval Hone Hacc.
    assert (Hval' : units_valid level_known (map zero_npo us) = true).
    { unfold units_valid in *. rewrite zero_npo_first_hdr. rewrite forallb_forall in *. intros y Hy.
      apply in_map_iff in Hy. destruct Hy as (u & <- & Hu). specialize (Hval u Hu).
      unfold unit_valid in *. destruct (zero_npo_kind u) as (E1 & E2 & _). rewrite E1, E2. exact Hval. }
    assert (Hone' : one_sequence (map zero_npo us) = true).
    { unfold one_sequence in *. destruct us as [|u r]; [discriminate|]. rewrite zero_npo_eos. exact Hone. }
    pose proof (proj1 (iff_one_sequence gst gstart gstep gcomplete lst lstart lstep lcomplete level_known Hgen us Hval Hone) Hacc) as Hr.
    rewrite rules_split in Hr. apply andb_prop in Hr. destruct Hr as (Hr & Hgn). apply andb_prop in Hr. destruct Hr as (Hcore & Hlv).
    assert (Hr' : Mrules_ok (map zero_npo us) = true).
    { rewrite rules_split. unfold level_pattern_ok, generic_pattern_ok in *.
      rewrite zero_npo_first_hdr, zero_npo_symbols, Hlv, Hgn, !andb_true_r.
      destruct us as [|u0 rest]; [discriminate|].
      unfold core_rules in *. destruct (u_kind u0) as [h0| | | | | |] eqn:Ek.
      2-7: (unfold rules_ok, ends_ok in Hcore; change (first_hdr (u0 :: rest)) with (match u_kind u0 with KSeqHdr h => Some h | _ => None end) in Hcore;
            rewrite Ek in Hcore; discriminate).
      cbn [map]. assert (E0 : zero_npo u0 = u0) by (unfold zero_npo; rewrite Ek; reflexivity). rewrite E0.
      rewrite (rules_ok_cons bool false tg_step tg_complete unit tl_start tl_step tl_complete tg_gen u0 h0 _ Ek) in Hcore.
      rewrite (rules_ok_cons bool false tg_step tg_complete unit tl_start tl_step tl_complete tg_gen u0 h0 _ Ek).
      cbn [tg_step tl_step] in *. rewrite <- prod_ok_tail_rules in Hcore. rewrite <- prod_ok_tail_rules.
      apply andb_prop in Hcore. destruct Hcore as (H1 & H2). rewrite H1. apply zero_npo_all. exact H2. }
    pose proof (proj2 (iff_one_sequence gst gstart gstep gcomplete lst lstart lstep lcomplete level_known Hgen _ Hval' Hone') Hr') as Hacc'.
    split; [exact Hacc'|]. split.
    - rewrite (obs_sequence us Hval Hone Hacc), (obs_sequence _ Hval' Hone' Hacc').
      destruct us as [|u0 rest]; [reflexivity|]. cbn [map tl]. rewrite zero_npo_pics. reflexivity.
    - unfold rules_ok, ends_ok in Hr'. destruct (first_hdr (map zero_npo us)); [|discriminate].
      repeat (apply andb_prop in Hr'; destruct Hr' as (Hr' & _)). exact Hr'.
  Qed.

  (* ---------------------------------------------------------------- inside a stream of several sequences (C10) *)
  (* replacing one sequence of an accepted stream by an accepted sequence with the same output
     leaves the whole observation unchanged *)
  Theorem stream_replace before sq sq' after :
    Forall (fun s => eos_only_last s = true) (before ++ [sq] ++ after) ->
    Forall (fun s => Mrun s = Accept) (before ++ [sq] ++ after) ->
    eos_only_last sq' = true -> Mrun sq' = Accept ->
    Mrun_obs true init sq' 0 [] = Mrun_obs true init sq 0 [] ->
    Mrun_obs true init (concat (before ++ [sq'] ++ after)) 0 [] =
    Mrun_obs true init (concat (before ++ [sq] ++ after)) 0 [].
  Proof.
    intros Hl Ha Hl' Ha' Hobs.
    assert (Hl2 : Forall (fun s => eos_only_last s = true) (before ++ [sq'] ++ after)).
    { apply Forall_app in Hl. destruct Hl as (L1 & L2). apply Forall_app in L2. destruct L2 as (_ & L3).
      apply Forall_app. split; [exact L1|]. apply Forall_app. split; [constructor; [exact Hl'|constructor]|exact L3]. }
    assert (Ha2 : Forall (fun s => Mrun s = Accept) (before ++ [sq'] ++ after)).
    { apply Forall_app in Ha. destruct Ha as (L1 & L2). apply Forall_app in L2. destruct L2 as (_ & L3).
      apply Forall_app. split; [exact L1|]. apply Forall_app. split; [constructor; [exact Ha'|constructor]|exact L3]. }
    rewrite (pictures_concat gst gstart gstep gcomplete lst lstart lstep lcomplete level_known false _ Hl Ha 0 []).
    rewrite (pictures_concat gst gstart gstep gcomplete lst lstart lstep lcomplete level_known false _ Hl2 Ha2 0 []).
    rewrite !app_length, !map_app. cbn [length map]. unfold pics_of. rewrite Hobs. reflexivity.
  Qed.
End Meta.
