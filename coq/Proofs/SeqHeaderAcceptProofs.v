(* Lemmas about Model/SeqHeaderAccept.v: every header the encoder's enumeration
   (Model/SeqHeader.v iter_sequence_headers) yields for a valid target format passes every check
   the validator makes on a sequence header, given a major_version at least the one its
   `...NotSupportedByVersion` tests demand; the (key, value) pairs it hands to
   assert_level_constraint are coded_keys (+ the two versions), so that one column admitting them
   makes every incremental level check pass as well. *)
From Coq Require Import ZArith List Bool Lia.
From VC2 Require Import Base.PyZ Gen.Consts Gen.Version Model.SeqHeader Proofs.SeqHeaderProofs
                        Model.SeqHeaderAccept Model.LevelChoices.
Import ListNotations.
Open Scope Z_scope.

(* ---- run_checks -------------------------------------------------------------------------- *)
Lemma reqs_ok_app : forall a b, reqs_ok (a ++ b) = reqs_ok a && reqs_ok b.
Proof. intros. unfold reqs_ok. apply forallb_app. Qed.

Lemma level_kvs_app : forall a b, level_kvs (a ++ b) = level_kvs a ++ level_kvs b.
Proof. intros. unfold level_kvs. apply flat_map_app. Qed.

Lemma run_checks_no_level : forall cs sofar,
  reqs_ok cs = true -> run_checks no_level sofar cs = Accept.
Proof.
  induction cs as [|[k v|e ok] cs IH]; intros sofar H; cbn [run_checks]; auto.
  - unfold no_level at 1. apply IH. exact H.
  - cbn [reqs_ok forallb] in H. apply andb_true_iff in H. destruct H as [H1 H2].
    rewrite H1. apply IH. exact H2.
Qed.

(* conversely, whatever the level says: an accepted header passed every non-level check *)
Lemma run_checks_accept_reqs : forall lvl cs sofar,
  run_checks lvl sofar cs = Accept -> reqs_ok cs = true.
Proof.
  induction cs as [|[k v|e ok] cs IH]; intros sofar H; cbn [run_checks] in H; auto.
  - destruct (lvl sofar k v); [|discriminate]. cbn [reqs_ok forallb]. eapply IH. exact H.
  - destruct ok; [|discriminate]. cbn [reqs_ok forallb]. eapply IH. exact H.
Qed.

Lemma admitted_col_admits : forall c l, admitted c l -> col_admits c l = true.
Proof.
  intros c l H. unfold col_admits. apply forallb_forall. intros p Hp.
  unfold admitted in H. rewrite Forall_forall in H. apply H. exact Hp.
Qed.

(* one column admitting everything recorded and everything still to be checked makes every
   incremental level check pass *)
Lemma run_checks_level : forall tbl c cs sofar,
  In c tbl -> reqs_ok cs = true -> admitted c sofar -> admitted c (level_kvs cs) ->
  run_checks (level_ok tbl) sofar cs = Accept.
Proof.
  intros tbl c. induction cs as [|[k v|e ok] cs IH]; intros sofar Hc Hr Hs Hk; cbn [run_checks]; auto.
  - cbn [level_kvs flat_map app] in Hk. fold (level_kvs cs) in Hk.
    inversion Hk as [|? ? Hkv Hk']; subst. cbn [fst snd] in Hkv.
    assert (L : level_ok tbl sofar k v = true).
    { unfold level_ok. apply existsb_exists. exists c. split; [exact Hc|].
      rewrite (admitted_col_admits _ _ Hs). exact Hkv. }
    rewrite L. apply IH; auto. constructor; assumption.
  - cbn [reqs_ok forallb] in Hr. apply andb_true_iff in Hr. destruct Hr as [H1 H2].
    rewrite H1. apply IH; auto.
Qed.

(* ---- small facts ----------------------------------------------------------------------------- *)
Lemma version_ge_true : forall major req, req <= major -> version_ge major req = true.
Proof.
  intros major req H. unfold version_ge. destruct (major <? req) eqn:E; auto.
  apply Z.ltb_lt in E. lia.
Qed.

Lemma keys_in_spec : forall {A} (ps : list (Z * A)) en i x,
  keys_in ps en = true -> In (i, x) ps -> zmem i en = true.
Proof.
  intros A ps en i x H HIn. unfold keys_in in H. rewrite forallb_forall in H.
  apply (H (i, x) HIn).
Qed.

Lemma assoc_some_in : forall {A} (l : list (Z * A)) k v, assoc k l = Some v -> In (k, v) l.
Proof.
  induction l as [|[k' v'] l IH]; intros k v H; cbn [assoc] in H; [discriminate|].
  destruct (k =? k') eqn:E.
  - apply Z.eqb_eq in E. inversion H; subst. left. reflexivity.
  - right. apply IH. exact H.
Qed.

Lemma set_frame_size_id : forall v, set_frame_size (vp_frame_size v) v = v. Proof. destruct v; reflexivity. Qed.
Lemma set_cdf_id : forall v, set_cdf (vp_cdf v) v = v. Proof. destruct v; reflexivity. Qed.
Lemma set_scan_id : forall v, set_scan (vp_scan v) v = v. Proof. destruct v; reflexivity. Qed.
Lemma set_frame_rate_id : forall v, set_frame_rate (vp_frame_rate v) v = v. Proof. destruct v; reflexivity. Qed.
Lemma set_par_id : forall v, set_par (vp_par v) v = v. Proof. destruct v; reflexivity. Qed.
Lemma set_clean_id : forall v, set_clean (vp_clean v) v = v. Proof. destruct v; reflexivity. Qed.
Lemma set_signal_id : forall v, set_signal (vp_signal v) v = v. Proof. destruct v; reflexivity. Qed.

Lemma t2_inj : forall a b, t2 a = t2 b -> a = b.
Proof. intros [a1 a2] [b1 b2] H. cbn in H. inversion H. reflexivity. Qed.
Lemma t4_inj : forall a b, t4 a = t4 b -> a = b.
Proof. intros [[[a1 a2] a3] a4] [[[b1 b2] b3] b4] H. cbn in H. inversion H. reflexivity. Qed.
Lemma t1_inj : forall a b, t1 a = t1 b -> a = b.
Proof. intros a b H. cbn in H. inversion H. reflexivity. Qed.

Lemma dims_ok_frame_nonzero : forall v pcm,
  dims_ok v pcm = true -> fst (vp_frame_size v) <> 0 /\ snd (vp_frame_size v) <> 0.
Proof.
  intros v pcm H. unfold dims_ok, picture_dimensions in H.
  destruct (vp_frame_size v) as [fw fh]. cbn [fst snd].
  destruct (vp_cdf v =? CDF_4_2_0); destruct (pcm =? PCM_FIELDS);
    apply negb_true_iff in H;
    repeat (apply orb_false_iff in H; destruct H as [H ?]);
    repeat match goal with X : (_ =? 0) = false |- _ => apply Z.eqb_neq in X end;
    split; intros E0; subst;
    repeat match goal with X : 0 / 2 <> 0 |- _ => apply X; reflexivity end;
    try contradiction.
Qed.

Lemma clean_ok_ext : forall v v',
  vp_frame_size v = vp_frame_size v' -> vp_clean v = vp_clean v' -> clean_ok v = clean_ok v'.
Proof. intros v v' H1 H2. unfold clean_ok. rewrite H1, H2. reflexivity. Qed.

(* ---- the groups --------------------------------------------------------------------------------- *)
Ltac bools :=
  repeat match goal with
         | H : _ && _ = true |- _ => apply andb_true_iff in H; destruct H
         | H : negb _ = true |- _ => apply negb_true_iff in H
         end.

Lemma chk_frame_size_ok : forall c bs ts g v,
  In g (iter_custom_options c (t2 bs) (t2 ts) K_custom_dimensions_flag [K_frame_width; K_frame_height] None) ->
  vp_frame_size v = bs -> fst ts <> 0 -> snd ts <> 0 ->
  snd (chk_frame_size g v) = set_frame_size ts v
  /\ reqs_ok (fst (chk_frame_size g v)) = true
  /\ level_kvs (fst (chk_frame_size g v))
     = coded_group K_custom_dimensions_flag None [K_frame_width; K_frame_height] g.
Proof.
  intros c bs ts g v H Hv Hw Hh. apply iter_custom_options_cases in H.
  destruct H as [[Hg [Hb _]]|[(ps & ik & i & Hp & _)|[Hg _]]]; [| discriminate |].
  - subst g. apply t2_inj in Hb. subst ts bs. cbn. rewrite set_frame_size_id. auto.
  - subst g. destruct ts as [w h]. cbn [fst snd] in Hw, Hh. cbn.
    apply Z.eqb_neq in Hw, Hh. rewrite Hw, Hh. auto.
Qed.

Lemma chk_cdf_ok : forall c E b tg g v,
  In g (iter_custom_options c (t1 b) (t1 tg) K_custom_color_diff_format_flag [K_color_diff_format_index] None) ->
  vp_cdf v = b -> zmem tg (e_cdf E) = true ->
  snd (chk_cdf E g v) = set_cdf tg v
  /\ reqs_ok (fst (chk_cdf E g v)) = true
  /\ level_kvs (fst (chk_cdf E g v))
     = coded_group K_custom_color_diff_format_flag None [K_color_diff_format_index] g.
Proof.
  intros c E b tg g v H Hv Hm. apply iter_custom_options_cases in H.
  destruct H as [[Hg [Hb _]]|[(ps & ik & i & Hp & _)|[Hg _]]]; [| discriminate |].
  - subst g. apply t1_inj in Hb. subst tg b. cbn. rewrite set_cdf_id. auto.
  - subst g. cbn. rewrite Hm. auto.
Qed.

Lemma chk_scan_ok : forall c E b tg g v,
  In g (iter_custom_options c (t1 b) (t1 tg) K_custom_scan_format_flag [K_source_sampling] None) ->
  vp_scan v = b -> zmem tg (e_scan E) = true ->
  snd (chk_scan E g v) = set_scan tg v
  /\ reqs_ok (fst (chk_scan E g v)) = true
  /\ level_kvs (fst (chk_scan E g v))
     = coded_group K_custom_scan_format_flag None [K_source_sampling] g.
Proof.
  intros c E b tg g v H Hv Hm. apply iter_custom_options_cases in H.
  destruct H as [[Hg [Hb _]]|[(ps & ik & i & Hp & _)|[Hg _]]]; [| discriminate |].
  - subst g. apply t1_inj in Hb. subst tg b. cbn. rewrite set_scan_id. auto.
  - subst g. cbn. rewrite Hm. auto.
Qed.

(* a preset the enumeration emits: a non-zero key of the table, mapped to the target values *)
Lemma preset_emitted : forall (ps : list (Z * list Z)) i vals,
  presets_wf ps -> In (i, vals) ps -> (i =? 0) = false /\ assoc i ps = Some vals.
Proof.
  intros ps i vals [ND N0] HIn. split.
  - apply Z.eqb_neq. intros E0. subst i. apply N0.
    change 0 with (fst (0, vals)). apply in_map. exact HIn.
  - apply assoc_in_nodup; assumption.
Qed.

Lemma chk_frame_rate_ok : forall c T E major bs ts g v,
  In g (iter_custom_options c (t2 bs) (t2 ts) K_custom_frame_rate_flag
          [K_frame_rate_numer; K_frame_rate_denom] (Some (preset_frame_rates T, K_frame_rate_index))) ->
  presets_wf (preset_frame_rates T) -> keys_in (preset_frame_rates T) (e_frame_rates E) = true ->
  vp_frame_rate v = bs -> nonzero2 ts = true ->
  preset_req preset_frame_rate_version_implication g <= major ->
  snd (chk_frame_rate T E major g v) = set_frame_rate ts v
  /\ reqs_ok (fst (chk_frame_rate T E major g v)) = true
  /\ level_kvs (fst (chk_frame_rate T E major g v))
     = coded_group K_custom_frame_rate_flag (Some K_frame_rate_index)
         [K_frame_rate_numer; K_frame_rate_denom] g.
Proof.
  intros c T E major bs ts g v H Wf Hk Hv Hnz Hver. apply iter_custom_options_cases in H.
  destruct H as [[Hg [Hb _]]|[(ps & ik & i & Hp & Hg & HIn & _)|[Hg _]]].
  - subst g. apply t2_inj in Hb. subst ts bs. cbn. rewrite set_frame_rate_id. auto.
  - inversion Hp; subst ps ik g. cbn [preset_req] in Hver.
    destruct (preset_emitted _ _ _ Wf HIn) as [Hi0 Ha].
    unfold chk_frame_rate. rewrite Hi0, Ha. cbn [obind]. rewrite l2_t2.
    cbn [fst snd is_some reqs_ok forallb level_kvs flat_map app coded_group].
    rewrite (keys_in_spec _ _ _ _ Hk HIn), (version_ge_true _ _ Hver). auto.
  - subst g. destruct ts as [n d]. unfold nonzero2 in Hnz. bools. cbn.
    repeat match goal with X : (_ =? 0) = false |- _ => rewrite X end. auto.
Qed.

Lemma chk_par_ok : forall c T E bs ts g v,
  In g (iter_custom_options c (t2 bs) (t2 ts) K_custom_pixel_aspect_ratio_flag
          [K_pixel_aspect_ratio_numer; K_pixel_aspect_ratio_denom]
          (Some (preset_pars T, K_pixel_aspect_ratio_index))) ->
  presets_wf (preset_pars T) -> keys_in (preset_pars T) (e_pars E) = true ->
  vp_par v = bs -> nonzero2 ts = true ->
  snd (chk_par T E g v) = set_par ts v
  /\ reqs_ok (fst (chk_par T E g v)) = true
  /\ level_kvs (fst (chk_par T E g v))
     = coded_group K_custom_pixel_aspect_ratio_flag (Some K_pixel_aspect_ratio_index)
         [K_pixel_aspect_ratio_numer; K_pixel_aspect_ratio_denom] g.
Proof.
  intros c T E bs ts g v H Wf Hk Hv Hnz. apply iter_custom_options_cases in H.
  destruct H as [[Hg [Hb _]]|[(ps & ik & i & Hp & Hg & HIn & _)|[Hg _]]].
  - subst g. apply t2_inj in Hb. subst ts bs. cbn. rewrite set_par_id. auto.
  - inversion Hp; subst ps ik g.
    destruct (preset_emitted _ _ _ Wf HIn) as [Hi0 Ha].
    unfold chk_par. rewrite Hi0, Ha. cbn [obind]. rewrite l2_t2.
    cbn [fst snd is_some reqs_ok forallb level_kvs flat_map app coded_group].
    rewrite (keys_in_spec _ _ _ _ Hk HIn). auto.
  - subst g. destruct ts as [n d]. unfold nonzero2 in Hnz. bools. cbn.
    repeat match goal with X : (_ =? 0) = false |- _ => rewrite X end. auto.
Qed.

Lemma chk_clean_ok : forall c bs tgt g v,
  In g (iter_custom_options c (t4 bs) (t4 (vp_clean tgt)) K_custom_clean_area_flag clean_keys None) ->
  vp_clean v = bs -> vp_frame_size v = vp_frame_size tgt -> clean_ok tgt = true ->
  snd (chk_clean g v) = set_clean (vp_clean tgt) v
  /\ reqs_ok (fst (chk_clean g v)) = true
  /\ level_kvs (fst (chk_clean g v)) = coded_clean g.
Proof.
  intros c bs tgt g v H Hv Hfs Hok. apply iter_custom_options_cases in H.
  destruct H as [[Hg [Hb _]]|[(ps & ik & i & Hp & _)|[Hg _]]]; [| discriminate |].
  - subst g. apply t4_inj in Hb. rewrite Hb in Hv. cbn. rewrite <- Hv at 1. rewrite set_clean_id.
    rewrite (clean_ok_ext v tgt Hfs Hv), Hok. auto.
  - subst g. destruct (vp_clean tgt) as [[[cw ch] topo] lefto] eqn:Ec.
    cbn [t4 chk_clean fst snd reqs_ok forallb level_kvs flat_map app coded_clean].
    rewrite (clean_ok_ext (set_clean (cw, ch, topo, lefto) v) tgt); [rewrite Hok; auto| |].
    + destruct v; cbn in *. exact Hfs.
    + destruct v; cbn in *. symmetry. exact Ec.
Qed.

Lemma chk_signal_ok : forall c T E major bs ts g v,
  In g (iter_custom_options c (t4 bs) (t4 ts) K_custom_signal_range_flag signal_keys
          (Some (preset_signal_ranges T, K_custom_signal_range_index))) ->
  presets_wf (preset_signal_ranges T) -> keys_in (preset_signal_ranges T) (e_signal_ranges E) = true ->
  vp_signal v = bs -> excursions_ok ts = true ->
  preset_req preset_signal_range_version_implication g <= major ->
  snd (chk_signal T E major g v) = set_signal ts v
  /\ reqs_ok (fst (chk_signal T E major g v)) = true
  /\ level_kvs (fst (chk_signal T E major g v))
     = coded_group K_custom_signal_range_flag (Some K_custom_signal_range_index) signal_keys g.
Proof.
  intros c T E major bs ts g v H Wf Hk Hv Hex Hver. apply iter_custom_options_cases in H.
  destruct H as [[Hg [Hb _]]|[(ps & ik & i & Hp & Hg & HIn & _)|[Hg _]]].
  - subst g. apply t4_inj in Hb. subst ts bs. cbn. rewrite set_signal_id. auto.
  - inversion Hp; subst ps ik g. cbn [preset_req] in Hver.
    destruct (preset_emitted _ _ _ Wf HIn) as [Hi0 Ha].
    unfold chk_signal. rewrite Hi0, Ha. cbn [obind]. rewrite l4_t4.
    cbn [fst snd is_some reqs_ok forallb level_kvs flat_map app coded_group].
    rewrite (keys_in_spec _ _ _ _ Hk HIn), (version_ge_true _ _ Hver). auto.
  - subst g. destruct ts as [[[lo le] co] ce]. unfold excursions_ok in Hex. bools. cbn.
    repeat match goal with X : (_ <? 1) = false |- _ => rewrite X end. auto.
Qed.

Lemma chk_nested_ok : forall c flag ikey en ebad ever imp major b tg g,
  In g (iter_custom_options c [b] [tg] flag [ikey] None) ->
  zmem tg en = true -> nested_req imp g <= major ->
  snd (chk_nested flag ikey en ebad ever imp major g b) = tg
  /\ reqs_ok (fst (chk_nested flag ikey en ebad ever imp major g b)) = true
  /\ level_kvs (fst (chk_nested flag ikey en ebad ever imp major g b)) = coded_group flag None [ikey] g.
Proof.
  intros c flag ikey en ebad ever imp major b tg g H Hm Hver. apply iter_custom_options_cases in H.
  destruct H as [[Hg [Hb _]]|[(ps & ik & i & Hp & _)|[Hg _]]]; [| discriminate |].
  - subst g. inversion Hb; subst. cbn. auto.
  - subst g. cbn [nested_req] in Hver. cbn. rewrite Hm, (version_ge_true _ _ Hver). auto.
Qed.

Lemma chk_color_ok : forall c T E major base target cs v,
  In cs (iter_color_spec_options c T base target) ->
  NoDup (map fst (preset_color_specs T)) -> keys_in (preset_color_specs T) (e_color_specs E) = true ->
  vp_primaries v = vp_primaries base -> vp_matrix v = vp_matrix base -> vp_tf v = vp_tf base ->
  zmem (vp_primaries target) (e_primaries E) = true -> zmem (vp_matrix target) (e_matrices E) = true ->
  zmem (vp_tf target) (e_tfs E) = true ->
  color_req cs <= major ->
  snd (chk_color T E major cs v)
    = set_tf (vp_tf target) (set_matrix (vp_matrix target) (set_primaries (vp_primaries target) v))
  /\ reqs_ok (fst (chk_color T E major cs v)) = true
  /\ level_kvs (fst (chk_color T E major cs v)) = coded_color cs.
Proof.
  intros c T E major base target cs v H ND Hk Hp Hm Ht Zp Zm Zt Hver.
  apply iter_color_spec_cases in H.
  destruct H as [[Hc [Heq _]]|[[i [Hc [Hi [HIn _]]]]|(p0 & m0 & tf0 & gp & gm & gt & Hc & HA & _ & _ & Hgp & Hgm & Hgt)]];
    subst cs.
  - inversion Heq as [[E1 E2 E3]]. cbn. rewrite <- Hp, <- Hm, <- Ht.
    destruct v; auto.
  - cbn [color_req] in Hver. apply Z.eqb_neq in Hi. unfold chk_color. rewrite Hi.
    rewrite (assoc_in_nodup _ _ _ ND HIn). cbn [obind l3].
    cbn [fst snd is_some reqs_ok forallb level_kvs flat_map app coded_color].
    rewrite (keys_in_spec _ _ _ _ Hk HIn), (version_ge_true _ _ Hver). auto.
  - cbn [color_req] in Hver.
    pose proof (chk_nested_ok c K_custom_color_primaries_flag K_color_primaries_index (e_primaries E)
                  E_BadPresetColorPrimaries E_PresetColorPrimariesNotSupportedByVersion
                  preset_color_primaries_version_implication major p0 (vp_primaries target) gp Hgp Zp
                  ltac:(lia)) as (A1 & A2 & A3).
    pose proof (chk_nested_ok c K_custom_color_matrix_flag K_color_matrix_index (e_matrices E)
                  E_BadPresetColorMatrix E_PresetColorMatrixNotSupportedByVersion
                  preset_color_matrix_version_implication major m0 (vp_matrix target) gm Hgm Zm
                  ltac:(lia)) as (B1 & B2 & B3).
    pose proof (chk_nested_ok c K_custom_transfer_function_flag K_transfer_function_index (e_tfs E)
                  E_BadPresetTransferFunction E_PresetTransferFunctionNotSupportedByVersion
                  preset_transfer_function_version_implication major tf0 (vp_tf target) gt Hgt Zt
                  ltac:(lia)) as (C1 & C2 & C3).
    unfold chk_color. rewrite HA. cbn [obind l3].
    destruct (chk_nested K_custom_color_primaries_flag K_color_primaries_index (e_primaries E)
                E_BadPresetColorPrimaries E_PresetColorPrimariesNotSupportedByVersion
                preset_color_primaries_version_implication major gp p0) as [c1 p] eqn:E1.
    destruct (chk_nested K_custom_color_matrix_flag K_color_matrix_index (e_matrices E)
                E_BadPresetColorMatrix E_PresetColorMatrixNotSupportedByVersion
                preset_color_matrix_version_implication major gm m0) as [c2 m] eqn:E2.
    destruct (chk_nested K_custom_transfer_function_flag K_transfer_function_index (e_tfs E)
                E_BadPresetTransferFunction E_PresetTransferFunctionNotSupportedByVersion
                preset_transfer_function_version_implication major gt tf0) as [c3 t] eqn:E3.
    cbn [fst snd] in *. subst p m t.
    split; [reflexivity|].
    rewrite (keys_in_spec _ _ _ _ Hk (assoc_some_in _ _ _ HA)).
    split.
    + change (reqs_ok ([CLevel K_custom_color_spec_flag 1; CReq E_BadPresetColorSpec true;
                        CLevel K_color_spec_index 0; CReq E_KeyError (is_some (Some (p0, m0, tf0)))]
                       ++ c1 ++ c2 ++ c3) = true).
      rewrite !reqs_ok_app, A2, B2, C2. reflexivity.
    + change (level_kvs ([CLevel K_custom_color_spec_flag 1; CReq E_BadPresetColorSpec true;
                          CLevel K_color_spec_index 0; CReq E_KeyError (is_some (Some (p0, m0, tf0)))]
                         ++ c1 ++ c2 ++ c3) = coded_color (CSCustom gp gm gt)).
      rewrite !level_kvs_app, A3, B3, C3. reflexivity.
Qed.

(* ---- source_parameters ------------------------------------------------------------------------------- *)
Lemma format_valid_parts : forall E v pcm, format_valid E v pcm = true ->
  nonzero2 (vp_frame_rate v) = true /\ nonzero2 (vp_par v) = true /\ clean_ok v = true
  /\ excursions_ok (vp_signal v) = true /\ dims_ok v pcm = true
  /\ zmem (vp_cdf v) (e_cdf E) = true /\ zmem (vp_scan v) (e_scan E) = true
  /\ zmem (vp_primaries v) (e_primaries E) = true /\ zmem (vp_matrix v) (e_matrices E) = true
  /\ zmem (vp_tf v) (e_tfs E) = true /\ zmem pcm (e_pcms E) = true.
Proof. unfold format_valid. intros E v pcm H. bools. repeat split; assumption. Qed.

Lemma enums_cover_parts : forall T E, enums_cover T E = true ->
  keys_in (base_formats T) (e_base E) = true /\ keys_in (preset_frame_rates T) (e_frame_rates E) = true
  /\ keys_in (preset_pars T) (e_pars E) = true /\ keys_in (preset_signal_ranges T) (e_signal_ranges E) = true
  /\ keys_in (preset_color_specs T) (e_color_specs E) = true.
Proof. unfold enums_cover. intros T E H. bools. repeat split; assumption. Qed.

Lemma chk_source_ok : forall c T E major base target sp pcm,
  tables_wf T -> enums_cover T E = true -> format_valid E target pcm = true ->
  In sp (iter_source_parameter_options c T base target) ->
  src_required_version sp <= major ->
  snd (chk_source T E major sp base) = target
  /\ reqs_ok (fst (chk_source T E major sp base)) = true
  /\ level_kvs (fst (chk_source T E major sp base)) = coded_src sp.
Proof.
  intros c T E major base target sp pcm [Wfr [Wpar [Wsig Wcs]]] Hcov Hfv H Hver.
  apply iter_source_parameter_options_parts in H.
  destruct H as [Htff [H1 [H2 [H3 [H4 [H5 [H6 [H7 H8]]]]]]]].
  apply enums_cover_parts in Hcov. destruct Hcov as (_ & Kfr & Kpar & Ksig & Kcs).
  apply format_valid_parts in Hfv.
  destruct Hfv as (Ffr & Fpar & Fclean & Fsig & Fdims & Fcdf & Fscan & Fp & Fm & Ft & _).
  destruct (dims_ok_frame_nonzero _ _ Fdims) as [Hw Hh].
  assert (V1 : preset_req preset_frame_rate_version_implication (sp_frame_rate sp) <= major)
    by (unfold src_required_version in Hver; lia).
  assert (V2 : preset_req preset_signal_range_version_implication (sp_signal sp) <= major)
    by (unfold src_required_version in Hver; lia).
  assert (V3 : color_req (sp_color sp) <= major)
    by (unfold src_required_version in Hver; lia).
  unfold chk_source.
  destruct (chk_frame_size_ok c _ _ _ base H1 eq_refl Hw Hh) as (A1 & A2 & A3).
  destruct (chk_frame_size (sp_frame_size sp) base) as [c1 v1]. cbn [fst snd] in A1, A2, A3. subst v1.
  destruct (chk_cdf_ok c E _ _ _ (set_frame_size (vp_frame_size target) base) H2 eq_refl Fcdf) as (B1 & B2 & B3).
  destruct (chk_cdf E (sp_cdf sp) (set_frame_size (vp_frame_size target) base)) as [c2 v2].
  cbn [fst snd] in B1, B2, B3. subst v2.
  match goal with |- context [chk_scan E (sp_scan sp) ?v] =>
    destruct (chk_scan_ok c E _ _ _ v H3 eq_refl Fscan) as (C1 & C2 & C3);
    destruct (chk_scan E (sp_scan sp) v) as [c3 v3] end.
  cbn [fst snd] in C1, C2, C3. subst v3.
  match goal with |- context [chk_frame_rate T E major (sp_frame_rate sp) ?v] =>
    destruct (chk_frame_rate_ok c T E major _ _ _ v H4 Wfr Kfr eq_refl Ffr V1) as (D1 & D2 & D3);
    destruct (chk_frame_rate T E major (sp_frame_rate sp) v) as [c4 v4] end.
  cbn [fst snd] in D1, D2, D3. subst v4.
  match goal with |- context [chk_par T E (sp_par sp) ?v] =>
    destruct (chk_par_ok c T E _ _ _ v H5 Wpar Kpar eq_refl Fpar) as (E1 & E2 & E3);
    destruct (chk_par T E (sp_par sp) v) as [c5 v5] end.
  cbn [fst snd] in E1, E2, E3. subst v5.
  match goal with |- context [chk_clean (sp_clean sp) ?v] =>
    destruct (chk_clean_ok c _ target _ v H6 eq_refl eq_refl Fclean) as (F1 & F2 & F3);
    destruct (chk_clean (sp_clean sp) v) as [c6 v6] end.
  cbn [fst snd] in F1, F2, F3. subst v6.
  match goal with |- context [chk_signal T E major (sp_signal sp) ?v] =>
    destruct (chk_signal_ok c T E major _ _ _ v H7 Wsig Ksig eq_refl Fsig V2) as (G1 & G2 & G3);
    destruct (chk_signal T E major (sp_signal sp) v) as [c7 v7] end.
  cbn [fst snd] in G1, G2, G3. subst v7.
  match goal with |- context [chk_color T E major (sp_color sp) ?v] =>
    destruct (chk_color_ok c T E major base target _ v H8 Wcs Kcs eq_refl eq_refl eq_refl Fp Fm Ft V3)
      as (I1 & I2 & I3);
    destruct (chk_color T E major (sp_color sp) v) as [c8 v8] end.
  cbn [fst snd] in I1, I2, I3. subst v8.
  cbn [fst snd]. split; [|split].
  - destruct target; destruct base; cbn in *. subst. reflexivity.
  - rewrite !reqs_ok_app, A2, B2, C2, D2, E2, F2, G2, I2. reflexivity.
  - rewrite !level_kvs_app, A3, B3, C3, D3, E3, F3, G3, I3. reflexivity.
Qed.

(* ---- the whole header -------------------------------------------------------------------------------- *)
Theorem header_checks_ok : forall T E tbl cf cands h major,
  tables_wf T -> enums_cover T E = true -> config_valid E cf = true ->
  In h (iter_sequence_headers T tbl cf cands) ->
  header_required_version h <= major ->
  reqs_ok (header_checks T E major 0 h) = true
  /\ level_kvs (header_checks T E major 0 h) = coded_keys_v major 0 h.
Proof.
  intros T E tbl cf cands h major Wf Hcov Hcfg H Hver.
  apply iter_sequence_headers_parts in H.
  destruct H as (base & c & Hb & _ & _ & Hsp & Hprof & Hlvl & Hpcm & Hr).
  apply rank_in in Hr. destruct Hr as [_ [b [Hab _]]].
  unfold config_valid in Hcfg. apply andb_true_iff in Hcfg. destruct Hcfg as [Hcfg Zlvl].
  apply andb_true_iff in Hcfg. destruct Hcfg as [Hfv Zprof].
  pose proof (enums_cover_parts _ _ Hcov) as (Kbase & _).
  pose proof (format_valid_parts _ _ _ Hfv) as (_ & _ & _ & _ & Fdims & _ & _ & _ & _ & _ & Fpcm).
  unfold header_required_version in Hver.
  assert (V0 : MINIMUM_MAJOR_VERSION <= major) by lia.
  assert (Vp : profile_version_implication (h_profile h) <= major) by lia.
  assert (Vs : src_required_version (h_src h) <= major) by lia.
  destruct (chk_source_ok c T E major base (cf_video cf) (h_src h) (cf_pcm cf) Wf Hcov Hfv Hsp Vs)
    as (S1 & S2 & S3).
  unfold header_checks. rewrite Hb.
  destruct (chk_source T E major (h_src h) base) as [cs v]. cbn [fst snd] in S1, S2, S3. subst v.
  split.
  - rewrite !reqs_ok_app, S2. unfold chk_parse_parameters. cbn [reqs_ok forallb].
    rewrite (version_ge_true _ _ V0), (version_ge_true _ _ Vp), Hprof, Hlvl, Hpcm, Zprof, Zlvl, Fpcm, Fdims.
    rewrite (keys_in_spec _ _ _ _ Kbase (assoc_some_in _ _ _ Hab)). reflexivity.
  - rewrite !level_kvs_app, S3. unfold chk_parse_parameters, coded_keys_v, coded_keys.
    cbn [level_kvs flat_map app]. reflexivity.
Qed.

(* the validator's non-level checks all pass *)
Theorem headers_accepted : forall T E tbl cf cands h major,
  tables_wf T -> enums_cover T E = true -> config_valid E cf = true ->
  In h (iter_sequence_headers T tbl cf cands) ->
  header_required_version h <= major ->
  header_accepts T E major 0 h = Accept.
Proof.
  intros T E tbl cf cands h major Wf Hcov Hcfg H Hver.
  destruct (header_checks_ok T E tbl cf cands h major Wf Hcov Hcfg H Hver) as [R _].
  unfold header_accepts, header_check. apply run_checks_no_level. exact R.
Qed.

(* ... and so do the incremental level checks, when the columns admitting the configuration's
   trivial constraints admit the version numbers written *)
Theorem headers_accepted_under_level : forall T E tbl cf cands h major,
  tables_wf T -> enums_cover T E = true -> config_valid E cf = true ->
  In h (iter_sequence_headers T tbl cf cands) ->
  header_required_version h <= major ->
  (forall c, In c tbl -> admitted c (trivial_level_constraints cf) ->
             c K_major_version major = true /\ c K_minor_version 0 = true) ->
  header_check T E (level_ok tbl) major 0 h = Accept.
Proof.
  intros T E tbl cf cands h major Wf Hcov Hcfg H Hver Hvers.
  destruct (header_checks_ok T E tbl cf cands h major Wf Hcov Hcfg H Hver) as [R K].
  destruct (options_respect_column T tbl cf cands h H) as (c & Hc & Htriv & Hkeys).
  destruct (Hvers c Hc Htriv) as [Hma Hmi].
  unfold header_check. apply (run_checks_level tbl c); auto; [constructor|].
  rewrite K. unfold coded_keys_v. unfold coded_keys in *. cbn [app] in *.
  inversion Hkeys as [|? ? Hl H1]; subst. inversion H1 as [|? ? Hp H2]; subst.
  unfold admitted. constructor; [exact Hl|]. constructor; [exact Hp|].
  constructor; [exact Hma|]. constructor; [exact Hmi|]. exact H2.
Qed.

Lemma header_level_pairs : forall T E tbl cf cands h major,
  tables_wf T -> enums_cover T E = true -> config_valid E cf = true ->
  In h (iter_sequence_headers T tbl cf cands) ->
  header_required_version h <= major ->
  level_kvs (header_checks T E major 0 h) = coded_keys_v major 0 h.
Proof. intros. eapply header_checks_ok; eauto. Qed.

(* ---- the version autofill writes (Model/LevelChoices.v header_version) is enough -------------- *)
Lemma preset_req_le_group : forall imp g, 1 <= imp 0 ->
  preset_req imp g <= group_index_implication imp g.
Proof.
  intros imp g H0. destruct g; cbn [preset_req group_index_implication];
    unfold MINIMUM_MAJOR_VERSION; lia.
Qed.

Lemma nested_req_eq : forall imp g, nested_req imp g = nested_index_implication imp g.
Proof.
  intros imp g. destruct g as [| |[|a [|b l]]]; reflexivity.
Qed.

Lemma header_required_le_autofill : forall h, header_required_version h <= header_version h.
Proof.
  intros h. unfold header_required_version, header_version, src_required_version, zmax_list.
  cbn [fold_right].
  pose proof (preset_req_le_group preset_frame_rate_version_implication (sp_frame_rate (h_src h))
                ltac:(vm_compute; discriminate)) as A.
  pose proof (preset_req_le_group preset_signal_range_version_implication (sp_signal (h_src h))
                ltac:(vm_compute; discriminate)) as B.
  assert (C : color_req (sp_color (h_src h)) <=
              match sp_color (h_src h) with
              | CSDefault => 1
              | CSPreset i => preset_color_spec_version_implication i
              | CSCustom p m t =>
                  fold_right Z.max 1
                    [preset_color_spec_version_implication 0;
                     nested_index_implication preset_color_primaries_version_implication p;
                     nested_index_implication preset_color_matrix_version_implication m;
                     nested_index_implication preset_transfer_function_version_implication t]
              end).
  { destruct (sp_color (h_src h)) as [|i|p m t]; cbn [color_req fold_right];
      unfold MINIMUM_MAJOR_VERSION;
      repeat rewrite (nested_req_eq _ p); repeat rewrite (nested_req_eq _ m); repeat rewrite (nested_req_eq _ t); lia. }
  cbn [fold_right] in C. unfold MINIMUM_MAJOR_VERSION. lia.
Qed.

(* ---- format_valid is necessary: the all-explicit encoding is rejected otherwise ----------------- *)
Lemma dims_ok_ext : forall v v' pcm,
  vp_frame_size v = vp_frame_size v' -> vp_cdf v = vp_cdf v' -> dims_ok v pcm = dims_ok v' pcm.
Proof. intros v v' pcm H1 H2. unfold dims_ok, picture_dimensions. rewrite H1, H2. reflexivity. Qed.

Theorem explicit_header_needs_format_valid : forall T E lvl major minor prof level bvf v pcm,
  set_source_defaults T bvf <> None ->
  header_check T E lvl major minor (mkHeader prof level bvf (explicit_src v) pcm) = Accept ->
  format_valid E v pcm = true.
Proof.
  intros T E lvl major minor prof level bvf v pcm Hb H.
  unfold header_check in H. apply run_checks_accept_reqs in H.
  unfold header_checks in H. cbn [h_base h_src h_pcm h_profile h_level] in H.
  destruct (set_source_defaults T bvf) as [v0|]; [|congruence].
  destruct v as [[fw fh] cdf scan tff [frn frd] [pn pd] [[[cw ch] topo] lefto] [[[lo le] co] ce] p m t].
  unfold explicit_src, chk_source in H.
  cbn [vp_frame_size vp_cdf vp_scan vp_frame_rate vp_par vp_clean vp_signal vp_primaries vp_matrix vp_tf
       t2 t4 sp_frame_size sp_cdf sp_scan sp_frame_rate sp_par sp_clean sp_signal sp_color
       chk_frame_size chk_cdf chk_scan chk_frame_rate chk_par chk_clean chk_signal chk_color chk_nested] in H.
  destruct (obind (assoc 0 (preset_color_specs T)) l3) as [[[p0 m0] t0]|];
    rewrite !reqs_ok_app in H; cbn [reqs_ok forallb is_some] in H; bools; try discriminate.
  unfold format_valid.
  cbn [vp_frame_size vp_cdf vp_scan vp_frame_rate vp_par vp_clean vp_signal vp_primaries vp_matrix vp_tf
       nonzero2 excursions_ok].
  repeat match goal with X : _ || _ = false |- _ => apply orb_false_iff in X; destruct X end.
  repeat match goal with X : ?b = true |- context [?b] => rewrite X end.
  repeat match goal with X : ?b = false |- context [?b] => rewrite X end.
  cbn [negb andb].
  match goal with X : clean_ok ?a = true |- _ => rewrite (clean_ok_ext _ a) end;
    [|destruct v0; reflexivity|destruct v0; reflexivity].
  match goal with X : clean_ok ?a = true |- _ => rewrite X end.
  match goal with X : dims_ok ?a pcm = true |- _ => rewrite (dims_ok_ext _ a pcm) end;
    [|destruct v0; reflexivity|destruct v0; reflexivity].
  match goal with X : dims_ok ?a pcm = true |- _ => rewrite X end.
  reflexivity.
Qed.

Theorem accept_implies_nonlevel_accept : forall T E lvl major minor h,
  header_check T E lvl major minor h = Accept -> header_accepts T E major minor h = Accept.
Proof.
  intros T E lvl major minor h H. unfold header_accepts, header_check in *.
  apply run_checks_no_level. eapply run_checks_accept_reqs. exact H.
Qed.

(* ==== the all-explicit encoding IS enumerated when the level leaves everything open ============== *)
(* ---- the last row of zip_longest_repeating_final_value: the last element of every iterator ---- *)
Section ZipLast.
  Context {T : Type}.

  Definition final_entry (it : list T) (l : option T) : option T :=
    match rev it with x :: _ => Some x | [] => l end.
  Definition final_row (its : list (list T)) (last : list (option T)) : list (option T) :=
    map2 final_entry its last.

  Lemma final_entry_step : forall it l, final_entry (tl it) (head_or it l) = final_entry it l.
  Proof.
    intros [|x [|y r]] l; try reflexivity.
    unfold final_entry. cbn [tl head_or]. 
    change (rev (x :: y :: r)) with (rev (y :: r) ++ [x]).
    destruct (rev (y :: r)) as [|z zs] eqn:E; [|reflexivity].
    apply (f_equal (@length T)) in E. rewrite rev_length in E. discriminate.
  Qed.

  Lemma final_row_step : forall its last,
    final_row (map (@tl T) its) (map2 head_or its last) = final_row its last.
  Proof.
    induction its as [|it its IH]; intros [|l last]; cbn [map map2 final_row]; auto.
    unfold final_row in IH. rewrite IH, final_entry_step. reflexivity.
  Qed.

  Lemma not_running_final : forall its last,
    existsb running (map (@tl T) its) = false -> map2 head_or its last = final_row its last.
  Proof.
    induction its as [|it its IH]; intros [|l last] H; cbn [map map2 final_row existsb] in *; auto.
    apply orb_false_iff in H. destruct H as [H1 H2]. unfold final_row in IH. rewrite (IH _ H2).
    f_equal. destruct it as [|x [|y r]]; try reflexivity. discriminate.
  Qed.

  Lemma zlr_not_running : forall fuel (its : list (list T)) last,
    existsb running its = false -> zlr fuel its last = [].
  Proof. intros [|f] its last H; cbn [zlr]; [reflexivity|]. rewrite H. reflexivity. Qed.

  Lemma zlr_ends_with_final : forall fuel (its : list (list T)) last,
    (max_len its < fuel)%nat -> existsb running its = true ->
    exists pre, zlr fuel its last = pre ++ [final_row its last].
  Proof.
    induction fuel as [|f IH]; intros its last Hlt Hrun; [lia|].
    cbn [zlr]. rewrite Hrun. destruct (existsb running (map (@tl T) its)) eqn:E.
    - destruct (IH (map (@tl T) its) (map2 head_or its last)) as [pre Hpre]; [|exact E|].
      + rewrite max_len_tl.
        assert (max_len its <> 0%nat) by (intros E0; apply not_running_max_len in E0; congruence). lia.
      + exists (map2 head_or its last :: pre). rewrite Hpre, final_row_step. reflexivity.
    - exists []. rewrite (zlr_not_running _ _ _ E), (not_running_final _ _ E). reflexivity.
  Qed.

  (* with non-empty iterators no row has a hole *)
  Definition fed (it : list T) (l : option T) : Prop := it <> [] \/ l <> None.

  Lemma fed_step : forall its last,
    Forall2 fed its last -> Forall2 fed (map (@tl T) its) (map2 head_or its last).
  Proof.
    induction 1 as [|it l its last Hf _ IH]; cbn [map map2]; constructor; auto.
    right. destruct it as [|x r]; cbn [head_or]; [|discriminate].
    destruct Hf as [Hf|Hf]; [congruence|exact Hf].
  Qed.

  Lemma fed_row : forall its last,
    Forall2 fed its last -> Forall (fun o => o <> None) (map2 head_or its last).
  Proof.
    induction 1 as [|it l its last Hf _ IH]; cbn [map2]; constructor; auto.
    destruct it as [|x r]; cbn [head_or]; [|discriminate].
    destruct Hf as [Hf|Hf]; [congruence|exact Hf].
  Qed.

  Lemma zlr_rows_full : forall fuel (its : list (list T)) last row,
    Forall2 fed its last -> In row (zlr fuel its last) -> Forall (fun o => o <> None) row.
  Proof.
    induction fuel as [|f IH]; intros its last row Hf HIn; cbn [zlr] in HIn; [destruct HIn|].
    destruct (existsb running its); [|destruct HIn]. destruct HIn as [E|HIn].
    - subst row. apply fed_row. exact Hf.
    - eapply IH; [|exact HIn]. apply fed_step. exact Hf.
  Qed.
End ZipLast.

Lemma take_somes_full : forall {A B} (f : A -> option B) (pre : list A) (r : A) (y : B),
  (forall a, In a (pre ++ [r]) -> f a <> None) -> f r = Some y ->
  exists pre', take_somes (map f (pre ++ [r])) = pre' ++ [y].
Proof.
  intros A B f. induction pre as [|a pre IH]; intros r y Hall Hr; cbn [app map take_somes].
  - rewrite Hr. exists []. reflexivity.
  - destruct (f a) as [b|] eqn:Ea.
    + destruct (IH r y) as [pre' Hp]; [intros a' Ha'; apply Hall; right; exact Ha'|exact Hr|].
      rewrite Hp. exists (b :: pre'). reflexivity.
    + exfalso. apply (Hall a); [left; reflexivity|exact Ea].
Qed.

Definition any_col : column := fun _ _ => true.

Lemma final_entry_snoc : forall {T} (a : list T) x l, final_entry (a ++ [x]) l = Some x.
Proof. intros T a x l. unfold final_entry. rewrite rev_app_distr. reflexivity. Qed.

Lemma final_entry_map : forall {A B} (f : A -> B) (l : list A),
  final_entry (map f l) None = option_map f (final_entry l None).
Proof.
  intros A B f l. unfold final_entry. rewrite <- map_rev. destruct (rev l); reflexivity.
Qed.

(* under an open column the last option of a group is the explicit one *)
Lemma iter_custom_options_open : forall base target flag keys presets,
  length keys = length target ->
  exists pre, iter_custom_options any_col base target flag keys presets = pre ++ [GExplicit target].
Proof.
  intros base target flag keys presets Hlen. unfold iter_custom_options.
  assert (A : allowed_all any_col keys target = true).
  { revert target Hlen. induction keys as [|k ks IH]; intros [|v vs] H; cbn in *; try discriminate; auto. }
  rewrite A. unfold any_col at 3 4. destruct presets as [[ps ik]|]; cbn [andb];
    eexists; rewrite app_assoc; reflexivity.
Qed.

Lemma nonempty_snoc : forall {T} (a : list T) x, a ++ [x] <> [].
Proof. intros T [|y a] x; discriminate. Qed.

Lemma iter_color_spec_open : forall T base target p0 m0 t0,
  assoc 0 (preset_color_specs T) = Some [p0; m0; t0] ->
  exists pre, iter_color_spec_options any_col T base target
    = pre ++ [CSCustom (GExplicit [vp_primaries target]) (GExplicit [vp_matrix target])
                       (GExplicit [vp_tf target])].
Proof.
  intros T base target p0 m0 t0 HA. unfold iter_color_spec_options. rewrite HA.
  unfold any_col at 4 5. cbn [andb].
  destruct (iter_custom_options_open [p0] [vp_primaries target] K_custom_color_primaries_flag
              [K_color_primaries_index] None eq_refl) as [q1 E1].
  destruct (iter_custom_options_open [m0] [vp_matrix target] K_custom_color_matrix_flag
              [K_color_matrix_index] None eq_refl) as [q2 E2].
  destruct (iter_custom_options_open [t0] [vp_tf target] K_custom_transfer_function_flag
              [K_transfer_function_index] None eq_refl) as [q3 E3].
  rewrite E1, E2, E3.
  set (ls := [q1 ++ [GExplicit [vp_primaries target]]; q2 ++ [GExplicit [vp_matrix target]];
              q3 ++ [GExplicit [vp_tf target]]]).
  set (f := fun row : list (option gopt) =>
              match row with [Some p; Some m; Some t] => Some (CSCustom p m t) | _ => None end).
  assert (Hrun : existsb running ls = true).
  { unfold ls. cbn [existsb]. destruct q1; reflexivity. }
  destruct (zlr_ends_with_final (S (max_len ls)) ls (map (fun _ => None) ls) ltac:(lia) Hrun) as [pre Hpre].
  assert (Hfed : Forall2 fed ls (map (fun _ : list gopt => @None gopt) ls)).
  { unfold ls. cbn [map]. repeat (apply Forall2_cons; [left; apply nonempty_snoc|]). apply Forall2_nil. }
  assert (Hfull : forall row, In row (zip_longest ls) -> f row <> None).
  { intros row HIn. pose proof (zlr_rows_full _ _ _ _ Hfed HIn) as Hs.
    apply zip_longest_from in HIn. unfold from_orig, ls in HIn.
    inversion HIn as [|? a ? r1 _ H1]; subst. inversion H1 as [|? b ? r2 _ H2]; subst.
    inversion H2 as [|? d ? r3 _ H3]; subst. inversion H3; subst.
    inversion Hs as [|? ? Sa Hs1]; subst. inversion Hs1 as [|? ? Sb Hs2]; subst.
    inversion Hs2 as [|? ? Sd _]; subst.
    destruct a; [|congruence]. destruct b; [|congruence]. destruct d; [|congruence].
    cbn. discriminate. }
  unfold zip_longest in *. rewrite Hpre in Hfull |- *.
  destruct (take_somes_full f pre (final_row ls (map (fun _ => None) ls))
              (CSCustom (GExplicit [vp_primaries target]) (GExplicit [vp_matrix target]) (GExplicit [vp_tf target]))
              Hfull) as [pre' Hp].
  { unfold ls, f. cbn [map final_row map2]. rewrite !final_entry_snoc. reflexivity. }
  rewrite Hp. eexists. rewrite !app_assoc. reflexivity.
Qed.

Lemma in_map_tag_IG : forall l x, In x (map IG l) -> exists g, x = IG g.
Proof. intros l x H. apply in_map_iff in H. destruct H as [g [E _]]. eauto. Qed.
Lemma in_map_tag_IC : forall l x, In x (map IC l) -> exists g, x = IC g.
Proof. intros l x H. apply in_map_iff in H. destruct H as [g [E _]]. eauto. Qed.

(* the all-explicit encoding is the LAST one enumerated under an open column *)
Theorem explicit_src_enumerated : forall T base target p0 m0 t0,
  vp_tff base = vp_tff target ->
  assoc 0 (preset_color_specs T) = Some [p0; m0; t0] ->
  exists pre, iter_source_parameter_options any_col T base target = pre ++ [explicit_src target].
Proof.
  intros T base target p0 m0 t0 Htff HA. unfold iter_source_parameter_options.
  rewrite Htff, Z.eqb_refl. cbn [negb].
  destruct target as [[fw fh] cdf scan tff [frn frd] [pn pd] [[[cw ch] topo] lefto] [[[lo le] co] ce] p m t].
  cbn [vp_frame_size vp_cdf vp_scan vp_frame_rate vp_par vp_clean vp_signal t1 t2 t4].
  match goal with |- context [iter_color_spec_options any_col T base ?tg] =>
    destruct (iter_color_spec_open T base tg p0 m0 t0 HA) as [q8 E8]; rewrite E8 end.
  cbn [vp_primaries vp_matrix vp_tf].
  repeat match goal with |- context [iter_custom_options any_col ?b ?t ?f ?k ?p] =>
    let q := fresh "q" in let E := fresh "E" in
    destruct (iter_custom_options_open b t f k p eq_refl) as [q E]; rewrite E; clear E end.
  rewrite !map_app. cbn [map].
  match goal with |- context [zip_longest ?l] => set (ls := l) end.
  assert (Hrun : existsb running ls = true).
  { unfold ls. cbn [existsb]. match goal with |- running (?a ++ _) || _ = true => destruct a; reflexivity end. }
  destruct (zlr_ends_with_final (S (max_len ls)) ls (map (fun _ => None) ls) ltac:(lia) Hrun) as [pre Hpre].
  assert (Hfed : Forall2 fed ls (map (fun _ : list item => @None item) ls)).
  { unfold ls. cbn [map]. repeat (apply Forall2_cons; [left; apply nonempty_snoc|]). apply Forall2_nil. }
  assert (Hfull : forall row, In row (zip_longest ls) -> row_to_src row <> None).
  { intros row HIn. pose proof (zlr_rows_full _ _ _ _ Hfed HIn) as Hs.
    apply zip_longest_from in HIn. unfold from_orig, ls in HIn.
    repeat match goal with
           | H : Forall2 _ (_ :: _) _ |- _ => inversion H; subst; clear H
           | H : Forall2 _ [] _ |- _ => inversion H; subst; clear H
           end.
    repeat match goal with
           | H : Forall _ (_ :: _) |- _ => inversion H; subst; clear H
           end.
    repeat match goal with
           | o : option item |- _ => destruct o as [?|]; [|congruence]
           end.
    repeat match goal with
           | H : forall x, Some ?i = Some x -> In x (map IG ?l ++ [IG ?g]) |- _ =>
               let H' := fresh in
               pose proof (H i eq_refl) as H'; clear H;
               rewrite <- (map_app IG l [g]) in H' || change (map IG l ++ [IG g]) with (map IG l ++ map IG [g]) in H';
               rewrite <- ?map_app in H'; apply in_map_tag_IG in H'; destruct H' as [? ->]
           | H : forall x, Some ?i = Some x -> In x (map IC ?l ++ [IC ?g]) |- _ =>
               let H' := fresh in
               pose proof (H i eq_refl) as H'; clear H;
               change (map IC l ++ [IC g]) with (map IC l ++ map IC [g]) in H';
               rewrite <- ?map_app in H'; apply in_map_tag_IC in H'; destruct H' as [? ->]
           end.
    cbn. discriminate. }
  unfold zip_longest in *. rewrite Hpre in Hfull |- *.
  match goal with |- exists pre0, take_somes (map row_to_src (pre ++ [?r])) = pre0 ++ [?y] =>
    destruct (take_somes_full row_to_src pre r y Hfull) as [pre' Hp] end.
  { unfold ls. cbn [map final_row map2]. rewrite !final_entry_snoc. reflexivity. }
  exists pre'. exact Hp.
Qed.

Lemma set_source_defaults_tff : forall T i v b,
  set_source_defaults T i = Some v -> assoc i (base_formats T) = Some b -> vp_tff v = b_tff b.
Proof.
  intros T i v b H Hb. unfold set_source_defaults in H. rewrite Hb in H.
  repeat match goal with
         | H : match ?x with _ => _ end = Some _ |- _ => destruct x; try discriminate
         end.
  inversion H. reflexivity.
Qed.

Theorem explicit_header_enumerated : forall T tbl cf cands bvf base p0 m0 t0,
  In bvf (rank_base_video_format_similarity T (cf_video cf) cands) ->
  set_source_defaults T bvf = Some base ->
  assoc 0 (preset_color_specs T) = Some [p0; m0; t0] ->
  In any_col tbl ->
  In (mkHeader (cf_profile cf) (cf_level cf) bvf (explicit_src (cf_video cf)) (cf_pcm cf))
     (iter_sequence_headers T tbl cf cands).
Proof.
  intros T tbl cf cands bvf base p0 m0 t0 Hr Hb HA Hc.
  pose proof (rank_in _ _ _ _ Hr) as [_ [b [Hab Htff]]].
  rewrite <- (set_source_defaults_tff _ _ _ _ Hb Hab) in Htff.
  destruct (explicit_src_enumerated T base (cf_video cf) p0 m0 t0 Htff HA) as [pre Hpre].
  unfold iter_sequence_headers. apply in_flat_map. exists bvf. split; [exact Hr|]. rewrite Hb.
  apply in_flat_map. exists any_col. split.
  - unfold filter_table. apply filter_In. split; [exact Hc|].
    unfold col_admits. apply forallb_forall. reflexivity.
  - apply (in_map (fun sp => mkHeader (cf_profile cf) (cf_level cf) bvf sp (cf_pcm cf))). rewrite Hpre. apply in_or_app. right. left. reflexivity.
Qed.

(* if the level leaves everything open and EVERY enumerated header passes the validator's
   non-level checks, the target format is valid *)
Theorem all_accepted_needs_format_valid : forall T E tbl cf cands bvf base p0 m0 t0 major minor,
  In bvf (rank_base_video_format_similarity T (cf_video cf) cands) ->
  set_source_defaults T bvf = Some base ->
  assoc 0 (preset_color_specs T) = Some [p0; m0; t0] ->
  In any_col tbl ->
  (forall h, In h (iter_sequence_headers T tbl cf cands) -> header_accepts T E major minor h = Accept) ->
  format_valid E (cf_video cf) (cf_pcm cf) = true.
Proof.
  intros T E tbl cf cands bvf base p0 m0 t0 major minor Hr Hb HA Hc Hall.
  eapply (explicit_header_needs_format_valid T E no_level major minor (cf_profile cf) (cf_level cf) bvf).
  - rewrite Hb. discriminate.
  - apply Hall. eapply explicit_header_enumerated; eauto.
Qed.
