(* Proofs about the GENERATED model Gen/SliceSizes.v (tie T): property C13.
   Everything is stated over the translated functions themselves; the only
   definitions added here are specification-side vocabulary (padded sizes, the
   shapes a wavelet synthesis produces, finite sums). *)
From Coq Require Import ZArith List Bool Lia ZifyBool.
From VC2 Require Import Base.PyZ Gen.StateRec Gen.SliceSizes.
Import ListNotations.
Open Scope Z_scope.
Ltac Zify.zify_post_hook ::= Z.to_euclidean_division_equations.

Ltac py_unfold := unfold py_div, py_mod, py_shl in *.

(* pystr_eqb on constructors -> its value *)
Ltac pystr_simpl :=
  repeat match goal with
         | |- context [pystr_eqb ?a ?b] =>
           let v := eval vm_compute in (pystr_eqb a b) in change (pystr_eqb a b) with v
         end;
  cbn [orb andb].

(* ---------------------------------------------------------------------- *)
(* Specification vocabulary                                                 *)
(* ---------------------------------------------------------------------- *)

Definition comp_width (st : pystate) (c : pystr) : Z :=
  match c with Str_Y => st_luma_width st | _ => st_color_diff_width st end.
Definition comp_height (st : pystate) (c : pystr) : Z :=
  match c with Str_Y => st_luma_height st | _ => st_color_diff_height st end.

(* total transform depth *)
Definition depth_sum (st : pystate) : Z := st_dwt_depth_ho st + st_dwt_depth st.

(* the preconditions of the property: at least one slice each way, sizes and depths not negative *)
Definition good_state (st : pystate) : Prop :=
  1 <= st_slices_x st /\ 1 <= st_slices_y st /\
  0 <= st_luma_width st /\ 0 <= st_luma_height st /\
  0 <= st_color_diff_width st /\ 0 <= st_color_diff_height st /\
  0 <= st_dwt_depth st /\ 0 <= st_dwt_depth_ho st.

(* "m is the least multiple of s that is >= a" *)
Definition least_multiple_ge (s a m : Z) : Prop :=
  (s | m) /\ a <= m /\ forall m', (s | m') -> a <= m' -> m <= m'.

(* number of scale-s blocks needed to cover a samples: ceil (a / s) *)
Definition ceil_div (a s : Z) : Z := (a + s - 1) / s.

(* the padded picture size for the transform *)
Definition padded_width (st : pystate) (c : pystr) : Z :=
  2 ^ depth_sum st * ceil_div (comp_width st c) (2 ^ depth_sum st).
Definition padded_height (st : pystate) (c : pystr) : Z :=
  2 ^ st_dwt_depth st * ceil_div (comp_height st c) (2 ^ st_dwt_depth st).

(* Shape (width, height) of the low-pass band after n synthesis levels starting from a
   DC band of shape (w0, h0): the first dh levels are horizontal-only (width doubles),
   the following ones are 2-D (both double).  This is what idwt / dwt do (15.4.1):
   the band(s) of level n+1 have the shape of the low-pass band after n levels. *)
Fixpoint synth_shape (dh : Z) (w0 h0 : Z) (n : nat) : Z * Z :=
  match n with
  | O => (w0, h0)
  | S k => let '(w, h) := synth_shape dh w0 h0 k in
           if Z.of_nat k <? dh then (2 * w, h) else (2 * w, 2 * h)
  end.

(* shape of the subband(s) at a level, from the transform's point of view *)
Definition transform_band_shape (st : pystate) (c : pystr) (level : Z) : Z * Z :=
  synth_shape (st_dwt_depth_ho st)
              (ceil_div (comp_width st c) (2 ^ depth_sum st))
              (ceil_div (comp_height st c) (2 ^ st_dwt_depth st))
              (Z.to_nat (level - 1)).

(* sum_{i<n} f i *)
Fixpoint zsum (f : Z -> Z) (n : nat) : Z :=
  match n with O => 0 | S k => zsum f k + f (Z.of_nat k) end.

(* total of slice_bytes over a picture: rows sy = 0..slices_y-1, in each sx = 0..slices_x-1 *)
Definition picture_slice_bytes (st : pystate) : Z :=
  zsum (fun sy => zsum (fun sx => slice_bytes st sx sy) (Z.to_nat (st_slices_x st)))
       (Z.to_nat (st_slices_y st)).

(* the same as a list in raster order *)
Definition zrange (n : Z) : list Z := map Z.of_nat (seq 0 (Z.to_nat n)).
Definition slice_bytes_raster (st : pystate) : list Z :=
  flat_map (fun sy => map (fun sx => slice_bytes st sx sy) (zrange (st_slices_x st)))
           (zrange (st_slices_y st)).

(* ---------------------------------------------------------------------- *)
(* Powers of two, padding                                                   *)
(* ---------------------------------------------------------------------- *)

Lemma pow2_pos k : 0 <= k -> 0 < 2 ^ k.
Proof. intros Hk. apply Z.pow_pos_nonneg; lia. Qed.

Lemma pow2_split n k : 0 <= k <= n -> 2 ^ n = 2 ^ k * 2 ^ (n - k).
Proof. intros H. rewrite <- Z.pow_add_r by lia. f_equal. lia. Qed.

Lemma ceil_div_nonneg a s : 0 < s -> 0 <= a -> 0 <= ceil_div a s.
Proof. intros Hs Ha. unfold ceil_div. apply Z.div_pos; lia. Qed.

Lemma ceil_div_spec a s : 0 < s -> s * (ceil_div a s - 1) < a <= s * ceil_div a s.
Proof. intros Hs. unfold ceil_div. nia. Qed.

Lemma pad_least s a : 0 < s -> least_multiple_ge s a (s * ceil_div a s).
Proof.
  intros Hs. pose proof (ceil_div_spec a s Hs) as Hc.
  split; [exists (ceil_div a s); ring|]. split; [lia|].
  intros m' [k ->] Hle.
  assert (ceil_div a s - 1 < k) by nia. nia.
Qed.

Lemma mul_pow_div q n k : 0 <= k <= n -> (2 ^ n * q) / 2 ^ k = q * 2 ^ (n - k).
Proof.
  intros H. rewrite (pow2_split n k H).
  replace (2 ^ k * 2 ^ (n - k) * q) with (q * 2 ^ (n - k) * 2 ^ k) by ring.
  apply Z.div_mul. pose proof (pow2_pos k). lia.
Qed.

(* ---------------------------------------------------------------------- *)
(* (b) Subband dimensions                                                   *)
(* ---------------------------------------------------------------------- *)

(* the code, with its three-way branch collapsed: valid for EVERY level and state *)
Lemma subband_width_eq st level c :
  subband_width st level c =
  padded_width st c / 2 ^ (if level =? 0 then depth_sum st else depth_sum st - level + 1).
Proof.
  unfold subband_width, padded_width, ceil_div, depth_sum, comp_width; py_unfold.
  rewrite !Z.shiftl_1_l.
  destruct c; pystr_simpl; cbv beta iota zeta;
    destruct (level =? 0) eqn:E0; try reflexivity;
    destruct (level <=? st_dwt_depth_ho st) eqn:E1; try reflexivity;
    destruct (level >? st_dwt_depth_ho st) eqn:E2; try reflexivity; lia.
Qed.

Lemma subband_height_eq st level c :
  subband_height st level c =
  padded_height st c /
  2 ^ (if (level =? 0) || (level <=? st_dwt_depth_ho st) then st_dwt_depth st
       else depth_sum st - level + 1).
Proof.
  unfold subband_height, padded_height, ceil_div, depth_sum, comp_height; py_unfold.
  rewrite !Z.shiftl_1_l.
  destruct c; pystr_simpl; cbv beta iota zeta;
    destruct (level =? 0) eqn:E0; try reflexivity;
    destruct (level <=? st_dwt_depth_ho st) eqn:E1; try reflexivity;
    destruct (level >? st_dwt_depth_ho st) eqn:E2; try reflexivity; lia.
Qed.

(* closed forms: no rounding is left in them *)
Lemma subband_width_closed st level c :
  0 <= st_dwt_depth st -> 0 <= st_dwt_depth_ho st -> 0 <= level <= depth_sum st + 1 ->
  subband_width st level c =
  ceil_div (comp_width st c) (2 ^ depth_sum st) * 2 ^ (if level =? 0 then 0 else level - 1).
Proof.
  intros Hd Hdh Hl. rewrite subband_width_eq. unfold padded_width.
  unfold depth_sum in *.
  destruct (level =? 0) eqn:E0.
  - rewrite mul_pow_div by lia. rewrite Z.sub_diag. reflexivity.
  - rewrite mul_pow_div by lia. f_equal. f_equal. lia.
Qed.

Lemma subband_height_closed st level c :
  0 <= st_dwt_depth st -> 0 <= st_dwt_depth_ho st -> 0 <= level <= depth_sum st + 1 ->
  subband_height st level c =
  ceil_div (comp_height st c) (2 ^ st_dwt_depth st) *
  2 ^ (if level <=? st_dwt_depth_ho st then 0 else level - st_dwt_depth_ho st - 1).
Proof.
  intros Hd Hdh Hl. rewrite subband_height_eq. unfold padded_height.
  unfold depth_sum in *.
  destruct (level =? 0) eqn:E0; destruct (level <=? st_dwt_depth_ho st) eqn:E1; cbn [orb]; try lia.
  - rewrite mul_pow_div by lia. rewrite Z.sub_diag. reflexivity.
  - rewrite mul_pow_div by lia. rewrite Z.sub_diag. reflexivity.
  - rewrite mul_pow_div by lia. f_equal. f_equal. lia.
Qed.

(* the padded sizes are the least multiples of the transform scale >= the picture size *)
Lemma padded_width_least st c :
  0 <= depth_sum st ->
  least_multiple_ge (2 ^ depth_sum st) (comp_width st c) (padded_width st c).
Proof. intros H. apply pad_least. apply pow2_pos; assumption. Qed.

Lemma padded_height_least st c :
  0 <= st_dwt_depth st ->
  least_multiple_ge (2 ^ st_dwt_depth st) (comp_height st c) (padded_height st c).
Proof. intros H. apply pad_least. apply pow2_pos; assumption. Qed.

(* the divisions in the code are exact: subband size times the divisor gives back the padded size *)
Lemma subband_width_exact st level c :
  0 <= st_dwt_depth st -> 0 <= st_dwt_depth_ho st -> 0 <= level <= depth_sum st + 1 ->
  let e := if level =? 0 then depth_sum st else depth_sum st - level + 1 in
  subband_width st level c = padded_width st c / 2 ^ e /\
  subband_width st level c * 2 ^ e = padded_width st c /\
  padded_width st c mod 2 ^ e = 0.
Proof.
  intros Hd Hdh Hl e.
  assert (He : 0 <= e <= depth_sum st) by (unfold e, depth_sum in *; destruct (level =? 0) eqn:E; lia).
  assert (Hw : subband_width st level c = padded_width st c / 2 ^ e) by apply subband_width_eq.
  assert (Hx : padded_width st c = padded_width st c / 2 ^ e * 2 ^ e).
  { unfold padded_width. rewrite mul_pow_div by lia.
    rewrite (pow2_split (depth_sum st) e) at 1 by lia. ring. }
  split; [exact Hw|]. split; [rewrite Hw; symmetry; exact Hx|].
  rewrite Hx. apply Z.mod_mul. pose proof (pow2_pos e). lia.
Qed.

Lemma subband_height_exact st level c :
  0 <= st_dwt_depth st -> 0 <= st_dwt_depth_ho st -> 0 <= level <= depth_sum st + 1 ->
  let e := if (level =? 0) || (level <=? st_dwt_depth_ho st) then st_dwt_depth st
           else depth_sum st - level + 1 in
  subband_height st level c = padded_height st c / 2 ^ e /\
  subband_height st level c * 2 ^ e = padded_height st c /\
  padded_height st c mod 2 ^ e = 0.
Proof.
  intros Hd Hdh Hl e.
  assert (He : 0 <= e <= st_dwt_depth st).
  { unfold e, depth_sum in *.
    destruct (level =? 0) eqn:E; destruct (level <=? st_dwt_depth_ho st) eqn:E1; cbn [orb]; lia. }
  assert (Hw : subband_height st level c = padded_height st c / 2 ^ e) by apply subband_height_eq.
  assert (Hx : padded_height st c = padded_height st c / 2 ^ e * 2 ^ e).
  { unfold padded_height. rewrite mul_pow_div by lia.
    rewrite (pow2_split (st_dwt_depth st) e) at 1 by lia. ring. }
  split; [exact Hw|]. split; [rewrite Hw; symmetry; exact Hx|].
  rewrite Hx. apply Z.mod_mul. pose proof (pow2_pos e). lia.
Qed.

(* self-contained form: the padded size is characterised, not named *)
Lemma subband_width_padded st level c :
  0 <= st_dwt_depth st -> 0 <= st_dwt_depth_ho st -> 0 <= level <= depth_sum st + 1 ->
  exists pw, least_multiple_ge (2 ^ depth_sum st) (comp_width st c) pw /\
    let e := if level =? 0 then depth_sum st else depth_sum st - level + 1 in
    subband_width st level c = pw / 2 ^ e /\ subband_width st level c * 2 ^ e = pw /\ pw mod 2 ^ e = 0.
Proof.
  intros Hd Hdh Hl. exists (padded_width st c). split.
  - apply padded_width_least. unfold depth_sum; lia.
  - apply subband_width_exact; assumption.
Qed.

Lemma subband_height_padded st level c :
  0 <= st_dwt_depth st -> 0 <= st_dwt_depth_ho st -> 0 <= level <= depth_sum st + 1 ->
  exists ph, least_multiple_ge (2 ^ st_dwt_depth st) (comp_height st c) ph /\
    let e := if (level =? 0) || (level <=? st_dwt_depth_ho st) then st_dwt_depth st
             else depth_sum st - level + 1 in
    subband_height st level c = ph / 2 ^ e /\ subband_height st level c * 2 ^ e = ph /\ ph mod 2 ^ e = 0.
Proof.
  intros Hd Hdh Hl. exists (padded_height st c). split.
  - apply padded_height_least. lia.
  - apply subband_height_exact; assumption.
Qed.

(* top level (dwt_depth_ho + dwt_depth + 1, used by dwt_pad_addition / idwt_pad_removal) = padded picture *)
Lemma subband_top_is_padded st c :
  0 <= st_dwt_depth st -> 0 <= st_dwt_depth_ho st ->
  subband_width st (depth_sum st + 1) c = padded_width st c /\
  subband_height st (depth_sum st + 1) c = padded_height st c.
Proof.
  intros Hd Hdh. rewrite subband_width_eq, subband_height_eq. unfold depth_sum.
  destruct (st_dwt_depth_ho st + st_dwt_depth st + 1 =? 0) eqn:E0; [lia|].
  destruct (st_dwt_depth_ho st + st_dwt_depth st + 1 <=? st_dwt_depth_ho st) eqn:E1; [lia|].
  cbn [orb].
  replace (st_dwt_depth_ho st + st_dwt_depth st - (st_dwt_depth_ho st + st_dwt_depth st + 1) + 1) with 0 by lia.
  rewrite !Z.div_1_r. split; reflexivity.
Qed.

Lemma subband_width_nonneg st level c :
  0 <= st_dwt_depth st -> 0 <= st_dwt_depth_ho st -> 0 <= level <= depth_sum st + 1 ->
  0 <= comp_width st c -> 0 <= subband_width st level c.
Proof.
  intros Hd Hdh Hl Hw. rewrite subband_width_closed by assumption.
  apply Z.mul_nonneg_nonneg.
  - apply ceil_div_nonneg; [apply pow2_pos; unfold depth_sum; lia | assumption].
  - apply Z.pow_nonneg; lia.
Qed.

Lemma subband_height_nonneg st level c :
  0 <= st_dwt_depth st -> 0 <= st_dwt_depth_ho st -> 0 <= level <= depth_sum st + 1 ->
  0 <= comp_height st c -> 0 <= subband_height st level c.
Proof.
  intros Hd Hdh Hl Hw. rewrite subband_height_closed by assumption.
  apply Z.mul_nonneg_nonneg.
  - apply ceil_div_nonneg; [apply pow2_pos; lia | assumption].
  - apply Z.pow_nonneg; lia.
Qed.

(* shapes of the transform *)
Lemma synth_shape_closed dh w0 h0 n :
  0 <= dh ->
  synth_shape dh w0 h0 n =
  (w0 * 2 ^ Z.of_nat n, h0 * 2 ^ (if Z.of_nat n <=? dh then 0 else Z.of_nat n - dh)).
Proof.
  intros Hdh. induction n as [|k IH].
  - cbn [synth_shape]. change (Z.of_nat 0) with 0.
    destruct (0 <=? dh) eqn:E; [|lia]. rewrite Z.pow_0_r. f_equal; ring.
  - cbn [synth_shape]. rewrite IH. rewrite Nat2Z.inj_succ.
    assert (Hp : forall a, 0 <= a -> 2 ^ Z.succ a = 2 * 2 ^ a) by (intros; apply Z.pow_succ_r; assumption).
    destruct (Z.of_nat k <? dh) eqn:E1; destruct (Z.of_nat k <=? dh) eqn:E2;
      destruct (Z.succ (Z.of_nat k) <=? dh) eqn:E3; try lia.
    + rewrite Hp by lia. f_equal; ring.
    + replace (Z.succ (Z.of_nat k) - dh) with (Z.succ 0) by lia.
      rewrite !Hp by lia. rewrite Z.pow_0_r. f_equal; ring.
    + replace (Z.succ (Z.of_nat k) - dh) with (Z.succ (Z.of_nat k - dh)) by lia.
      rewrite !Hp by lia. f_equal; ring.
Qed.

(* subband dimensions = the shapes the transform produces, at every level, DC included *)
Lemma subband_dims_transform st level c :
  0 <= st_dwt_depth st -> 0 <= st_dwt_depth_ho st -> 0 <= level <= depth_sum st + 1 ->
  (subband_width st level c, subband_height st level c) = transform_band_shape st c level.
Proof.
  intros Hd Hdh Hl. unfold transform_band_shape.
  rewrite synth_shape_closed by assumption.
  rewrite subband_width_closed, subband_height_closed by assumption.
  destruct (level =? 0) eqn:E0.
  - assert (level = 0) by lia. subst level. change (Z.to_nat (0 - 1)) with 0%nat.
    change (Z.of_nat 0) with 0.
    destruct (0 <=? st_dwt_depth_ho st) eqn:E; [|lia]. reflexivity.
  - rewrite Z2Nat.id by lia.
    destruct (level <=? st_dwt_depth_ho st) eqn:E1; destruct (level - 1 <=? st_dwt_depth_ho st) eqn:E2; try lia.
    + reflexivity.
    + replace (level - st_dwt_depth_ho st - 1) with 0 by lia. reflexivity.
    + replace (level - st_dwt_depth_ho st - 1) with (level - 1 - st_dwt_depth_ho st) by lia. reflexivity.
Qed.

(* after all levels the synthesis gives the padded picture *)
Lemma transform_full_shape st c :
  0 <= st_dwt_depth st -> 0 <= st_dwt_depth_ho st ->
  synth_shape (st_dwt_depth_ho st)
              (ceil_div (comp_width st c) (2 ^ depth_sum st))
              (ceil_div (comp_height st c) (2 ^ st_dwt_depth st))
              (Z.to_nat (depth_sum st)) = (padded_width st c, padded_height st c).
Proof.
  intros Hd Hdh.
  pose proof (subband_dims_transform st (depth_sum st + 1) c Hd Hdh) as H.
  unfold transform_band_shape in H. replace (depth_sum st + 1 - 1) with (depth_sum st) in H by lia.
  rewrite <- H by (unfold depth_sum; lia).
  destruct (subband_top_is_padded st c Hd Hdh) as [-> ->]. reflexivity.
Qed.

(* halving relations between levels *)
Lemma subband_width_levels st level c :
  0 <= st_dwt_depth st -> 0 <= st_dwt_depth_ho st -> 1 <= level <= depth_sum st ->
  subband_width st 1 c = subband_width st 0 c /\
  subband_width st (level + 1) c = 2 * subband_width st level c.
Proof.
  intros Hd Hdh Hl. rewrite !subband_width_closed by (unfold depth_sum in *; lia).
  change (1 =? 0) with false. change (0 =? 0) with true. cbv iota.
  destruct (level =? 0) eqn:E0; [lia|]. destruct (level + 1 =? 0) eqn:E1; [lia|].
  split; [reflexivity|].
  replace (level + 1 - 1) with (Z.succ (level - 1)) by lia. rewrite Z.pow_succ_r by lia. ring.
Qed.

Lemma subband_height_levels st level c :
  0 <= st_dwt_depth st -> 0 <= st_dwt_depth_ho st -> 0 <= level <= depth_sum st ->
  (level <= st_dwt_depth_ho st -> subband_height st (level + 1) c = subband_height st level c) /\
  (st_dwt_depth_ho st < level -> subband_height st (level + 1) c = 2 * subband_height st level c).
Proof.
  intros Hd Hdh Hl. rewrite !subband_height_closed by (unfold depth_sum in *; lia).
  destruct (level <=? st_dwt_depth_ho st) eqn:E0; destruct (level + 1 <=? st_dwt_depth_ho st) eqn:E1;
    split; intros H; try lia; try reflexivity.
  - replace (level + 1 - st_dwt_depth_ho st - 1) with 0 by lia. reflexivity.
  - replace (level + 1 - st_dwt_depth_ho st - 1) with (Z.succ (level - st_dwt_depth_ho st - 1)) by lia.
    rewrite Z.pow_succ_r by lia. ring.
Qed.

(* ---------------------------------------------------------------------- *)
(* (a) Partition by slices: generic facts about  cut W N i = W*i / N        *)
(* ---------------------------------------------------------------------- *)

Definition cut (W N i : Z) : Z := (W * i) / N.

Lemma cut_0 W N : cut W N 0 = 0.
Proof. unfold cut. rewrite Z.mul_0_r. apply Zdiv_0_l. Qed.

Lemma cut_N W N : N <> 0 -> cut W N N = W.
Proof. intros H. unfold cut. apply Z.div_mul; assumption. Qed.

Lemma cut_mono W N i j : 0 <= W -> 0 < N -> i <= j -> cut W N i <= cut W N j.
Proof.
  intros HW HN Hij. unfold cut. apply Z.div_le_mono; [assumption|].
  apply Z.mul_le_mono_nonneg_l; assumption.
Qed.

(* a coordinate below cut N lies in some cell (induction on the number of cells) *)
Lemma cut_cover_nat W N x (n : nat) :
  0 <= x < cut W N (Z.of_nat n) ->
  exists i, 0 <= i < Z.of_nat n /\ cut W N i <= x < cut W N (i + 1).
Proof.
  induction n as [|k IH]; intros Hx.
  - change (Z.of_nat 0) with 0 in Hx. rewrite cut_0 in Hx. lia.
  - rewrite Nat2Z.inj_succ in *.
    destruct (Z_lt_le_dec x (cut W N (Z.of_nat k))) as [Hlt|Hge].
    + destruct (IH ltac:(lia)) as [i [Hi Hc]]. exists i. split; [lia|exact Hc].
    + exists (Z.of_nat k). split; [lia|]. replace (Z.of_nat k + 1) with (Z.succ (Z.of_nat k)) by lia. lia.
Qed.

Lemma cut_cover_unique W N x :
  0 <= W -> 1 <= N -> 0 <= x < W ->
  exists! i, 0 <= i < N /\ cut W N i <= x < cut W N (i + 1).
Proof.
  intros HW HN Hx.
  destruct (cut_cover_nat W N x (Z.to_nat N)) as [i [Hi Hc]].
  { rewrite Z2Nat.id by lia. rewrite cut_N by lia. exact Hx. }
  rewrite Z2Nat.id in Hi by lia.
  exists i. split; [split; assumption|].
  intros j [Hj Hcj].
  destruct (Z.lt_trichotomy i j) as [Hlt|[Heq|Hgt]]; [|exact Heq|].
  - pose proof (cut_mono W N (i + 1) j HW ltac:(lia) ltac:(lia)). lia.
  - pose proof (cut_mono W N (j + 1) i HW ltac:(lia) ltac:(lia)). lia.
Qed.

(* slices in terms of cut *)
Lemma slice_left_cut st sx c level :
  slice_left st sx c level = cut (subband_width st level c) (st_slices_x st) sx.
Proof. reflexivity. Qed.
Lemma slice_right_cut st sx c level :
  slice_right st sx c level = cut (subband_width st level c) (st_slices_x st) (sx + 1).
Proof. reflexivity. Qed.
Lemma slice_top_cut st sy c level :
  slice_top st sy c level = cut (subband_height st level c) (st_slices_y st) sy.
Proof. reflexivity. Qed.
Lemma slice_bottom_cut st sy c level :
  slice_bottom st sy c level = cut (subband_height st level c) (st_slices_y st) (sy + 1).
Proof. reflexivity. Qed.

Lemma good_comp_width st c : good_state st -> 0 <= comp_width st c.
Proof. unfold good_state. intros H. destruct c; cbn [comp_width]; lia. Qed.
Lemma good_comp_height st c : good_state st -> 0 <= comp_height st c.
Proof. unfold good_state. intros H. destruct c; cbn [comp_height]; lia. Qed.

Lemma slice_partition_x st c level :
  good_state st -> 0 <= level <= depth_sum st + 1 ->
  slice_left st 0 c level = 0 /\
  slice_right st (st_slices_x st - 1) c level = subband_width st level c /\
  forall sx, 0 <= sx < st_slices_x st ->
    0 <= slice_left st sx c level /\
    slice_left st sx c level <= slice_right st sx c level /\
    slice_right st sx c level <= subband_width st level c /\
    slice_right st sx c level = slice_left st (sx + 1) c level.
Proof.
  intros Hg Hl. pose proof (good_comp_width st c Hg) as Hcw.
  unfold good_state in Hg.
  assert (HW : 0 <= subband_width st level c) by (apply subband_width_nonneg; lia).
  rewrite slice_left_cut, slice_right_cut.
  split; [apply cut_0|]. split.
  { replace (st_slices_x st - 1 + 1) with (st_slices_x st) by lia. apply cut_N. lia. }
  intros sx Hsx. rewrite slice_left_cut, slice_right_cut.
  split; [rewrite <- (cut_0 (subband_width st level c) (st_slices_x st)); apply cut_mono; lia|].
  split; [apply cut_mono; lia|].
  split; [|reflexivity].
  rewrite <- (cut_N (subband_width st level c) (st_slices_x st)) at 2 by lia. apply cut_mono; lia.
Qed.

Lemma slice_partition_y st c level :
  good_state st -> 0 <= level <= depth_sum st + 1 ->
  slice_top st 0 c level = 0 /\
  slice_bottom st (st_slices_y st - 1) c level = subband_height st level c /\
  forall sy, 0 <= sy < st_slices_y st ->
    0 <= slice_top st sy c level /\
    slice_top st sy c level <= slice_bottom st sy c level /\
    slice_bottom st sy c level <= subband_height st level c /\
    slice_bottom st sy c level = slice_top st (sy + 1) c level.
Proof.
  intros Hg Hl. pose proof (good_comp_height st c Hg) as Hcw.
  unfold good_state in Hg.
  assert (HW : 0 <= subband_height st level c) by (apply subband_height_nonneg; lia).
  rewrite slice_top_cut, slice_bottom_cut.
  split; [apply cut_0|]. split.
  { replace (st_slices_y st - 1 + 1) with (st_slices_y st) by lia. apply cut_N. lia. }
  intros sy Hsy. rewrite slice_top_cut, slice_bottom_cut.
  split; [rewrite <- (cut_0 (subband_height st level c) (st_slices_y st)); apply cut_mono; lia|].
  split; [apply cut_mono; lia|].
  split; [|reflexivity].
  rewrite <- (cut_N (subband_height st level c) (st_slices_y st)) at 2 by lia. apply cut_mono; lia.
Qed.

(* slices are in order: an earlier slice ends before a later one starts (disjointness) *)
Lemma slice_order_x st c level sx sx' :
  good_state st -> 0 <= level <= depth_sum st + 1 -> sx < sx' ->
  slice_right st sx c level <= slice_left st sx' c level.
Proof.
  intros Hg Hl Hlt. pose proof (good_comp_width st c Hg) as Hcw. unfold good_state in Hg.
  rewrite slice_left_cut, slice_right_cut. apply cut_mono; [apply subband_width_nonneg; lia|lia|lia].
Qed.

Lemma slice_order_y st c level sy sy' :
  good_state st -> 0 <= level <= depth_sum st + 1 -> sy < sy' ->
  slice_bottom st sy c level <= slice_top st sy' c level.
Proof.
  intros Hg Hl Hlt. pose proof (good_comp_height st c Hg) as Hcw. unfold good_state in Hg.
  rewrite slice_top_cut, slice_bottom_cut. apply cut_mono; [apply subband_height_nonneg; lia|lia|lia].
Qed.

Lemma cover_unique_x st c level x :
  good_state st -> 0 <= level <= depth_sum st + 1 -> 0 <= x < subband_width st level c ->
  exists! sx, 0 <= sx < st_slices_x st /\ slice_left st sx c level <= x < slice_right st sx c level.
Proof.
  intros Hg Hl Hx. unfold good_state in Hg.
  apply (cut_cover_unique (subband_width st level c) (st_slices_x st) x); lia.
Qed.

Lemma cover_unique_y st c level y :
  good_state st -> 0 <= level <= depth_sum st + 1 -> 0 <= y < subband_height st level c ->
  exists! sy, 0 <= sy < st_slices_y st /\ slice_top st sy c level <= y < slice_bottom st sy c level.
Proof.
  intros Hg Hl Hy. unfold good_state in Hg.
  apply (cut_cover_unique (subband_height st level c) (st_slices_y st) y); lia.
Qed.

(* 2-D: every coefficient of every subband lies in exactly one slice rectangle *)
Lemma cover_unique_2d st c level x y :
  good_state st -> 0 <= level <= depth_sum st + 1 ->
  0 <= x < subband_width st level c -> 0 <= y < subband_height st level c ->
  exists! p : Z * Z,
    (0 <= fst p < st_slices_x st /\ 0 <= snd p < st_slices_y st) /\
    slice_left st (fst p) c level <= x < slice_right st (fst p) c level /\
    slice_top st (snd p) c level <= y < slice_bottom st (snd p) c level.
Proof.
  intros Hg Hl Hx Hy.
  destruct (cover_unique_x st c level x Hg Hl Hx) as [sx [[Hsx Hcx] Hux]].
  destruct (cover_unique_y st c level y Hg Hl Hy) as [sy [[Hsy Hcy] Huy]].
  exists (sx, sy). split.
  - cbn [fst snd]. repeat split; lia.
  - intros [sx' sy'] [[Hsx' Hsy'] [Hcx' Hcy']]. cbn [fst snd] in *.
    rewrite (Hux sx' (conj Hsx' Hcx')), (Huy sy' (conj Hsy' Hcy')). reflexivity.
Qed.

(* ---------------------------------------------------------------------- *)
(* (c) slices_have_same_dimensions                                          *)
(* ---------------------------------------------------------------------- *)

(* if N divides W every cell has size W/N *)
Lemma cut_even W N i : N <> 0 -> W mod N = 0 -> cut W N (i + 1) - cut W N i = W / N.
Proof.
  intros HN Hm. unfold cut.
  assert (HW : W = N * (W / N)) by (pose proof (Z.div_mod W N HN); lia).
  set (k := W / N) in *. rewrite HW.
  replace (N * k * (i + 1)) with (k * (i + 1) * N) by ring.
  replace (N * k * i) with (k * i * N) by ring.
  rewrite !Z.div_mul by assumption. ring.
Qed.

(* if all cells have the same size then N divides W *)
Lemma cut_same_divides W N :
  1 <= N ->
  (forall i j, 0 <= i < N -> 0 <= j < N ->
     cut W N (i + 1) - cut W N i = cut W N (j + 1) - cut W N j) ->
  W mod N = 0.
Proof.
  intros HN Hsame.
  set (k := cut W N 1 - cut W N 0).
  assert (Hall : forall n : nat, Z.of_nat n <= N -> cut W N (Z.of_nat n) = Z.of_nat n * k).
  { induction n as [|m IH]; intros Hn.
    - change (Z.of_nat 0) with 0. rewrite cut_0. ring.
    - rewrite Nat2Z.inj_succ in *.
      pose proof (Hsame (Z.of_nat m) 0 ltac:(lia) ltac:(lia)) as Hs.
      change (0 + 1) with 1 in Hs. fold k in Hs.
      replace (Z.succ (Z.of_nat m)) with (Z.of_nat m + 1) by lia.
      rewrite IH in Hs by lia. lia. }
  specialize (Hall (Z.to_nat N)). rewrite Z2Nat.id in Hall by lia.
  rewrite cut_N in Hall by lia. rewrite Hall by lia. rewrite Z.mul_comm. apply Z.mod_mul. lia.
Qed.

Lemma same_dims_flag_eq st :
  slices_have_same_dimensions st =
  ((subband_width st 0 Str_Y mod st_slices_x st =? 0) &&
   ((subband_height st 0 Str_Y mod st_slices_y st =? 0) &&
    ((subband_width st 0 Str_C1 mod st_slices_x st =? 0) &&
     (subband_height st 0 Str_C1 mod st_slices_y st =? 0)))).
Proof. reflexivity. Qed.

Lemma subband_C2_C1 st level :
  subband_width st level Str_C2 = subband_width st level Str_C1 /\
  subband_height st level Str_C2 = subband_height st level Str_C1.
Proof. rewrite !subband_width_eq, !subband_height_eq. split; reflexivity. Qed.

(* divisibility at the DC band carries over to every level *)
Lemma width_divisible_levels st level c :
  0 <= st_dwt_depth st -> 0 <= st_dwt_depth_ho st -> 0 <= level <= depth_sum st + 1 ->
  st_slices_x st <> 0 ->
  subband_width st 0 c mod st_slices_x st = 0 ->
  subband_width st level c mod st_slices_x st = 0.
Proof.
  intros Hd Hdh Hl HN H0.
  rewrite subband_width_closed in * by (unfold depth_sum in *; lia).
  change (0 =? 0) with true in H0. cbv iota in H0. rewrite Z.pow_0_r, Z.mul_1_r in H0.
  apply Z.mod_divide in H0; [|assumption]. apply Z.mod_divide; [assumption|].
  apply Z.divide_mul_l. exact H0.
Qed.

Lemma height_divisible_levels st level c :
  0 <= st_dwt_depth st -> 0 <= st_dwt_depth_ho st -> 0 <= level <= depth_sum st + 1 ->
  st_slices_y st <> 0 ->
  subband_height st 0 c mod st_slices_y st = 0 ->
  subband_height st level c mod st_slices_y st = 0.
Proof.
  intros Hd Hdh Hl HN H0.
  rewrite subband_height_closed in * by (unfold depth_sum in *; lia).
  destruct (0 <=? st_dwt_depth_ho st) eqn:E; [|lia]. rewrite Z.pow_0_r, Z.mul_1_r in H0.
  apply Z.mod_divide in H0; [|assumption]. apply Z.mod_divide; [assumption|].
  apply Z.divide_mul_l. exact H0.
Qed.

(* what "all slices have the same dimensions" means *)
Definition all_slices_same_dims (st : pystate) : Prop :=
  forall c level sx sx' sy sy',
    0 <= level <= depth_sum st ->
    0 <= sx < st_slices_x st -> 0 <= sx' < st_slices_x st ->
    0 <= sy < st_slices_y st -> 0 <= sy' < st_slices_y st ->
    slice_right st sx c level - slice_left st sx c level =
    slice_right st sx' c level - slice_left st sx' c level /\
    slice_bottom st sy c level - slice_top st sy c level =
    slice_bottom st sy' c level - slice_top st sy' c level.

(* flag true -> every slice of every subband (all components, all levels incl. the padded
   picture level) is subband_width/slices_x by subband_height/slices_y *)
Lemma same_dims_true_exact st c level sx sy :
  0 <= st_dwt_depth st -> 0 <= st_dwt_depth_ho st ->
  st_slices_x st <> 0 -> st_slices_y st <> 0 ->
  0 <= level <= depth_sum st + 1 ->
  slices_have_same_dimensions st = true ->
  slice_right st sx c level - slice_left st sx c level = subband_width st level c / st_slices_x st /\
  slice_bottom st sy c level - slice_top st sy c level = subband_height st level c / st_slices_y st /\
  subband_width st level c mod st_slices_x st = 0 /\
  subband_height st level c mod st_slices_y st = 0.
Proof.
  intros Hd Hdh HNx HNy Hl Hf. rewrite same_dims_flag_eq in Hf.
  apply andb_prop in Hf. destruct Hf as [H1 Hf].
  apply andb_prop in Hf. destruct Hf as [H2 Hf].
  apply andb_prop in Hf. destruct Hf as [H3 H4].
  apply Z.eqb_eq in H1, H2, H3, H4.
  assert (Hw0 : subband_width st 0 c mod st_slices_x st = 0).
  { destruct c; [exact H1|exact H3|]. rewrite (proj1 (subband_C2_C1 st 0)). exact H3. }
  assert (Hh0 : subband_height st 0 c mod st_slices_y st = 0).
  { destruct c; [exact H2|exact H4|]. rewrite (proj2 (subband_C2_C1 st 0)). exact H4. }
  pose proof (width_divisible_levels st level c Hd Hdh Hl HNx Hw0) as Hw.
  pose proof (height_divisible_levels st level c Hd Hdh Hl HNy Hh0) as Hh.
  rewrite slice_left_cut, slice_right_cut, slice_top_cut, slice_bottom_cut.
  repeat split; try assumption; apply cut_even; assumption.
Qed.

Lemma same_dims_true st :
  0 <= st_dwt_depth st -> 0 <= st_dwt_depth_ho st ->
  st_slices_x st <> 0 -> st_slices_y st <> 0 ->
  slices_have_same_dimensions st = true -> all_slices_same_dims st.
Proof.
  intros Hd Hdh HNx HNy Hf c level sx sx' sy sy' Hl _ _ _ _.
  assert (Hl' : 0 <= level <= depth_sum st + 1) by lia.
  destruct (same_dims_true_exact st c level sx sy Hd Hdh HNx HNy Hl' Hf) as [A [B _]].
  destruct (same_dims_true_exact st c level sx' sy' Hd Hdh HNx HNy Hl' Hf) as [A' [B' _]].
  split; congruence.
Qed.

(* converse: equal slice sizes in the DC bands of Y and C1 alone force the flag *)
Lemma same_dims_dc_only st :
  1 <= st_slices_x st -> 1 <= st_slices_y st ->
  (forall c, c = Str_Y \/ c = Str_C1 ->
     (forall sx sx', 0 <= sx < st_slices_x st -> 0 <= sx' < st_slices_x st ->
        slice_right st sx c 0 - slice_left st sx c 0 = slice_right st sx' c 0 - slice_left st sx' c 0) /\
     (forall sy sy', 0 <= sy < st_slices_y st -> 0 <= sy' < st_slices_y st ->
        slice_bottom st sy c 0 - slice_top st sy c 0 = slice_bottom st sy' c 0 - slice_top st sy' c 0)) ->
  slices_have_same_dimensions st = true.
Proof.
  intros HNx HNy H. rewrite same_dims_flag_eq.
  destruct (H Str_Y (or_introl eq_refl)) as [HYx HYy].
  destruct (H Str_C1 (or_intror eq_refl)) as [HCx HCy].
  rewrite !andb_true_iff, !Z.eqb_eq.
  repeat split; apply cut_same_divides; assumption.
Qed.

Lemma same_dims_false st :
  0 <= st_dwt_depth st -> 0 <= st_dwt_depth_ho st ->
  1 <= st_slices_x st -> 1 <= st_slices_y st ->
  all_slices_same_dims st -> slices_have_same_dimensions st = true.
Proof.
  intros Hd Hdh HNx HNy Hall. apply same_dims_dc_only; try assumption.
  intros c _. split.
  - intros sx sx' Hsx Hsx'.
    exact (proj1 (Hall c 0 sx sx' 0 0 ltac:(unfold depth_sum; lia) Hsx Hsx' ltac:(lia) ltac:(lia))).
  - intros sy sy' Hsy Hsy'.
    exact (proj2 (Hall c 0 0 0 sy sy' ltac:(unfold depth_sum; lia) ltac:(lia) ltac:(lia) Hsy Hsy')).
Qed.

Lemma same_dims_iff st :
  good_state st -> slices_have_same_dimensions st = true <-> all_slices_same_dims st.
Proof.
  unfold good_state. intros Hg. split.
  - apply same_dims_true; lia.
  - apply same_dims_false; lia.
Qed.

(* flag false -> a concrete unequal pair exists, in the DC band of Y or C1 (decidable form of the converse) *)
Lemma cut_not_divides_witness W N :
  1 <= N -> W mod N <> 0 ->
  exists i, 0 <= i < N /\ cut W N (i + 1) - cut W N i <> cut W N 1 - cut W N 0.
Proof.
  intros HN Hm.
  assert (Hall : forall n : nat, Z.of_nat n <= N ->
            (exists i, 0 <= i < Z.of_nat n /\ cut W N (i + 1) - cut W N i <> cut W N 1 - cut W N 0) \/
            cut W N (Z.of_nat n) = Z.of_nat n * (cut W N 1 - cut W N 0)).
  { induction n as [|m IH]; intros Hn.
    - right. change (Z.of_nat 0) with 0. rewrite cut_0. ring.
    - rewrite Nat2Z.inj_succ in *.
      destruct (IH ltac:(lia)) as [[i [Hi Hne]]|Heq].
      + left. exists i. split; [lia|exact Hne].
      + destruct (Z.eq_dec (cut W N (Z.of_nat m + 1) - cut W N (Z.of_nat m)) (cut W N 1 - cut W N 0)) as [E|E].
        * right. replace (Z.succ (Z.of_nat m)) with (Z.of_nat m + 1) by lia. lia.
        * left. exists (Z.of_nat m). split; [lia|exact E]. }
  destruct (Hall (Z.to_nat N)) as [[i [Hi Hne]]|Heq]; rewrite ?Z2Nat.id in * by lia; try lia.
  - exists i. split; [lia|exact Hne].
  - exfalso. rewrite cut_N in Heq by lia. apply Hm. rewrite Heq. rewrite Z.mul_comm. apply Z.mod_mul. lia.
Qed.

(* ---------------------------------------------------------------------- *)
(* (d) slice_bytes                                                          *)
(* ---------------------------------------------------------------------- *)

Definition cum_bytes (st : pystate) (n : Z) : Z :=
  (n * st_slice_bytes_numerator st) / st_slice_bytes_denominator st.

Lemma slice_bytes_cum st sx sy :
  slice_bytes st sx sy =
  cum_bytes st (sy * st_slices_x st + sx + 1) - cum_bytes st (sy * st_slices_x st + sx).
Proof. reflexivity. Qed.

Lemma slice_bytes_nonneg st sx sy :
  0 <= st_slice_bytes_numerator st -> 0 < st_slice_bytes_denominator st ->
  0 <= slice_bytes st sx sy.
Proof.
  intros Hn Hd. rewrite slice_bytes_cum. unfold cum_bytes.
  set (n := sy * st_slices_x st + sx).
  assert (n * st_slice_bytes_numerator st / st_slice_bytes_denominator st
          <= (n + 1) * st_slice_bytes_numerator st / st_slice_bytes_denominator st).
  { apply Z.div_le_mono; [assumption|]. lia. }
  lia.
Qed.

(* each slice gets floor(num/den) or one more byte *)
Lemma slice_bytes_floor_or_ceil st sx sy :
  0 < st_slice_bytes_denominator st ->
  let q := st_slice_bytes_numerator st / st_slice_bytes_denominator st in
  q <= slice_bytes st sx sy <= q + 1.
Proof.
  intros Hd q. unfold q. rewrite slice_bytes_cum. unfold cum_bytes.
  set (n := sy * st_slices_x st + sx).
  replace ((n + 1) * st_slice_bytes_numerator st) with (n * st_slice_bytes_numerator st + st_slice_bytes_numerator st) by ring.
  set (p := n * st_slice_bytes_numerator st). clearbody p.
  set (a := st_slice_bytes_numerator st) in *. set (b := st_slice_bytes_denominator st) in *. clearbody a b.
  nia.
Qed.

Lemma zsum_telescope (g : Z -> Z) (n : nat) :
  zsum (fun i => g (i + 1) - g i) n = g (Z.of_nat n) - g 0.
Proof.
  induction n as [|k IH].
  - cbn [zsum]. change (Z.of_nat 0) with 0. ring.
  - cbn [zsum]. rewrite IH. rewrite Nat2Z.inj_succ.
    replace (Z.succ (Z.of_nat k)) with (Z.of_nat k + 1) by lia. ring.
Qed.

Lemma zsum_ext (f g : Z -> Z) (n : nat) :
  (forall i, 0 <= i < Z.of_nat n -> f i = g i) -> zsum f n = zsum g n.
Proof.
  induction n as [|k IH]; intros H; [reflexivity|].
  cbn [zsum]. rewrite Nat2Z.inj_succ in H. rewrite IH by (intros; apply H; lia).
  rewrite H by lia. reflexivity.
Qed.

Lemma slice_bytes_row_sum st sy :
  0 <= st_slices_x st ->
  zsum (fun sx => slice_bytes st sx sy) (Z.to_nat (st_slices_x st)) =
  cum_bytes st ((sy + 1) * st_slices_x st) - cum_bytes st (sy * st_slices_x st).
Proof.
  intros HN.
  rewrite (zsum_ext _ (fun sx => cum_bytes st (sy * st_slices_x st + (sx + 1)) - cum_bytes st (sy * st_slices_x st + sx))).
  2:{ intros i _. rewrite slice_bytes_cum. f_equal. f_equal. ring. }
  rewrite (zsum_telescope (fun i => cum_bytes st (sy * st_slices_x st + i))).
  rewrite Z2Nat.id by assumption. f_equal; f_equal; ring.
Qed.

Lemma slice_bytes_sum st :
  0 <= st_slices_x st -> 0 <= st_slices_y st ->
  picture_slice_bytes st =
  (st_slices_x st * st_slices_y st * st_slice_bytes_numerator st) / st_slice_bytes_denominator st.
Proof.
  intros HNx HNy. unfold picture_slice_bytes.
  rewrite (zsum_ext _ (fun sy => cum_bytes st ((sy + 1) * st_slices_x st) - cum_bytes st (sy * st_slices_x st))).
  2:{ intros i _. apply slice_bytes_row_sum. assumption. }
  rewrite (zsum_telescope (fun i => cum_bytes st (i * st_slices_x st))).
  rewrite Z2Nat.id by assumption. unfold cum_bytes.
  cbv beta. rewrite !Z.mul_0_l, Zdiv_0_l, Z.sub_0_r.
  f_equal. ring.
Qed.

(* the list in raster order has slices_x*slices_y entries and the same total *)
Lemma py_sum_app a b : py_sum (a ++ b) = py_sum a + py_sum b.
Proof. unfold py_sum. induction a as [|x a IH]; cbn [app fold_right]; lia. Qed.

Lemma py_sum_map_zrange (f : Z -> Z) (n : nat) :
  py_sum (map f (map Z.of_nat (seq 0 n))) = zsum f n.
Proof.
  induction n as [|k IH]; [reflexivity|].
  rewrite seq_S, !map_app, py_sum_app, IH. cbn [zsum map plus]. unfold py_sum. cbn [fold_right]. lia.
Qed.

Lemma py_sum_flat_map_zrange (f : Z -> list Z) (n : nat) :
  py_sum (flat_map f (map Z.of_nat (seq 0 n))) = zsum (fun i => py_sum (f i)) n.
Proof.
  induction n as [|k IH]; [reflexivity|].
  rewrite seq_S, map_app, flat_map_app, py_sum_app, IH. cbn [zsum map plus flat_map].
  rewrite app_nil_r. reflexivity.
Qed.

Lemma slice_bytes_raster_sum st :
  0 <= st_slices_x st -> 0 <= st_slices_y st ->
  py_len (slice_bytes_raster st) = st_slices_x st * st_slices_y st /\
  py_sum (slice_bytes_raster st) =
  (st_slices_x st * st_slices_y st * st_slice_bytes_numerator st) / st_slice_bytes_denominator st.
Proof.
  intros HNx HNy. split.
  - unfold py_len, slice_bytes_raster, zrange.
    assert (H : forall n : nat, length (flat_map (fun sy => map (fun sx => slice_bytes st sx sy)
                   (map Z.of_nat (seq 0 (Z.to_nat (st_slices_x st))))) (map Z.of_nat (seq 0 n)))
                = (n * Z.to_nat (st_slices_x st))%nat).
    { induction n as [|k IH]; [reflexivity|].
      rewrite seq_S, map_app, flat_map_app, app_length, IH. cbn [map plus flat_map].
      rewrite app_nil_r, !map_length, seq_length. lia. }
    rewrite H. rewrite Nat2Z.inj_mul, !Z2Nat.id by assumption. ring.
  - rewrite <- slice_bytes_sum by assumption. unfold slice_bytes_raster, zrange, picture_slice_bytes.
    rewrite py_sum_flat_map_zrange. apply zsum_ext. intros i _. apply py_sum_map_zrange.
Qed.

(* the n-th entry of the raster list is the slice (n mod slices_x, n / slices_x) *)
Lemma slice_bytes_raster_nth st n :
  0 <= n < st_slices_x st * st_slices_y st -> 0 <= st_slices_y st ->
  nth (Z.to_nat n) (slice_bytes_raster st) 0 =
  slice_bytes st (n mod st_slices_x st) (n / st_slices_x st).
Proof.
  intros Hn HNy.
  assert (HNx : 0 < st_slices_x st) by nia.
  unfold slice_bytes_raster, zrange.
  set (Nx := st_slices_x st) in *.
  assert (H : forall (m : nat) k, 0 <= k < Z.of_nat m * Nx ->
     nth (Z.to_nat k) (flat_map (fun sy => map (fun sx => slice_bytes st sx sy)
        (map Z.of_nat (seq 0 (Z.to_nat Nx)))) (map Z.of_nat (seq 0 m))) 0 =
     slice_bytes st (k mod Nx) (k / Nx)).
  { induction m as [|j IH]; intros k Hk; [lia|].
    rewrite seq_S, map_app, flat_map_app. cbn [map plus flat_map]. rewrite app_nil_r.
    assert (Hlen : length (flat_map (fun sy => map (fun sx => slice_bytes st sx sy)
                   (map Z.of_nat (seq 0 (Z.to_nat Nx)))) (map Z.of_nat (seq 0 j))) = (j * Z.to_nat Nx)%nat).
    { clear. induction j as [|k IH]; [reflexivity|].
      rewrite seq_S, map_app, flat_map_app, app_length, IH. cbn [map plus flat_map].
      rewrite app_nil_r, !map_length, seq_length. lia. }
    destruct (Z_lt_le_dec k (Z.of_nat j * Nx)) as [Hlt|Hge].
    - rewrite app_nth1 by (rewrite Hlen; nia). apply IH. lia.
    - rewrite app_nth2 by (rewrite Hlen; nia). rewrite Hlen.
      rewrite Nat2Z.inj_succ in Hk.
      assert (Hq : k / Nx = Z.of_nat j) by nia.
      assert (Hr : k mod Nx = k - Z.of_nat j * Nx) by (pose proof (Z.div_mod k Nx); nia).
      replace (Z.to_nat k - j * Z.to_nat Nx)%nat with (Z.to_nat (k - Z.of_nat j * Nx)) by nia.
      rewrite (nth_indep _ 0 (slice_bytes st 0 (Z.of_nat j))) by (rewrite !map_length, seq_length; nia).
      rewrite (map_nth (fun sx => slice_bytes st sx (Z.of_nat j))).
      rewrite (nth_indep _ 0 (Z.of_nat 0)) by (rewrite !map_length, seq_length; nia).
      rewrite map_nth, seq_nth by nia. rewrite Hq, Hr. f_equal. lia. }
  apply (H (Z.to_nat (st_slices_y st)) n). rewrite Z2Nat.id by assumption. lia.
Qed.

(* ---------------------------------------------------------------------- *)
(* (e) No exception                                                         *)
(* ---------------------------------------------------------------------- *)

Lemma subband_width_dom_ok st level c :
  0 <= st_dwt_depth st -> 0 <= st_dwt_depth_ho st -> 0 <= level <= depth_sum st + 1 ->
  subband_width_dom st level c = true.
Proof.
  intros Hd Hdh Hl. unfold depth_sum in Hl. unfold subband_width_dom; py_unfold.
  rewrite !Z.shiftl_1_l.
  pose proof (pow2_pos (st_dwt_depth_ho st + st_dwt_depth st) ltac:(lia)) as Hp.
  destruct c; pystr_simpl; cbv beta iota zeta;
  (destruct (0 <=? st_dwt_depth_ho st + st_dwt_depth st) eqn:E; [|lia]);
  (destruct (2 ^ (st_dwt_depth_ho st + st_dwt_depth st) =? 0) eqn:Ep; [lia|]); cbn [negb andb];
  (destruct (level =? 0) eqn:E0; [reflexivity|]);
  pose proof (pow2_pos (st_dwt_depth_ho st + st_dwt_depth st - level + 1) ltac:(lia)) as Hq;
  (destruct (level <=? st_dwt_depth_ho st) eqn:E1; [|destruct (level >? st_dwt_depth_ho st) eqn:E2; [|lia]]);
  (destruct (0 <=? st_dwt_depth_ho st + st_dwt_depth st - level + 1) eqn:E3; [|lia]);
  (destruct (2 ^ (st_dwt_depth_ho st + st_dwt_depth st - level + 1) =? 0) eqn:E4; [lia|]); reflexivity.
Qed.

Lemma subband_height_dom_ok st level c :
  0 <= st_dwt_depth st -> 0 <= st_dwt_depth_ho st -> 0 <= level <= depth_sum st + 1 ->
  subband_height_dom st level c = true.
Proof.
  intros Hd Hdh Hl. unfold depth_sum in Hl. unfold subband_height_dom; py_unfold.
  rewrite !Z.shiftl_1_l.
  pose proof (pow2_pos (st_dwt_depth st) ltac:(lia)) as Hp.
  destruct c; pystr_simpl; cbv beta iota zeta;
  (destruct (0 <=? st_dwt_depth st) eqn:E; [|lia]);
  (destruct (2 ^ (st_dwt_depth st) =? 0) eqn:Ep; [lia|]); cbn [negb andb];
  (destruct (level =? 0) eqn:E0; [reflexivity|]);
  (destruct (level <=? st_dwt_depth_ho st) eqn:E1; [reflexivity|]);
  pose proof (pow2_pos (st_dwt_depth_ho st + st_dwt_depth st - level + 1) ltac:(lia)) as Hq;
  (destruct (level >? st_dwt_depth_ho st) eqn:E2; [|lia]);
  (destruct (0 <=? st_dwt_depth_ho st + st_dwt_depth st - level + 1) eqn:E3; [|lia]);
  (destruct (2 ^ (st_dwt_depth_ho st + st_dwt_depth st - level + 1) =? 0) eqn:E4; [lia|]); reflexivity.
Qed.

Lemma all_dom_ok st :
  good_state st ->
  (forall level c s, 0 <= level <= depth_sum st + 1 ->
     subband_width_dom st level c = true /\ subband_height_dom st level c = true /\
     slice_left_dom st s c level = true /\ slice_right_dom st s c level = true /\
     slice_top_dom st s c level = true /\ slice_bottom_dom st s c level = true) /\
  slices_have_same_dimensions_dom st = true /\
  (forall sx sy, st_slice_bytes_denominator st <> 0 -> slice_bytes_dom st sx sy = true).
Proof.
  unfold good_state. intros Hg.
  assert (HW : forall level c, 0 <= level <= depth_sum st + 1 -> subband_width_dom st level c = true)
    by (intros; apply subband_width_dom_ok; lia).
  assert (HH : forall level c, 0 <= level <= depth_sum st + 1 -> subband_height_dom st level c = true)
    by (intros; apply subband_height_dom_ok; lia).
  assert (Hx : negb (st_slices_x st =? 0) = true) by lia.
  assert (Hy : negb (st_slices_y st =? 0) = true) by lia.
  split; [|split].
  - intros level c s Hl.
    unfold slice_left_dom, slice_right_dom, slice_top_dom, slice_bottom_dom.
    rewrite HW, HH, Hx, Hy by assumption. repeat split; reflexivity.
  - unfold slices_have_same_dimensions_dom.
    rewrite !HW, !HH by (unfold depth_sum; lia). rewrite Hx, Hy. cbn [andb].
    repeat match goal with |- context [if ?b then _ else _] => destruct b end; reflexivity.
  - intros sx sy Hden. unfold slice_bytes_dom.
    destruct (st_slice_bytes_denominator st =? 0) eqn:E; [lia|]. reflexivity.
Qed.

(* outside the domain the Python raises: e.g. a zero slice count or a level beyond the top *)
Lemma dom_false_examples :
  let st := set_st_dwt_depth (set_st_dwt_depth_ho (set_st_luma_width empty_pystate 5) 1) 1 in
  slice_left_dom st 0 Str_Y 0 = false /\ slices_have_same_dimensions_dom st = false /\
  subband_width_dom st 4 Str_Y = false.
Proof. vm_compute. repeat split; reflexivity. Qed.
