(* Bridge (tie T) for C09: the hand model of picture_dimensions / video_depth in Model/Picture.v equals the
   functions TRANSLATED from vc2_conformance/pseudocode/video_parameters.py (Gen/VideoParams.v, regenerated on
   every run), for all inputs; and the translated set_coding_parameters never raises. *)
From Coq Require Import ZArith List Bool Lia ZifyBool.
From VC2 Require Import Base.PyZ Gen.StateRec Gen.VC2Math Gen.VideoParams Model.Picture Proofs.PictureProofs.
Import ListNotations.
Open Scope Z_scope.
Ltac Zify.zify_post_hook ::= Z.to_euclidean_division_equations.

(* the dimension / depth fields of a (translated) state as the record the hand model uses *)
Definition dims_of_state (s : pystate) : pdims :=
  mk_pdims (st_luma_width s) (st_luma_height s) (st_color_diff_width s) (st_color_diff_height s)
           (st_luma_depth s) (st_color_diff_depth s).

Definition dims_list_of (d : pdims) : list Z :=
  [luma_width d; luma_height d; color_diff_width d; color_diff_height d; luma_depth d; color_diff_depth d].

Lemma mk_dims_matches_source st vp :
  mk_dims (st_frame_width vp) (st_frame_height vp) (st_color_diff_format_index vp) (st_picture_coding_mode st)
          (st_luma_excursion vp) (st_color_diff_excursion vp)
  = dims_of_state (VideoParams.set_coding_parameters st vp).
Proof.
  unfold mk_dims, Picture.picture_dimensions, Picture.video_depth, dims_of_state,
    VideoParams.set_coding_parameters, VideoParams.video_depth, VideoParams.picture_dimensions.
  destruct st, vp; cbn.
  destruct (st_color_diff_format_index0 =? 1); destruct (st_color_diff_format_index0 =? 2);
    destruct (st_picture_coding_mode =? 1); reflexivity.
Qed.

Lemma set_coding_parameters_dom_true st vp : VideoParams.set_coding_parameters_dom st vp = true.
Proof.
  unfold VideoParams.set_coding_parameters_dom, VideoParams.video_depth_dom, VideoParams.picture_dimensions_dom, intlog2_dom.
  destruct st, vp; cbn.
  destruct (st_color_diff_format_index0 =? 1); destruct (st_color_diff_format_index0 =? 2);
    destruct (st_picture_coding_mode =? 1); reflexivity.
Qed.

Lemma mk_dims_depths fw fh cdf pcm le ce :
  luma_depth (mk_dims fw fh cdf pcm le ce) = intlog2 (le + 1) /\
  color_diff_depth (mk_dims fw fh cdf pcm le ce) = intlog2 (ce + 1).
Proof.
  unfold mk_dims. destruct (Picture.picture_dimensions fw fh cdf pcm) as [[[lw lh] cw] ch]. cbn. split; reflexivity.
Qed.

Lemma mk_dims_nonneg fw fh cdf pcm le ce : 0 <= fw -> 0 <= fh ->
  let d := mk_dims fw fh cdf pcm le ce in
  0 <= luma_width d /\ 0 <= luma_height d /\ 0 <= color_diff_width d /\ 0 <= color_diff_height d.
Proof.
  intros Hw Hh. unfold mk_dims, Picture.picture_dimensions, Picture.video_depth, py_div.
  destruct (cdf =? 1); destruct (cdf =? 2); destruct (pcm =? 1); cbn; repeat split; lia.
Qed.

(* depths computed by the source are >= 1 for the excursions the validator admits *)
Lemma source_depths_ge1 st vp :
  1 <= st_luma_excursion vp -> 1 <= st_color_diff_excursion vp ->
  let s' := VideoParams.set_coding_parameters st vp in
  1 <= st_luma_depth s' /\ 1 <= st_color_diff_depth s'.
Proof.
  intros Hl Hc. cbn zeta.
  pose proof (mk_dims_matches_source st vp) as H.
  destruct (mk_dims_depths (st_frame_width vp) (st_frame_height vp) (st_color_diff_format_index vp)
              (st_picture_coding_mode st) (st_luma_excursion vp) (st_color_diff_excursion vp)) as [H1 H2].
  rewrite H in H1, H2. unfold dims_of_state in H1, H2. cbn [luma_depth color_diff_depth] in H1, H2.
  rewrite H1, H2. split; apply intlog2_ge1; assumption.
Qed.

(* dimensions computed by the source are >= 0 for non-negative frame sizes *)
Lemma source_dims_nonneg st vp :
  0 <= st_frame_width vp -> 0 <= st_frame_height vp ->
  let s' := VideoParams.set_coding_parameters st vp in
  0 <= st_luma_width s' /\ 0 <= st_luma_height s' /\ 0 <= st_color_diff_width s' /\ 0 <= st_color_diff_height s'.
Proof.
  intros Hw Hh. cbn zeta.
  pose proof (mk_dims_nonneg _ _ (st_color_diff_format_index vp) (st_picture_coding_mode st)
                (st_luma_excursion vp) (st_color_diff_excursion vp) Hw Hh) as H.
  cbn zeta in H. rewrite (mk_dims_matches_source st vp) in H. unfold dims_of_state in H.
  cbn [luma_width luma_height color_diff_width color_diff_height] in H. exact H.
Qed.

(* the whole post-transform pipeline with the dimensions and depths computed BY THE SOURCE *)
Lemma component_well_formed_source st vp c idwt_out :
  0 <= st_frame_width vp -> 0 <= st_frame_height vp ->
  1 <= st_luma_excursion vp -> 1 <= st_color_diff_excursion vp ->
  let d := dims_of_state (VideoParams.set_coding_parameters st vp) in
  comp_height d c <= Z.of_nat (length idwt_out) ->
  Forall (fun r => comp_width d c <= Z.of_nat (length r)) idwt_out ->
  let out := finish_component d c idwt_out in
  length out = Z.to_nat (comp_height d c) /\
  rect (Z.to_nat (comp_width d c)) out /\
  Forall (Forall (fun v => 0 <= v <= 2 ^ comp_depth d c - 1)) out.
Proof.
  intros Hw Hh Hl Hc d Hlen Hrows.
  destruct (source_depths_ge1 st vp Hl Hc) as [D1 D2].
  destruct (source_dims_nonneg st vp Hw Hh) as (N1 & N2 & N3 & N4).
  apply finish_component_well_formed; try assumption; subst d; unfold dims_of_state; destruct c; cbn; assumption.
Qed.
