(* Proofs about Model/EncoderSlices.v (hand model, tie C) over the generated arithmetic
   (Gen/Quant.v, Gen/ExpGolombLen.v, Gen/SliceSizes.v, Gen/EncBudget.v, Gen/VC2Math.v: tie T):
   properties C14 (lossy budget / minimal qindex) and C04 (lossless reconstruction). *)
From Coq Require Import ZArith List Bool Lia ZifyBool.
From VC2 Require Import Base.PyZ Gen.StateRec Gen.VC2Math Gen.Quant Gen.ExpGolombLen Gen.SliceSizes Gen.EncBudget.
From VC2 Require Import Model.EncoderSlices Proofs.QuantProofs Proofs.SliceSizesProofs.
Import ListNotations.
Open Scope Z_scope.
Ltac Zify.zify_post_hook ::= Z.to_euclidean_division_equations.

(* ---------------- bit_length ---------------- *)
Lemma bit_length_nonneg x : 0 <= bit_length x.
Proof. destruct x; cbn [bit_length]; try lia; pose proof (Z.log2_nonneg (Z.pos p)); lia. Qed.

Lemma bit_length_abs_lt x : Z.abs x < 2 ^ bit_length x.
Proof.
  destruct x as [|p|p]; cbn [bit_length Z.abs]; try (cbn; lia).
  - pose proof (Z.log2_spec (Z.pos p) ltac:(lia)). replace (Z.log2 (Z.pos p) + 1) with (Z.succ (Z.log2 (Z.pos p))) by lia. lia.
  - pose proof (Z.log2_spec (Z.pos p) ltac:(lia)). replace (Z.log2 (Z.pos p) + 1) with (Z.succ (Z.log2 (Z.pos p))) by lia. lia.
Qed.

Lemma bit_length_pos x : 0 < x -> 1 <= bit_length x.
Proof. destruct x; cbn [bit_length]; try lia. pose proof (Z.log2_nonneg (Z.pos p)); lia. Qed.

Lemma bit_length_ge2 x : 2 <= x -> 2 <= bit_length x.
Proof.
  intros H. destruct x; cbn [bit_length]; try lia.
  pose proof (Z.log2_le_mono 2 (Z.pos p) H). change (Z.log2 2) with 1 in *. lia.
Qed.

(* ---------------- exp-golomb lengths ---------------- *)
Lemma sgl_zero : signed_exp_golomb_length 0 = 1.
Proof. reflexivity. Qed.

Lemma sgl_nonzero c : c <> 0 -> 4 <= signed_exp_golomb_length c.
Proof.
  intros H. unfold signed_exp_golomb_length, exp_golomb_length, py_abs.
  destruct (Z.abs c <? 0) eqn:E; [lia|].
  destruct (c =? 0) eqn:E0; [lia|]. cbn [negb].
  pose proof (bit_length_ge2 (Z.abs c + 1) ltac:(lia)). lia.
Qed.

Lemma sgl_pos c : 1 <= signed_exp_golomb_length c.
Proof. destruct (Z.eq_dec c 0) as [->|H]; [rewrite sgl_zero; lia|pose proof (sgl_nonzero c H); lia]. Qed.

Lemma sgl_dom c : signed_exp_golomb_length_dom c = true.
Proof.
  unfold signed_exp_golomb_length_dom, exp_golomb_length_dom, py_abs.
  destruct (Z.abs c <? 0) eqn:E; [lia|]. destruct (negb (c =? 0)); reflexivity.
Qed.

(* ---------------- calculate_coeffs_bits ---------------- *)
Definition sum_sgl (l : list Z) : Z := py_sum (map signed_exp_golomb_length l).

Lemma sum_sgl_app a b : sum_sgl (a ++ b) = sum_sgl a + sum_sgl b.
Proof. unfold sum_sgl. rewrite map_app. apply py_sum_app. Qed.

Lemma sum_sgl_nonneg l : 0 <= sum_sgl l.
Proof.
  induction l as [|c l IH]; [cbn; lia|].
  unfold sum_sgl in *. cbn [map py_sum fold_right] in *. pose proof (sgl_pos c). unfold py_sum in IH. lia.
Qed.

Lemma sum_sgl_cons c l : sum_sgl (c :: l) = signed_exp_golomb_length c + sum_sgl l.
Proof. reflexivity. Qed.

Lemma ccb_fold_noskip l n : fold_left ccb_step l (n, false) = (n + sum_sgl l, false).
Proof.
  revert n. induction l as [|c l IH]; intros n.
  - cbn. f_equal. unfold sum_sgl. cbn. lia.
  - cbn [fold_left ccb_step andb]. rewrite IH, sum_sgl_cons. f_equal. lia.
Qed.

(* functional form: drop the trailing zeros, add up the code lengths of the rest *)
Lemma ccb_snoc_zero cs : calculate_coeffs_bits (cs ++ [0]) = calculate_coeffs_bits cs.
Proof. unfold calculate_coeffs_bits. rewrite rev_app_distr. reflexivity. Qed.

Lemma ccb_snoc_nonzero cs c : c <> 0 -> calculate_coeffs_bits (cs ++ [c]) = sum_sgl (cs ++ [c]).
Proof.
  intros H. unfold calculate_coeffs_bits. rewrite rev_app_distr. cbn [rev app fold_left ccb_step].
  destruct (c =? 0) eqn:E; [lia|]. cbn [andb]. rewrite ccb_fold_noskip. cbn [fst].
  rewrite sum_sgl_app. unfold sum_sgl at 1. rewrite map_rev.
  assert (Hrev : forall l, py_sum (rev l) = py_sum l).
  { induction l as [|x l IH]; [reflexivity|]. cbn [rev]. rewrite py_sum_app, IH. unfold py_sum. cbn. lia. }
  rewrite Hrev. unfold sum_sgl. cbn. lia.
Qed.

Lemma ccb_nil : calculate_coeffs_bits [] = 0.
Proof. reflexivity. Qed.

Lemma ccb_zero_or_ge4 cs : calculate_coeffs_bits cs = 0 \/ 4 <= calculate_coeffs_bits cs.
Proof.
  induction cs as [|c cs IH] using rev_ind; [left; reflexivity|].
  destruct (Z.eq_dec c 0) as [->|H].
  - rewrite ccb_snoc_zero. exact IH.
  - right. rewrite ccb_snoc_nonzero by assumption. rewrite sum_sgl_app.
    pose proof (sum_sgl_nonneg cs). pose proof (sgl_nonzero c H). unfold sum_sgl at 2. cbn. lia.
Qed.

Lemma ccb_nonneg cs : 0 <= calculate_coeffs_bits cs.
Proof. destruct (ccb_zero_or_ge4 cs); lia. Qed.

Lemma ccb_le_sum cs : calculate_coeffs_bits cs <= sum_sgl cs.
Proof.
  induction cs as [|c cs IH] using rev_ind; [cbn; lia|].
  destruct (Z.eq_dec c 0) as [->|H].
  - rewrite ccb_snoc_zero, sum_sgl_app. unfold sum_sgl at 2. cbn. lia.
  - rewrite ccb_snoc_nonzero by assumption. lia.
Qed.

Lemma ccb_all_zero cs : Forall (fun c => c = 0) cs -> calculate_coeffs_bits cs = 0.
Proof.
  induction cs as [|c cs IH] using rev_ind; intros H; [reflexivity|].
  apply Forall_app in H. destruct H as [H1 H2]. inversion H2; subst.
  rewrite ccb_snoc_zero. auto.
Qed.

(* appending zeros never changes the count: "trailing zeros are coded implicitly" *)
Lemma ccb_app_zeros cs n : calculate_coeffs_bits (cs ++ repeat 0 n) = calculate_coeffs_bits cs.
Proof.
  induction n as [|n IH]; [rewrite app_nil_r; reflexivity|].
  replace (repeat 0 (S n)) with (repeat 0 n ++ [0]).
  - rewrite app_assoc, ccb_snoc_zero. exact IH.
  - clear. induction n; [reflexivity|]. cbn [repeat app]. rewrite IHn. reflexivity.
Qed.

(* ---------------- quantising to zero ---------------- *)
Lemma quant_factor_mono i j : 0 <= i <= j -> quant_factor i <= quant_factor j.
Proof.
  intros [Hi Hij]. replace j with (i + (j - i)) by lia.
  assert (H : forall n, 0 <= n -> quant_factor i <= quant_factor (i + n)).
  { intros n Hn. pattern n. apply natlike_ind; [rewrite Z.add_0_r; lia| |exact Hn].
    intros x Hx IH. pose proof (quant_factor_strict_mono (i + x) ltac:(lia)).
    replace (i + Z.succ x) with (i + x + 1) by lia. lia. }
  apply H. lia.
Qed.

Lemma quant_factor_4k k : 0 <= k -> quant_factor (4 * k) = 4 * 2 ^ k.
Proof.
  intros Hk. unfold quant_factor, py_mod, py_div, py_pow.
  replace (4 * k mod 4) with 0 by lia. replace (4 * k / 4) with k by lia. reflexivity.
Qed.

Lemma forward_quant_zero c idx : 4 * bit_length c <= idx -> forward_quant c idx = 0.
Proof.
  intros H. pose proof (bit_length_nonneg c) as Hb. pose proof (bit_length_abs_lt c) as Hlt.
  assert (Hq : 4 * 2 ^ bit_length c <= quant_factor idx).
  { rewrite <- quant_factor_4k by assumption. apply quant_factor_mono. lia. }
  unfold forward_quant, py_abs, py_div.
  assert (Hz : 4 * Z.abs c / quant_factor idx = 0) by (apply Z.div_small; lia).
  rewrite Hz. destruct (c >=? 0); reflexivity.
Qed.

Lemma fold_max_ge l x : In x l -> x <= fold_right Z.max 0 l.
Proof. induction l as [|a l IH]; cbn [In fold_right]; [tauto|]. intros [->|H]; [lia|specialize (IH H); lia]. Qed.

Lemma fold_max_nonneg l : 0 <= fold_right Z.max 0 l.
Proof. induction l; cbn [fold_right]; lia. Qed.

Lemma quantize_coeffs_zero q cs qms :
  zero_qindex_cc (cs, qms) <= q -> Forall (fun c => c = 0) (quantize_coeffs q cs qms).
Proof.
  intros H. unfold quantize_coeffs. apply Forall_forall. intros v Hv.
  apply in_map_iff in Hv. destruct Hv as [[c m] [Hv Hin]]. cbn [fst snd] in *. subst v.
  apply forward_quant_zero. unfold py_max.
  assert (m + 4 * bit_length c <= q).
  { eapply Z.le_trans; [|exact H]. unfold zero_qindex_cc. cbn [fst snd]. apply fold_max_ge.
    apply in_map_iff. exists (c, m). split; [reflexivity|assumption]. }
  lia.
Qed.

Lemma block_len_zero a cs : 0 < a -> calculate_coeffs_bits cs = 0 -> block_len a cs = 0.
Proof. intros Ha H. unfold block_len, py_div. rewrite H. replace ((0 + a - 1) / a) with 0 by (symmetry; apply Z.div_small; lia). lia. Qed.

Lemma total_length_zero a q sets : 0 < a -> zero_qindex sets <= q -> total_length a q sets = 0.
Proof.
  intros Ha. unfold total_length, quantize_sets, zero_qindex.
  induction sets as [|[cs qms] sets IH]; intros H; [reflexivity|].
  cbn [map fold_right fst snd] in *. unfold py_sum in *. cbn [fold_right].
  rewrite IH by lia. rewrite block_len_zero; [lia|assumption|].
  apply ccb_all_zero. apply quantize_coeffs_zero. lia.
Qed.

Lemma fits_at_zero_qindex t sets a q : 0 <= t -> 0 < a -> zero_qindex sets <= q -> fits t sets a q = true.
Proof. intros Ht Ha Hq. unfold fits. rewrite total_length_zero by assumption. lia. Qed.

(* ---------------- the search ---------------- *)
Lemma qtf_fuel_spec fuel t sets a m q qs :
  quantize_to_fit_fuel fuel t sets a m = Some (q, qs) ->
  m <= q /\ fits t sets a q = true /\ qs = quantize_sets q sets /\
  (forall q', m <= q' < q -> fits t sets a q' = false).
Proof.
  revert m. induction fuel as [|f IH]; intros m H; [discriminate|].
  cbn [quantize_to_fit_fuel] in H. destruct (fits t sets a m) eqn:E.
  - inversion H; subst. split; [lia|split; [assumption|split; [reflexivity|intros; lia]]].
  - apply IH in H. destruct H as (H1 & H2 & H3 & H4). split; [lia|split; [assumption|split; [assumption|]]].
    intros q' Hq'. destruct (Z.eq_dec q' m) as [->|Hne]; [assumption|apply H4; lia].
Qed.

Lemma qtf_fuel_total fuel t sets a m q0 :
  (forall q, q0 <= q -> fits t sets a q = true) -> (Z.to_nat (q0 - m) < fuel)%nat ->
  exists q qs, quantize_to_fit_fuel fuel t sets a m = Some (q, qs).
Proof.
  revert m. induction fuel as [|f IH]; intros m Hf Hlt; [lia|].
  cbn [quantize_to_fit_fuel]. destruct (fits t sets a m) eqn:E; [eauto|].
  apply IH; [assumption|].
  destruct (Z_lt_le_dec m q0); [lia|]. rewrite Hf in E by lia. discriminate.
Qed.

(* the search always ends (the Python `count()` loop terminates) *)
Theorem quantize_to_fit_total t sets a m :
  0 <= t -> 0 < a -> exists q qs, quantize_to_fit t sets a m = Some (q, qs).
Proof.
  intros Ht Ha. unfold quantize_to_fit, fit_fuel.
  apply (qtf_fuel_total _ t sets a m (zero_qindex sets)); [|lia].
  intros q Hq. apply fits_at_zero_qindex; assumption.
Qed.

Theorem quantize_to_fit_spec t sets a m q qs :
  quantize_to_fit t sets a m = Some (q, qs) ->
  m <= q /\ fits t sets a q = true /\ qs = quantize_sets q sets /\
  (forall q', m <= q' < q -> fits t sets a q' = false).
Proof. apply qtf_fuel_spec. Qed.

(* the chosen index never exceeds the first index at which everything is zero *)
Theorem quantize_to_fit_upper t sets a m q qs :
  0 <= t -> 0 < a -> quantize_to_fit t sets a m = Some (q, qs) -> q <= Z.max m (zero_qindex sets).
Proof.
  intros Ht Ha H. apply quantize_to_fit_spec in H. destruct H as (H1 & H2 & H3 & H4).
  destruct (Z_le_gt_dec q (Z.max m (zero_qindex sets))) as [|Hgt]; [assumption|].
  specialize (H4 (Z.max m (zero_qindex sets)) ltac:(lia)).
  rewrite fits_at_zero_qindex in H4 by lia. discriminate.
Qed.

(* ---------------- res_all / enumerate ---------------- *)
Lemma res_all_ok {A} (l : list (res A)) t : res_all l = Ok t -> l = map Ok t.
Proof.
  revert t. induction l as [|x l IH]; intros t H.
  - cbn in H. inversion H. reflexivity.
  - cbn [res_all] in H. destruct x as [a| |]; try discriminate.
    destruct (res_all l) as [t'| |] eqn:E; try discriminate. inversion H; subst.
    cbn [map]. f_equal. apply IH. reflexivity.
Qed.

Lemma enum_from_length {A} i (l : list A) : length (enum_from i l) = length l.
Proof. revert i. induction l; intros; cbn; auto. Qed.

Lemma zsum_shift (f : Z -> Z) i n :
  f i + zsum (fun k => f (i + 1 + k)) n = zsum (fun k => f (i + k)) (S n).
Proof.
  induction n as [|n IH].
  - cbn [zsum]. change (Z.of_nat 0) with 0. replace (i + 0) with i by lia. lia.
  - cbn [zsum] in *. rewrite <- IH.
    replace (i + 1 + Z.of_nat n) with (i + Z.of_nat (S n)) by lia. lia.
Qed.

Lemma enum_from_map_fst {A} (f : Z -> Z) i (l : list A) :
  py_sum (map (fun p => f (fst p)) (enum_from i l)) = zsum (fun k => f (i + k)) (length l).
Proof.
  revert i. induction l as [|x l IH]; intros i; [reflexivity|].
  cbn [enum_from map length]. rewrite <- zsum_shift, <- IH. reflexivity.
Qed.

(* ---------------- slice_bytes bounds ---------------- *)
Lemma diff_div_le_ceil a N D : 0 < D -> (a + N) / D - a / D <= (N + D - 1) / D.
Proof.
  intros HD.
  pose proof (Z.div_mod (a + N) D ltac:(lia)). pose proof (Z.mod_pos_bound (a + N) D HD).
  pose proof (Z.div_mod a D ltac:(lia)). pose proof (Z.mod_pos_bound a D HD).
  pose proof (Z.div_mod (N + D - 1) D ltac:(lia)). pose proof (Z.mod_pos_bound (N + D - 1) D HD).
  set (q1 := (a + N) / D) in *. set (q2 := a / D) in *. set (q3 := (N + D - 1) / D) in *.
  destruct (Z_le_gt_dec (q1 - q2) q3) as [|Hgt]; [assumption|exfalso].
  assert (D * (q3 + 1) <= D * (q1 - q2)) by (apply Z.mul_le_mono_nonneg_l; lia).
  lia.
Qed.

Lemma slice_bytes_le_ceil st sx sy :
  0 < st_slice_bytes_denominator st ->
  slice_bytes st sx sy <= (st_slice_bytes_numerator st + st_slice_bytes_denominator st - 1) / st_slice_bytes_denominator st.
Proof.
  intros HD. unfold slice_bytes, py_div.
  replace ((sy * st_slices_x st + sx + 1) * st_slice_bytes_numerator st)
    with ((sy * st_slices_x st + sx) * st_slice_bytes_numerator st + st_slice_bytes_numerator st) by ring.
  apply diff_div_le_ceil. assumption.
Qed.

Lemma safe_scaler_ge1 pb n : 1 <= get_safe_lossy_hq_slice_size_scaler pb n.
Proof. unfold get_safe_lossy_hq_slice_size_scaler, py_max. lia. Qed.

Lemma safe_scaler_bound pb n s :
  1 <= n -> get_safe_lossy_hq_slice_size_scaler pb n <= s ->
  (pb - n * 4 + n * s - 1) / (n * s) <= 255.
Proof.
  intros Hn Hs. unfold get_safe_lossy_hq_slice_size_scaler, py_max, py_div in Hs.
  set (C := (pb + n - 1) / n) in *.
  assert (HC : pb <= n * C).
  { unfold C. pose proof (Z.div_mod (pb + n - 1) n ltac:(lia)). pose proof (Z.mod_pos_bound (pb + n - 1) n ltac:(lia)). lia. }
  assert (Hs1 : 1 <= s) by lia.
  assert (HM : C - 4 <= 255 * s) by lia.
  assert (n * (C - 4) <= n * (255 * s)) by (apply Z.mul_le_mono_nonneg_l; lia).
  assert (0 < n * s) by nia.
  assert (pb - n * 4 + n * s - 1 < (n * s) * 256) by nia.
  assert ((pb - n * 4 + n * s - 1) / (n * s) < 256) by (apply Z.div_lt_upper_bound; lia).
  lia.
Qed.

(* ---------------- one HQ lossy slice ---------------- *)
Lemma hq_len_block cs s : 0 < s -> block_len (8 * s) cs = calculate_hq_length_field cs s * (8 * s).
Proof. reflexivity. Qed.

Lemma hq_len_nonneg cs s : 0 < s -> 0 <= calculate_hq_length_field cs s.
Proof.
  intros Hs. unfold calculate_hq_length_field, py_div. pose proof (ccb_nonneg cs).
  apply Z.div_pos; lia.
Qed.

(* the length field is the least number of slice_size_scaler-byte units holding the bits *)
Lemma hq_len_spec cs s : 0 < s ->
  let L := calculate_hq_length_field cs s in
  calculate_coeffs_bits cs <= 8 * s * L /\ 8 * s * (L - 1) < calculate_coeffs_bits cs.
Proof. intros Hs L. unfold L, calculate_hq_length_field, py_div. lia. Qed.

Record hq_slice_ok (st : pystate) (s minq sx sy : Z) (sc : scoeffs) (sl : hq_slice) : Prop := {
  hso_min : minq <= hq_qindex sl;
  hso_255 : hq_qindex sl <= 255;
  hso_fits : fits (8 * s * slice_bytes st sx sy) [sc_Y sc; sc_C1 sc; sc_C2 sc] (8 * s) (hq_qindex sl) = true;
  hso_minimal : forall q', minq <= q' < hq_qindex sl ->
                fits (8 * s * slice_bytes st sx sy) [sc_Y sc; sc_C1 sc; sc_C2 sc] (8 * s) q' = false;
  hso_y : hq_y sl = quantize_coeffs (hq_qindex sl) (fst (sc_Y sc)) (snd (sc_Y sc));
  hso_c1 : hq_c1 sl = quantize_coeffs (hq_qindex sl) (fst (sc_C1 sc)) (snd (sc_C1 sc));
  hso_c2 : hq_c2 sl = quantize_coeffs (hq_qindex sl) (fst (sc_C2 sc)) (snd (sc_C2 sc));
  hso_ylen : hq_y_length sl = calculate_hq_length_field (hq_y sl) s;
  hso_c1len : hq_c1_length sl = calculate_hq_length_field (hq_c1 sl) s;
  hso_c2len : calculate_hq_length_field (hq_c2 sl) s <= hq_c2_length sl;
  hso_total : hq_y_length sl + hq_c1_length sl + hq_c2_length sl = slice_bytes st sx sy
}.

Lemma hq_lossy_slice_ok st s minq sx sy sc sl :
  0 < s -> hq_lossy_slice st s minq sx sy sc = Ok sl -> hq_slice_ok st s minq sx sy sc sl.
Proof.
  intros Hs H. unfold hq_lossy_slice in H.
  destruct (quantize_to_fit _ _ _ _) as [[q qs]|] eqn:E; [|discriminate].
  apply quantize_to_fit_spec in E. destruct E as (E1 & E2 & E3 & E4).
  subst qs. cbn [quantize_sets map] in H.
  destruct (q >? 255) eqn:E255; [discriminate|]. inversion H; subst sl; clear H.
  unfold make_hq_slice. cbn [hq_qindex hq_y hq_c1 hq_c2 hq_y_length hq_c1_length hq_c2_length].
  constructor; cbn [hq_qindex hq_y hq_c1 hq_c2 hq_y_length hq_c1_length hq_c2_length];
    try reflexivity; try assumption; try lia.
  unfold fits, total_length in E2. cbn [quantize_sets map py_sum fold_right] in E2.
  rewrite !hq_len_block in E2 by assumption.
  set (Y := calculate_hq_length_field _ s) in *.
  set (C1 := calculate_hq_length_field (quantize_coeffs q (fst (sc_C1 sc)) _) s) in *.
  set (C2 := calculate_hq_length_field (quantize_coeffs q (fst (sc_C2 sc)) _) s) in *.
  set (T := slice_bytes st sx sy) in *. nia.
Qed.

(* every length field fits 8 bits when the slice budget does *)
Lemma hq_slice_ok_fields st s minq sx sy sc sl :
  0 < s -> hq_slice_ok st s minq sx sy sc sl -> slice_bytes st sx sy <= 255 ->
  0 <= hq_y_length sl <= 255 /\ 0 <= hq_c1_length sl <= 255 /\ 0 <= hq_c2_length sl <= 255.
Proof.
  intros Hs [] HT. pose proof (hq_len_nonneg (hq_y sl) s Hs). pose proof (hq_len_nonneg (hq_c1 sl) s Hs).
  pose proof (hq_len_nonneg (hq_c2 sl) s Hs). lia.
Qed.

(* ---------------- whole picture, HQ lossy ---------------- *)
Definition rect {A} (rows : list (list A)) : Prop :=
  Forall (fun r => length r = Z.to_nat (arr_width rows)) rows.

Lemma budget_state_fields sxs sys num den :
  st_slices_x (budget_state sxs sys num den) = sxs /\ st_slices_y (budget_state sxs sys num den) = sys /\
  st_slice_bytes_numerator (budget_state sxs sys num den) = num /\
  st_slice_bytes_denominator (budget_state sxs sys num den) = den.
Proof. repeat split. Qed.

Lemma map_ok_transfer {A B} (F : A -> res B) (L : B -> Z) (G : A -> Z) l t :
  map F l = map Ok t -> (forall x s, In x l -> F x = Ok s -> L s = G x) -> map L t = map G l.
Proof.
  revert t. induction l as [|x l IH]; intros [|s t] H HF; try discriminate; [reflexivity|].
  cbn [map] in *. inversion H. f_equal.
  - apply HF; [left; reflexivity|assumption].
  - apply IH; [assumption|]. intros; apply HF; [right|]; assumption.
Qed.

Lemma map_ok_in {A B} (F : A -> res B) l t s :
  map F l = map Ok t -> In s t -> exists x, In x l /\ F x = Ok s.
Proof.
  intros H Hin. assert (Hi : In (Ok s) (map Ok t)) by (apply in_map; assumption).
  rewrite <- H in Hi. apply in_map_iff in Hi. destruct Hi as [x [Hx Hin']]. eauto.
Qed.

Lemma zsum_linear (f : Z -> Z) a b n : zsum (fun i => a + b * f i) n = a * Z.of_nat n + b * zsum f n.
Proof.
  induction n as [|n IH]; [cbn [zsum]; lia|].
  cbn [zsum]. rewrite IH, Nat2Z.inj_succ. ring.
Qed.

Lemma py_sum_enum_rows {A} (h : Z -> Z -> Z) (m : nat) (rows : list (list A)) i :
  Forall (fun r => length r = m) rows ->
  py_sum (flat_map (fun syrow => map (fun sxsc => h (fst sxsc) (fst syrow)) (enumerate (snd syrow)))
                   (enum_from i rows))
  = zsum (fun k => zsum (fun sx => h sx (i + k)) m) (length rows).
Proof.
  revert i. induction rows as [|r rows IH]; intros i HF; [reflexivity|].
  inversion HF as [|? ? Hr HF']; subst.
  cbn [enum_from flat_map length fst snd]. rewrite py_sum_app, (IH (i + 1) HF').
  rewrite <- (zsum_shift (fun y => zsum (fun sx => h sx y) (length r)) i). f_equal.
  unfold enumerate. rewrite (enum_from_map_fst (fun sx => h sx i) 0 r).
  apply zsum_ext. intros k _. reflexivity.
Qed.

Definition hq_coords (rows : list (list scoeffs)) : list (Z * Z * scoeffs) :=
  flat_map (fun syrow => map (fun sxsc => (fst sxsc, fst syrow, snd sxsc)) (enumerate (snd syrow))) (enumerate rows).

Lemma flat_map_map_coords {B} (F : Z -> Z -> scoeffs -> B) rows :
  flat_map (fun syrow => map (fun sxsc => F (fst sxsc) (fst syrow) (snd sxsc)) (enumerate (snd syrow))) (enumerate rows)
  = map (fun c => F (fst (fst c)) (snd (fst c)) (snd c)) (hq_coords rows).
Proof.
  unfold hq_coords. generalize (enumerate rows). intros l. induction l as [|x l IH]; [reflexivity|].
  cbn [flat_map]. rewrite map_app, IH, map_map. reflexivity.
Qed.

Record hq_picture_ok (pb : Z) (rows : list (list scoeffs)) (minq mins s : Z) (slices : list hq_slice) : Prop := {
  hpo_scaler : s = hq_lossy_scaler pb (arr_width rows * arr_height rows) mins;
  hpo_s1 : 1 <= s;
  hpo_pb : arr_width rows * arr_height rows * 4 <= pb;
  hpo_slices :
    let st := budget_state (arr_width rows) (arr_height rows) (pb - arr_width rows * arr_height rows * 4)
                           (arr_width rows * arr_height rows * s) in
    map (fun c => hq_lossy_slice st s minq (fst (fst c)) (snd (fst c)) (snd c)) (hq_coords rows) = map Ok slices
}.

Lemma hq_lossy_unfold pb rows minq mins s slices :
  make_transform_data_hq_lossy pb rows minq mins = Ok (s, slices) -> hq_picture_ok pb rows minq mins s slices.
Proof.
  unfold make_transform_data_hq_lossy. intros H.
  destruct (pb - arr_width rows * arr_height rows * 4 <? 0) eqn:E; [discriminate|].
  destruct (res_all _) as [sl| |] eqn:R; try discriminate. inversion H; subst; clear H.
  apply res_all_ok in R. rewrite flat_map_map_coords in R.
  constructor; try reflexivity; try lia; try assumption.
  unfold hq_lossy_scaler, py_max. pose proof (safe_scaler_ge1 pb (arr_width rows * arr_height rows)). lia.
Qed.

(* all length fields fit 8 bits; every qindex in [minq, 255]; every slice holds its coefficients *)
Theorem hq_lossy_fields pb rows minq mins s slices :
  1 <= arr_width rows * arr_height rows ->
  make_transform_data_hq_lossy pb rows minq mins = Ok (s, slices) ->
  Forall (fun sl => 0 <= hq_y_length sl <= 255 /\ 0 <= hq_c1_length sl <= 255 /\ 0 <= hq_c2_length sl <= 255 /\
                    minq <= hq_qindex sl <= 255 /\
                    hq_y_length sl = calculate_hq_length_field (hq_y sl) s /\
                    hq_c1_length sl = calculate_hq_length_field (hq_c1 sl) s /\
                    calculate_hq_length_field (hq_c2 sl) s <= hq_c2_length sl) slices.
Proof.
  intros Hn H. apply hq_lossy_unfold in H. destruct H as [Hs Hs1 Hpb Hsl]. cbv zeta in Hsl.
  apply Forall_forall. intros sl Hin.
  destruct (map_ok_in _ _ _ _ Hsl Hin) as [[[sx sy] sc] [_ Hok]]. cbn [fst snd] in Hok.
  apply hq_lossy_slice_ok in Hok; [|lia].
  set (st := budget_state _ _ _ _) in *.
  assert (HT : slice_bytes st sx sy <= 255).
  { eapply Z.le_trans; [apply slice_bytes_le_ceil|].
    - unfold st. cbn. nia.
    - unfold st. cbn [budget_state st_slice_bytes_numerator st_slice_bytes_denominator
                      set_st_slice_bytes_denominator set_st_slice_bytes_numerator].
      apply safe_scaler_bound; [assumption|]. rewrite Hs. unfold hq_lossy_scaler, py_max. lia. }
  assert (Hs0 : 0 < s) by lia. pose proof (hq_slice_ok_fields _ _ _ _ _ _ _ Hs0 Hok HT).
  destruct Hok. repeat split; try lia; assumption.
Qed.

(* minimality of every slice's qindex, with the slice's own budget *)
Theorem hq_lossy_minimal pb rows minq mins s slices :
  make_transform_data_hq_lossy pb rows minq mins = Ok (s, slices) ->
  let st := budget_state (arr_width rows) (arr_height rows) (pb - arr_width rows * arr_height rows * 4)
                         (arr_width rows * arr_height rows * s) in
  Forall2 (fun c sl => hq_slice_ok st s minq (fst (fst c)) (snd (fst c)) (snd c) sl) (hq_coords rows) slices.
Proof.
  intros H st. apply hq_lossy_unfold in H. destruct H as [Hs Hs1 Hpb Hsl]. cbv zeta in Hsl. fold st in Hsl.
  revert slices Hsl. induction (hq_coords rows) as [|c l IH]; intros [|sl slices] Hsl; try discriminate; constructor.
  - cbn [map] in Hsl. inversion Hsl. apply hq_lossy_slice_ok; [lia|assumption].
  - apply IH. cbn [map] in Hsl. inversion Hsl. reflexivity.
Qed.

Theorem hq_lossy_total pb rows minq mins s slices :
  rect rows -> 1 <= arr_width rows * arr_height rows ->
  make_transform_data_hq_lossy pb rows minq mins = Ok (s, slices) ->
  let n := arr_width rows * arr_height rows in
  py_sum (map (hq_slice_stream_bytes s) slices) = 4 * n + s * ((pb - 4 * n) / s) /\
  0 <= pb - py_sum (map (hq_slice_stream_bytes s) slices) < s /\
  pb - py_sum (map (hq_slice_stream_bytes s) slices) = (pb - 4 * n) mod s.
Proof.
  intros Hrect Hn H n. apply hq_lossy_unfold in H. destruct H as [Hs Hs1 Hpb Hsl]. cbv zeta in Hsl.
  set (st := budget_state _ _ _ _) in *.
  assert (Hsum : py_sum (map (hq_slice_stream_bytes s) slices) = 4 * n + s * ((pb - 4 * n) / s)).
  { rewrite (map_ok_transfer _ (hq_slice_stream_bytes s)
               (fun c => 4 + s * slice_bytes st (fst (fst c)) (snd (fst c))) _ _ Hsl).
    2:{ intros [[sx sy] sc] sl _ Hok. cbn [fst snd] in *. apply hq_lossy_slice_ok in Hok; [|lia].
        destruct Hok. unfold hq_slice_stream_bytes. rewrite hso_total0. reflexivity. }
    rewrite <- (flat_map_map_coords (fun sx sy _ => 4 + s * slice_bytes st sx sy)).
    unfold enumerate at 2.
    rewrite (py_sum_enum_rows (fun sx sy => 4 + s * slice_bytes st sx sy) (Z.to_nat (arr_width rows)) rows 0 Hrect).
    rewrite (zsum_ext _ (fun sy => 4 * arr_width rows + s * zsum (fun sx => slice_bytes st sx sy) (Z.to_nat (arr_width rows)))).
    2:{ intros k _. rewrite zsum_linear. rewrite Z2Nat.id; [reflexivity|]. unfold arr_width. destruct rows; lia. }
    rewrite zsum_linear.
    assert (Hw : 0 <= arr_width rows) by (unfold arr_width; destruct rows; lia).
    assert (Hh : 0 <= arr_height rows) by (unfold arr_height; lia).
    pose proof (slice_bytes_sum st) as Hpsb. unfold picture_slice_bytes in Hpsb.
    replace (st_slices_x st) with (arr_width rows) in Hpsb by reflexivity.
    replace (st_slices_y st) with (arr_height rows) in Hpsb by reflexivity.
    replace (length rows) with (Z.to_nat (arr_height rows)) by (unfold arr_height; lia).
    rewrite (Hpsb Hw Hh).
    replace (st_slice_bytes_numerator st) with (pb - n * 4) by reflexivity.
    replace (st_slice_bytes_denominator st) with (n * s) by reflexivity.
    fold n. rewrite Z.div_mul_cancel_l by lia. rewrite Z2Nat.id by assumption.
    replace (pb - n * 4) with (pb - 4 * n) by lia. unfold n. ring. }
  rewrite Hsum. pose proof (Z.div_mod (pb - 4 * n) s ltac:(lia)). pose proof (Z.mod_pos_bound (pb - 4 * n) s ltac:(lia)).
  repeat split; lia.
Qed.

(* ---------------- LD ---------------- *)
Lemma block_len_1 cs : block_len 1 cs = calculate_coeffs_bits cs.
Proof. unfold block_len, py_div. replace (calculate_coeffs_bits cs + 1 - 1) with (calculate_coeffs_bits cs) by lia. rewrite Z.div_1_r. lia. Qed.

Lemma ld_target_payload st sx sy : ld_target_size st sx sy = ld_payload_bits (slice_bytes st sx sy).
Proof. reflexivity. Qed.

Lemma intlog2_bounds N : 1 <= N -> 0 <= intlog2 N /\ N <= 2 ^ intlog2 N.
Proof.
  intros HN. unfold intlog2. pose proof (bit_length_nonneg (N - 1)). pose proof (bit_length_abs_lt (N - 1)).
  split; [assumption|]. lia.
Qed.

Lemma ld_payload_nonneg_sb sb : 0 <= ld_payload_bits sb -> 1 <= sb.
Proof.
  unfold ld_payload_bits, ld_length_bits, intlog2. intros H.
  pose proof (bit_length_nonneg (8 * sb - 7 - 1)).
  destruct (Z_le_gt_dec 1 sb); [assumption|exfalso].
  lia.
Qed.

Record ld_slice_ok (st : pystate) (minq sx sy : Z) (sc : scoeffs) (sl : ld_slice) : Prop := {
  lso_sets := [sc_Y sc; (interleave (fst (sc_C1 sc)) (fst (sc_C2 sc)), interleave (snd (sc_C1 sc)) (snd (sc_C2 sc)))];
  lso_min : minq <= ld_qindex sl;
  lso_127 : ld_qindex sl <= 127;
  lso_sb : 1 <= slice_bytes st sx sy;
  lso_fits : fits (ld_payload_bits (slice_bytes st sx sy)) lso_sets 1 (ld_qindex sl) = true;
  lso_minimal : forall q', minq <= q' < ld_qindex sl ->
                fits (ld_payload_bits (slice_bytes st sx sy)) lso_sets 1 q' = false;
  lso_y : ld_y sl = quantize_coeffs (ld_qindex sl) (fst (sc_Y sc)) (snd (sc_Y sc));
  lso_c : ld_c sl = quantize_coeffs (ld_qindex sl) (interleave (fst (sc_C1 sc)) (fst (sc_C2 sc)))
                                    (interleave (snd (sc_C1 sc)) (snd (sc_C2 sc)));
  lso_exact : ld_slice_fits (slice_bytes st sx sy) sl = true
}.

Lemma ld_lossy_slice_ok st minq sx sy sc sl :
  ld_lossy_slice st minq sx sy sc = Ok sl -> ld_slice_ok st minq sx sy sc sl.
Proof.
  unfold ld_lossy_slice. rewrite ld_target_payload. set (sb := slice_bytes st sx sy).
  destruct (ld_payload_bits sb <? 0) eqn:Et; [discriminate|].
  destruct (quantize_to_fit _ _ _ _) as [[q qs]|] eqn:E; [|discriminate].
  apply quantize_to_fit_spec in E. destruct E as (E1 & E2 & E3 & E4).
  subst qs. cbn [quantize_sets map fst snd].
  destruct (q >? 127) eqn:E127; [discriminate|]. intros H. inversion H; subst sl; clear H.
  assert (Hsb : 1 <= sb) by (apply ld_payload_nonneg_sb; lia).
  constructor; cbn [ld_qindex ld_y ld_c make_ld_slice]; try reflexivity; try assumption; try lia.
  unfold ld_slice_fits, make_ld_slice. cbn [ld_y_length ld_y ld_c].
  unfold fits, total_length in E2. cbn [quantize_sets map py_sum fold_right fst snd] in E2.
  rewrite !block_len_1 in E2.
  set (Y := calculate_coeffs_bits (quantize_coeffs q (fst (sc_Y sc)) (snd (sc_Y sc)))) in *.
  set (C := calculate_coeffs_bits _) in E2 |- *.
  pose proof (ccb_nonneg (quantize_coeffs q (fst (sc_Y sc)) (snd (sc_Y sc)))) as HY0. fold Y in HY0.
  assert (HC0 : 0 <= C) by apply ccb_nonneg.
  pose proof (ccb_zero_or_ge4 (quantize_coeffs q (fst (sc_Y sc)) (snd (sc_Y sc)))) as HY4. fold Y in HY4.
  assert (Hlt : Y < 2 ^ ld_length_bits sb).
  { unfold ld_payload_bits in *. unfold ld_length_bits in *.
    destruct (intlog2_bounds (8 * sb - 7) ltac:(lia)) as [Hl0 Hl].
    destruct (Z.eq_dec (intlog2 (8 * sb - 7)) 0) as [Hz|Hnz].
    - rewrite Hz in *. change (2 ^ 0) with 1 in *. lia.
    - lia. }
  fold sb. rewrite Z.eqb_refl.
  replace (0 <=? Y) with true by lia. replace (Y <? 2 ^ ld_length_bits sb) with true by lia.
  replace (Y + C <=? ld_payload_bits sb) with true by lia. reflexivity.
Qed.

Lemma ld_lossy_unfold pb rows minq slices :
  make_transform_data_ld_lossy pb rows minq = Ok slices ->
  let st := budget_state (arr_width rows) (arr_height rows) pb (arr_width rows * arr_height rows) in
  map (fun c => ld_lossy_slice st minq (fst (fst c)) (snd (fst c)) (snd c)) (hq_coords rows) = map Ok slices.
Proof.
  intros H. unfold make_transform_data_ld_lossy in H. apply res_all_ok in H.
  rewrite flat_map_map_coords in H. exact H.
Qed.

Theorem ld_lossy_slices pb rows minq slices :
  make_transform_data_ld_lossy pb rows minq = Ok slices ->
  let st := budget_state (arr_width rows) (arr_height rows) pb (arr_width rows * arr_height rows) in
  Forall2 (fun c sl => ld_slice_ok st minq (fst (fst c)) (snd (fst c)) (snd c) sl) (hq_coords rows) slices.
Proof.
  intros H st. apply ld_lossy_unfold in H. cbv zeta in H. fold st in H.
  revert slices H. induction (hq_coords rows) as [|c l IH]; intros [|sl slices] Hsl; try discriminate; constructor.
  - cbn [map] in Hsl. inversion Hsl. apply ld_lossy_slice_ok; assumption.
  - apply IH. cbn [map] in Hsl. inversion Hsl. reflexivity.
Qed.

(* the slices' byte counts add up to picture_bytes exactly *)
Theorem ld_lossy_total pb rows :
  rect rows -> 1 <= arr_width rows * arr_height rows ->
  let st := budget_state (arr_width rows) (arr_height rows) pb (arr_width rows * arr_height rows) in
  py_sum (map (fun c => slice_bytes st (fst (fst c)) (snd (fst c))) (hq_coords rows)) = pb.
Proof.
  intros Hrect Hn st.
  rewrite <- (flat_map_map_coords (fun sx sy _ => slice_bytes st sx sy)).
  unfold enumerate at 2.
  rewrite (py_sum_enum_rows (fun sx sy => slice_bytes st sx sy) (Z.to_nat (arr_width rows)) rows 0 Hrect).
  assert (Hw : 0 <= arr_width rows) by (unfold arr_width; destruct rows; lia).
  assert (Hh : 0 <= arr_height rows) by (unfold arr_height; lia).
  pose proof (slice_bytes_sum st) as Hpsb. unfold picture_slice_bytes in Hpsb.
  replace (st_slices_x st) with (arr_width rows) in Hpsb by reflexivity.
  replace (st_slices_y st) with (arr_height rows) in Hpsb by reflexivity.
  replace (length rows) with (Z.to_nat (arr_height rows)) by (unfold arr_height; lia).
  rewrite (zsum_ext _ (fun sy => zsum (fun sx => slice_bytes st sx sy) (Z.to_nat (arr_width rows)))) by (intros; reflexivity).
  rewrite (Hpsb Hw Hh).
  replace (st_slice_bytes_numerator st) with pb by reflexivity.
  replace (st_slice_bytes_denominator st) with (arr_width rows * arr_height rows) by reflexivity.
  rewrite Z.mul_comm. apply Z.div_mul. lia.
Qed.

(* make_picture_parse signals picture_bytes / num_slices as a REDUCED fraction; the
   decoder's slice_bytes with the reduced fraction gives the same sizes *)
Theorem slice_bytes_reduced st g num den sx sy :
  0 < g -> 0 < den ->
  slice_bytes (set_st_slice_bytes_denominator (set_st_slice_bytes_numerator st (g * num)) (g * den)) sx sy =
  slice_bytes (set_st_slice_bytes_denominator (set_st_slice_bytes_numerator st num) den) sx sy.
Proof.
  intros Hg Hd. unfold slice_bytes, py_div. cbn.
  replace ((sy * st_slices_x st + sx + 1) * (g * num)) with (g * ((sy * st_slices_x st + sx + 1) * num)) by ring.
  replace ((sy * st_slices_x st + sx) * (g * num)) with (g * ((sy * st_slices_x st + sx) * num)) by ring.
  rewrite !Z.div_mul_cancel_l by lia. reflexivity.
Qed.

(* the pinned (unrepaired) search itself has no upper limit: a 1-bit budget and one
   34-bit coefficient need index 133, beyond the 7-bit field *)
Lemma quantize_to_fit_exceeds_7_bits :
  exists t sets q qs, 0 <= t /\ quantize_to_fit t sets 1 0 = Some (q, qs) /\ 127 < q.
Proof.
  exists 1, [([2 ^ 33], [0]); ([], [])]. eexists. eexists. split; [lia|]. split; [vm_compute; reflexivity|]. lia.
Qed.

(* ================= C04 ================= *)
(* ---------------- list_set / bget / bset ---------------- *)
Lemma list_set_length {A} (l : list A) i v : length (list_set l i v) = length l.
Proof. revert i. induction l as [|a l IH]; intros [|i]; cbn; auto. Qed.

Lemma nth_list_set_same {A} (l : list A) i v d : (i < length l)%nat -> nth i (list_set l i v) d = v.
Proof. revert i. induction l as [|a l IH]; intros [|i] H; cbn in *; try lia; auto. apply IH. lia. Qed.

Lemma nth_list_set_other {A} (l : list A) i j v d : i <> j -> nth j (list_set l i v) d = nth j l d.
Proof. revert i j. induction l as [|a l IH]; intros [|i] [|j] H; cbn; auto; try congruence. Qed.

Lemma list_set_twice {A} (l : list A) i v w : list_set (list_set l i v) i w = list_set l i w.
Proof. revert i. induction l as [|a l IH]; intros [|i]; cbn; auto. f_equal. apply IH. Qed.

Lemma list_set_nth {A} (l : list A) i d : (i < length l)%nat -> list_set l i (nth i l d) = l.
Proof. revert i. induction l as [|a l IH]; intros [|i] H; cbn in *; try lia; auto. f_equal. apply IH. lia. Qed.

Lemma list_set_out {A} (l : list A) i v : (length l <= i)%nat -> list_set l i v = l.
Proof. revert i. induction l as [|a l IH]; intros [|i] H; cbn in *; try lia; auto. f_equal. apply IH. lia. Qed.

Definition in_band (b : band) (y x : nat) : Prop := (y < length b)%nat /\ (x < length (nth y b []))%nat.

Lemma in_band_dec b y x : {in_band b y x} + {~ in_band b y x}.
Proof.
  unfold in_band. destruct (lt_dec y (length b)); [|right; tauto].
  destruct (lt_dec x (length (nth y b []))); [left; tauto|right; tauto].
Qed.

Lemma bset_out b y x v : ~ in_band b y x -> bset b y x v = b.
Proof.
  unfold in_band, bset. intros H. destruct (lt_dec y (length b)) as [Hy|Hy].
  - rewrite (list_set_out (nth y b [])) by lia. apply list_set_nth. assumption.
  - apply list_set_out. lia.
Qed.

Lemma bget_bset_same b y x v : in_band b y x -> bget (bset b y x v) y x = v.
Proof.
  unfold in_band, bget, bset. intros [Hy Hx]. rewrite nth_list_set_same by assumption.
  apply nth_list_set_same. assumption.
Qed.

Lemma bget_bset_other b y x v y' x' : (y', x') <> (y, x) -> bget (bset b y x v) y' x' = bget b y' x'.
Proof.
  intros H. destruct (in_band_dec b y x) as [[Hy Hx]|Hout]; [|rewrite bset_out by assumption; reflexivity].
  unfold bget, bset. destruct (Nat.eq_dec y y') as [->|Hne].
  - rewrite nth_list_set_same by assumption. apply nth_list_set_other. congruence.
  - rewrite nth_list_set_other by assumption. reflexivity.
Qed.

Lemma bset_twice b y x v w : bset (bset b y x v) y x w = bset b y x w.
Proof.
  destruct (in_band_dec b y x) as [[Hy Hx]|Hout]; [|rewrite !bset_out; auto; rewrite bset_out; auto].
  unfold bset. rewrite nth_list_set_same by assumption. rewrite list_set_twice, list_set_twice. reflexivity.
Qed.

Lemma bset_bget b y x : bset b y x (bget b y x) = b.
Proof.
  destruct (in_band_dec b y x) as [[Hy Hx]|Hout]; [|apply bset_out; assumption].
  unfold bset, bget. rewrite list_set_nth by assumption. apply list_set_nth. assumption.
Qed.

Lemma in_band_bset b y x v y' x' : in_band (bset b y x v) y' x' <-> in_band b y' x'.
Proof.
  destruct (in_band_dec b y x) as [[Hy Hx]|Hout]; [|rewrite bset_out by assumption; tauto].
  unfold in_band, bset. rewrite list_set_length.
  destruct (Nat.eq_dec y y') as [->|Hne].
  - split; intros [H1 H2]; split; try assumption.
    + rewrite nth_list_set_same, list_set_length in H2 by assumption. assumption.
    + rewrite nth_list_set_same, list_set_length by assumption. assumption.
  - rewrite nth_list_set_other by assumption. tauto.
Qed.

Lemma band_dims_bset b y x v : band_h (bset b y x v) = band_h b /\ band_w (bset b y x v) = band_w b.
Proof.
  unfold band_h, band_w, bset. rewrite list_set_length. split; [reflexivity|].
  destruct b as [|r b]; [reflexivity|]. destruct y as [|y]; cbn; [apply list_set_length|reflexivity].
Qed.

(* ---------------- DC prediction round trip ---------------- *)
Lemma dc_pred_bset b y x v : dc_pred (bset b y x v) y x = dc_pred b y x.
Proof.
  unfold dc_pred. destruct x as [|x1], y as [|y1]; try reflexivity;
    rewrite ?bget_bset_other; try reflexivity; intros H; inversion H; lia.
Qed.

Definition enc_step (b : band) (yx : nat * nat) : band :=
  bset b (fst yx) (snd yx) (bget b (fst yx) (snd yx) - dc_pred b (fst yx) (snd yx)).
Definition dec_step (b : band) (yx : nat * nat) : band :=
  bset b (fst yx) (snd yx) (bget b (fst yx) (snd yx) + dc_pred b (fst yx) (snd yx)).

Lemma dec_enc_step b p : dec_step (enc_step b p) p = b.
Proof.
  destruct p as [y x]. unfold dec_step, enc_step. cbn [fst snd].
  rewrite dc_pred_bset, bset_twice.
  destruct (in_band_dec b y x) as [Hin|Hout]; [|apply bset_out; assumption].
  rewrite bget_bset_same by assumption.
  replace (bget b y x - dc_pred b y x + dc_pred b y x) with (bget b y x) by lia. apply bset_bget.
Qed.

Lemma enc_dec_step b p : enc_step (dec_step b p) p = b.
Proof.
  destruct p as [y x]. unfold dec_step, enc_step. cbn [fst snd].
  rewrite dc_pred_bset, bset_twice.
  destruct (in_band_dec b y x) as [Hin|Hout]; [|apply bset_out; assumption].
  rewrite bget_bset_same by assumption.
  replace (bget b y x + dc_pred b y x - dc_pred b y x) with (bget b y x) by lia. apply bset_bget.
Qed.

Lemma fold_inverse {S P} (enc dec : S -> P -> S) (l : list P) :
  (forall s p, dec (enc s p) p = s) -> forall s, fold_left dec l (fold_left enc (rev l) s) = s.
Proof.
  intros H. induction l as [|p l IH] using rev_ind; intros s; [reflexivity|].
  rewrite rev_app_distr. cbn [rev app fold_left]. rewrite fold_left_app. cbn [fold_left].
  rewrite IH. apply H.
Qed.

Lemma fold_dims (f : band -> nat * nat -> Z) l b :
  let r := fold_left (fun b yx => bset b (fst yx) (snd yx) (f b yx)) l b in
  band_h r = band_h b /\ band_w r = band_w b.
Proof.
  revert b. induction l as [|p l IH]; intros b; [split; reflexivity|].
  cbn [fold_left]. cbv zeta in *. destruct (IH (bset b (fst p) (snd p) (f b p))) as [H1 H2].
  destruct (band_dims_bset b (fst p) (snd p) (f b p)) as [H3 H4]. split; congruence.
Qed.

(* the decoder's dc_prediction undoes the encoder's apply_dc_prediction on ANY band *)
Theorem dc_roundtrip (b : band) : dc_prediction (apply_dc_prediction b) = b.
Proof.
  unfold dc_prediction.
  assert (Hd : band_h (apply_dc_prediction b) = band_h b /\ band_w (apply_dc_prediction b) = band_w b).
  { unfold apply_dc_prediction.
    apply (fold_dims (fun b yx => bget b (fst yx) (snd yx) - dc_pred b (fst yx) (snd yx))). }
  destruct Hd as [-> ->]. unfold apply_dc_prediction.
  apply (fold_inverse enc_step dec_step). apply dec_enc_step.
Qed.

(* ---------------- index 0 is the identity ---------------- *)
Lemma quantize_coeffs_0 cs qms :
  length qms = length cs -> Forall (fun m => 0 <= m) qms -> quantize_coeffs 0 cs qms = cs.
Proof.
  revert qms. induction cs as [|c cs IH]; intros [|m qms] Hl Hq; try discriminate; [reflexivity|].
  unfold quantize_coeffs in *. cbn [combine map fst snd]. inversion Hq; subst.
  rewrite IH by (cbn in Hl; try lia; assumption). f_equal.
  unfold py_max. replace (Z.max 0 (0 - m)) with 0 by lia. apply index0_lossless.
Qed.

Lemma inverse_quant_0_list cs : map (fun v => inverse_quant v 0) cs = cs.
Proof. induction cs as [|c cs IH]; [reflexivity|]. cbn [map]. rewrite IH. f_equal. apply index0_lossless. Qed.

(* ---------------- exp-Golomb bit model ---------------- *)
Fixpoint npairs (p : positive) : nat :=
  match p with xH => O | xO q => S (npairs q) | xI q => S (npairs q) end.

Fixpoint pos_app (v : Z) (p : positive) : Z :=
  match p with
  | xH => v
  | xO q => 2 * pos_app v q
  | xI q => 2 * pos_app v q + 1
  end.

Lemma pos_app_1 p : pos_app 1 p = Zpos p.
Proof. induction p; cbn [pos_app]; rewrite ?IHp; lia. Qed.

Lemma eg_body_length p : length (eg_body p) = (2 * npairs p)%nat.
Proof. induction p; cbn [eg_body npairs]; rewrite ?app_length, ?IHp; cbn [length]; lia. Qed.

Lemma read_uint_fuel_body p : forall f v tail,
  read_uint_fuel (npairs p + f) v (eg_body p ++ tail) = read_uint_fuel f (pos_app v p) tail.
Proof.
  induction p as [q IH|q IH|]; intros f v tail; cbn [eg_body npairs pos_app].
  - rewrite <- app_assoc. replace (S (npairs q) + f)%nat with (npairs q + S f)%nat by lia.
    rewrite IH. cbn [app read_uint_fuel read_bit]. reflexivity.
  - rewrite <- app_assoc. replace (S (npairs q) + f)%nat with (npairs q + S f)%nat by lia.
    rewrite IH. cbn [app read_uint_fuel read_bit]. rewrite Z.add_0_r. reflexivity.
  - reflexivity.
Qed.

Lemma read_uint_write v rest : 0 <= v -> read_uint (write_uint v ++ rest) = (v, rest).
Proof.
  intros Hv. unfold read_uint, write_uint. destruct (v + 1) as [|p|p] eqn:E; try lia.
  rewrite <- app_assoc. rewrite !app_length, eg_body_length. cbn [length app].
  match goal with |- read_uint_fuel ?n _ _ = _ =>
    replace n with (npairs p + S (S (npairs p + length rest)))%nat by lia end.
  rewrite read_uint_fuel_body. cbn [read_uint_fuel read_bit]. rewrite pos_app_1. f_equal. lia.
Qed.

Lemma read_sint_write v rest : read_sint (write_sint v ++ rest) = (v, rest).
Proof.
  unfold read_sint, write_sint. rewrite <- app_assoc, read_uint_write by lia.
  destruct (v =? 0) eqn:E0.
  - assert (v = 0) by lia. subst. reflexivity.
  - replace (Z.abs v =? 0) with false by lia. cbn [app read_bit].
    destruct (v <? 0) eqn:En; f_equal; lia.
Qed.

Lemma read_coeffs_write cs rest n :
  read_coeffs (length cs + n) (write_coeffs cs ++ rest) = cs ++ read_coeffs n rest.
Proof.
  induction cs as [|c cs IH]; [reflexivity|].
  cbn [length plus read_coeffs write_coeffs flat_map]. rewrite <- app_assoc, read_sint_write.
  cbn [app]. f_equal. apply IH.
Qed.

(* past the end of the block, and on 1-bits, coefficients read as zero *)
Lemma read_coeffs_ones k j tail :
  (j <= k)%nat -> (j < k -> tail = [])%nat -> read_coeffs k (repeat true j ++ tail) = repeat 0 k.
Proof.
  revert j. induction k as [|k IH]; intros j Hj Ht; [reflexivity|].
  cbn [read_coeffs repeat]. destruct j as [|j].
  - assert (Hnil : tail = []) by (apply Ht; lia). subst tail.
    cbn. f_equal. apply (IH O); [lia|reflexivity].
  - cbn [repeat app]. unfold read_sint, read_uint. cbn [length read_uint_fuel read_bit].
    cbn [Z.eqb Z.sub Z.add Z.opp Z.pos_sub]. f_equal. apply IH; [lia|]. intros; apply Ht; lia.
Qed.

Lemma size_log2 q : Zpos (Pos.size q) = Z.log2 (Zpos q) + 1.
Proof. destruct q; cbn; lia. Qed.

Lemma npairs_log2 p : Z.of_nat (npairs p) = Z.log2 (Zpos p).
Proof.
  induction p as [q IH|q IH|]; cbn [npairs]; try reflexivity.
  - rewrite Nat2Z.inj_succ, IH. change (Z.log2 (Z.pos q~1)) with (Z.pos (Pos.size q)). rewrite size_log2. lia.
  - rewrite Nat2Z.inj_succ, IH. change (Z.log2 (Z.pos q~0)) with (Z.pos (Pos.size q)). rewrite size_log2. lia.
Qed.

(* the bit model writes exactly signed_exp_golomb_length (Gen/ExpGolombLen.v) bits *)
Lemma write_sint_length v : Z.of_nat (length (write_sint v)) = signed_exp_golomb_length v.
Proof.
  unfold write_sint, write_uint, signed_exp_golomb_length, exp_golomb_length, py_abs.
  replace (Z.abs v <? 0) with false by lia.
  destruct (Z.abs v + 1) as [|p|p] eqn:E; try lia.
  rewrite !app_length, eg_body_length. cbn [bit_length length].
  pose proof (npairs_log2 p) as Hn.
  destruct (v =? 0) eqn:E0; cbn [negb length]; lia.
Qed.

Lemma write_coeffs_length cs : Z.of_nat (length (write_coeffs cs)) = sum_sgl cs.
Proof.
  induction cs as [|c cs IH]; [reflexivity|].
  cbn [write_coeffs flat_map]. rewrite app_length, Nat2Z.inj_add, write_sint_length. fold (write_coeffs cs).
  rewrite IH. reflexivity.
Qed.

Lemma write_coeffs_app a b : write_coeffs (a ++ b) = write_coeffs a ++ write_coeffs b.
Proof. unfold write_coeffs. apply flat_map_app. Qed.

Lemma write_coeffs_zeros k : write_coeffs (repeat 0 k) = repeat true k.
Proof. induction k as [|k IH]; [reflexivity|]. cbn [repeat write_coeffs flat_map]. fold (write_coeffs (repeat 0 k)). rewrite IH. reflexivity. Qed.

Lemma split_trailing_zeros cs :
  exists core k, cs = core ++ repeat 0 k /\ calculate_coeffs_bits cs = sum_sgl core.
Proof.
  induction cs as [|c cs IH] using rev_ind.
  - exists [], O. split; reflexivity.
  - destruct (Z.eq_dec c 0) as [->|Hc].
    + destruct IH as (core & k & -> & Hb). exists core, (S k). split.
      * rewrite <- app_assoc. f_equal. clear. induction k; [reflexivity|]. cbn [repeat app]. rewrite IHk. reflexivity.
      * rewrite ccb_snoc_zero. exact Hb.
    + exists (cs ++ [c]), O. split; [rewrite app_nil_r; reflexivity|apply ccb_snoc_nonzero; assumption].
Qed.

Lemma firstn_repeat_le {A} (x : A) n k : (n <= k)%nat -> firstn n (repeat x k) = repeat x n.
Proof. revert k. induction n as [|n IH]; intros [|k] H; cbn; try lia; auto. f_equal. apply IH. lia. Qed.

(* A block of len bits, len >= calculate_coeffs_bits cs, filled by the serialiser from cs and
   read back as (length cs) coefficients gives cs again: the encoder may size blocks by
   calculate_coeffs_bits, ignoring trailing zeros. *)
Theorem coeff_bits_trailing_zeros cs (len : nat) :
  calculate_coeffs_bits cs <= Z.of_nat len ->
  read_coeffs (length cs) (block_bits len cs) = cs.
Proof.
  intros Hlen. destruct (split_trailing_zeros cs) as (core & k & -> & Hb).
  rewrite Hb in Hlen. rewrite <- write_coeffs_length in Hlen.
  unfold block_bits. rewrite write_coeffs_app, write_coeffs_zeros.
  set (W := write_coeffs core) in *. rewrite app_length, repeat_length.
  assert (Hw : (length W <= len)%nat) by lia.
  rewrite <- app_assoc. rewrite firstn_app. rewrite (firstn_all2 W) by lia.
  rewrite app_length. rewrite read_coeffs_write. f_equal.
  destruct (le_lt_dec (len - length W) k) as [Hle|Hgt].
  - (* the block ends within the run of 1 bits *)
    rewrite firstn_app, repeat_length.
    replace (len - length W - k)%nat with O by lia. rewrite firstn_O, app_nil_r.
    rewrite firstn_repeat_le by assumption.
    rewrite <- (app_nil_r (repeat true (len - length W))).
    apply read_coeffs_ones; [assumption|reflexivity].
  - rewrite firstn_all2 by (rewrite app_length, !repeat_length; lia).
    apply read_coeffs_ones; [lia|intros; lia].
Qed.

(* ---------------- gather / scatter ---------------- *)
Notation zr := (EncoderSlices.zrange 0).

Lemma in_zrange a b y : In y (EncoderSlices.zrange a b) <-> a <= y < b.
Proof.
  unfold EncoderSlices.zrange. rewrite in_map_iff. split.
  - intros [i [<- Hi]]. apply in_seq in Hi. lia.
  - intros H. exists (Z.to_nat (y - a)). split; [lia|]. apply in_seq. lia.
Qed.

Lemma in_slice_positions st comp level sx sy y x :
  In (y, x) (slice_positions st comp level sx sy) <->
  slice_top st sy comp level <= y < slice_bottom st sy comp level /\
  slice_left st sx comp level <= x < slice_right st sx comp level.
Proof.
  unfold slice_positions. rewrite in_flat_map. split.
  - intros [y' [Hy Hin]]. apply in_map_iff in Hin. destruct Hin as [x' [E Hx]]. inversion E; subst.
    rewrite in_zrange in Hy, Hx. tauto.
  - intros [Hy Hx]. exists y. split; [apply in_zrange; assumption|].
    apply in_map_iff. exists x. split; [reflexivity|apply in_zrange; assumption].
Qed.

Definition band_shape (b : band) (h w : nat) : Prop := length b = h /\ Forall (fun r => length r = w) b.

Lemma band_shape_row b h w y : band_shape b h w -> (y < h)%nat -> length (nth y b []) = w.
Proof. intros [Hl Hf] Hy. rewrite Forall_forall in Hf. apply Hf. apply nth_In. lia. Qed.

Lemma band_shape_in b h w y x : band_shape b h w -> (in_band b y x <-> (y < h /\ x < w)%nat).
Proof.
  intros Hs. unfold in_band. destruct Hs as [Hl Hf]. split.
  - intros [Hy Hx]. split; [lia|]. rewrite (band_shape_row b h w y (conj Hl Hf)) in Hx by lia. assumption.
  - intros [Hy Hx]. split; [lia|]. rewrite (band_shape_row b h w y (conj Hl Hf)) by lia. assumption.
Qed.

Lemma band_ext b1 b2 h w :
  band_shape b1 h w -> band_shape b2 h w ->
  (forall y x, (y < h)%nat -> (x < w)%nat -> bget b1 y x = bget b2 y x) -> b1 = b2.
Proof.
  intros S1 S2 H. apply (nth_ext b1 b2 [] []); [destruct S1, S2; congruence|].
  intros y Hy. destruct S1 as [L1 F1]. rewrite L1 in Hy.
  apply (nth_ext _ _ 0 0).
  - rewrite (band_shape_row b1 h w y (conj L1 F1)), (band_shape_row b2 h w y S2) by assumption. reflexivity.
  - intros x Hx. rewrite (band_shape_row b1 h w y (conj L1 F1)) in Hx by assumption. apply H; assumption.
Qed.

Lemma band_shape_bset b h w y x v : band_shape b h w -> band_shape (bset b y x v) h w.
Proof.
  intros [Hl Hf]. unfold bset. split; [rewrite list_set_length; assumption|].
  apply Forall_forall. intros r Hr. apply In_nth with (d := []) in Hr. destruct Hr as [i [Hi <-]].
  rewrite list_set_length in Hi. rewrite Forall_forall in Hf.
  destruct (Nat.eq_dec y i) as [->|Hne].
  - rewrite nth_list_set_same by assumption. rewrite list_set_length. apply Hf. apply nth_In. assumption.
  - rewrite nth_list_set_other by assumption. apply Hf. apply nth_In. assumption.
Qed.

Lemma zero_band_shape h w : band_shape (zero_band h w) h w.
Proof.
  unfold zero_band, band_shape. rewrite repeat_length. split; [reflexivity|].
  apply Forall_forall. intros r Hr. apply repeat_spec in Hr. subst. apply repeat_length.
Qed.

(* writing source values can only extend the set of positions that agree with the source *)
Definition agree (b src : band) (y x : nat) : Prop := bget b y x = bget src y x.

Lemma agree_step b src y x y' x' :
  agree b src y x -> agree (zset b y' x' (zget src y' x')) src y x.
Proof.
  unfold agree, zset, zget. intros H.
  destruct (in_band_dec b (Z.to_nat y') (Z.to_nat x')) as [Hin|Hout]; [|rewrite bset_out by assumption; assumption].
  destruct (Nat.eq_dec y (Z.to_nat y')) as [->|Hy].
  - destruct (Nat.eq_dec x (Z.to_nat x')) as [->|Hx].
    + apply bget_bset_same. assumption.
    + rewrite bget_bset_other by congruence. assumption.
  - rewrite bget_bset_other by congruence. assumption.
Qed.

Lemma agree_made b src (y' x' : Z) :
  in_band b (Z.to_nat y') (Z.to_nat x') -> agree (zset b y' x' (zget src y' x')) src (Z.to_nat y') (Z.to_nat x').
Proof. intros Hin. unfold agree, zset, zget. apply bget_bset_same. assumption. Qed.

Definition write_from (src b : band) (ps : list (Z * Z)) : band :=
  fold_left (fun b p => zset b (fst p) (snd p) (zget src (fst p) (snd p))) ps b.

Lemma write_from_shape src ps : forall b h w, band_shape b h w -> band_shape (write_from src b ps) h w.
Proof.
  induction ps as [|p ps IH]; intros b h w Hs; [assumption|].
  cbn [write_from fold_left]. apply IH. apply band_shape_bset. assumption.
Qed.

Lemma write_from_keeps src ps : forall b y x, agree b src y x -> agree (write_from src b ps) src y x.
Proof.
  induction ps as [|p ps IH]; intros b y x H; [assumption|].
  cbn [write_from fold_left]. apply IH. apply agree_step. assumption.
Qed.

Lemma write_from_makes src ps : forall b h w (y x : Z),
  band_shape b h w -> In (y, x) ps -> (Z.to_nat y < h)%nat -> (Z.to_nat x < w)%nat ->
  agree (write_from src b ps) src (Z.to_nat y) (Z.to_nat x).
Proof.
  induction ps as [|p ps IH]; intros b h w y x Hs Hin Hy Hx; [destruct Hin|].
  cbn [write_from fold_left]. destruct Hin as [->|Hin].
  - apply write_from_keeps. cbn [fst snd]. apply agree_made. apply (band_shape_in b h w); [assumption|lia].
  - apply (IH _ h w); try assumption. apply band_shape_bset. assumption.
Qed.

Lemma scatter_positions_gather src ps : forall b rest,
  scatter_positions b ps (map (fun yx => zget src (fst yx) (snd yx)) ps ++ rest) = (write_from src b ps, rest).
Proof.
  induction ps as [|[y x] ps IH]; intros b rest; [reflexivity|].
  cbn [map app scatter_positions fst snd]. rewrite IH. reflexivity.
Qed.

(* per-subband invariant: same level / matrix entry / shape as the source, and agreement
   with the source on every position belonging to an already processed slice (set D) *)
Definition sb_inv (st : pystate) (comp : pystr) (D : Z * Z -> Prop) (s0 s : subband) : Prop :=
  sb_level s0 = sb_level s /\ sb_qm s0 = sb_qm s /\
  (exists h w, band_shape (sb_band s0) h w /\ band_shape (sb_band s) h w) /\
  forall y x sx sy, D (sx, sy) -> In (y, x) (slice_positions st comp (sb_level s) sx sy) ->
     in_band (sb_band s) (Z.to_nat y) (Z.to_nat x) -> agree (sb_band s0) (sb_band s) (Z.to_nat y) (Z.to_nat x).

Lemma scatter_component_inv st comp D sx sy : forall bs bands rest,
  Forall2 (sb_inv st comp D) bs bands ->
  Forall2 (sb_inv st comp (fun p => D p \/ p = (sx, sy)))
          (scatter_component st comp bs sx sy (fst (gather_component st comp bands sx sy) ++ rest)) bands.
Proof.
  intros bs bands rest H. revert rest. induction H as [|s0 s bs bands Hs H IH]; intros rest; [constructor|].
  cbn [gather_component fst flat_map scatter_component]. rewrite <- app_assoc.
  destruct Hs as (Hl & Hq & (h & w & S0 & S1) & Hag).
  rewrite Hl. rewrite scatter_positions_gather. constructor.
  - unfold sb_inv. cbn [sb_level sb_qm sb_band fst snd]. fold (sb_level s) (sb_qm s0) (sb_qm s) (sb_band s).
    split; [reflexivity|]. split; [assumption|]. split.
    + exists h, w. split; [apply write_from_shape; assumption|assumption].
    + intros y x sx' sy' [HD|HD] Hin Hb.
      * apply write_from_keeps. apply (Hag y x sx' sy'); assumption.
      * inversion HD; subst. pose proof (proj1 (band_shape_in _ h w _ _ S1) Hb) as Hb'.
        apply (write_from_makes _ _ _ h w); try assumption; lia.
  - apply IH.
Qed.

Lemma sb_inv_mono st comp (D D' : Z * Z -> Prop) bs bands :
  (forall p, D' p -> D p) -> Forall2 (sb_inv st comp D) bs bands -> Forall2 (sb_inv st comp D') bs bands.
Proof.
  intros HD H. induction H as [|s0 s bs bands Hs H IH]; constructor; [|assumption].
  destruct Hs as (Hl & Hq & Hsh & Hag). repeat split; try assumption.
  intros y x sx sy Hd. apply Hag. apply HD. assumption.
Qed.

(* enumerate over a mapped range *)
Lemma enum_map_seq {A} (f : Z -> A) k m :
  enum_from (Z.of_nat k) (map f (map (fun i => 0 + Z.of_nat i) (seq k m))) =
  map (fun i => (i, f i)) (map (fun i => 0 + Z.of_nat i) (seq k m)).
Proof.
  revert k. induction m as [|m IH]; intros k; [reflexivity|].
  cbn [seq map enum_from]. replace (Z.of_nat k + 1) with (Z.of_nat (S k)) by lia. rewrite IH. reflexivity.
Qed.

Lemma enumerate_map_zr {A} (f : Z -> A) n : enumerate (map f (zr n)) = map (fun i => (i, f i)) (zr n).
Proof. unfold enumerate, EncoderSlices.zrange. apply (enum_map_seq f O). Qed.

Lemma fold_left_map {A B C} (f : A -> C -> A) (g : B -> C) l a :
  fold_left f (map g l) a = fold_left (fun a b => f a (g b)) l a.
Proof. revert a. induction l; intros; cbn; auto. Qed.

Lemma scatter_all_unfold st comp bs (V : Z -> Z -> list Z) nx ny :
  scatter_all st comp bs (map (fun sy => map (fun sx => V sx sy) (zr nx)) (zr ny)) =
  fold_left (fun bs sy => fold_left (fun bs sx => scatter_component st comp bs sx sy (V sx sy)) (zr nx) bs) (zr ny) bs.
Proof.
  unfold scatter_all. rewrite enumerate_map_zr, fold_left_map. cbn [fst snd].
  revert bs. induction (zr ny) as [|sy l IH]; intros bs; [reflexivity|].
  cbn [fold_left]. rewrite IH. f_equal. rewrite enumerate_map_zr, fold_left_map. reflexivity.
Qed.

Lemma row_inv st comp bands sy D : forall l bs,
  Forall2 (sb_inv st comp D) bs bands ->
  Forall2 (sb_inv st comp (fun p => D p \/ (snd p = sy /\ In (fst p) l)))
    (fold_left (fun bs sx => scatter_component st comp bs sx sy (fst (gather_component st comp bands sx sy))) l bs) bands.
Proof.
  intros l. revert D. induction l as [|sx l IH]; intros D bs H.
  - cbn [fold_left]. eapply sb_inv_mono; [|exact H]. intros p [Hp|[_ []]]. assumption.
  - cbn [fold_left].
    pose proof (scatter_component_inv st comp D sx sy bs bands [] H) as H1. rewrite app_nil_r in H1.
    apply IH in H1. eapply sb_inv_mono; [|exact H1].
    intros [px py] [Hp|[Hy [Hx|Hx]]]; cbn [fst snd] in *.
    + left. left. assumption.
    + left. right. subst. reflexivity.
    + right. split; assumption.
Qed.

Lemma all_inv st comp bands nx : forall l D bs,
  Forall2 (sb_inv st comp D) bs bands ->
  Forall2 (sb_inv st comp (fun p => D p \/ (In (snd p) l /\ In (fst p) (zr nx))))
    (fold_left (fun bs sy => fold_left (fun bs sx => scatter_component st comp bs sx sy (fst (gather_component st comp bands sx sy)))
                                       (zr nx) bs) l bs) bands.
Proof.
  induction l as [|sy l IH]; intros D bs H.
  - cbn [fold_left]. eapply sb_inv_mono; [|exact H]. intros p [Hp|[[] _]]. assumption.
  - cbn [fold_left]. apply (row_inv st comp bands sy D (zr nx)) in H. apply IH in H.
    eapply sb_inv_mono; [|exact H].
    intros [px py] [Hp|[[Hy|Hy] Hx]]; cbn [fst snd] in *.
    + left. left. assumption.
    + left. right. split; [symmetry; assumption|assumption].
    + right. split; assumption.
Qed.

(* the source arrays have the shape the decoder allocates (13.2.2) *)
Definition shape_ok (st : pystate) (comp : pystr) (s : subband) : Prop :=
  band_shape (sb_band s) (Z.to_nat (subband_height st (sb_level s) comp)) (Z.to_nat (subband_width st (sb_level s) comp)).

Lemma init_inv st comp bands :
  Forall (shape_ok st comp) bands ->
  Forall2 (sb_inv st comp (fun _ => False)) (init_bands st comp (map (fun s => (sb_level s, sb_qm s)) bands)) bands.
Proof.
  intros H. induction H as [|s bands Hs H IH]; [constructor|].
  cbn [map init_bands]. constructor; [|exact IH].
  unfold sb_inv. cbn [sb_level sb_qm sb_band fst snd]. repeat split.
  - eexists. eexists. split; [apply zero_band_shape|exact Hs].
  - intros ? ? ? ? [].
Qed.

(* scattering the gathered slices back reproduces every coefficient array: the encoder's
   gathering order and the decoder's reading order are inverse, and the slices cover
   every coefficient (C13 partition) *)
Theorem gather_scatter st comp bands :
  good_state st ->
  Forall (fun s => 0 <= sb_level s <= depth_sum st + 1) bands ->
  Forall (shape_ok st comp) bands ->
  scatter_all st comp (init_bands st comp (map (fun s => (sb_level s, sb_qm s)) bands))
    (map (fun sy => map (fun sx => fst (gather_component st comp bands sx sy)) (zr (st_slices_x st))) (zr (st_slices_y st)))
  = bands.
Proof.
  intros Hg Hlev Hshape. rewrite scatter_all_unfold.
  pose proof (all_inv st comp bands (st_slices_x st) (zr (st_slices_y st)) _ _ (init_inv st comp bands Hshape)) as H.
  set (R := fold_left _ _ _) in *. clearbody R.
  revert Hlev Hshape. induction H as [|s0 s bs bands Hs H IH]; intros Hlev Hshape; [reflexivity|].
  inversion Hlev; subst. inversion Hshape; subst. f_equal; [|apply IH; assumption].
  destruct Hs as (Hl & Hq & (h & w & S0 & S1) & Hag).
  destruct s0 as [[l0 q0] b0], s as [[l1 q1] b1]. cbn [sb_level sb_qm sb_band fst snd] in *. subst l0 q0. f_equal.
  match goal with Hsh : shape_ok _ _ _ |- _ => unfold shape_ok in Hsh; cbn [sb_level sb_band fst snd] in Hsh end.
  apply (band_ext b0 b1 h w S0 S1). intros y x Hy Hx.
  assert (h = Z.to_nat (subband_height st l1 comp) /\ w = Z.to_nat (subband_width st l1 comp)) as [Hh Hw].
  { destruct S1 as [L1 F1]. match goal with Hsh : band_shape b1 _ _ |- _ => destruct Hsh as [L2 F2] end.
    split; [congruence|]. destruct b1 as [|r b1]; [cbn in L1; lia|].
    inversion F1; inversion F2; subst. congruence. }
  match goal with Hlv : 0 <= l1 <= _ |- _ => rename Hlv into Hl1 end.
  destruct (cover_unique_x st comp l1 (Z.of_nat x) Hg Hl1 ltac:(lia)) as [sx [[Hsx Hcx] _]].
  destruct (cover_unique_y st comp l1 (Z.of_nat y) Hg Hl1 ltac:(lia)) as [sy [[Hsy Hcy] _]].
  specialize (Hag (Z.of_nat y) (Z.of_nat x) sx sy). rewrite !Nat2Z.id in Hag. apply Hag.
  - right. cbn [fst snd]. split; apply in_zrange; lia.
  - apply in_slice_positions. split; assumption.
  - apply (band_shape_in b1 h w); [assumption|lia].
Qed.

(* ---------------- one slice through the wire ---------------- *)
Definition cc_ok (cc : ccoeffs) : Prop := length (snd cc) = length (fst cc) /\ Forall (fun m => 0 <= m) (snd cc).

Lemma dequantize_0 vals qms : length qms = length vals -> Forall (fun m => 0 <= m) qms -> dequantize_coeffs 0 vals qms = vals.
Proof.
  revert qms. induction vals as [|v vals IH]; intros [|m qms] Hl Hq; try discriminate; [reflexivity|].
  unfold dequantize_coeffs in *. cbn [combine map fst snd]. inversion Hq; subst.
  rewrite IH by (cbn in Hl; try lia; assumption). f_equal.
  unfold py_max. replace (Z.max (0 - m) 0) with 0 by lia. apply index0_lossless.
Qed.

(* a block at least as long as the coefficients need, read back and dequantised with index 0 *)
Lemma block_roundtrip_0 cs qms (len : Z) :
  length qms = length cs -> Forall (fun m => 0 <= m) qms -> calculate_coeffs_bits cs <= len ->
  dequantize_coeffs 0 (read_coeffs (length qms) (block_bits (Z.to_nat len) cs)) qms = cs.
Proof.
  intros Hl Hq Hb. rewrite Hl. rewrite coeff_bits_trailing_zeros by (pose proof (ccb_nonneg cs); lia).
  apply dequantize_0; assumption.
Qed.

Theorem hq_slice_q0_roundtrip s sc sl :
  0 < s -> cc_ok (sc_Y sc) -> cc_ok (sc_C1 sc) -> cc_ok (sc_C2 sc) ->
  hq_qindex sl = 0 ->
  hq_y sl = fst (sc_Y sc) -> hq_c1 sl = fst (sc_C1 sc) -> hq_c2 sl = fst (sc_C2 sc) ->
  calculate_hq_length_field (hq_y sl) s <= hq_y_length sl ->
  calculate_hq_length_field (hq_c1 sl) s <= hq_c1_length sl ->
  calculate_hq_length_field (hq_c2 sl) s <= hq_c2_length sl ->
  hq_slice_roundtrip s sc sl = (fst (sc_Y sc), fst (sc_C1 sc), fst (sc_C2 sc)).
Proof.
  intros Hs [Ly Qy] [L1 Q1] [L2 Q2] Hq Hy Hc1 Hc2 By B1 B2.
  unfold hq_slice_roundtrip. rewrite Hq, Hy, Hc1, Hc2 in *.
  pose proof (hq_len_spec (fst (sc_Y sc)) s Hs) as [S1 _].
  pose proof (hq_len_spec (fst (sc_C1 sc)) s Hs) as [S2 _].
  pose proof (hq_len_spec (fst (sc_C2 sc)) s Hs) as [S3 _].
  rewrite !block_roundtrip_0; try assumption; try reflexivity; nia.
Qed.

(* lossy HQ slice that got index 0 *)
Corollary hq_lossy_q0_roundtrip st s minq sx sy sc sl :
  0 < s -> cc_ok (sc_Y sc) -> cc_ok (sc_C1 sc) -> cc_ok (sc_C2 sc) ->
  hq_slice_ok st s minq sx sy sc sl -> hq_qindex sl = 0 ->
  hq_slice_roundtrip s sc sl = (fst (sc_Y sc), fst (sc_C1 sc), fst (sc_C2 sc)).
Proof.
  intros Hs Cy C1 C2 Hok Hq.
  pose proof (hso_y _ _ _ _ _ _ _ Hok) as Ey. pose proof (hso_c1 _ _ _ _ _ _ _ Hok) as E1.
  pose proof (hso_c2 _ _ _ _ _ _ _ Hok) as E2. pose proof (hso_ylen _ _ _ _ _ _ _ Hok) as Ly.
  pose proof (hso_c1len _ _ _ _ _ _ _ Hok) as L1. pose proof (hso_c2len _ _ _ _ _ _ _ Hok) as L2.
  rewrite Hq in *.
  apply hq_slice_q0_roundtrip; try assumption.
  - rewrite Ey. apply quantize_coeffs_0; apply Cy.
  - rewrite E1. apply quantize_coeffs_0; apply C1.
  - rewrite E2. apply quantize_coeffs_0; apply C2.
  - lia.
  - lia.
Qed.

(* lossless packer: the slice it builds for sc, for ANY scaler >= 1 *)
Definition lossless_slice (s : Z) (sc : scoeffs) : hq_slice :=
  rescale_hq_slice s (make_hq_slice (fst (sc_Y sc)) (fst (sc_C1 sc)) (fst (sc_C2 sc)) None 0 1).

Lemma lossless_packer_slices rows mins :
  let s := fst (make_transform_data_hq_lossless rows mins) in
  1 <= s /\ snd (make_transform_data_hq_lossless rows mins) = map (lossless_slice s) (concat rows).
Proof.
  unfold make_transform_data_hq_lossless. cbn [fst snd]. split; [unfold py_max; lia|].
  rewrite map_map. reflexivity.
Qed.

Lemma rescale_len cs s : 1 <= s ->
  calculate_hq_length_field cs s <= py_div (calculate_hq_length_field cs 1 + (s - 1)) s.
Proof.
  intros Hs. unfold calculate_hq_length_field, py_div. pose proof (ccb_nonneg cs).
  set (b := calculate_coeffs_bits cs) in *.
  replace (8 * 1) with 8 by lia.
  assert (8 * s * ((b + 8 * s - 1) / (8 * s) - 1) < b) by lia.
  assert (b <= 8 * ((b + 8 - 1) / 8)) by lia.
  assert (Hk : (b + 8 - 1) / 8 <= s * (((b + 8 - 1) / 8 + (s - 1)) / s)) by lia.
  destruct (Z_le_gt_dec ((b + 8 * s - 1) / (8 * s)) (((b + 8 - 1) / 8 + (s - 1)) / s)); [assumption|exfalso].
  nia.
Qed.

Theorem lossless_slice_roundtrip s sc :
  1 <= s -> cc_ok (sc_Y sc) -> cc_ok (sc_C1 sc) -> cc_ok (sc_C2 sc) ->
  hq_slice_roundtrip s sc (lossless_slice s sc) = (fst (sc_Y sc), fst (sc_C1 sc), fst (sc_C2 sc)).
Proof.
  intros Hs Cy C1 C2. apply hq_slice_q0_roundtrip; try assumption; try reflexivity; try lia;
    unfold lossless_slice, rescale_hq_slice, make_hq_slice; cbn [hq_y hq_c1 hq_c2 hq_y_length hq_c1_length hq_c2_length];
    apply rescale_len; assumption.
Qed.

(* LD *)
Lemma deinterleave_interleave a b : length a = length b -> deinterleave (interleave a b) = (a, b).
Proof.
  revert b. induction a as [|x a IH]; intros [|y b] H; try discriminate; [reflexivity|].
  unfold interleave in *. cbn [combine flat_map app fst snd deinterleave]. rewrite IH by (cbn in H; lia). reflexivity.
Qed.

Lemma interleave_length a b : length a = length b -> length (interleave a b) = (2 * length a)%nat.
Proof.
  revert b. induction a as [|x a IH]; intros [|y b] H; try discriminate; [reflexivity|].
  unfold interleave in *. cbn [combine flat_map app fst snd length]. rewrite IH by (cbn in H; lia). lia.
Qed.

Lemma interleave_forall (P : Z -> Prop) a b : Forall P a -> Forall P b -> Forall P (interleave a b).
Proof.
  revert b. induction a as [|x a IH]; intros [|y b] Ha Hb; try constructor.
  - inversion Ha; assumption.
  - unfold interleave in *. cbn [combine flat_map app fst snd]. inversion Ha; inversion Hb; subst.
    constructor; [assumption|]. apply IH; assumption.
Qed.

Theorem ld_q0_roundtrip st minq sx sy sc sl :
  cc_ok (sc_Y sc) -> cc_ok (sc_C1 sc) -> cc_ok (sc_C2 sc) -> length (fst (sc_C1 sc)) = length (fst (sc_C2 sc)) ->
  ld_slice_ok st minq sx sy sc sl -> ld_qindex sl = 0 ->
  ld_slice_roundtrip (slice_bytes st sx sy) sc sl = (fst (sc_Y sc), fst (sc_C1 sc), fst (sc_C2 sc)).
Proof.
  intros [Ly Qy] [L1 Q1] [L2 Q2] Hcl Hok Hq.
  pose proof (lso_y _ _ _ _ _ _ Hok) as lso_y0. pose proof (lso_c _ _ _ _ _ _ Hok) as lso_c0.
  pose proof (lso_exact _ _ _ _ _ _ Hok) as lso_exact0.
  unfold ld_slice_roundtrip. rewrite Hq in *.
  assert (Hy : ld_y sl = fst (sc_Y sc)) by (rewrite lso_y0; apply quantize_coeffs_0; assumption).
  assert (Hc : ld_c sl = interleave (fst (sc_C1 sc)) (fst (sc_C2 sc))).
  { rewrite lso_c0. apply quantize_coeffs_0.
    - rewrite !interleave_length by congruence. lia.
    - apply interleave_forall; assumption. }
  unfold ld_slice_fits in lso_exact0. rewrite Hy, Hc in *.
  set (Yb := calculate_coeffs_bits (fst (sc_Y sc))) in *.
  set (Cb := calculate_coeffs_bits (interleave (fst (sc_C1 sc)) (fst (sc_C2 sc)))) in *.
  assert (ld_y_length sl = Yb /\ Yb + Cb <= ld_payload_bits (slice_bytes st sx sy)) as [E1 E2] by lia.
  rewrite block_roundtrip_0; try assumption; [|fold Yb; lia].
  rewrite block_roundtrip_0.
  - rewrite deinterleave_interleave by assumption. reflexivity.
  - rewrite !interleave_length by congruence. lia.
  - apply interleave_forall; assumption.
  - fold Cb. lia.
Qed.

(* ---------------- one picture through the slices ---------------- *)
Lemma fold_bset_shape (f : band -> nat * nat -> Z) l : forall b h w,
  band_shape b h w -> band_shape (fold_left (fun b yx => bset b (fst yx) (snd yx) (f b yx)) l b) h w.
Proof. induction l as [|p l IH]; intros b h w H; [assumption|]. cbn [fold_left]. apply IH. apply band_shape_bset. assumption. Qed.

Lemma apply_dc_shape b h w : band_shape b h w -> band_shape (apply_dc_prediction b) h w.
Proof. intros H. unfold apply_dc_prediction. apply (fold_bset_shape (fun b yx => bget b (fst yx) (snd yx) - dc_pred b (fst yx) (snd yx))). assumption. Qed.

Definition bands_wf (st : pystate) (comp : pystr) (bs : list subband) : Prop :=
  Forall (fun s => 0 <= sb_level s <= depth_sum st + 1) bs /\ Forall (shape_ok st comp) bs.

Lemma dc_bands_wf st comp bs : bands_wf st comp bs -> bands_wf st comp (dc_bands bs).
Proof.
  intros [H1 H2]. destruct bs as [|s r]; [split; constructor|].
  inversion H1; inversion H2; subst. split; constructor; try assumption.
  unfold shape_ok in *. cbn [sb_level sb_band fst snd]. apply apply_dc_shape. assumption.
Qed.

Lemma shape_of_dc bs : shape_of (dc_bands bs) = shape_of bs.
Proof. destruct bs as [|s r]; reflexivity. Qed.

Lemma decode_component_gathered st comp bs (dc : bool) (G : Z -> Z -> list Z) :
  good_state st -> bands_wf st comp bs ->
  (forall sx sy, 0 <= sx < st_slices_x st -> 0 <= sy < st_slices_y st ->
     G sx sy = fst (gather_component st comp (if dc then dc_bands bs else bs) sx sy)) ->
  decode_component st comp (shape_of bs) dc
    (map (fun sy => map (fun sx => G sx sy) (EncoderSlices.zrange 0 (st_slices_x st))) (EncoderSlices.zrange 0 (st_slices_y st)))
  = map sb_band bs.
Proof.
  intros Hg Hwf HG. unfold decode_component.
  set (src := if dc then dc_bands bs else bs) in *.
  assert (Hwf' : bands_wf st comp src) by (unfold src; destruct dc; [apply dc_bands_wf|]; assumption).
  assert (Hsh : shape_of bs = shape_of src) by (unfold src; destruct dc; [rewrite shape_of_dc|]; reflexivity).
  rewrite Hsh.
  rewrite (map_ext_in _ (fun sy => map (fun sx => fst (gather_component st comp src sx sy)) (EncoderSlices.zrange 0 (st_slices_x st)))).
  2:{ intros sy Hsy. apply map_ext_in. intros sx Hsx. apply in_zrange in Hsy, Hsx. apply HG; lia. }
  destruct Hwf' as [W1 W2]. unfold shape_of. rewrite (gather_scatter st comp src Hg W1 W2).
  unfold src. destruct dc; [|reflexivity].
  destruct bs as [|s r]; [reflexivity|]. cbn [dc_bands map sb_band snd]. rewrite dc_roundtrip. reflexivity.
Qed.

Section Chain.
  (* The wavelet round trip is property C11's; picture_encode / picture_decode (incl. padding,
     offset and clipping) enter the composition only through this hypothesis. *)
  Variable Pic : Type.
  Variable dwt : Pic -> list subband * list subband * list subband.
  Variable idwt : list band * list band * list band -> Pic.
  Hypothesis idwt_dwt : forall p,
    idwt (map sb_band (fst (fst (dwt p))), map sb_band (snd (fst (dwt p))), map sb_band (snd (dwt p))) = p.

  Variable st : pystate.
  Hypothesis st_good : good_state st.

  Definition pic_wf (p : Pic) : Prop :=
    bands_wf st Str_Y (fst (fst (dwt p))) /\ bands_wf st Str_C1 (snd (fst (dwt p))) /\ bands_wf st Str_C2 (snd (dwt p)).

  (* what the decoder returns when, for every slice, the values it reads are V sx sy *)
  Definition decode_model (p0 : Pic) (dc : bool) (V : Z -> Z -> list Z * list Z * list Z) : Pic :=
    idwt (decode_picture st (shape_of (fst (fst (dwt p0)))) (shape_of (snd (fst (dwt p0)))) (shape_of (snd (dwt p0))) dc V).

  (* the slice coefficients the encoder gathers for slice (sx, sy) *)
  Definition encoder_slice (p : Pic) (dc : bool) (sx sy : Z) : scoeffs :=
    let f bs := if dc then dc_bands bs else bs in
    gathered st (f (fst (fst (dwt p)))) (f (snd (fst (dwt p)))) (f (snd (dwt p))) sx sy.

  Theorem chain_core p dc V :
    pic_wf p ->
    (forall sx sy, 0 <= sx < st_slices_x st -> 0 <= sy < st_slices_y st ->
       V sx sy = (fst (sc_Y (encoder_slice p dc sx sy)), fst (sc_C1 (encoder_slice p dc sx sy)), fst (sc_C2 (encoder_slice p dc sx sy)))) ->
    decode_model p dc V = p.
  Proof.
    intros (Wy & W1 & W2) HV. unfold decode_model, decode_picture.
    rewrite (decode_component_gathered st Str_Y _ dc (fun sx sy => fst (fst (V sx sy))) st_good Wy).
    2:{ intros sx sy Hx Hy. rewrite (HV sx sy Hx Hy). destruct dc; reflexivity. }
    rewrite (decode_component_gathered st Str_C1 _ dc (fun sx sy => snd (fst (V sx sy))) st_good W1).
    2:{ intros sx sy Hx Hy. rewrite (HV sx sy Hx Hy). destruct dc; reflexivity. }
    rewrite (decode_component_gathered st Str_C2 _ dc (fun sx sy => snd (V sx sy)) st_good W2).
    2:{ intros sx sy Hx Hy. rewrite (HV sx sy Hx Hy). destruct dc; reflexivity. }
    apply idwt_dwt.
  Qed.
End Chain.

(* ---------------- the gathered slices are well formed ---------------- *)
Lemma gather_cc_ok st comp bs sx sy :
  Forall (fun s => 0 <= sb_qm s) bs -> cc_ok (gather_component st comp bs sx sy).
Proof.
  intros H. unfold cc_ok, gather_component. cbn [fst snd]. induction H as [|s bs Hs H [IH1 IH2]]; [split; [reflexivity|constructor]|].
  cbn [flat_map]. split.
  - rewrite !app_length, !map_length, IH1. reflexivity.
  - apply Forall_app. split; [|assumption]. apply Forall_forall. intros m Hm. apply in_map_iff in Hm.
    destruct Hm as [? [<- _]]. assumption.
Qed.

Lemma dc_bands_qm bs : Forall (fun s => 0 <= sb_qm s) bs -> Forall (fun s => 0 <= sb_qm s) (dc_bands bs).
Proof. intros H. destruct bs as [|s r]; [constructor|]. inversion H; subst. constructor; assumption. Qed.

Lemma slice_positions_C2_C1 st level sx sy :
  slice_positions st Str_C2 level sx sy = slice_positions st Str_C1 level sx sy.
Proof.
  unfold slice_positions, slice_left, slice_right, slice_top, slice_bottom.
  destruct (subband_C2_C1 st level) as [-> ->]. reflexivity.
Qed.

Lemma gather_len_C1_C2 st b1 b2 sx sy :
  map sb_level b1 = map sb_level b2 ->
  length (fst (gather_component st Str_C1 b1 sx sy)) = length (fst (gather_component st Str_C2 b2 sx sy)).
Proof.
  unfold gather_component. cbn [fst]. revert b2. induction b1 as [|s b1 IH]; intros [|t b2] H; try discriminate; [reflexivity|].
  cbn [map] in H. inversion H as [[Hl Hr]]. cbn [flat_map]. rewrite !app_length, !map_length.
  rewrite Hl, slice_positions_C2_C1. f_equal. apply IH. assumption.
Qed.

Lemma dc_bands_levels bs : map sb_level (dc_bands bs) = map sb_level bs.
Proof. destruct bs; reflexivity. Qed.

Section ChainTheorems.
  Variable Pic : Type.
  Variable dwt : Pic -> list subband * list subband * list subband.
  Variable idwt : list band * list band * list band -> Pic.
  Hypothesis idwt_dwt : forall p,
    idwt (map sb_band (fst (fst (dwt p))), map sb_band (snd (fst (dwt p))), map sb_band (snd (dwt p))) = p.
  Variable st : pystate.
  Hypothesis st_good : good_state st.

  (* matrix entries are unsigned *)
  Definition pic_qm_ok (p : Pic) : Prop :=
    Forall (fun s => 0 <= sb_qm s) (fst (fst (dwt p))) /\ Forall (fun s => 0 <= sb_qm s) (snd (fst (dwt p))) /\
    Forall (fun s => 0 <= sb_qm s) (snd (dwt p)).

  Lemma encoder_slice_cc_ok p dc sx sy : pic_qm_ok p ->
    cc_ok (sc_Y (encoder_slice Pic dwt st p dc sx sy)) /\ cc_ok (sc_C1 (encoder_slice Pic dwt st p dc sx sy)) /\
    cc_ok (sc_C2 (encoder_slice Pic dwt st p dc sx sy)).
  Proof.
    intros (Qy & Q1 & Q2). unfold encoder_slice, gathered, sc_Y, sc_C1, sc_C2. cbn [fst snd].
    destruct dc; repeat split; apply gather_cc_ok; try apply dc_bands_qm; assumption.
  Qed.

  (* lossless HQ: every slice as built by make_transform_data_hq_lossless (any scaler >= 1) *)
  Theorem chain_hq_lossless p s :
    pic_wf Pic dwt st p -> pic_qm_ok p -> 1 <= s ->
    decode_model Pic dwt idwt st p false
      (fun sx sy => hq_slice_roundtrip s (encoder_slice Pic dwt st p false sx sy)
                                       (lossless_slice s (encoder_slice Pic dwt st p false sx sy))) = p.
  Proof.
    intros Hwf Hq Hs. apply (chain_core Pic dwt idwt idwt_dwt st st_good); [assumption|].
    intros sx sy _ _. destruct (encoder_slice_cc_ok p false sx sy Hq) as (Cy & C1 & C2).
    apply lossless_slice_roundtrip; assumption.
  Qed.

  (* lossy HQ: slices produced by the search (hq_slice_ok, cf. C14) that all got index 0 *)
  Theorem chain_hq_lossy_q0 p bst s minq (SL : Z -> Z -> hq_slice) :
    pic_wf Pic dwt st p -> pic_qm_ok p -> 0 < s ->
    (forall sx sy, 0 <= sx < st_slices_x st -> 0 <= sy < st_slices_y st ->
       hq_slice_ok bst s minq sx sy (encoder_slice Pic dwt st p false sx sy) (SL sx sy) /\ hq_qindex (SL sx sy) = 0) ->
    decode_model Pic dwt idwt st p false
      (fun sx sy => hq_slice_roundtrip s (encoder_slice Pic dwt st p false sx sy) (SL sx sy)) = p.
  Proof.
    intros Hwf Hq Hs HSL. apply (chain_core Pic dwt idwt idwt_dwt st st_good); [assumption|].
    intros sx sy Hx Hy. destruct (encoder_slice_cc_ok p false sx sy Hq) as (Cy & C1 & C2).
    destruct (HSL sx sy Hx Hy) as [Hok H0].
    apply (hq_lossy_q0_roundtrip bst s minq sx sy); assumption.
  Qed.

  (* lossy LD (with DC prediction): slices produced by the search that all got index 0 *)
  Theorem chain_ld_lossy_q0 p bst minq (SL : Z -> Z -> ld_slice) :
    pic_wf Pic dwt st p -> pic_qm_ok p ->
    map sb_level (snd (fst (dwt p))) = map sb_level (snd (dwt p)) ->
    (forall sx sy, 0 <= sx < st_slices_x st -> 0 <= sy < st_slices_y st ->
       ld_slice_ok bst minq sx sy (encoder_slice Pic dwt st p true sx sy) (SL sx sy) /\ ld_qindex (SL sx sy) = 0) ->
    decode_model Pic dwt idwt st p true
      (fun sx sy => ld_slice_roundtrip (slice_bytes bst sx sy) (encoder_slice Pic dwt st p true sx sy) (SL sx sy)) = p.
  Proof.
    intros Hwf Hq Hlev HSL. apply (chain_core Pic dwt idwt idwt_dwt st st_good); [assumption|].
    intros sx sy Hx Hy. destruct (encoder_slice_cc_ok p true sx sy Hq) as (Cy & C1 & C2).
    destruct (HSL sx sy Hx Hy) as [Hok H0].
    apply (ld_q0_roundtrip bst minq sx sy); try assumption.
    unfold encoder_slice, gathered, sc_C1, sc_C2. cbn [fst snd].
    apply gather_len_C1_C2. rewrite !dc_bands_levels. assumption.
  Qed.
End ChainTheorems.

(* ---------------- "fits" is monotone in the index (so even a bisection would be exact) ---------------- *)
Lemma bit_length_mono a b : 0 <= a <= b -> bit_length a <= bit_length b.
Proof.
  intros [Ha Hab]. destruct a as [|p|p]; try lia.
  - apply bit_length_nonneg.
  - destruct b as [|q|q]; try lia. cbn [bit_length].
    pose proof (Z.log2_le_mono (Z.pos p) (Z.pos q) Hab). lia.
Qed.

Lemma sgl_mono a b : Z.abs a <= Z.abs b -> signed_exp_golomb_length a <= signed_exp_golomb_length b.
Proof.
  intros H. unfold signed_exp_golomb_length, exp_golomb_length, py_abs.
  replace (Z.abs a <? 0) with false by lia. replace (Z.abs b <? 0) with false by lia.
  pose proof (bit_length_mono (Z.abs a + 1) (Z.abs b + 1) ltac:(lia)).
  destruct (a =? 0) eqn:Ea; destruct (b =? 0) eqn:Eb; cbn [negb]; try lia.
Qed.

Lemma Forall2_len {A B} (R : A -> B -> Prop) l l' : Forall2 R l l' -> length l = length l'.
Proof. induction 1; cbn; congruence. Qed.

(* pointwise smaller magnitudes never need more bits *)
Lemma ccb_fold_mono l' l : Forall2 (fun a b => Z.abs a <= Z.abs b) l' l ->
  forall n' n (sk' sk : bool), n' <= n -> (sk = true -> sk' = true) ->
  fst (fold_left ccb_step l' (n', sk')) <= fst (fold_left ccb_step l (n, sk)).
Proof.
  induction 1 as [|a b l' l Hab H IH]; intros n' n sk' sk Hn Hsk; [cbn; assumption|].
  cbn [fold_left]. unfold ccb_step at 2 4.
  pose proof (sgl_mono a b Hab) as Hs. pose proof (sgl_pos b) as Hb1.
  destruct sk'; cbn [andb].
  - destruct (a =? 0) eqn:Ea.
    + destruct (sk && (b =? 0)); apply IH; try lia; try reflexivity; intros; reflexivity.
    + assert (b <> 0) by lia. replace (b =? 0) with false by lia. rewrite andb_false_r.
      apply IH; [lia|intros; discriminate].
  - assert (sk = false) by (destruct sk; [specialize (Hsk eq_refl); discriminate|reflexivity]). subst sk.
    cbn [andb]. apply IH; [lia|intros; discriminate].
Qed.

Lemma Forall2_rev {A B} (R : A -> B -> Prop) l l' : Forall2 R l l' -> Forall2 R (rev l) (rev l').
Proof. induction 1; cbn [rev]; [constructor|]. apply Forall2_app; [assumption|constructor; [assumption|constructor]]. Qed.

Lemma ccb_mono l' l : Forall2 (fun a b => Z.abs a <= Z.abs b) l' l -> calculate_coeffs_bits l' <= calculate_coeffs_bits l.
Proof.
  intros H. unfold calculate_coeffs_bits. apply ccb_fold_mono; [apply Forall2_rev; assumption|lia|auto].
Qed.

Lemma forward_quant_abs_mono c i j : 0 <= i <= j -> Z.abs (forward_quant c j) <= Z.abs (forward_quant c i).
Proof.
  intros Hij. pose proof (quant_factor_mono i j Hij). pose proof (quant_factor_ge4 i ltac:(lia)).
  unfold forward_quant, py_abs, py_div.
  assert (0 <= 4 * Z.abs c / quant_factor j <= 4 * Z.abs c / quant_factor i).
  { split; [apply Z.div_pos; lia|]. apply Z.div_le_compat_l; lia. }
  destruct (c >=? 0); lia.
Qed.

Lemma quantize_coeffs_mono q q' cs qms : q <= q' ->
  Forall2 (fun a b => Z.abs a <= Z.abs b) (quantize_coeffs q' cs qms) (quantize_coeffs q cs qms).
Proof.
  intros Hq. unfold quantize_coeffs. induction (combine cs qms) as [|p l IH]; [constructor|].
  cbn [map]. constructor; [|assumption]. apply forward_quant_abs_mono. unfold py_max. lia.
Qed.

Theorem fits_monotone t sets a q q' : 0 < a -> q <= q' -> fits t sets a q = true -> fits t sets a q' = true.
Proof.
  intros Ha Hq. unfold fits, total_length. intros H.
  assert (py_sum (map (block_len a) (quantize_sets q' sets)) <= py_sum (map (block_len a) (quantize_sets q sets))); [|lia].
  clear H. unfold quantize_sets. induction sets as [|cc sets IH]; [cbn; lia|].
  cbn [map]. unfold py_sum in *. cbn [fold_right].
  pose proof (ccb_mono _ _ (quantize_coeffs_mono q q' (fst cc) (snd cc) Hq)) as Hm.
  unfold block_len, py_div.
  assert ((calculate_coeffs_bits (quantize_coeffs q' (fst cc) (snd cc)) + a - 1) / a
          <= (calculate_coeffs_bits (quantize_coeffs q (fst cc) (snd cc)) + a - 1) / a) as Hd by (apply Z.div_le_mono; lia).
  apply (Z.mul_le_mono_nonneg_r _ _ a) in Hd; [|lia].
  apply Z.add_le_mono; [exact Hd|exact IH].
Qed.

(* ---------------- lossless packer: length fields fit 8 bits ---------------- *)
Lemma fold_left_max_ge r : forall a x, (x = a \/ In x r) -> x <= fold_left Z.max r a.
Proof.
  induction r as [|y r IH]; intros a x H; cbn [fold_left].
  - destruct H as [->|[]]. lia.
  - destruct H as [->|[->|H]].
    + eapply Z.le_trans; [|apply (IH (Z.max a y) (Z.max a y)); left; reflexivity]. lia.
    + eapply Z.le_trans; [|apply (IH (Z.max a x) (Z.max a x)); left; reflexivity]. lia.
    + apply IH. right. assumption.
Qed.

Lemma list_max_ge l x : In x l -> x <= list_max l.
Proof. destruct l as [|a r]; [intros []|]. intros [->|H]; apply fold_left_max_ge; [left; reflexivity|right; assumption]. Qed.

Lemma rescale_le_255 L M s : 0 <= L <= M -> 1 <= s -> (M + 254) / 255 <= s -> 0 <= (L + (s - 1)) / s <= 255.
Proof.
  intros HL Hs HM. assert (M <= 255 * s) by lia. split; [apply Z.div_pos; lia|].
  assert ((L + (s - 1)) / s < 256) by (apply Z.div_lt_upper_bound; lia). lia.
Qed.

Theorem lossless_fields_8bit rows mins :
  Forall (fun sl => 0 <= hq_y_length sl <= 255 /\ 0 <= hq_c1_length sl <= 255 /\ 0 <= hq_c2_length sl <= 255 /\ hq_qindex sl = 0)
         (snd (make_transform_data_hq_lossless rows mins)).
Proof.
  unfold make_transform_data_hq_lossless. cbn [snd].
  set (base := map _ (concat rows)). set (M := list_max (map hq_max_length base)).
  set (s := py_max (py_max 1 mins) (py_div (M + 254) 255)).
  assert (Hs1 : 1 <= s) by (unfold s, py_max; lia).
  assert (HsM : (M + 254) / 255 <= s) by (unfold s, py_max, py_div; lia).
  apply Forall_forall. intros sl Hin. apply in_map_iff in Hin. destruct Hin as [b [<- Hb]].
  assert (HbM : hq_max_length b <= M) by (apply list_max_ge; apply in_map; assumption).
  unfold base in Hb. apply in_map_iff in Hb. destruct Hb as [sc [<- _]].
  unfold hq_max_length, py_max in HbM. unfold rescale_hq_slice, make_hq_slice in *. 
  cbn [hq_y_length hq_c1_length hq_c2_length hq_qindex hq_y hq_c1 hq_c2] in *.
  pose proof (hq_len_nonneg (fst (sc_Y sc)) 1 ltac:(lia)). pose proof (hq_len_nonneg (fst (sc_C1 sc)) 1 ltac:(lia)).
  pose proof (hq_len_nonneg (fst (sc_C2 sc)) 1 ltac:(lia)).
  unfold py_div. repeat split; try apply (rescale_le_255 _ M s); try apply (proj1 (rescale_le_255 _ M s _ Hs1 HsM)); try lia.
  all: try (apply (proj2 (rescale_le_255 _ M s ltac:(split; [eassumption|lia]) Hs1 HsM))).
Qed.
