From Coq Require Import ZArith List Bool Lia ZifyBool.
From VC2 Require Import Model.PicNums.
Import ListNotations.
Open Scope Z_scope.
Ltac Zify.zify_post_hook ::= Z.to_euclidean_division_equations.

Lemma wrap32_mod n : wrap32 n = n mod 4294967296.
Proof. unfold wrap32. change 4294967295 with (Z.ones 32). rewrite Z.land_ones by lia. reflexivity. Qed.

Lemma wrap32_range n : 0 <= wrap32 n < 4294967296.
Proof. rewrite wrap32_mod. apply Z.mod_pos_bound. lia. Qed.

(* parity is preserved by wrapping since 2^32 is even *)
Lemma wrap32_succ_parity s : 0 <= s < 4294967296 -> (wrap32 (s + 1)) mod 2 = (s + 1) mod 2.
Proof. intros. rewrite wrap32_mod. lia. Qed.

Lemma consecutive_from fields n : forall start last count,
  0 <= start < 4294967296 -> 0 <= count ->
  (match last with None => True | Some l => start = wrap32 (l + 1) end) ->
  (fields = true -> (n <> O) -> (start + count) mod 2 = 0) ->
  picnums_from fields last count (consecutive start n) = true.
Proof.
  induction n as [|n IH]; intros start last count Hs Hc Hl Hp; [reflexivity|].
  cbn [consecutive picnums_from].
  assert (H1 : (match last with None => true | Some l => start =? wrap32 (l + 1) end) = true).
  { destruct last; [lia|reflexivity]. }
  rewrite H1. cbn [andb].
  assert (H2 : (if fields then (if (count mod 2 =? 0) then (start mod 2 =? 0) else true) else true) = true).
  { destruct fields; [|reflexivity]. specialize (Hp eq_refl ltac:(discriminate)).
    destruct (count mod 2 =? 0) eqn:E; [lia|reflexivity]. }
  rewrite H2. cbn [andb].
  apply IH.
  - apply wrap32_range.
  - lia.
  - reflexivity.
  - intros Hf Hn. specialize (Hp Hf ltac:(discriminate)).
    pose proof (wrap32_succ_parity start Hs). lia.
Qed.

(* legal numbering: any start in range; when pictures are fields the first number must be even *)
Theorem consecutive_ok fields start n :
  0 <= start < 4294967296 ->
  (fields = true -> n <> O -> start mod 2 = 0) ->
  picnums_ok fields (consecutive start n) = true.
Proof.
  intros Hs Hp. unfold picnums_ok. apply consecutive_from.
  - exact Hs.
  - lia.
  - exact I.
  - intros Hf Hn. rewrite Z.add_0_r. auto.
Qed.

(* and an odd first field is rejected *)
Theorem odd_first_field_rejected start n :
  start mod 2 = 1 -> picnums_ok true (consecutive start (S n)) = false.
Proof.
  intros Ho. unfold picnums_ok. cbn [consecutive picnums_from].
  change (0 mod 2 =? 0) with true. cbv iota.
  replace (start mod 2 =? 0) with false by lia. reflexivity.
Qed.
