(* Proofs about Model/SerDes.v, converse direction (C06): reading a primitive and writing the value
   back reproduces the consumed bits; refutation witness for negative lengths. *)
From Coq Require Import ZArith List Bool Lia.
From VC2 Require Import Model.SerDes Model.SerDesVC2 Proofs.SerDesBits.
Import ListNotations.
Open Scope Z_scope.

(* the writer that faces reader [r] with [out] already written *)
Definition wr_of (r : io) (out : list bool) : io := mkio out (pos r) (rem r).

Lemma read_bit_write_bit r b r' :
  read_bit r = Ok (b, r') ->
  exists X, bits r = X ++ bits r' /\
    forall out, write_bit (wr_of r out) b = Ok (wr_of r' (out ++ X)).
Proof.
  unfold read_bit, write_bit, wr_of. destruct r as [bs p [k|]]; simpl.
  - destruct (k - 1 <=? -1) eqn:E.
    + intros H; inv H. exists []. simpl. split; auto. intros out. rewrite app_nil_r. reflexivity.
    + destruct bs as [|b0 bs]; [discriminate|]. intros H; inv H. exists [b]. simpl. split; auto.
  - destruct bs as [|b0 bs]; [discriminate|]. intros H; inv H. exists [b]. simpl. split; auto.
Qed.

Lemma read_bits_write_bits n : forall r l r',
  read_bits n r = Ok (l, r') ->
  length l = n /\ exists X, bits r = X ++ bits r' /\
    forall out, write_bits (wr_of r out) l = Ok (wr_of r' (out ++ X)).
Proof.
  induction n; simpl; intros r l r' H.
  - inv H. split; auto. exists []. simpl. split; auto. intros out. rewrite app_nil_r. reflexivity.
  - apply rbind_ok in H. destruct H as ([b r1] & H1 & H). apply rbind_ok in H. destruct H as ([l1 r2] & H2 & H). inv H.
    destruct (read_bit_write_bit _ _ _ H1) as (X1 & E1 & W1).
    destruct (IHn _ _ _ H2) as (Hl & X2 & E2 & W2).
    split; [simpl; lia|]. exists (X1 ++ X2). split. { rewrite E1, E2, app_assoc. reflexivity. }
    intros out. simpl. rewrite W1. simpl. rewrite W2, app_assoc. reflexivity.
Qed.

(* ---- fixed width: bits_of inverts z_of_bits ---- *)
Lemma z_of_bits_range l : forall acc, 0 <= acc ->
  acc * 2 ^ Z.of_nat (length l) <= z_of_bits acc l < (acc + 1) * 2 ^ Z.of_nat (length l).
Proof.
  induction l as [|b l IH]; intros acc Ha.
  - simpl. lia.
  - cbn [z_of_bits length]. rewrite Nat2Z.inj_succ, Z.pow_succ_r by lia.
    assert (Hb : 0 <= Z.b2z b <= 1) by (destruct b; simpl; lia).
    specialize (IH (2 * acc + Z.b2z b)). pose proof (Z.pow_pos_nonneg 2 (Z.of_nat (length l))). nia.
Qed.

Lemma z_of_bits_app l1 l2 acc : z_of_bits acc (l1 ++ l2) = z_of_bits (z_of_bits acc l1) l2.
Proof. revert acc. induction l1; simpl; auto. Qed.

Lemma z_of_bits_linear l : forall acc, z_of_bits acc l = acc * 2 ^ Z.of_nat (length l) + z_of_bits 0 l.
Proof.
  induction l as [|b l IH]; intros acc.
  - simpl. lia.
  - cbn [z_of_bits length]. rewrite IH, (IH (2 * 0 + Z.b2z b)).
    rewrite Nat2Z.inj_succ, Z.pow_succ_r by lia. lia.
Qed.

Lemma bits_of_z_of_bits l : forall acc, 0 <= acc -> bits_of (length l) (z_of_bits acc l) = l.
Proof.
  induction l as [|b l IH]; intros acc Ha; [reflexivity|].
  cbn [length bits_of z_of_bits]. f_equal.
  - (* the top bit *)
    rewrite z_of_bits_linear.
    pose proof (z_of_bits_range l 0 ltac:(lia)) as Hr.
    set (n := Z.of_nat (length l)) in *. set (x := z_of_bits 0 l) in *.
    assert (Hn : 0 <= n) by (subst n; lia).
    apply Z.b2z_inj. rewrite Z.testbit_spec' by lia.
    replace ((2 * acc + Z.b2z b) * 2 ^ n + x) with (x + (2 * acc + Z.b2z b) * 2 ^ n) by lia.
    rewrite Z.div_add by (pose proof (Z.pow_pos_nonneg 2 n); lia).
    rewrite Z.div_small by lia. rewrite Z.add_0_l.
    replace (2 * acc + Z.b2z b) with (Z.b2z b + acc * 2) by lia. rewrite Z.mod_add by lia.
    destruct b; reflexivity.
  - apply IH. destruct b; cbn [Z.b2z]; lia.
Qed.

Lemma enc_nbits_of_read n l : length l = Z.to_nat n -> 0 <= n ->
  enc_nbits n (z_of_bits 0 l) = Ok l.
Proof.
  intros Hl Hn. unfold enc_nbits.
  pose proof (z_of_bits_range l 0 ltac:(lia)) as Hr.
  rewrite Hl, Z2Nat.id in Hr by lia.
  destruct (z_of_bits 0 l <? 0) eqn:E1; [apply Z.ltb_lt in E1; lia|].
  assert (Hb : bit_length (z_of_bits 0 l) <= n).
  { unfold bit_length. destruct (z_of_bits 0 l =? 0) eqn:E0; [lia|]. apply Z.eqb_neq in E0.
    rewrite Z.abs_eq by lia. assert (Z.log2 (z_of_bits 0 l) < n); [|lia].
    apply Z.log2_lt_pow2; lia. }
  destruct (n <? bit_length (z_of_bits 0 l)) eqn:E2; [apply Z.ltb_lt in E2; lia|]. simpl.
  rewrite <- Hl, bits_of_z_of_bits by lia. reflexivity.
Qed.

(* ---- bytes ---- *)
Lemma write_byte_list_of_read k : forall l w, length l = (8 * k)%nat ->
  write_byte_list w (bytes_of_bits l) = write_bits w l /\ length (bytes_of_bits l) = k.
Proof.
  induction k; intros l w Hl.
  - destruct l; [|simpl in Hl; lia]. simpl. auto.
  - do 8 (destruct l as [|? l]; [simpl in Hl; lia|]).
    cbn [bytes_of_bits write_byte_list].
    assert (Hl' : length l = (8 * k)%nat) by (simpl in Hl; lia).
    rewrite (enc_nbits_of_read 8 [b; b0; b1; b2; b3; b4; b5; b6]) by (simpl; lia). cbn [rbind].
    change (b :: b0 :: b1 :: b2 :: b3 :: b4 :: b5 :: b6 :: l) with ([b; b0; b1; b2; b3; b4; b5; b6] ++ l).
    rewrite write_bits_app. destruct (write_bits w [b; b0; b1; b2; b3; b4; b5; b6]) as [w1|e]; cbn [rbind].
    + destruct (IHk l w1 Hl') as [E1 E2]. rewrite E1. split; auto. simpl. rewrite E2. reflexivity.
    + split; auto. simpl. f_equal. apply (IHk l w Hl').
Qed.

(* ---- exp-golomb ---- *)
Lemma read_uint_loop_inv fuel : forall acc r v r',
  read_uint_loop fuel acc r = Ok (v, r') -> 0 < acc ->
  exists bs, read_bits (length (interleave bs ++ [true])) r = Ok (interleave bs ++ [true], r') /\
             v = z_of_bits acc bs - 1.
Proof.
  induction fuel; cbn [read_uint_loop]; intros acc r v r' H Ha; [discriminate|].
  apply rbind_ok in H. destruct H as ([b r1] & H1 & H). destruct b.
  - inv H. exists []. simpl. rewrite H1. simpl. auto.
  - apply rbind_ok in H. destruct H as ([c r2] & H2 & H).
    destruct (IHfuel _ _ _ _ H) as (bs & Hr & Hv). { destruct c; cbn [Z.b2z]; lia. }
    exists (c :: bs). split; auto.
    cbn [interleave flat_map app length read_bits]. rewrite H1. cbn [rbind]. rewrite H2. cbn [rbind].
    unfold interleave in Hr. rewrite Hr. reflexivity.
Qed.

Lemma enc_uint_of_read bs : enc_uint (z_of_bits 1 bs - 1) = Ok (interleave bs ++ [true]).
Proof.
  pose proof (z_of_bits_range bs 1 ltac:(lia)) as Hr.
  set (n := Z.of_nat (length bs)) in *. pose proof (Z.pow_pos_nonneg 2 n ltac:(lia) ltac:(subst n; lia)) as Hp.
  unfold enc_uint. destruct (z_of_bits 1 bs - 1 <? 0) eqn:E; [apply Z.ltb_lt in E; lia|].
  replace (z_of_bits 1 bs - 1 + 1) with (z_of_bits 1 bs) by lia.
  assert (Hlog : Z.log2 (z_of_bits 1 bs) = n).
  { apply Z.log2_unique; [subst n; lia|]. replace (Z.succ n) with (n + 1) by lia.
    rewrite Z.pow_add_r by (subst n; lia). simpl (2 ^ 1). lia. }
  unfold bit_length. destruct (z_of_bits 1 bs =? 0) eqn:E0; [apply Z.eqb_eq in E0; lia|].
  rewrite Z.abs_eq by lia. rewrite Hlog. replace (n + 1 - 1) with n by lia.
  subst n. rewrite Nat2Z.id, bits_of_z_of_bits by lia. reflexivity.
Qed.

(* ---- all value primitives ---- *)
(* the primitive's length argument is not negative (a negative length reads nothing but cannot be
   written: exactly the vc2.py padding/auxiliary_data defect) *)
Definition kind_ok (k : kind) : Prop :=
  match k with
  | KNBits n | KUintLit n | KBitArr n | KBytes n => 0 <= n
  | _ => True
  end.

Lemma read_val_write_val k r v r' :
  kind_ok k -> read_val k r = Ok (v, r') ->
  exists X, bits r = X ++ bits r' /\
    forall out, write_val k v (wr_of r out) = Ok (wr_of r' (out ++ X)).
Proof.
  intros Hk H. destruct k; simpl in Hk; cbn [read_val] in H;
    apply rbind_ok in H; destruct H as ([x r1] & H1 & H); inv H.
  - (* bool *) apply read_bit_write_bit; auto.
  - (* nbits *) destruct (read_bits_write_bits _ _ _ _ H1) as (Hl & X & E & W). exists X. split; auto.
    intros out. cbn [write_val]. rewrite enc_nbits_of_read by auto. cbn [rbind]. apply W.
  - (* uint_lit *) destruct (read_bits_write_bits _ _ _ _ H1) as (Hl & X & E & W). exists X. split; auto.
    intros out. cbn [write_val]. rewrite enc_nbits_of_read by (auto; lia). cbn [rbind]. apply W.
  - (* bitarray *) destruct (read_bits_write_bits _ _ _ _ H1) as (Hl & X & E & W). exists X. split; auto.
    intros out. cbn [write_val]. unfold enc_bitarray, zlen. rewrite Hl, Z2Nat.id by lia.
    rewrite Z.ltb_irrefl, Z.sub_diag. simpl. rewrite app_nil_r. apply W.
  - (* bytes *) destruct (read_bits_write_bits _ _ _ _ H1) as (Hl & X & E & W). exists X. split; auto.
    intros out. cbn [write_val].
    assert (Hl8 : length x = (8 * Z.to_nat n)%nat) by (rewrite Hl; lia).
    destruct (write_byte_list_of_read (Z.to_nat n) x (wr_of r out) Hl8) as [E1 E2].
    unfold zlen. rewrite E2, Z2Nat.id by lia. rewrite Z.ltb_irrefl, Z.sub_diag, E1, W. reflexivity.
  - (* uint *) unfold read_uint in H1. destruct (read_uint_loop_inv _ _ _ _ _ H1 ltac:(lia)) as (bs & Hr & ->).
    destruct (read_bits_write_bits _ _ _ _ Hr) as (_ & X & E & W). exists X. split; auto.
    intros out. cbn [write_val]. rewrite enc_uint_of_read. cbn [rbind]. apply W.
  - (* sint *) unfold read_sint in H1. apply rbind_ok in H1. destruct H1 as ([u r2] & H1 & H2).
    unfold read_uint in H1. destruct (read_uint_loop_inv _ _ _ _ _ H1 ltac:(lia)) as (bs & Hr & ->).
    destruct (read_bits_write_bits _ _ _ _ Hr) as (_ & X1 & E1 & W1).
    pose proof (z_of_bits_range bs 1 ltac:(lia)) as Hrange.
    pose proof (Z.pow_pos_nonneg 2 (Z.of_nat (length bs)) ltac:(lia) ltac:(lia)) as Hp.
    destruct (z_of_bits 1 bs - 1 =? 0) eqn:E0.
    + inv H2. exists X1. split; auto. intros out. cbn [write_val]. unfold enc_sint.
      rewrite E0. apply Z.eqb_eq in E0. rewrite E0. simpl Z.abs.
      replace 0 with (z_of_bits 1 bs - 1) at 1 by lia. rewrite enc_uint_of_read. cbn [rbind].
      rewrite app_nil_r. apply W1.
    + apply Z.eqb_neq in E0. apply rbind_ok in H2. destruct H2 as ([sb r3] & H3 & H2). inv H2.
      destruct (read_bit_write_bit _ _ _ H3) as (X2 & E2 & W2).
      exists (X1 ++ X2). split. { rewrite E1, E2, app_assoc. reflexivity. }
      intros out. cbn [write_val]. unfold enc_sint.
      set (u := z_of_bits 1 bs - 1) in *.
      assert (Habs : Z.abs (if sb then - u else u) = u) by (destruct sb; lia).
      rewrite Habs. unfold u at 1. rewrite enc_uint_of_read. cbn [rbind].
      assert (Hz : ((if sb then - u else u) =? 0) = false) by (destruct sb; apply Z.eqb_neq; lia).
      rewrite Hz. assert (Hs : ((if sb then - u else u) <? 0) = sb).
      { destruct sb; [apply Z.ltb_lt|apply Z.ltb_ge]; lia. }
      rewrite Hs, write_bits_app, W1. cbn [rbind write_bits]. rewrite W2, app_assoc. reflexivity.
Qed.

(* if the serialiser finds at target t the value v the deserialiser has just read there, it writes
   exactly the bits the deserialiser consumed (X), leaving the writer where the reader is *)
Lemma ser_prim_reproduces D k t ss ss1 r v r' out :
  kind_ok k -> read_val k r = Ok (v, r') ->
  ser_get D t ss = Ok (v, ss1) -> sio ss1 = wr_of r out ->
  exists X, bits r = X ++ bits r' /\ ser_prim D k t ss = Ok (v, set_io ss1 (wr_of r' (out ++ X))).
Proof.
  intros Hk Hr Hg Hio. destruct (read_val_write_val k r v r' Hk Hr) as (X & E & W).
  exists X. split; auto. unfold ser_prim. rewrite Hg. cbn [rbind]. rewrite Hio, W. reflexivity.
Qed.

Definition bytes_bits (l : list Z) : list bool := flat_map (bits_of 8) l.
Definition root_fields (s : st) : fields := match root s with VC _ f => f | _ => [] end.

(* a padding data unit whose next_parse_offset is 5 (< 13) *)
Definition bad_unit : list Z := [66; 66; 67; 68; 48; 0; 0; 0; 5; 0; 0; 0; 0].

Definition is_ok_tt (r : res unit) : bool := match r with Ok _ => true | Err _ => false end.
Definition is_out_of_range {A} (r : res A) : bool := match r with Err EOutOfRange => true | _ => false end.
Fixpoint bits_eqb (a b : list bool) : bool :=
  match a, b with
  | [], [] => true
  | x :: a', y :: b' => Bool.eqb x y && bits_eqb a' b'
  | _, _ => false
  end.
Lemma bits_eqb_eq a : forall b, bits_eqb a b = true -> a = b.
Proof.
  induction a; destruct b; simpl; intros H; try discriminate; auto.
  apply andb_true_iff in H. destruct H as [H1 H2]. apply eqb_prop in H1. subst. f_equal. auto.
Qed.

Definition refuted_check : bool :=
  match run_des (unit_prog false) (bytes_bits bad_unit) with
  | Ok (_, s) => is_ok_tt (verify_complete s) && bits_eqb (bits (sio s)) [] &&
                 is_out_of_range (run_ser [] (unit_prog false) 0 (root_fields s))
  | Err _ => false
  end.
Lemma refuted_check_true : refuted_check = true.
Proof. vm_compute. reflexivity. Qed.

(* the un-clamped description (vc2.py before the fix): deserialises, cannot be serialised back *)
Lemma unclamped_padding_refuted :
  exists s, run_des (unit_prog false) (bytes_bits bad_unit) = Ok (tt, s) /\
            verify_complete s = Ok tt /\ bits (sio s) = [] /\
            run_ser [] (unit_prog false) 0 (root_fields s) = Err EOutOfRange.
Proof.
  pose proof refuted_check_true as H. unfold refuted_check in H.
  destruct (run_des (unit_prog false) (bytes_bits bad_unit)) as [[[] s]|]; [|discriminate].
  apply andb_true_iff in H. destruct H as [H H3]. apply andb_true_iff in H. destruct H as [H1 H2].
  exists s. split; auto. split. { destruct (verify_complete s) as [[]|]; [auto|discriminate]. }
  split. { apply bits_eqb_eq; auto. }
  destruct (run_ser [] (unit_prog false) 0 (root_fields s)) as [|[]]; try discriminate. reflexivity.
Qed.

Definition clamped_check : bool :=
  match run_des (unit_prog true) (bytes_bits bad_unit) with
  | Ok (_, s) => is_ok_tt (verify_complete s) &&
                 match run_ser [] (unit_prog true) 0 (root_fields s) with
                 | Ok (_, s') => is_ok_tt (verify_complete s') && bits_eqb (bits (sio s')) (bytes_bits bad_unit)
                 | Err _ => false
                 end
  | Err _ => false
  end.
(* the clamped description (the fix): the same unit round-trips *)
Lemma clamped_check_true : clamped_check = true.
Proof. vm_compute. reflexivity. Qed.
