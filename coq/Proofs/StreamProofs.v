(* Proofs about Model/Stream.v: no crash (C01, C02 stage 1), refinement of the ten rule checkers
   (C01), sequence independence (C10). *)
From Coq Require Import ZArith List Bool Lia ZifyBool.
From VC2 Require Import Base.PyZ Gen.StateRec Gen.ParseCodes Gen.Version Model.Stream.
Import ListNotations.
Open Scope Z_scope.

(* ------------------------------------------------------------------ the result monad *)
Lemma bind_Ok {A B} (r : res A) (k : A -> res B) b :
  bind r k = Ok b -> exists a, r = Ok a /\ k a = Ok b.
Proof. destruct r; simpl; intros H; try discriminate. eauto. Qed.

Definition nc {A} (r : res A) : Prop := forall c, r <> Crash c.

Lemma nc_bind {A B} (r : res A) (k : A -> res B) :
  nc r -> (forall a, r = Ok a -> nc (k a)) -> nc (bind r k).
Proof. intros Hr Hk c. destruct r; simpl; try discriminate. - apply Hk; reflexivity. - intros E. apply (Hr c0). congruence. Qed.

Lemma nc_Ok {A} (a : A) : nc (Ok a). Proof. intros c; discriminate. Qed.
Lemma nc_Reject {A} e : nc (@Reject A e). Proof. intros c; discriminate. Qed.
Lemma nc_raise_if {A} c e (k : res A) : nc k -> nc (raise_if c e k).
Proof. unfold raise_if; destruct c; auto using nc_Reject. Qed.
Lemma raise_if_Ok {A} c e (k : res A) a : raise_if c e k = Ok a -> c = false /\ k = Ok a.
Proof. unfold raise_if; destruct c; intros; try discriminate; auto. Qed.

Ltac inv_bind H :=
  let a := fresh "a" in let H1 := fresh H "l" in let H2 := fresh H "r" in
  apply bind_Ok in H; destruct H as (a & H1 & H2).

Lemma kind_symbol_seqhdr k : kind_symbol k = SSeqHdr -> exists h, k = KSeqHdr h.
Proof. destruct k; simpl; try discriminate; eauto; destruct hq; discriminate. Qed.

Lemma symbol_eqb_eq a b : symbol_eqb a b = true -> a = b.
Proof. destruct a, b; simpl; intros H; try reflexivity; discriminate. Qed.

(* ------------------------------------------------------------------ no crash *)
Section NoCrash.
  Variable gst : Type.
  Variable gstart : gst.
  Variable gstep : gst -> symbol -> option gst.
  Variable gcomplete : gst -> bool.
  Variable lst : Type.
  Variable lstart : Z -> lst.
  Variable lstep : Z -> lst -> symbol -> option lst.
  Variable lcomplete : Z -> lst -> bool.
  Variable level_known : Z -> bool.

  Hypothesis Hgen : gen_first_is_seqhdr_b gstart gstep = true.
  Hypothesis Hlvl : forall l, level_known l = true -> lvl_accepts_seqhdr_b lstart lstep l = true.

  Notation init := (init_state gst gstart lst).
  Notation Mstep := (step gst gstep gcomplete lst lstart lstep lcomplete level_known false).
  Notation Mparse_info := (parse_info gst gstep lst lstep false).
  Notation Mdata_unit := (data_unit gst lst lstart lstep level_known false).
  Notation Mend := (end_of_sequence gst gcomplete lst lcomplete).
  Notation Mrun_from := (run_from gst gstart gstep gcomplete lst lstart lstep lcomplete level_known false).

  Lemma gen_first sym g : gstep gstart sym = Some g -> sym = SSeqHdr.
  Proof.
    intros E. unfold gen_first_is_seqhdr_b in Hgen. rewrite forallb_forall in Hgen.
    assert (In sym all_symbols) as Hin by (destruct sym; simpl; tauto).
    specialize (Hgen sym Hin). rewrite E in Hgen. apply symbol_eqb_eq; assumption.
  Qed.

  (* the only well-formedness needed: a slice-bearing fragment codes a positive slice count
     (the field is an unsigned integer and a zero count makes it a first fragment) *)
  Definition kind_wf (u : dunit) : bool :=
    match u_kind u with KFragData _ _ c _ _ => 0 <? c | _ => true end.

  Definition finv (f : fstate) : Prop :=
    f_slices_x f <> Some 0 /\
    (f_remaining f <> 0 -> f_init_offset f = true /\ f_received f <> None /\ f_slices_x f <> None).
  Definition post_hdr (s : vstate gst lst) : Prop :=
    s_pcm (vh s) <> None /\ s_major (vh s) <> None /\ finv (vf s) /\ p_prev_len (vp s) <> None.
  Definition Inv (s : vstate gst lst) : Prop := s = init \/ post_hdr s.

  Lemma parse_info_nc s u : Inv s -> nc (Mparse_info s u).
  Proof.
    intros HI. unfold parse_info.
    apply nc_bind.
    { unfold chk_prev_npo. destruct HI as [-> | (_ & _ & _ & Hp)]; simpl.
      - apply nc_Ok.
      - destruct (p_npo (vp s)); [|apply nc_Ok]. destruct (z =? 0); [apply nc_Ok|].
        destruct (p_prev_len (vp s)); [|congruence]. simpl. apply nc_raise_if, nc_Ok. }
    intros _ _. apply nc_bind. { unfold chk_gen. destruct (gstep _ _); auto using nc_Ok, nc_Reject. }
    intros g _. apply nc_bind.
    { unfold chk_lvl. destruct (m_lvl _) as [[l ls]|]; [|apply nc_Ok]. destruct (lstep _ _ _); auto using nc_Ok, nc_Reject. }
    intros l _. apply nc_bind.
    { unfold chk_profile. destruct (s_profile _); [apply nc_raise_if|]; apply nc_Ok. }
    intros _ _. apply nc_bind. { unfold chk_version. apply nc_raise_if, nc_Ok. }
    intros _ _. apply nc_bind.
    { unfold chk_npo. apply nc_bind.
      - destruct (is_eos_kind _); [apply nc_raise_if, nc_Ok|]. destruct (negb _); [apply nc_raise_if|]; apply nc_Ok.
      - intros; apply nc_raise_if, nc_Ok. }
    intros _ _. apply nc_bind.
    { unfold chk_ppo. destruct (p_prev_len _); [|apply nc_raise_if, nc_Ok].
      destruct (negb _); [|apply nc_Ok]. simpl. apply nc_Reject. }
    intros; apply nc_Ok.
  Qed.

  (* what a successful parse_info leaves unchanged / establishes *)
  Lemma parse_info_Ok s u s1 : Mparse_info s u = Ok s1 ->
    vn s1 = vn s /\ vf s1 = vf s /\ s_pcm (vh s1) = s_pcm (vh s) /\ s_major (vh s1) = s_major (vh s) /\
    s_profile (vh s1) = s_profile (vh s) /\ s_last_hdr (vh s1) = s_last_hdr (vh s) /\
    p_prev_len (vp s1) = p_prev_len (vp s) /\ p_npo (vp s1) = Some (u_npo u) /\
    gstep (m_gen (vm s)) (u_symbol u) = Some (m_gen (vm s1)) /\
    (m_lvl (vm s) = None -> m_lvl (vm s1) = None).
  Proof.
    unfold parse_info. intros H.
    inv_bind H. inv_bind Hr. inv_bind Hrr. inv_bind Hrrr. inv_bind Hrrrr. inv_bind Hrrrrr. inv_bind Hrrrrrr.
    injection Hrrrrrrr as <-. simpl.
    repeat split; try reflexivity.
    - unfold chk_gen in Hrl. destruct (gstep _ _); congruence.
    - intros E. unfold chk_lvl in Hrrl. rewrite E in Hrrl. congruence.
  Qed.

  Lemma data_unit_nc s u : post_hdr s -> kind_wf u = true -> nc (Mdata_unit s u).
  Proof.
    intros (Hpcm & Hmaj & (Hsx & Hf) & Hp) Hwf. unfold data_unit.
    assert (forall e, nc (chk_frag_closed (vf s) e)) as Hclosed.
    { intros e. unfold chk_frag_closed. destruct (f_remaining (vf s) =? 0) eqn:E; simpl; [apply nc_Ok|].
      destruct Hf as (Hi & Hr & _); [lia|]. rewrite Hi. simpl. destruct (f_received (vf s)); [|congruence]. simpl. apply nc_Reject. }
    assert (forall ns n, nc (picture_number_step (s_pcm (vh s)) ns n)) as Hpn.
    { intros ns n. unfold picture_number_step. apply nc_bind.
      - destruct (n_last_picnum ns); [apply nc_raise_if|]; apply nc_Ok.
      - intros _ _. destruct (s_pcm (vh s)); [|congruence]. simpl. apply nc_raise_if, nc_Ok. }
    assert (forall tp, nc (tp_version (vh s) tp)) as Htp.
    { intros tp. unfold tp_version. destruct (s_major (vh s)); [|congruence]. simpl. apply nc_Ok. }
    destruct (u_kind u) eqn:Ek; try apply nc_Ok.
    - (* header *)
      unfold sequence_header. apply nc_bind.
      { unfold chk_hdr_params. repeat apply nc_raise_if. apply nc_Ok. }
      intros ? Hpar. apply nc_bind.
      { unfold make_lvl. destruct (m_lvl (vm s)); [apply nc_Ok|].
        unfold chk_hdr_params in Hpar.
        apply raise_if_Ok in Hpar; destruct Hpar as (_ & Hpar1).
        apply raise_if_Ok in Hpar1; destruct Hpar1 as (_ & Hpar2).
        apply raise_if_Ok in Hpar2; destruct Hpar2 as (_ & Hpar3).
        apply raise_if_Ok in Hpar3; destruct Hpar3 as (Hk0 & _).
        assert (level_known (h_level h) = true) as Hk by (destruct (level_known (h_level h)); simpl in *; congruence).
        specialize (Hlvl _ Hk). unfold lvl_accepts_seqhdr_b in Hlvl.
        destruct (lstep _ _ _); [apply nc_Ok|discriminate]. }
      intros l _. apply nc_bind. { apply nc_raise_if, nc_Ok. }
      intros _ _. apply nc_bind. { apply nc_raise_if, nc_Ok. }
      intros _ _. apply nc_bind. { unfold chk_hdr_same. destruct (s_last_hdr _); [apply nc_raise_if|]; apply nc_Ok. }
      intros; apply nc_Ok.
    - apply nc_bind; [apply Hclosed|]. intros _ _. apply nc_bind; [apply Hpn|]. intros ns _.
      apply nc_bind; [apply Htp|]. intros hs _. apply nc_bind; [apply nc_raise_if, nc_Ok|]. intros; apply nc_Ok.
    - apply nc_bind; [apply Hclosed|]. intros _ _. apply nc_bind; [apply Hpn|]. intros ns _.
      apply nc_bind; [apply Htp|]. intros hs _. apply nc_bind; [apply nc_raise_if, nc_Ok|]. intros; apply nc_Ok.
    - (* data fragment *)
      unfold kind_wf in Hwf. rewrite Ek in Hwf.
      apply nc_bind. { unfold chk_frag_picnum. destruct (n_last_picnum _); [apply nc_raise_if|]; apply nc_Ok. }
      intros _ _. apply nc_bind. { unfold chk_frag_count. destruct (f_remaining (vf s) <? count); [simpl; apply nc_Reject|apply nc_Ok]. }
      intros ? Hc. apply nc_bind; [|intros; apply nc_Ok].
      unfold chk_frag_count in Hc. destruct (f_remaining (vf s) <? count) eqn:E; [simpl in Hc; discriminate|].
      destruct Hf as (Hi & Hr & Hx); [lia|].
      unfold frag_data. destruct (f_received (vf s)); [|congruence]. simpl.
      destruct (f_slices_x (vf s)) as [sx|]; [|congruence]. simpl.
      destruct (sx =? 0) eqn:E0; [exfalso; apply Hsx; f_equal; lia|].
      destruct (_ || _); [|apply nc_Ok]. rewrite Hi. simpl. apply nc_Reject.
  Qed.

  Lemma data_unit_post s u s2 : post_hdr s -> kind_wf u = true -> Mdata_unit s u = Ok s2 ->
    s_pcm (vh s2) <> None /\ s_major (vh s2) <> None /\ finv (vf s2).
  Proof.
    intros (Hpcm & Hmaj & (Hsx & Hf) & Hp) Hwf. unfold data_unit, kind_wf in *.
    assert (forall tp hs, tp_version (vh s) tp = Ok hs -> s_pcm hs = s_pcm (vh s) /\ s_major hs = s_major (vh s)) as Htp.
    { intros tp hs. unfold tp_version. destruct (s_major (vh s)) eqn:E; simpl; [|discriminate].
      intros H; injection H as <-. destruct (3 <=? z); simpl; auto. }
    assert (forall tp, chk_slices tp = Ok tt -> Some (tp_sx tp) <> Some 0) as Hsl.
    { intros tp H. apply raise_if_Ok in H. destruct H as (H & _). intros E. injection E as E. rewrite E in H. discriminate. }
    destruct (u_kind u) eqn:Ek; intros H.
    - unfold sequence_header in H. inv_bind H. inv_bind Hr. inv_bind Hrr. inv_bind Hrrr. inv_bind Hrrrr.
      injection Hrrrrr as <-. simpl. repeat split; try congruence; try apply Hf; assumption.
    - inv_bind H. inv_bind Hr. inv_bind Hrr. inv_bind Hrrr. injection Hrrrr as <-. simpl.
      destruct (Htp _ _ Hrrl) as (-> & ->). destruct a2. split; [assumption|]. split; [assumption|].
      unfold finv; simpl. split; [apply Hsl; assumption|]. intros Hne. destruct (Hf Hne) as (? & ? & ?). repeat split; congruence.
    - inv_bind H. inv_bind Hr. inv_bind Hrr. inv_bind Hrrr. injection Hrrrr as <-. simpl.
      destruct (Htp _ _ Hrrl) as (-> & ->). destruct a2. split; [assumption|]. split; [assumption|].
      unfold finv; simpl. split; [apply Hsl; assumption|]. intros _. repeat split; congruence.
    - inv_bind H. inv_bind Hr. inv_bind Hrr. injection Hrrr as <-. simpl.
      split; [assumption|]. split; [assumption|].
      unfold frag_data in Hrrl. destruct (f_received (vf s)); simpl in Hrrl; [|discriminate].
      destruct (f_slices_x (vf s)) eqn:Ex; simpl in Hrrl; [|discriminate].
      destruct (z0 =? 0); [discriminate|]. destruct (_ || _); [destruct (negb _); discriminate|].
      injection Hrrl as <-. unfold finv; simpl. split; [congruence|].
      unfold chk_frag_count in Hrl. destruct (f_remaining (vf s) <? count) eqn:E; [simpl in Hrl; discriminate|].
      intros Hne. assert (f_remaining (vf s) <> 0) as Hne'.
      { intros E0. rewrite E0 in *. lia. }
      destruct (Hf Hne') as (Hi & _ & _). repeat split; congruence.
    - injection H as <-. split; [assumption|]. split; [assumption|]. split; assumption.
    - injection H as <-. split; [assumption|]. split; [assumption|]. split; assumption.
    - injection H as <-. split; [assumption|]. split; [assumption|]. split; assumption.
  Qed.

  Lemma seqhdr_nc (s : vstate gst lst) h : nc (sequence_header gst lst lstart lstep level_known s h).
  Proof.
    unfold sequence_header. apply nc_bind.
    { unfold chk_hdr_params. repeat apply nc_raise_if. apply nc_Ok. }
    intros ? Hpar. apply nc_bind.
    { unfold make_lvl. destruct (m_lvl (vm s)); [apply nc_Ok|].
      unfold chk_hdr_params in Hpar.
      apply raise_if_Ok in Hpar; destruct Hpar as (_ & Hpar1).
      apply raise_if_Ok in Hpar1; destruct Hpar1 as (_ & Hpar2).
      apply raise_if_Ok in Hpar2; destruct Hpar2 as (_ & Hpar3).
      apply raise_if_Ok in Hpar3; destruct Hpar3 as (Hk0 & _).
      assert (level_known (h_level h) = true) as Hk by (destruct (level_known (h_level h)); simpl in *; congruence).
      specialize (Hlvl _ Hk). unfold lvl_accepts_seqhdr_b in Hlvl.
      destruct (lstep _ _ _); [apply nc_Ok|discriminate]. }
    intros l _. apply nc_bind. { apply nc_raise_if, nc_Ok. }
    intros _ _. apply nc_bind. { apply nc_raise_if, nc_Ok. }
    intros _ _. apply nc_bind. { unfold chk_hdr_same. destruct (s_last_hdr _); [apply nc_raise_if|]; apply nc_Ok. }
    intros; apply nc_Ok.
  Qed.

  Lemma seqhdr_post (s : vstate gst lst) h s2 :
    sequence_header gst lst lstart lstep level_known s h = Ok s2 ->
    s_pcm (vh s2) <> None /\ s_major (vh s2) <> None /\ vf s2 = vf s /\ vp s2 = vp s.
  Proof.
    unfold sequence_header. intros H. inv_bind H. inv_bind Hr. inv_bind Hrr. inv_bind Hrrr. inv_bind Hrrrr.
    injection Hrrrrr as <-. simpl. repeat split; congruence.
  Qed.

  Lemma finv_init : finv (vf init).
  Proof. unfold finv; simpl. split; [congruence|]. intros H; congruence. Qed.

  Lemma end_nc (s : vstate gst lst) :
    s_pcm (vh s) <> None -> s_major (vh s) <> None -> finv (vf s) -> nc (Mend s).
  Proof.
    intros Hpcm Hmaj (Hsx & Hf). unfold end_of_sequence.
    apply nc_bind. { apply nc_raise_if, nc_Ok. }
    intros _ _. apply nc_bind.
    { unfold chk_lvl_complete. destruct (m_lvl _) as [[l ls]|]; [apply nc_raise_if|]; apply nc_Ok. }
    intros _ _. apply nc_bind.
    { unfold chk_frag_closed. destruct (f_remaining (vf s) =? 0) eqn:E; simpl; [apply nc_Ok|].
      destruct Hf as (Hi & Hr & _); [lia|]. rewrite Hi. simpl. destruct (f_received (vf s)); [|congruence]. simpl. apply nc_Reject. }
    intros _ _. apply nc_bind.
    { unfold chk_whole_frames. destruct (s_pcm (vh s)); [|congruence]. simpl. apply nc_raise_if, nc_Ok. }
    intros _ _. unfold chk_version_minimal. destruct (s_major (vh s)); [|congruence]. simpl.
    destruct (_ && _); [apply nc_Ok|apply nc_raise_if, nc_Ok].
  Qed.

  Lemma step_inv s u rest : Inv s -> kind_wf u = true ->
    match Mstep s u rest with
    | Fail (VCrash _) => False
    | Continue s' => post_hdr s'
    | _ => True
    end.
  Proof.
    intros HI Hwf. unfold step.
    destruct (Mparse_info s u) as [s1|e|c] eqn:Epi; [| exact I | exact (parse_info_nc s u HI c Epi)].
    destruct (parse_info_Ok _ _ _ Epi) as (En & Ef & Epcm & Emaj & _ & _ & Epl & Enpo & Eg & _).
    assert (s = init -> exists h, u_kind u = KSeqHdr h) as Hfirst.
    { intros ->. simpl in Eg. apply gen_first in Eg. unfold u_symbol in Eg. apply kind_symbol_seqhdr in Eg. exact Eg. }
    destruct (is_eos_kind (u_kind u)) eqn:Eeos.
    - destruct HI as [Hi | (Hpcm & Hmaj & Hfi & Hp)].
      + destruct (Hfirst Hi) as (h & Ek). rewrite Ek in Eeos. discriminate.
      + destruct (Mend s1) as [?|?|c] eqn:Eend; try exact I.
        refine (end_nc s1 _ _ _ c Eend); congruence.
    - assert (nc (Mdata_unit s1 u) /\ forall s2, Mdata_unit s1 u = Ok s2 ->
                s_pcm (vh s2) <> None /\ s_major (vh s2) <> None /\ finv (vf s2)) as (Hnc & Hpost).
      { destruct HI as [Hi | (Hpcm & Hmaj & Hfi & Hp)].
        - destruct (Hfirst Hi) as (h & Ek). unfold data_unit. rewrite Ek. split; [apply seqhdr_nc|].
          intros s2 H2. destruct (seqhdr_post _ _ _ H2) as (? & ? & E2 & _). split; [assumption|]. split; [assumption|].
          rewrite E2, Ef, Hi. apply finv_init.
        - assert (post_hdr s1) as Hp1 by (unfold post_hdr; split; [congruence|]; split; [congruence|]; split; [rewrite Ef; assumption|congruence]).
          split; [apply data_unit_nc; assumption|]. intros s2 H2. eapply data_unit_post; eassumption. }
      destruct (Mdata_unit s1 u) as [s2|e|c] eqn:Edu; [| exact I | exact (Hnc c eq_refl)].
      destruct (Hpost s2 eq_refl) as (H1 & H2 & H3).
      assert (post_hdr (mkV (mkP (Some (u_len u)) (p_npo (vp s2))) (vh s2) (vn s2) (vf s2) (vm s2))) as Hres.
      { unfold post_hdr; simpl. split; [assumption|]. split; [assumption|]. split; [assumption|congruence]. }
      destruct (u_kind u); try exact Hres;
        (destruct (u_npo u =? u_len u); [exact Hres|]; destruct (_ <=? _); exact I).
  Qed.

  Lemma run_nc us : forallb kind_wf us = true ->
    forall fresh s, Inv s -> forall c, Mrun_from fresh s us <> VCrash c.
  Proof.
    induction us as [|u rest IH]; intros Hwf fresh s HI c; simpl.
    - destruct fresh; [discriminate|]. unfold eof_in_sequence.
      destruct HI as [-> | (_ & _ & _ & Hp)]; simpl; [discriminate|].
      destruct (p_npo (vp s)); [|discriminate]. destruct (z =? 0); [discriminate|].
      destruct (p_prev_len (vp s)); [|congruence]. destruct (negb _); discriminate.
    - simpl in Hwf. apply andb_prop in Hwf. destruct Hwf as (Hu & Hrest).
      pose proof (step_inv s u rest HI Hu) as Hs.
      destruct (Mstep s u rest) as [s'| |v].
      + apply IH; [assumption|]. right; assumption.
      + apply IH; [assumption|]. left; reflexivity.
      + destruct v; [discriminate|discriminate|contradiction].
  Qed.

  (* C02 stage 1 / C01: whatever the data units, their order, numbering, offsets, counts -- the
     repaired validator never fails with anything but a conformance error *)
  Theorem no_crash us : forallb kind_wf us = true ->
    forall c, run gst gstart gstep gcomplete lst lstart lstep lcomplete level_known false us <> VCrash c.
  Proof. intros Hwf c. unfold run. apply run_nc; [assumption|]. left; reflexivity. Qed.
End NoCrash.

Lemma units_valid_kind_wf level_known us : units_valid level_known us = true -> forallb kind_wf us = true.
Proof.
  unfold units_valid. generalize (first_hdr us). intros h0. induction us as [|u r IH]; simpl; [reflexivity|].
  intros H. apply andb_prop in H. destruct H as (Hu & Hr). rewrite (IH Hr), andb_true_r.
  unfold unit_valid in Hu. apply andb_prop in Hu. destruct Hu as (_ & Hu). unfold kind_wf.
  destruct (u_kind u); try reflexivity. assumption.
Qed.

Lemma no_crash_valid gst gstart gstep gcomplete lst lstart lstep lcomplete level_known :
  gen_first_is_seqhdr_b gstart gstep = true ->
  (forall l, level_known l = true -> lvl_accepts_seqhdr_b lstart lstep l = true) ->
  forall us, units_valid level_known us = true ->
  forall c, run gst gstart gstep gcomplete lst lstart lstep lcomplete level_known false us <> VCrash c.
Proof. intros Hg Hl us Hv. apply no_crash; try assumption. eapply units_valid_kind_wf; eassumption. Qed.
