(* Lemmas about Model/Compare.v (vc2-picture-compare decisions). *)
From Coq Require Import ZArith List Bool Lia ZifyBool.
From VC2 Require Import Base.PyZ Gen.VC2Math Model.FileFormat Model.Compare Proofs.FileFormatProofs.
Import ListNotations.
Open Scope Z_scope.
Ltac Zify.zify_post_hook ::= Z.to_euclidean_division_equations.

(* ---- metadata equality --------------------------------------------------------------------- *)

Lemma zlist_eq_spec : forall a b, zlist_eq a b = true <-> a = b.
Proof.
  induction a as [|x a IH]; intros [|y b]; cbn [zlist_eq]; split; intros H;
    try reflexivity; try discriminate.
  - apply andb_true_iff in H as [H1 H2]. apply Z.eqb_eq in H1. apply IH in H2. now subst.
  - inversion H; subst. apply andb_true_iff. split; [apply Z.eqb_refl | now apply IH].
Qed.

Lemma format_eqb_spec : forall f g, format_eqb f g = true <-> f = g.
Proof.
  intros [a1 a2 a3 a4 a5 a6] [b1 b2 b3 b4 b5 b6]. unfold format_eqb.
  cbn [frame_width frame_height cdf_index luma_excursion color_diff_excursion other_params].
  rewrite !andb_true_iff, !Z.eqb_eq, zlist_eq_spec.
  split; [intros (((((H1 & H2) & H3) & H4) & H5) & H6); now subst
         | intros H; inversion H; subst; auto 10].
Qed.

Lemma metadata_eq : forall a b,
  a = b <-> (format_eqb (m_format a) (m_format b) = true /\ m_pcm a = m_pcm b /\ m_picnum a = m_picnum b).
Proof.
  intros [fa pa na] [fb pb nb]. cbn [m_format m_pcm m_picnum]. rewrite format_eqb_spec.
  split; [intros H; inversion H; auto | intros (H1 & H2 & H3); now subst].
Qed.

(* ---- deltas, counts, sum of squares -------------------------------------------------------- *)

Definition all_zero (ds : list Z) : Prop := Forall (fun d => d = 0) ds.

Lemma fold_squares_ge : forall ds s, s <= fold_left (fun s d => s + d * d) ds s.
Proof.
  induction ds as [|d ds IH]; intros s; cbn [fold_left]; [lia|].
  specialize (IH (s + d * d)). nia.
Qed.

Lemma fold_squares_eq : forall ds s, fold_left (fun s d => s + d * d) ds s = s <-> all_zero ds.
Proof.
  induction ds as [|d ds IH]; intros s; cbn [fold_left].
  - split; [constructor | reflexivity].
  - pose proof (fold_squares_ge ds (s + d * d)) as Hge. split; intros H.
    + assert (Hd : d = 0) by nia. subst d. constructor; [reflexivity|].
      apply (IH (s + 0 * 0)). lia.
    + inversion H as [|? ? Hd Hr]; subst. apply (IH (s + 0 * 0)) in Hr. lia.
Qed.

Lemma sum_squares_zero : forall ds, sum_squares ds = 0 <-> all_zero ds.
Proof. intros ds. unfold sum_squares. apply fold_squares_eq. Qed.

Lemma count_nonzero_nonneg : forall ds, 0 <= count_nonzero ds.
Proof. intros. unfold count_nonzero. lia. Qed.

Lemma count_nonzero_zero : forall ds, count_nonzero ds = 0 <-> all_zero ds.
Proof.
  unfold count_nonzero. induction ds as [|d ds IH]; cbn [filter].
  - split; [constructor | reflexivity].
  - destruct (d =? 0) eqn:E; cbn [negb].
    + rewrite IH. split; intros H; [constructor; [lia | assumption] | now inversion H].
    + cbn [length]. split; intros H; [lia | inversion H; lia].
Qed.

(* psnr-is-None and count_nonzero agree (for a non-empty component) *)
Lemma psnr_none_iff_count : forall ds, ds <> [] -> (psnr_is_none ds = true <-> count_nonzero ds = 0).
Proof.
  intros ds Hne. rewrite count_nonzero_zero, <- sum_squares_zero.
  unfold psnr_is_none. destruct ds; [congruence|]. lia.
Qed.

Lemma psnr_none_nonempty : forall ds, psnr_is_none ds = true -> ds <> [] /\ all_zero ds.
Proof.
  intros ds H. unfold psnr_is_none in H. destruct ds as [|d ds]; [discriminate|].
  split; [discriminate|]. apply sum_squares_zero. lia.
Qed.

(* number of positions at which two sample lists differ *)
Fixpoint differing (a b : list Z) : Z :=
  match a, b with
  | x :: a', y :: b' => (if x =? y then 0 else 1) + differing a' b'
  | _, _ => 0
  end.

Lemma count_nonzero_cons : forall d ds,
  count_nonzero (d :: ds) = (if d =? 0 then 0 else 1) + count_nonzero ds.
Proof.
  intros d ds. unfold count_nonzero. cbn [filter]. destruct (d =? 0); cbn [negb length]; lia.
Qed.

Lemma count_deltas_differing : forall a b, count_nonzero (deltas a b) = differing a b.
Proof.
  induction a as [|x a IH]; intros [|y b]; cbn [deltas differing]; try reflexivity.
  rewrite count_nonzero_cons, IH.
  destruct (x =? y) eqn:E1; destruct (y - x =? 0) eqn:E2; lia.
Qed.

Lemma deltas_length : forall a b, length a = length b -> length (deltas a b) = length a.
Proof.
  induction a as [|x a IH]; intros [|y b] H; cbn [deltas length] in *; try lia.
  rewrite IH; lia.
Qed.

Lemma deltas_zero_iff : forall a b, length a = length b -> (all_zero (deltas a b) <-> a = b).
Proof.
  induction a as [|x a IH]; intros [|y b] H; cbn [deltas length] in *; try lia.
  - split; [reflexivity | constructor].
  - split; intros H1.
    + inversion H1 as [|? ? Hd Hr]; subst. apply IH in Hr; [|lia]. subst. f_equal. lia.
    + inversion H1; subst. constructor; [lia|]. apply IH; [lia | reflexivity].
Qed.

Lemma differing_zero_iff : forall a b, length a = length b -> (differing a b = 0 <-> a = b).
Proof.
  intros a b H. rewrite <- count_deltas_differing, count_nonzero_zero. now apply deltas_zero_iff.
Qed.

Lemma differing_bounds : forall a b, 0 <= differing a b <= Z.of_nat (length a).
Proof.
  induction a as [|x a IH]; intros [|y b]; cbn [differing length]; try lia.
  specialize (IH b). destruct (x =? y); lia.
Qed.

(* ---- shapes of pictures read ----------------------------------------------------------------- *)

Definition shape_ok (ds : list dims) (pic : list (list Z)) : Prop :=
  Forall2 (fun d c => length c = num_samples d) ds pic.

Lemma read_picture_shape : forall ds bytes pic rest,
  read_picture ds bytes = Some (pic, rest) -> shape_ok ds pic.
Proof.
  induction ds as [|d ds IH]; intros bytes pic rest H; cbn [read_picture] in H.
  - inversion H; subst. constructor.
  - destruct (read_samples _ _ _) as [[c r]|] eqn:E1; [|discriminate].
    destruct (read_picture ds r) as [[cs r']|] eqn:E2; [|discriminate].
    inversion H; subst. constructor; [eapply read_samples_length; eauto | eapply IH; eauto].
Qed.

Lemma read_whole_shape : forall m bytes pic, read_whole m bytes = Some pic ->
  shape_ok (compute_dimensions_and_depths (m_format m) (m_pcm m)) pic.
Proof.
  intros m bytes pic H. unfold read_whole in H.
  destruct (read_picture _ _) as [[p r]|] eqn:E; [|discriminate].
  destruct r; [|discriminate]. inversion H; subst. eapply read_picture_shape; eauto.
Qed.

Definition comps_nonempty (ds : list dims) : Prop := Forall (fun d => (0 < num_samples d)%nat) ds.

(* per-component differing counts of two pictures *)
Fixpoint picture_differing (pa pb : list (list Z)) : list Z :=
  match pa, pb with
  | a :: pa', b :: pb' => differing a b :: picture_differing pa' pb'
  | _, _ => []
  end.

Lemma counts_are_differing : forall pa pb,
  map count_nonzero (all_deltas pa pb) = picture_differing pa pb.
Proof.
  induction pa as [|a pa IH]; intros [|b pb]; cbn [all_deltas map picture_differing]; try reflexivity.
  now rewrite count_deltas_differing, IH.
Qed.

Lemma identical_iff_equal : forall ds pa pb, comps_nonempty ds -> shape_ok ds pa -> shape_ok ds pb ->
  (forallb psnr_is_none (all_deltas pa pb) = true <-> pa = pb).
Proof.
  induction ds as [|d ds IH]; intros pa pb Hne Ha Hb.
  - inversion Ha; inversion Hb; subst. cbn. split; reflexivity.
  - inversion Ha as [|? ca ? pa' Hla Hra]; inversion Hb as [|? cb ? pb' Hlb Hrb]; subst.
    inversion Hne as [|? ? Hd Hds]; subst.
    cbn [all_deltas forallb]. rewrite andb_true_iff.
    assert (Hl : length ca = length cb) by lia.
    assert (Hn : deltas ca cb <> []).
    { intros E. pose proof (deltas_length ca cb Hl) as HL. rewrite E in HL. cbn in HL. lia. }
    rewrite psnr_none_iff_count by assumption.
    rewrite count_nonzero_zero, deltas_zero_iff by assumption.
    rewrite IH by assumption.
    split; [intros [E1 E2]; now subst | intros E; inversion E; auto].
Qed.

(* without the non-emptiness hypothesis one direction still holds *)
Lemma identical_implies_equal : forall ds pa pb, shape_ok ds pa -> shape_ok ds pb ->
  forallb psnr_is_none (all_deltas pa pb) = true -> pa = pb.
Proof.
  induction ds as [|d ds IH]; intros pa pb Ha Hb H.
  - inversion Ha; inversion Hb; subst. reflexivity.
  - inversion Ha as [|? ca ? pa' Hla Hra]; inversion Hb as [|? cb ? pb' Hlb Hrb]; subst.
    cbn [all_deltas forallb] in H. apply andb_true_iff in H as [E1 E2].
    apply psnr_none_nonempty in E1 as [_ E1].
    apply deltas_zero_iff in E1; [|lia]. subst. f_equal. eapply IH; eauto.
Qed.

(* ---- compare_pictures -------------------------------------------------------------------------- *)

Lemma compare_missing_first : forall b fa fb,
  compare_pictures None (Some b) fa fb = compare_pictures (Some b) (Some b) fa fb.
Proof. reflexivity. Qed.

Lemma compare_missing_second : forall a fa fb,
  compare_pictures (Some a) None fa fb = compare_pictures (Some a) (Some a) fa fb.
Proof. reflexivity. Qed.

Lemma compare_missing_both : forall fa fb, compare_pictures None None fa fb = Exit 100.
Proof. reflexivity. Qed.

Lemma compare_rc_values : forall ma mb fa fb,
  In (rc_of (compare_pictures ma mb fa fb)) [0; 1; 2; 3; 4; 100; 101; 102].
Proof.
  intros ma mb fa fb. unfold compare_pictures.
  destruct (resolve_metadata ma mb) as [[a b]|]; [|cbn; tauto].
  destruct fa as [ba|]; [|cbn; tauto].
  destruct (read_whole a ba); [|cbn; tauto].
  destruct fb as [bb|]; [|cbn; tauto].
  destruct (read_whole b bb); [|cbn; tauto].
  destruct (negb (format_eqb _ _)); [cbn; tauto|].
  destruct (negb (m_pcm a =? m_pcm b)); [cbn; tauto|].
  destruct (negb (m_picnum a =? m_picnum b)); [cbn; tauto|].
  unfold measure_differences. destruct (forallb _ _); cbn; tauto.
Qed.

(* the general form: what compare_pictures answers once both files are readable *)
Lemma compare_readable : forall a b fa fb pa pb,
  read_whole a fa = Some pa -> read_whole b fb = Some pb ->
  compare_pictures (Some a) (Some b) (Some fa) (Some fb) =
    if negb (format_eqb (m_format a) (m_format b)) then Compared 1 []
    else if negb (m_pcm a =? m_pcm b) then Compared 2 []
    else if negb (m_picnum a =? m_picnum b) then Compared 3 []
    else Compared (if forallb psnr_is_none (all_deltas pa pb) then 0 else 4) (picture_differing pa pb).
Proof.
  intros a b fa fb pa pb Ha Hb. unfold compare_pictures. cbn [resolve_metadata].
  rewrite Ha, Hb. unfold measure_differences. now rewrite counts_are_differing.
Qed.

Lemma compare_identical_iff : forall a b fa fb pa pb,
  read_whole a fa = Some pa -> read_whole b fb = Some pb ->
  comps_nonempty (compute_dimensions_and_depths (m_format a) (m_pcm a)) ->
  (rc_of (compare_pictures (Some a) (Some b) (Some fa) (Some fb)) = 0 <-> a = b /\ pa = pb).
Proof.
  intros a b fa fb pa pb Ha Hb Hne. rewrite (compare_readable _ _ _ _ _ _ Ha Hb).
  rewrite metadata_eq.
  destruct (format_eqb (m_format a) (m_format b)) eqn:Ef; cbn [negb];
    [|cbn [rc_of]; split; [lia | intros [[? _] _]; discriminate]].
  destruct (m_pcm a =? m_pcm b) eqn:Ep; cbn [negb];
    [|cbn [rc_of]; split; [lia | intros [(_ & ? & _) _]; lia]].
  destruct (m_picnum a =? m_picnum b) eqn:En; cbn [negb];
    [|cbn [rc_of]; split; [lia | intros [(_ & _ & ?) _]; lia]].
  cbn [rc_of].
  apply format_eqb_spec in Ef. apply Z.eqb_eq in Ep.
  pose proof (read_whole_shape _ _ _ Ha) as Sa. pose proof (read_whole_shape _ _ _ Hb) as Sb.
  rewrite <- Ef, <- Ep in Sb.
  pose proof (identical_iff_equal _ pa pb Hne Sa Sb) as Hiff.
  destruct (forallb psnr_is_none (all_deltas pa pb)).
  - split; [intros _; split; [split; [reflexivity | lia] | now apply Hiff] | reflexivity].
  - split; [lia | intros [_ H]; apply Hiff in H; discriminate].
Qed.

(* rc = 0 implies equality even when some component has no samples *)
Lemma compare_zero_sound : forall ma mb fa fb,
  rc_of (compare_pictures ma mb fa fb) = 0 ->
  exists a b ba bb p, resolve_metadata ma mb = Some (a, b) /\ a = b /\
    fa = Some ba /\ fb = Some bb /\ read_whole a ba = Some p /\ read_whole b bb = Some p.
Proof.
  intros ma mb fa fb H. unfold compare_pictures in H.
  destruct (resolve_metadata ma mb) as [[a b]|]; [|cbn in H; lia].
  destruct fa as [ba|]; [|cbn in H; lia].
  destruct (read_whole a ba) as [pa|] eqn:Ea; [|cbn in H; lia].
  destruct fb as [bb|]; [|cbn in H; lia].
  destruct (read_whole b bb) as [pb|] eqn:Eb; [|cbn in H; lia].
  destruct (format_eqb (m_format a) (m_format b)) eqn:Ef; cbn [negb] in H; [|cbn in H; lia].
  destruct (m_pcm a =? m_pcm b) eqn:Ep; cbn [negb] in H; [|cbn in H; lia].
  destruct (m_picnum a =? m_picnum b) eqn:En; cbn [negb] in H; [|cbn in H; lia].
  unfold measure_differences in H.
  destruct (forallb psnr_is_none (all_deltas pa pb)) eqn:Ei; cbn [rc_of] in H; [|lia].
  assert (Hab : a = b) by (apply metadata_eq; repeat split; [assumption | lia | lia]).
  pose proof (read_whole_shape _ _ _ Ea) as Sa. pose proof (read_whole_shape _ _ _ Eb) as Sb.
  rewrite <- Hab in Sb.
  pose proof (identical_implies_equal _ _ _ Sa Sb Ei). subst pb.
  exists a, b, ba, bb, pa. auto 10.
Qed.

(* the reported counts are the numbers of differing positions, and the verdict agrees with them *)
Lemma compare_counts : forall a b fa fb rc counts,
  compare_pictures (Some a) (Some b) (Some fa) (Some fb) = Compared rc counts ->
  rc = 0 \/ rc = 4 ->
  exists pa pb, read_whole a fa = Some pa /\ read_whole b fb = Some pb /\
    m_format a = m_format b /\ m_pcm a = m_pcm b /\ m_picnum a = m_picnum b /\
    counts = picture_differing pa pb /\
    (rc = 0 -> Forall (fun c => c = 0) counts) /\
    (comps_nonempty (compute_dimensions_and_depths (m_format a) (m_pcm a)) ->
     rc = 4 -> Exists (fun c => 0 < c) counts).
Proof.
  intros a b fa fb rc counts H Hrc. unfold compare_pictures in H. cbn [resolve_metadata] in H.
  destruct (read_whole a fa) as [pa|] eqn:Ea; [|discriminate].
  destruct (read_whole b fb) as [pb|] eqn:Eb; [|discriminate].
  destruct (format_eqb (m_format a) (m_format b)) eqn:Ef; cbn [negb] in H; [|inversion H; lia].
  destruct (m_pcm a =? m_pcm b) eqn:Ep; cbn [negb] in H; [|inversion H; lia].
  destruct (m_picnum a =? m_picnum b) eqn:En; cbn [negb] in H; [|inversion H; lia].
  unfold measure_differences in H. rewrite counts_are_differing in H.
  apply format_eqb_spec in Ef. apply Z.eqb_eq in Ep. apply Z.eqb_eq in En.
  pose proof (read_whole_shape _ _ _ Ea) as Sa. pose proof (read_whole_shape _ _ _ Eb) as Sb.
  rewrite <- Ef, <- Ep in Sb.
  inversion H as [[Hr Hc]]. clear H. subst counts.
  exists pa, pb. repeat (split; [first [assumption | reflexivity]|]).
  set (ds := compute_dimensions_and_depths (m_format a) (m_pcm a)) in *.
  clearbody ds. clear Ea Eb.
  split.
  - intros H0. destruct (forallb psnr_is_none (all_deltas pa pb)) eqn:Ei; [|lia].
    apply (identical_implies_equal _ _ _ Sa Sb) in Ei. subst pb.
    clear - Sa. revert ds Sa. induction pa as [|c pa IH]; intros ds Sa; cbn [picture_differing]; constructor.
    + apply differing_zero_iff; reflexivity.
    + inversion Sa; subst. eapply IH; eauto.
  - intros Hne H4. destruct (forallb psnr_is_none (all_deltas pa pb)) eqn:Ei; [lia|].
    assert (Hneq : pa <> pb).
    { intros E. apply (identical_iff_equal _ _ _ Hne Sa Sb) in E. congruence. }
    clear - Sa Sb Hneq. revert pa pb Sa Sb Hneq.
    induction ds as [|d ds IH]; intros pa pb Sa Sb Hneq; inversion Sa; inversion Sb; subst; [congruence|].
    cbn [picture_differing].
    match goal with H1 : length ?x = num_samples d, H2 : length ?y = num_samples d |- _ =>
      destruct (Z.eq_dec (differing x y) 0) as [E0|N0];
      [ apply differing_zero_iff in E0; [|lia]; subst;
        apply Exists_cons_tl; eapply IH; eauto; congruence
      | apply Exists_cons_hd; pose proof (differing_bounds x y); lia ]
    end.
Qed.

(* comparing two files WRITTEN from in-range pictures: identical exactly when everything matches *)
Lemma read_whole_written : forall m pic,
  depths_ok (compute_dimensions_and_depths (m_format m) (m_pcm m)) ->
  picture_ok (compute_dimensions_and_depths (m_format m) (m_pcm m)) pic = true ->
  read_whole m (write_picture (compute_dimensions_and_depths (m_format m) (m_pcm m)) pic) = Some pic.
Proof.
  intros m pic Hd Hok. unfold read_whole.
  rewrite <- (app_nil_r (write_picture _ pic)).
  rewrite picture_roundtrip by assumption. reflexivity.
Qed.

Definition dims_of (m : metadata) : list dims := compute_dimensions_and_depths (m_format m) (m_pcm m).

Lemma compare_written_identical_iff : forall a b pa pb,
  depths_ok (dims_of a) -> depths_ok (dims_of b) -> comps_nonempty (dims_of a) ->
  picture_ok (dims_of a) pa = true -> picture_ok (dims_of b) pb = true ->
  (main_files (Some a) (Some b) (Some (write_picture (dims_of a) pa)) (Some (write_picture (dims_of b) pb)) = 0
   <-> a = b /\ pa = pb).
Proof.
  intros a b pa pb Da Db Hne Oa Ob. unfold main_files.
  apply compare_identical_iff; try assumption; now apply read_whole_written.
Qed.

(* ---- directory mode -------------------------------------------------------------------------------- *)

Lemma main_dirs_fold : forall rcs, main_dirs rcs = fold_left dir_step rcs (0, 0, 0).
Proof. reflexivity. Qed.

Definition num_zero (rcs : list Z) : Z := Z.of_nat (length (filter (fun r => r =? 0) rcs)).
Definition num_nonzero (rcs : list Z) : Z := Z.of_nat (length (filter (fun r => negb (r =? 0)) rcs)).

Definition last_nonzero_from (f : Z) (rcs : list Z) : Z :=
  fold_left (fun f r => if r =? 0 then f else r) rcs f.

Lemma dir_fold_spec : forall rcs f s d,
  fold_left dir_step rcs (f, s, d) = (last_nonzero_from f rcs, s + num_zero rcs, d + num_nonzero rcs).
Proof.
  unfold num_zero, num_nonzero, last_nonzero_from.
  induction rcs as [|r rcs IH]; intros f s d; cbn [fold_left filter length].
  - apply f_equal2; [apply f_equal2|]; try reflexivity; lia.
  - unfold dir_step at 2. destruct (r =? 0) eqn:E; cbn [negb length]; rewrite IH;
      (apply f_equal2; [apply f_equal2|]; try reflexivity; lia).
Qed.

Lemma last_nonzero_zero : forall rcs f,
  last_nonzero_from f rcs = 0 <-> f = 0 /\ Forall (fun r => r = 0) rcs.
Proof.
  unfold last_nonzero_from. induction rcs as [|r rcs IH]; intros f; cbn [fold_left].
  - split; [intros H; split; [assumption | constructor] | tauto].
  - rewrite IH. destruct (r =? 0) eqn:E.
    + split; [intros [H1 H2]; split; [assumption | constructor; [lia | assumption]]
             | intros [H1 H2]; inversion H2; auto].
    + split; [intros [H1 H2]; lia | intros [H1 H2]; inversion H2; lia].
Qed.

Lemma num_zero_nonzero_length : forall rcs, num_zero rcs + num_nonzero rcs = Z.of_nat (length rcs).
Proof.
  unfold num_zero, num_nonzero. induction rcs as [|r rcs IH]; [reflexivity|].
  cbn [filter length]. destruct (r =? 0); cbn [negb length]; lia.
Qed.

(* final exit code = the last non-zero return code (0 if none); the summary counts *)
Lemma main_dirs_spec : forall rcs,
  main_dirs rcs = (last_nonzero_from 0 rcs, num_zero rcs, num_nonzero rcs).
Proof. intros rcs. unfold main_dirs. rewrite dir_fold_spec. reflexivity. Qed.

Lemma main_dirs_zero_iff : forall rcs fin same diff, main_dirs rcs = (fin, same, diff) ->
  (fin = 0 <-> Forall (fun r => r = 0) rcs) /\ same + diff = Z.of_nat (length rcs) /\ (fin = 0 <-> diff = 0).
Proof.
  intros rcs fin same diff H. rewrite main_dirs_spec in H. inversion H; subst. clear H.
  pose proof (last_nonzero_zero rcs 0) as L.
  split; [rewrite L; tauto|]. split; [apply num_zero_nonzero_length|].
  rewrite L. unfold num_nonzero. clear L.
  split.
  - intros [_ F]. induction F as [|r l Hr Hl IH]; [reflexivity|]. cbn [filter]. subst r. cbn [Z.eqb negb]. exact IH.
  - intros H0. split; [reflexivity|]. induction rcs as [|r l IH]; [constructor|].
    cbn [filter] in H0. destruct (r =? 0) eqn:E; cbn [negb length] in H0; [|lia].
    constructor; [lia | auto].
Qed.
