(* Proofs about Model/StreamContent.v (C10): the content-carrying output of a concatenation of
   accepted sequences is the concatenation of the outputs of each sequence alone, for every `decode`. *)
From Coq Require Import ZArith List Bool Lia.
From VC2 Require Import Base.PyZ Gen.StateFields Model.Stream Proofs.StreamProofs Proofs.StreamLift.
From VC2 Require Import Model.StreamContent.
Import ListNotations.
Open Scope Z_scope.

(* ------------------------------------------------------------------ the State entries (tie T) *)
(* reset_state retains I/O plumbing only *)
Lemma retained_are_io : forallb (str_mem retained_io_entries) retained_state_fields = true.
Proof. vm_compute. reflexivity. Qed.

(* every entry of seq_state_entries is a State entry, and none is retained *)
Lemma seq_entries_exist : forallb (str_mem state_entry_names) seq_state_entries = true.
Proof. vm_compute. reflexivity. Qed.
Lemma seq_entries_not_retained : forallb (fun e => negb (str_mem retained_state_fields e)) seq_state_entries = true.
Proof. vm_compute. reflexivity. Qed.

(* completeness: EVERY entry of State is either retained or abstracted by seq_state *)
Lemma state_entries_partition :
  forallb (fun e => str_mem retained_state_fields e || str_mem seq_state_entries e) state_entry_names = true.
Proof. vm_compute. reflexivity. Qed.

Section ContentProofs.
  Variable gst : Type.
  Variable gstart : gst.
  Variable gstep : gst -> symbol -> option gst.
  Variable gcomplete : gst -> bool.
  Variable lst : Type.
  Variable lstart : Z -> lst.
  Variable lstep : Z -> lst -> symbol -> option lst.
  Variable lcomplete : Z -> lst -> bool.
  Variable level_known : Z -> bool.
  Variable pinned : bool.
  Variable payload : Type.
  Variable content : Type.
  Variable decode : seq_state gst lst payload -> payload -> content.

  Notation Mstep := (step gst gstep gcomplete lst lstart lstep lcomplete level_known pinned).
  Notation Mrun_from := (run_from gst gstart gstep gcomplete lst lstart lstep lcomplete level_known pinned).
  Notation Mrun := (run gst gstart gstep gcomplete lst lstart lstep lcomplete level_known pinned).
  Notation Crun_from := (crun_from gst gstart gstep gcomplete lst lstart lstep lcomplete level_known pinned payload content decode).
  Notation Crun := (crun gst gstart gstep gcomplete lst lstart lstep lcomplete level_known pinned payload content decode).
  Notation Cverdict := (cverdict gst gstart gstep gcomplete lst lstart lstep lcomplete level_known pinned payload content decode).
  Notation Coutput := (coutput gst gstart gstep gcomplete lst lstart lstep lcomplete level_known pinned payload content decode).
  Notation init := (init_seq gst gstart lst payload).
  Notation units := (map (@cu_unit payload)).

  (* reset_state (as regenerated from the source) leaves nothing of the sequence-local state: the state
     at the start of every sequence equals the initial one on every non-retained entry *)
  Lemma reset_seq_is_init (st : seq_state gst lst payload) : reset_seq gst gstart lst payload st = init.
  Proof. reflexivity. Qed.

  Definition step_out (st : seq_state gst lst payload) (u : cunit payload) (s' : vstate gst lst)
             (out : list (Z * content)) : list (Z * content) :=
    match match u_kind (cu_unit u) with
          | KPic _ n _ => Some n
          | KFragData _ n _ _ _ => if f_remaining (vf s') =? 0 then Some n else None
          | _ => None
          end with
    | Some n => out ++ [(n, decode (mkSS s' (ss_seen st)) (cu_payload u))]
    | None => out
    end.

  Lemma crun_from_cons fresh st u rest i out :
    Crun_from fresh st (u :: rest) i out =
    match Mstep (ss_stream st) (cu_unit u) (units rest) with
    | Fail v => (v, i, out)
    | SeqDone => Crun_from true init rest (i + 1) out
    | Continue s' => Crun_from false (mkSS s' (ss_seen st ++ [u])) rest i (step_out st u s' out)
    end.
  Proof. reflexivity. Qed.

  Lemma step_out_app st u s' out : step_out st u s' out = out ++ step_out st u s' [].
  Proof.
    unfold step_out. destruct (u_kind (cu_unit u)); try (destruct (f_remaining (vf s') =? 0));
      rewrite ?app_nil_r; reflexivity.
  Qed.

  (* the verdict is that of Model/Stream.v's run on the data units without payloads *)
  Lemma crun_verdict us : forall fresh st i out,
    fst (fst (Crun_from fresh st us i out)) = Mrun_from fresh (ss_stream st) (units us).
  Proof.
    induction us as [|u r IH]; intros fresh st i out; [reflexivity|].
    rewrite crun_from_cons. change (units (u :: r)) with (cu_unit u :: units r). rewrite run_from_cons'.
    destruct (Mstep (ss_stream st) (cu_unit u) (units r)); [apply IH|apply IH|reflexivity].
  Qed.

  Lemma cverdict_run us : Cverdict us = Mrun (units us).
  Proof. unfold cverdict, crun, run. apply crun_verdict. Qed.

  Lemma crun_acc us : forall fresh st i out,
    Crun_from fresh st us i out =
    (fst (fst (Crun_from fresh st us 0 [])), i + snd (fst (Crun_from fresh st us 0 [])),
     out ++ snd (Crun_from fresh st us 0 [])).
  Proof.
    induction us as [|u r IH]; intros fresh st i out.
    - cbn. rewrite Z.add_0_r, app_nil_r. reflexivity.
    - rewrite !crun_from_cons. destruct (Mstep (ss_stream st) (cu_unit u) (units r)) as [s'| |v].
      + rewrite (IH false _ i (step_out st u s' out)), (IH false _ 0 (step_out st u s' [])).
        cbn [fst snd]. rewrite (step_out_app st u s' out), <- app_assoc. reflexivity.
      + rewrite (IH true init (i + 1) out), (IH true init (0 + 1) []). cbn [fst snd app]. f_equal. f_equal. lia.
      + cbn. rewrite Z.add_0_r, app_nil_r. reflexivity.
  Qed.

  (* after an accepted complete sequence the run continues from the INITIAL sequence-local state *)
  Lemma crun_app seq : eos_only_last (units seq) = true -> forall fresh st rest i out,
    Mrun_from fresh (ss_stream st) (units seq) = Accept ->
    Crun_from fresh st (seq ++ rest) i out =
    Crun_from true init rest (i + 1) (out ++ snd (Crun_from fresh st seq 0 [])).
  Proof.
    induction seq as [|u r IH]; [discriminate|]. intros Hlast fresh st rest i out Hacc.
    change ((u :: r) ++ rest) with (u :: (r ++ rest)). rewrite crun_from_cons.
    change (units (u :: r)) with (cu_unit u :: units r) in Hacc, Hlast. rewrite run_from_cons' in Hacc.
    rewrite (crun_acc (u :: r) fresh st 0 []). rewrite crun_from_cons.
    rewrite map_app.
    pose proof (step_rest gst gstep gcomplete lst lstart lstep lcomplete level_known pinned
                          (ss_stream st) (cu_unit u) (units r ++ units rest) (units r)) as Hsame.
    unfold same_outcome in Hsame.
    destruct r as [|u' r'].
    - change (units []) with (@nil dunit) in *.
      change (eos_only_last [cu_unit u]) with (is_eos_kind (u_kind (cu_unit u))) in Hlast.
      destruct (Mstep (ss_stream st) (cu_unit u) ([] ++ units rest)) as [s1| |v] eqn:E1;
        destruct (Mstep (ss_stream st) (cu_unit u) []) as [s2| |w] eqn:E2; try contradiction.
      + apply step_not_continue_on_eos in E2. congruence.
      + cbn. rewrite app_nil_r. reflexivity.
      + subst w. destruct Hsame; contradiction.
    - change (units (u' :: r')) with (cu_unit u' :: units r') in *.
      change (eos_only_last (cu_unit u :: cu_unit u' :: units r')) with
          (negb (is_eos_kind (u_kind (cu_unit u))) && eos_only_last (cu_unit u' :: units r')) in Hlast.
      apply andb_prop in Hlast. destruct Hlast as (Hne & Hlast).
      destruct (Mstep (ss_stream st) (cu_unit u) ((cu_unit u' :: units r') ++ units rest)) as [s1| |v] eqn:E1;
        destruct (Mstep (ss_stream st) (cu_unit u) (cu_unit u' :: units r')) as [s2| |w] eqn:E2; try contradiction.
      + subst s2.
        rewrite (IH Hlast false (mkSS s1 (ss_seen st ++ [u])) rest i (step_out st u s1 out) Hacc).
        cbn [fst snd app].
        rewrite (crun_acc _ false _ 0 (step_out st u s1 [])).
        cbn [fst snd]. rewrite (step_out_app st u s1 out), <- app_assoc. reflexivity.
      + apply step_not_done_unless_eos in E2. rewrite E2 in Hne. discriminate.
      + subst w. destruct Hsame; contradiction.
  Qed.

  (* C10 with content: for any list of individually accepted complete sequences, the concatenation is
     accepted, the validator has gone through exactly that many sequences, and its output -- picture
     numbers AND contents -- is the concatenation of the outputs of each sequence alone; for every decode *)
  Theorem content_concat_gen seqs :
    Forall (fun s => eos_only_last (units s) = true) seqs -> Forall (fun s => Cverdict s = Accept) seqs ->
    forall i out,
    Crun_from true init (concat seqs) i out =
    (Accept, i + Z.of_nat (length seqs), out ++ concat (map (fun s => Coutput s) seqs)).
  Proof.
    induction seqs as [|sq r IH]; intros Hl Ha i out.
    - cbn. rewrite Z.add_0_r, app_nil_r. reflexivity.
    - inversion Hl; subst. inversion Ha; subst. cbn [concat map length].
      rewrite cverdict_run in H3. unfold run in H3.
      rewrite (crun_app sq H1 true init (concat r) i out H3).
      rewrite (IH H2 H4). unfold coutput, crun. rewrite Nat2Z.inj_succ, <- app_assoc. f_equal. f_equal. lia.
  Qed.

  Theorem content_concat seqs :
    Forall (fun s => eos_only_last (units s) = true) seqs -> Forall (fun s => Cverdict s = Accept) seqs ->
    Crun (concat seqs) = (Accept, Z.of_nat (length seqs), concat (map (fun s => Coutput s) seqs)).
  Proof. intros Hl Ha. unfold crun. rewrite (content_concat_gen seqs Hl Ha 0 []). reflexivity. Qed.

  (* acceptance of a sequence is unchanged by prepending / appending accepted sequences *)
  Theorem content_independent before sq after :
    Forall (fun s => eos_only_last (units s) = true) before -> eos_only_last (units sq) = true ->
    Forall (fun s => eos_only_last (units s) = true) after ->
    Forall (fun s => Cverdict s = Accept) before -> Forall (fun s => Cverdict s = Accept) after ->
    (Cverdict (concat (before ++ [sq] ++ after)) = Accept <-> Cverdict sq = Accept).
  Proof.
    intros Hb Hs Ha Rb Ra. rewrite !cverdict_run, concat_map.
    assert (forall l, Forall (fun s => eos_only_last (units s) = true) l ->
                      Forall (fun s => eos_only_last s = true) (map units l)) as F1.
    { intros l H. induction H; constructor; assumption. }
    assert (forall l, Forall (fun s => Cverdict s = Accept) l ->
                      Forall (fun s => Mrun s = Accept) (map units l)) as F2.
    { intros l H. induction H; constructor; [rewrite <- cverdict_run|]; assumption. }
    rewrite !map_app. cbn [map].
    exact (independent gst gstart gstep gcomplete lst lstart lstep lcomplete level_known pinned
                       (map units before) (units sq) (map units after) (F1 _ Hb) Hs (F1 _ Ha) (F2 _ Rb) (F2 _ Ra)).
  Qed.
End ContentProofs.
