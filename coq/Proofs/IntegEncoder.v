(* Integration for C03: the STRUCTURE of the encoder's output sequence against the validator model.

   Model/EncoderSeq.v frag_split (C03: make_fragment_parse_data_units) produces the slice-carrying
   fragments; here a whole sequence of data units is laid out the way encoder/sequence.py does
     sequence header ; per picture: one picture data unit, or first fragment + frag_split ; end of sequence
   with picture numbers consecutive mod 2^32 and parse offsets as autofill computes them, and it is
   shown to pass six (with the profile: seven) of the ten rule checkers of Model/Stream.v -- hence, by
   C01_iff, to be accepted by the validator model whenever the remaining rules hold. *)
From Coq Require Import ZArith List Bool Lia ZifyBool.
From VC2 Require Import Base.PyZ Model.EncoderSeq Proofs.EncoderSeqProofs Model.Stream Proofs.StreamProofs
  Proofs.StreamRefine Proofs.StreamLift.
Import ListNotations.
Open Scope Z_scope.
Ltac Zify.zify_post_hook ::= Z.to_euclidean_division_equations.

(* one picture as the encoder is asked to code it *)
Record pic_spec := mkPicSpec { ps_hq : bool; ps_tp : tparams; ps_fsc : Z }.   (* fragment_slice_count; 0 = not fragmented *)

Definition frag_kind (hq : bool) (n : Z) (f : frag) : kind := KFragData hq n (f_count f) (f_x f) (f_y f).

Definition pic_kinds (n : Z) (p : pic_spec) : list kind :=
  if ps_fsc p =? 0 then [KPic (ps_hq p) n (ps_tp p)]
  else KFragFirst (ps_hq p) n (ps_tp p)
       :: map (frag_kind (ps_hq p) n) (frag_split (tp_sx (ps_tp p)) (tp_sy (ps_tp p)) (ps_fsc p)).

Fixpoint pics_kinds (n : Z) (ps : list pic_spec) : list kind :=
  match ps with
  | [] => []
  | p :: r => pic_kinds (n mod 4294967296) p ++ pics_kinds (n + 1) r
  end.

Definition seq_kinds (h : hdr) (start : Z) (ps : list pic_spec) : list kind :=
  KSeqHdr h :: pics_kinds start ps ++ [KEos].

(* parse offsets as autofill writes them: previous_parse_offset = length of the previous data unit (0 for
   the first), next_parse_offset = own length (0 for the end of sequence) *)
Fixpoint with_offsets (prev : Z) (kl : list (kind * Z)) : list dunit :=
  match kl with
  | [] => []
  | (k, len) :: r => mkUnit k len (if is_eos_kind k then 0 else len) prev :: with_offsets len r
  end.

Lemma with_offsets_ok : forall kl prev, offsets_from prev (with_offsets prev kl) = true.
Proof.
  induction kl as [|[k len] r IH]; intros prev; [reflexivity|].
  cbn [with_offsets offsets_from u_ppo u_len]. rewrite IH, Z.eqb_refl, andb_true_r. cbn [andb].
  unfold npo_ok. cbn [u_kind u_npo u_len]. destruct k; cbn [is_eos_kind]; rewrite ?Z.eqb_refl, ?orb_true_r; reflexivity.
Qed.

Lemma with_offsets_kinds : forall kl prev, map u_kind (with_offsets prev kl) = map fst kl.
Proof. induction kl as [|[k len] r IH]; intros prev; [reflexivity|]. cbn [with_offsets map fst u_kind]. rewrite IH. reflexivity. Qed.

(* ---- the kind-only rule checkers depend on the kinds only ---- *)
Lemma frags_kinds : forall us us' o, map u_kind us = map u_kind us' -> frags_from o us = frags_from o us'.
Proof.
  induction us as [|u r IH]; intros [|u' r'] o H; try discriminate; [reflexivity|].
  cbn [map] in H. injection H as Hk Hr. cbn [frags_from].
  assert (E : frag_step o u = frag_step o u') by (unfold frag_step; rewrite Hk; reflexivity).
  rewrite E. destruct (frag_step o u'); [apply IH; exact Hr|reflexivity].
Qed.

Lemma picnums_kinds fields : forall us us' last idx, map u_kind us = map u_kind us' ->
  picnums_from fields last idx us = picnums_from fields last idx us'.
Proof.
  induction us as [|u r IH]; intros [|u' r'] last idx H; try discriminate; [reflexivity|].
  cbn [map] in H. injection H as Hk Hr. cbn [picnums_from]. rewrite Hk.
  destruct (u_kind u'); rewrite ?(IH r' _ _ Hr); reflexivity.
Qed.

Lemma eos_last_kinds : forall us us', map u_kind us = map u_kind us' -> eos_only_last us = eos_only_last us'.
Proof.
  induction us as [|u r IH]; intros [|u' r'] H; try discriminate; [reflexivity|].
  cbn [map] in H. injection H as Hk Hr. destruct r as [|v r]; destruct r' as [|v' r'']; try discriminate.
  - cbn [eos_only_last]. rewrite Hk. reflexivity.
  - change (eos_only_last (u :: v :: r)) with (negb (is_eos_kind (u_kind u)) && eos_only_last (v :: r)).
    change (eos_only_last (u' :: v' :: r'')) with (negb (is_eos_kind (u_kind u')) && eos_only_last (v' :: r'')).
    rewrite Hk, (IH _ Hr). reflexivity.
Qed.

Lemma count_kinds : forall us us', map u_kind us = map u_kind us' -> count_pictures us = count_pictures us'.
Proof.
  unfold count_pictures. intros us us' H. f_equal. revert us' H.
  induction us as [|u r IH]; intros [|u' r'] H; try discriminate; [reflexivity|].
  cbn [map] in H. injection H as Hk Hr. cbn [filter].
  assert (E : is_new_picture u = is_new_picture u') by (unfold is_new_picture; rewrite Hk; reflexivity).
  rewrite E. destruct (is_new_picture u'); cbn [length]; rewrite (IH _ Hr); reflexivity.
Qed.

Lemma forallb_kinds (f g : kind -> bool) : forall us us', map u_kind us = map u_kind us' ->
  forallb (fun u => f (u_kind u)) us = forallb (fun u => f (u_kind u)) us'.
Proof.
  induction us as [|u r IH]; intros [|u' r'] H; try discriminate; [reflexivity|].
  cbn [map] in H. injection H as Hk Hr. cbn [forallb]. rewrite Hk, (IH _ Hr). reflexivity.
Qed.

(* canonical units carrying the kinds *)
Definition cu (k : kind) : dunit := mkUnit k 0 0 0.

(* ---- fragments: C03's frag_check is exactly what the validator's fragment rule needs ---- *)
Lemma frag_check_frags hq n sx rest : forall frags rcv rem,
  frag_check sx frags rcv rem = true -> Forall (fun f => 1 <= f_count f) frags -> 0 < rem ->
  frags_from (Some (n, sx, rcv, rem)) (map cu (map (frag_kind hq n) frags) ++ rest) = frags_from None rest.
Proof.
  induction frags as [|f r IH]; intros rcv rem Hc Hpos Hrem.
  - cbn [frag_check] in Hc. lia.
  - cbn [frag_check] in Hc. inversion Hpos as [|? ? Hf Hr]; subst.
    apply andb_prop in Hc. destruct Hc as (Hc & Hrest). apply andb_prop in Hc. destruct Hc as (Hc & Hy).
    apply andb_prop in Hc. destruct Hc as (Hc & Hx). apply andb_prop in Hc. destruct Hc as (_ & Hle).
    cbn [map app frags_from]. unfold frag_step, cu, frag_kind. cbn [u_kind].
    rewrite Z.eqb_refl, Hle, Hx, Hy. cbn [andb].
    destruct (rem - f_count f =? 0) eqn:E0.
    + destruct r as [|g r]; [reflexivity|]. exfalso. cbn [frag_check] in Hrest.
      inversion Hr; subst. lia.
    + apply IH; [exact Hrest|exact Hr|lia].
Qed.

Lemma pic_frags n p rest : 0 < tp_sx (ps_tp p) -> 0 < tp_sy (ps_tp p) -> 0 <= ps_fsc p ->
  frags_from None (map cu (pic_kinds n p) ++ rest) = frags_from None rest.
Proof.
  intros Hx Hy Hf. unfold pic_kinds. destruct (ps_fsc p =? 0) eqn:E; [reflexivity|].
  cbn [map app frags_from]. unfold frag_step at 1. cbn [cu u_kind].
  apply frag_check_frags.
  - apply frag_split_ok; lia.
  - eapply Forall_impl; [|apply (frag_split_counts (tp_sx (ps_tp p)) (tp_sy (ps_tp p)) (ps_fsc p)); lia].
    cbv beta. intros f Hc. lia.
  - nia.
Qed.

Definition spec_ok (p : pic_spec) : Prop := 0 < tp_sx (ps_tp p) /\ 0 < tp_sy (ps_tp p) /\ 0 <= ps_fsc p.

Lemma pics_frags : forall ps n rest, Forall spec_ok ps ->
  frags_from None (map cu (pics_kinds n ps) ++ rest) = frags_from None rest.
Proof.
  induction ps as [|p r IH]; intros n rest H; [reflexivity|]. inversion H as [|? ? (A & B & C) Hr]; subst.
  cbn [pics_kinds]. rewrite map_app, <- app_assoc, pic_frags by assumption. apply IH. exact Hr.
Qed.

(* ---- picture numbers ---- *)
Lemma frag_kinds_picnums fields hq n rest : forall frags last idx,
  picnums_from fields last idx (map cu (map (frag_kind hq n) frags) ++ rest) = picnums_from fields last idx rest.
Proof. induction frags as [|f r IH]; intros last idx; [reflexivity|]. cbn [map app picnums_from cu u_kind frag_kind]. apply IH. Qed.

Lemma pic_picnums fields n p rest last idx :
  picnums_from fields last idx (map cu (pic_kinds n p) ++ rest) =
  match last with Some l => n =? (l + 1) mod 4294967296 | None => true end &&
  (negb fields || negb (idx mod 2 =? 0) || (n mod 2 =? 0)) && picnums_from fields (Some n) (idx + 1) rest.
Proof.
  unfold pic_kinds. destruct (ps_fsc p =? 0); cbn [map app picnums_from cu u_kind]; [reflexivity|].
  rewrite frag_kinds_picnums. reflexivity.
Qed.

Lemma pics_picnums (fields : bool) rest : forall ps n last idx,
  match last with Some l => n mod 4294967296 = (l + 1) mod 4294967296 | None => True end ->
  (fields = true -> n mod 2 = idx mod 2) ->
  (forall l i, picnums_from fields l i rest = true) ->
  picnums_from fields last idx (map cu (pics_kinds n ps) ++ rest) = true.
Proof.
  induction ps as [|p r IH]; intros n last idx Hl Hf Hrest; [apply Hrest|].
  cbn [pics_kinds]. rewrite map_app, <- app_assoc, pic_picnums.
  assert (E1 : match last with Some l => n mod 4294967296 =? (l + 1) mod 4294967296 | None => true end = true)
    by (destruct last; [apply Z.eqb_eq; exact Hl|reflexivity]).
  rewrite E1. cbn [andb].
  assert (E2 : negb fields || negb (idx mod 2 =? 0) || (n mod 4294967296 mod 2 =? 0) = true).
  { destruct fields; [|reflexivity]. specialize (Hf eq_refl). cbn [negb orb]. lia. }
  rewrite E2. cbn [andb].
  apply IH; [|intros Hfd; specialize (Hf Hfd); lia|exact Hrest].
  rewrite Zplus_mod_idemp_l. reflexivity.
Qed.

(* ---- number of pictures ---- *)
Lemma pic_count n p rest : count_pictures (map cu (pic_kinds n p) ++ rest) = 1 + count_pictures rest.
Proof.
  unfold pic_kinds, count_pictures. destruct (ps_fsc p =? 0); cbn [map app filter cu is_new_picture u_kind length].
  - rewrite Nat2Z.inj_succ. lia.
  - rewrite Nat2Z.inj_succ.
    assert (E : forall frags, filter is_new_picture (map cu (map (frag_kind (ps_hq p) n) frags) ++ rest) = filter is_new_picture rest).
    { induction frags as [|f r IH]; [reflexivity|]. cbn [map app filter]. exact IH. }
    rewrite E. lia.
Qed.

Lemma pics_count : forall ps n rest, count_pictures (map cu (pics_kinds n ps) ++ rest) = Z.of_nat (length ps) + count_pictures rest.
Proof.
  induction ps as [|p r IH]; intros n rest; [reflexivity|]. cbn [pics_kinds length].
  rewrite map_app, <- app_assoc, pic_count, IH, Nat2Z.inj_succ. lia.
Qed.

(* ---- end of sequence only last; one header ---- *)
Lemma pics_no_eos_hdr : forall ps n, Forall (fun k => is_eos_kind k = false /\ forall h, k <> KSeqHdr h) (pics_kinds n ps).
Proof.
  induction ps as [|p r IH]; intros n; [constructor|]. cbn [pics_kinds]. apply Forall_app. split; [|apply IH].
  unfold pic_kinds. destruct (ps_fsc p =? 0); repeat constructor; try discriminate.
  apply Forall_forall. intros k Hk. apply in_map_iff in Hk. destruct Hk as (f & <- & _). split; [reflexivity|discriminate].
Qed.

Lemma eos_only_last_units : forall (us : list dunit) (e : dunit),
  Forall (fun u => is_eos_kind (u_kind u) = false) us -> is_eos_kind (u_kind e) = true -> eos_only_last (us ++ [e]) = true.
Proof.
  induction us as [|u r IH]; intros e H He; [exact He|]. inversion H as [|? ? Hu Hr]; subst.
  specialize (IH e Hr He). cbn [app]. destruct (r ++ [e]) as [|d l] eqn:E; [destruct r; discriminate|].
  change (eos_only_last (u :: d :: l)) with (negb (is_eos_kind (u_kind u)) && eos_only_last (d :: l)).
  rewrite Hu, IH. reflexivity.
Qed.

Lemma eos_only_last_app : forall ks, Forall (fun k => is_eos_kind k = false) ks -> eos_only_last (map cu (ks ++ [KEos])) = true.
Proof.
  intros ks H. rewrite map_app. apply eos_only_last_units; [|reflexivity].
  apply Forall_forall. intros u Hu. apply in_map_iff in Hu. destruct Hu as (k & <- & Hk).
  rewrite Forall_forall in H. exact (H k Hk).
Qed.

Lemma pics_codes h : forall ps n, Forall (fun p => h_profile h = if ps_hq p then 3 else 0) ps ->
  forallb (fun u => profile_allows (h_profile h) (kind_symbol (u_kind u))) (map cu (pics_kinds n ps)) = true.
Proof.
  induction ps as [|p r IH]; intros n H; [reflexivity|]. inversion H as [|? ? Hp Hr]; subst.
  cbn [pics_kinds]. rewrite map_app, forallb_app, (IH _ Hr), andb_true_r.
  unfold pic_kinds. destruct (ps_fsc p =? 0); cbn [map forallb cu u_kind kind_symbol].
  - rewrite Hp. destruct (ps_hq p); reflexivity.
  - apply andb_true_intro. split; [rewrite Hp; destruct (ps_hq p); reflexivity|].
    apply forallb_forall. intros u Hu. apply in_map_iff in Hu. destruct Hu as (k & <- & Hk).
    apply in_map_iff in Hk. destruct Hk as (f & <- & _). cbn [cu u_kind frag_kind kind_symbol].
    rewrite Hp. destruct (ps_hq p); reflexivity.
Qed.

(* ---------------------------------------------------------------- the structure theorem *)
Section Structure.
  Variable h : hdr.
  Variable start : Z.
  Variable ps : list pic_spec.
  Variable us : list dunit.

  (* the data units are those kinds, in that order, with any lengths *)
  Hypothesis Hkinds : map u_kind us = seq_kinds h start ps.
  Hypothesis Hspecs : Forall spec_ok ps.
  (* when pictures are fields: the first picture number is even and the fields pair up *)
  Hypothesis Hfields : h_pcm h = 1 -> start mod 2 = 0 /\ Z.of_nat (length ps) mod 2 = 0.

  Let canon := map cu (seq_kinds h start ps).
  Let Hcanon : map u_kind us = map u_kind canon.
  Proof. unfold canon. rewrite map_map. cbn [cu u_kind]. rewrite map_id. exact Hkinds. Qed.

  Lemma first_hdr_us : first_hdr us = Some h.
  Proof.
    destruct us as [|u r]; [discriminate|]. pose proof Hkinds as H. cbn [map seq_kinds] in H. injection H as Hk _.
    cbn [first_hdr]. rewrite Hk. reflexivity.
  Qed.

  Lemma structure_ends : ends_ok us = true.
  Proof.
    unfold ends_ok. rewrite first_hdr_us. rewrite (eos_last_kinds _ _ Hcanon). unfold canon, seq_kinds.
    change (KSeqHdr h :: pics_kinds start ps ++ [KEos]) with ((KSeqHdr h :: pics_kinds start ps) ++ [KEos]).
    apply eos_only_last_app. constructor; [reflexivity|].
    eapply Forall_impl; [|apply pics_no_eos_hdr]. cbv beta. intros k [H _]. exact H.
  Qed.

  Lemma structure_headers : headers_identical us = true.
  Proof.
    unfold headers_identical. rewrite first_hdr_us.
    rewrite (forallb_kinds (fun k => match k with KSeqHdr h' => h_id h' =? h_id h | _ => true end) (fun _ => true) _ _ Hcanon).
    unfold canon, seq_kinds. cbn [map forallb cu u_kind]. rewrite Z.eqb_refl. cbn [andb].
    rewrite map_app, forallb_app. cbn [map forallb cu u_kind]. rewrite andb_true_r.
    apply forallb_forall. intros u Hu. apply in_map_iff in Hu. destruct Hu as (k & <- & Hk). cbn [cu u_kind].
    pose proof (pics_no_eos_hdr ps start) as HF. rewrite Forall_forall in HF. destruct (HF k Hk) as (_ & Hn).
    destruct k; try reflexivity. exfalso. exact (Hn _ eq_refl).
  Qed.

  Lemma structure_fragments : fragments_ok us = true.
  Proof.
    unfold fragments_ok. rewrite (frags_kinds _ _ None Hcanon). unfold canon, seq_kinds.
    cbn [map frags_from]. unfold frag_step at 1. cbn [cu u_kind].
    rewrite map_app, pics_frags by exact Hspecs. reflexivity.
  Qed.

  Lemma structure_picnums : picnums_ok us = true.
  Proof.
    unfold picnums_ok. rewrite first_hdr_us. rewrite (picnums_kinds _ _ _ None 0 Hcanon). unfold canon, seq_kinds.
    cbn [map picnums_from cu u_kind]. rewrite map_app.
    apply pics_picnums; [exact I| |intros; reflexivity].
    intros Hf. apply Z.eqb_eq in Hf. destruct (Hfields Hf) as (A & _). rewrite A. reflexivity.
  Qed.

  Lemma structure_whole_frames : whole_frames us = true.
  Proof.
    unfold whole_frames. rewrite first_hdr_us. rewrite (count_kinds _ _ Hcanon). unfold canon, seq_kinds.
    destruct (h_pcm h =? 1) eqn:E; [|reflexivity]. cbn [negb orb].
    cbn [map]. change (count_pictures (cu (KSeqHdr h) :: map cu (pics_kinds start ps ++ [KEos])))
      with (count_pictures (map cu (pics_kinds start ps ++ [KEos]))).
    rewrite map_app, pics_count. cbn. apply Z.eqb_eq in E. destruct (Hfields E) as (_ & B). lia.
  Qed.

  (* the profile permits the picture parse codes used: HQ pictures in profile 3, LD pictures in profile 0 *)
  Lemma structure_codes :
    Forall (fun p => h_profile h = if ps_hq p then 3 else 0) ps -> codes_allowed_in_profile us = true.
  Proof.
    intros Hp. unfold codes_allowed_in_profile. rewrite first_hdr_us. unfold u_symbol.
    rewrite (forallb_kinds (fun k => profile_allows (h_profile h) (kind_symbol k)) (fun _ => true) _ _ Hcanon).
    unfold canon, seq_kinds. cbn [map forallb cu u_kind kind_symbol profile_allows]. rewrite map_app, forallb_app.
    cbn [map forallb cu u_kind kind_symbol profile_allows]. rewrite andb_true_r.
    apply pics_codes. exact Hp.
  Qed.
End Structure.

(* the offsets autofill computes satisfy the offsets rule, whatever the lengths of the data units *)
Lemma autofill_units h start ps (lens : list Z) :
  length lens = length (seq_kinds h start ps) ->
  let us := with_offsets 0 (combine (seq_kinds h start ps) lens) in
  map u_kind us = seq_kinds h start ps /\ offsets_ok us = true.
Proof.
  intros Hl us. split.
  - unfold us. rewrite with_offsets_kinds. clear us. revert lens Hl. generalize (seq_kinds h start ps).
    induction l as [|k r IH]; intros [|x lens] Hl; try discriminate; [reflexivity|]. cbn [combine map fst]. rewrite IH; [reflexivity|].
    cbn in Hl. lia.
  - apply with_offsets_ok.
Qed.

(* ---------------------------------------------------------------- acceptance (C01_iff) *)
Section Accepted.
  Variable gst : Type.
  Variable gstart : gst.
  Variable gstep : gst -> symbol -> option gst.
  Variable gcomplete : gst -> bool.
  Variable lst : Type.
  Variable lstart : Z -> lst.
  Variable lstep : Z -> lst -> symbol -> option lst.
  Variable lcomplete : Z -> lst -> bool.
  Variable level_known : Z -> bool.
  Hypothesis Hgen : gen_first_is_seqhdr_b gstart gstep = true.

  Theorem structure_accepted h start ps us :
    (* the layout *)
    map u_kind us = seq_kinds h start ps -> Forall spec_ok ps ->
    (h_pcm h = 1 -> start mod 2 = 0 /\ Z.of_nat (length ps) mod 2 = 0) ->
    Forall (fun p => h_profile h = if ps_hq p then 3 else 0) ps ->
    offsets_ok us = true ->
    (* DISCHARGED: ends_ok, offsets_ok (given), headers_identical, codes_allowed_in_profile, picnums_ok,
       whole_frames, fragments_ok.  HYPOTHESES: the version rule, the two ordering patterns, field validity *)
    version_ok us = true ->
    level_pattern_ok lst lstart lstep lcomplete us = true -> generic_pattern_ok gst gstart gstep gcomplete us = true ->
    units_valid level_known us = true ->
    ends_ok us = true /\ headers_identical us = true /\ codes_allowed_in_profile us = true /\ picnums_ok us = true /\
    whole_frames us = true /\ fragments_ok us = true /\
    run gst gstart gstep gcomplete lst lstart lstep lcomplete level_known false us = Accept.
  Proof.
    intros Hk Hs Hf Hp Hoff Hver Hlv Hgn Hval.
    pose proof (structure_ends h start ps us Hk) as R1.
    pose proof (structure_headers h start ps us Hk) as R3.
    pose proof (structure_codes h start ps us Hk Hp) as R4.
    pose proof (structure_picnums h start ps us Hk Hf) as R6.
    pose proof (structure_whole_frames h start ps us Hk Hf) as R7.
    pose proof (structure_fragments h start ps us Hk Hs) as R8.
    repeat (split; [assumption|]).
    apply (iff_one_sequence gst gstart gstep gcomplete lst lstart lstep lcomplete level_known Hgen us Hval).
    - apply eos_only_last_one_sequence. unfold ends_ok in R1. destruct (first_hdr us); [exact R1|discriminate].
    - unfold rules_ok. rewrite R1, Hoff, R3, R4, Hver, R6, R7, R8, Hlv, Hgn. reflexivity.
  Qed.
End Accepted.
