(* Integration C05 x C18: the metamorphic facts (b), (b') of Props/C05.v for the CONCRETE generic ordering
   pattern `sequence_header .* end_of_sequence` (the validator model's generic automaton = the C18 Matcher
   model of that pattern): inserting a padding / auxiliary data unit or a repeat of the header between the
   first and the last data unit keeps the generic pattern matched, so that hypothesis disappears; the
   LEVEL's pattern (abstract automaton) remains a hypothesis. *)
From Coq Require Import ZArith List Bool Lia.
From VC2 Require Import Base.PyZ Model.Regex Model.NFA Model.Matcher Model.Stream Proofs.StreamProofs Proofs.StreamRefine
  Proofs.StreamLift Proofs.IntegStream Model.IntegSeq Proofs.IntegPatterns.
Import ListNotations.
Open Scope Z_scope.

Lemma eos_only_last_last : forall l e, eos_only_last (l ++ [e]) = true -> u_kind e = KEos.
Proof.
  induction l as [|u r IH]; intros e H.
  - cbn in H. destruct (u_kind e); try discriminate. reflexivity.
  - cbn [app] in H. destruct (r ++ [e]) as [|v t] eqn:E; [destruct r; discriminate|].
    change (eos_only_last (u :: v :: t)) with (negb (is_eos_kind (u_kind u)) && eos_only_last (v :: t)) in H.
    apply andb_prop in H. destruct H as (_ & H). rewrite <- E in H. exact (IH e H).
Qed.

Section GenericConcrete.
  Variable lst : Type.
  Variable lstart : Z -> lst.
  Variable lstep : Z -> lst -> symbol -> option lst.
  Variable lcomplete : Z -> lst -> bool.
  Variable level_known : Z -> bool.

  Notation Grun := (run matcher gstart_m mstep is_complete lst lstart lstep lcomplete level_known false).
  Notation Gobs := (run_obs matcher gstart_m mstep is_complete lst lstart lstep lcomplete level_known false true
                            (init_state matcher gstart_m lst)).

  (* an accepted sequence with a unit inserted after its first unit and before (or at) its last: the generic
     pattern still matches *)
  Lemma insert_keeps_generic u0 h0 a x u b :
    u_kind u0 = KSeqHdr h0 -> eos_only_last (u0 :: a ++ u :: b) = true ->
    Mgeneric_ok (u0 :: a ++ x :: set_ppo u (u_len x) :: b) = true.
  Proof.
    intros Ek He. induction b as [|e b' _] using rev_ind.
    - assert (Hu : u_kind u = KEos).
      { apply (eos_only_last_last (u0 :: a)). cbn [app]. exact He. }
      replace (u0 :: a ++ [x; set_ppo u (u_len x)]) with (u0 :: (a ++ [x]) ++ [set_ppo u (u_len x)])
        by (rewrite <- app_assoc; reflexivity).
      apply (generic_ok_ends u0 h0 _ _ Ek). exact Hu.
    - assert (Hu : u_kind e = KEos).
      { apply (eos_only_last_last (u0 :: a ++ u :: b')). cbn [app]. rewrite <- app_assoc. exact He. }
      replace (u0 :: a ++ x :: set_ppo u (u_len x) :: b' ++ [e]) with (u0 :: (a ++ x :: set_ppo u (u_len x) :: b') ++ [e])
        by (rewrite <- app_assoc; reflexivity).
      apply (generic_ok_ends u0 h0 _ _ Ek). exact Hu.
  Qed.

  Lemma accepted_eos_only_last us : units_valid level_known us = true -> one_sequence us = true -> Grun us = Accept ->
    eos_only_last us = true.
  Proof.
    intros Hval Hone Hacc.
    pose proof (proj1 (iff_one_sequence matcher gstart_m mstep is_complete lst lstart lstep lcomplete level_known
                         generic_first_is_seqhdr us Hval Hone) Hacc) as Hr.
    unfold rules_ok in Hr. repeat (apply andb_prop in Hr; destruct Hr as (Hr & _)).
    unfold ends_ok in Hr. destruct (first_hdr us); [exact Hr|discriminate].
  Qed.

  Theorem insert_neutral_irrelevant_generic u0 h0 a x u b :
    let us := u0 :: a ++ u :: b in
    let us' := u0 :: a ++ x :: set_ppo u (u_len x) :: b in
    u_kind u0 = KSeqHdr h0 -> neutral h0 x -> PARSE_INFO_HEADER_BYTES <= u_len x -> u_ppo x = u_ppo u ->
    units_valid level_known us = true -> one_sequence us = true -> Grun us = Accept ->
    level_pattern_ok lst lstart lstep lcomplete us' = true ->
    Grun us' = Accept /\ Gobs us' 0 [] = Gobs us 0 [] /\ eos_only_last us' = true /\ Mgeneric_ok us' = true.
  Proof.
    intros us us' Ek Hx Hlen Hppo Hval Hone Hacc Hlv.
    assert (Hg : Mgeneric_ok us' = true).
    { apply (insert_keeps_generic u0 h0 a x u b Ek). exact (accepted_eos_only_last us Hval Hone Hacc). }
    destruct (insert_neutral_irrelevant matcher gstart_m mstep is_complete lst lstart lstep lcomplete level_known
                generic_first_is_seqhdr u0 h0 a x u b Ek Hx Hlen Hppo Hval Hone Hacc Hlv Hg) as (A & B & C).
    repeat split; assumption.
  Qed.
End GenericConcrete.

(* both automata the C18 Matcher: for a level whose pattern is `.*` (level 0, "unconstrained") no pattern
   hypothesis is left at all *)
Section BothConcrete.
  Variable lvl_re : Z -> re.
  Variable level_known : Z -> bool.

  Theorem insert_neutral_irrelevant_unconstrained u0 h0 a x u b :
    let us := u0 :: a ++ u :: b in
    let us' := u0 :: a ++ x :: set_ppo u (u_len x) :: b in
    lvl_re (h_level h0) = Star Any ->
    u_kind u0 = KSeqHdr h0 -> neutral h0 x -> PARSE_INFO_HEADER_BYTES <= u_len x -> u_ppo x = u_ppo u ->
    units_valid level_known us = true -> one_sequence us = true -> Mrun lvl_re level_known us = Accept ->
    Mrun lvl_re level_known us' = Accept /\
    run_obs matcher gstart_m mstep is_complete matcher (lstart_m lvl_re) lstep_m lcomplete_m level_known false true
            (init_state matcher gstart_m matcher) us' 0 [] =
    run_obs matcher gstart_m mstep is_complete matcher (lstart_m lvl_re) lstep_m lcomplete_m level_known false true
            (init_state matcher gstart_m matcher) us 0 [] /\
    eos_only_last us' = true.
  Proof.
    intros us us' Hl Ek Hx Hlen Hppo Hval Hone Hacc.
    assert (Hlv : Mlevel_ok lvl_re us' = true).
    { apply (level_ok_iff lvl_re us' h0); [unfold us'; cbn [first_hdr]; rewrite Ek; reflexivity|rewrite Hl; reflexivity|].
      rewrite Hl. exists 0%nat. unfold word. cbn [repeat]. rewrite app_nil_r. apply star_any_real. }
    destruct (insert_neutral_irrelevant_generic matcher (lstart_m lvl_re) lstep_m lcomplete_m level_known u0 h0 a x u b
                Ek Hx Hlen Hppo Hval Hone Hacc Hlv) as (A & B & C & _).
    repeat split; assumption.
  Qed.
End BothConcrete.
