(* Integration for C05 (decoder test cases): metamorphic / observational-equivalence lemmas over the
   EXISTING decoder models, composed from the theorems of C08 (slice readers), C01/C10 (stream-level
   validator), C15 (sequence-header encodings).  Nothing here models new code. *)
From Coq Require Import ZArith List Bool Lia.
From VC2 Require Import Base.PyZ Gen.StateRec Gen.VC2Math Gen.SliceSizes Gen.Quant Gen.ParseCodes
  Model.Slices Proofs.SlicesProofs.
Import ListNotations.
Open Scope Z_scope.

(* ====================================================================================== *)
(* (a) slice padding bits (test case slice_padding_data)                                   *)
(* ====================================================================================== *)
(* A consumed bit string cut into segments: Keep = bits the reader interprets (or skips as a
   whole field), Pad = the bits flushed at the end of a bounded block (flush_inputb), i.e. what
   the generator overwrites in the *_block_padding fields. *)
Inductive seg := Keep (l : list bool) | Pad (l : list bool).
Definition seg_bits (s : seg) : list bool := match s with Keep l => l | Pad l => l end.
Definition is_pad (s : seg) : bool := match s with Pad _ => true | Keep _ => false end.
Definition flat (ss : list seg) : list bool := flat_map seg_bits ss.
(* same Keep bits, Pad segments of the same lengths with ARBITRARY content *)
Definition seg_sim (a b : seg) : Prop :=
  match a, b with
  | Keep x, Keep y => x = y
  | Pad x, Pad y => length x = length y
  | _, _ => False
  end.
Definition segs_sim : list seg -> list seg -> Prop := Forall2 seg_sim.
Definition pad_count (ss : list seg) : nat := length (filter is_pad ss).

Lemma flat_app a b : flat (a ++ b) = flat a ++ flat b.
Proof. unfold flat. apply flat_map_app. Qed.

Lemma segs_sim_refl ss : segs_sim ss ss.
Proof. induction ss as [|[l|l] r IH]; constructor; try assumption; reflexivity. Qed.

Lemma segs_sim_app_inv a b c : segs_sim (a ++ b) c ->
  exists a' b', c = a' ++ b' /\ segs_sim a a' /\ segs_sim b b'.
Proof. intros H. apply Forall2_app_inv_l in H. destruct H as (a' & b' & Ha & Hb & ->). eauto. Qed.

(* a reader [rd] that returns a value and the unread bits is "padding independent at bs" *)
Definition pad_indep {A} (rd : list bool -> res (A * list bool)) (bs : list bool) (a : A) (rest : list bool)
           (segs : list seg) : Prop :=
  bs = flat segs ++ rest /\
  forall segs' rest', segs_sim segs segs' -> rd (flat segs' ++ rest') = Ok (a, rest').

Lemma pad_indep_bind {A B} (rd : list bool -> res (A * list bool)) (k : A -> list bool -> res (B * list bool))
      bs a r1 s1 b r2 s2 :
  pad_indep rd bs a r1 s1 -> pad_indep (k a) r1 b r2 s2 ->
  pad_indep (fun bs => '(x, r) <- rd bs ;; k x r) bs b r2 (s1 ++ s2).
Proof.
  intros [E1 H1] [E2 H2]. split.
  - rewrite flat_app, <- app_assoc, <- E2. exact E1.
  - intros segs' rest' Hs. destruct (segs_sim_app_inv _ _ _ Hs) as (a' & b' & -> & Ha & Hb).
    rewrite flat_app, <- app_assoc. rewrite (H1 a' (flat b' ++ rest') Ha). cbn [bind]. apply H2. exact Hb.
Qed.

Lemma pad_indep_ext {A} (rd rd' : list bool -> res (A * list bool)) bs a r s :
  (forall x, rd x = rd' x) -> pad_indep rd bs a r s -> pad_indep rd' bs a r s.
Proof. intros E [H1 H2]. split; [exact H1|]. intros. rewrite <- E. apply H2. assumption. Qed.

(* fixed-width fields *)
Lemma nbits_loop_indep n : forall v bs v' r, d_read_nbits_loop n v bs = Ok (v', r) ->
  exists pre, bs = pre ++ r /\ forall t, d_read_nbits_loop n v (pre ++ t) = Ok (v', t).
Proof.
  induction n as [|n IH]; intros v bs v' r H; cbn [d_read_nbits_loop] in H.
  - injection H as <- <-. exists []. split; [reflexivity|]. intros t. reflexivity.
  - destruct bs as [|b bs]; cbn [read_bit bind] in H; [discriminate|].
    destruct (IH _ _ _ _ H) as (pre & -> & Hp). exists (b :: pre). split; [reflexivity|].
    intros t. cbn [app d_read_nbits_loop read_bit bind]. apply Hp.
Qed.

Lemma nbits_indep n bs v r : d_read_nbits n bs = Ok (v, r) ->
  exists pre, pad_indep (d_read_nbits n) bs v r [Keep pre].
Proof.
  intros H. destruct (nbits_loop_indep _ _ _ _ _ H) as (pre & E & Hp). exists pre. split.
  - cbn. rewrite app_nil_r. exact E.
  - intros segs' rest' Hs. inversion Hs as [|? y ? l' Hy Hl]; subst. inversion Hl; subst.
    destruct y as [y|y]; cbn in Hy; [subst y|contradiction]. cbn. rewrite app_nil_r. apply Hp.
Qed.

(* C08 padding_bits_irrelevant / _chroma in this vocabulary *)
Lemma comp_block_indep fuel ps comp qz sx sy len bs ws rest :
  d_comp_block fuel ps comp qz sx sy len bs = Ok (ws, rest) ->
  exists used pad, pad_indep (d_comp_block fuel ps comp qz sx sy len) bs ws rest [Keep used; Pad pad].
Proof.
  intros H. destruct (padding_irrelevant_comp _ _ _ _ _ _ _ _ _ _ H) as (used & pad & bl' & E & _ & _ & Hp).
  exists used, pad. split.
  - cbn. rewrite app_nil_r, <- app_assoc. exact E.
  - intros segs' rest' Hs. inversion Hs as [|? y ? l' Hy Hl]; subst. inversion Hl as [|? z ? l'' Hz Hl']; subst. inversion Hl'; subst.
    destruct y as [y|y]; cbn in Hy; [subst y|contradiction]. destruct z as [z|z]; cbn in Hz; [contradiction|].
    cbn. rewrite app_nil_r, <- app_assoc. apply Hp. symmetry. exact Hz.
Qed.

Lemma chroma_block_indep fuel ps qz sx sy len bs ws rest :
  d_chroma_block fuel ps qz sx sy len bs = Ok (ws, rest) ->
  exists used pad, pad_indep (d_chroma_block fuel ps qz sx sy len) bs ws rest [Keep used; Pad pad].
Proof.
  intros H. destruct (padding_irrelevant_chroma _ _ _ _ _ _ _ _ _ H) as (used & pad & bl' & E & _ & _ & Hp).
  exists used, pad. split.
  - cbn. rewrite app_nil_r, <- app_assoc. exact E.
  - intros segs' rest' Hs. inversion Hs as [|? y ? l' Hy Hl]; subst. inversion Hl as [|? z ? l'' Hz Hl']; subst. inversion Hl'; subst.
    destruct y as [y|y]; cbn in Hy; [subst y|contradiction]. destruct z as [z|z]; cbn in Hz; [contradiction|].
    cbn. rewrite app_nil_r, <- app_assoc. apply Hp. symmetry. exact Hz.
Qed.

Lemma pad_indep_ret {A} (a : A) bs : pad_indep (fun bs => Ok (a, bs)) bs a bs [].
Proof. split; [reflexivity|]. intros segs' rest' Hs. inversion Hs; subst. reflexivity. Qed.

(* one HQ component: length byte, then the bounded block *)
Lemma hq_comp_indep fuel p qz sx sy comp bs lenb ws rest :
  d_hq_comp fuel p qz sx sy comp bs = Ok ((lenb, ws), rest) ->
  exists pre used pad, pad_indep (d_hq_comp fuel p qz sx sy comp) bs (lenb, ws) rest [Keep pre; Keep used; Pad pad].
Proof.
  unfold d_hq_comp. intros H.
  destruct (d_read_nbits (8 * 1) bs) as [[l1 b1]|e] eqn:E1; cbn [bind] in H; [|discriminate].
  destruct (d_comp_block fuel (sp_st p) comp qz sx sy (8 * (sp_size_scaler p * l1)) b1) as [[w1 b2]|e] eqn:E2; cbn [bind] in H; [|discriminate].
  injection H as <- <- <-.
  destruct (nbits_indep _ _ _ _ E1) as (pre & I1). destruct (comp_block_indep _ _ _ _ _ _ _ _ _ _ E2) as (used & pad & I2).
  exists pre, used, pad.
  pose proof (pad_indep_bind (d_read_nbits (8 * 1))
     (fun lenb bs => '(ws, bs) <- d_comp_block fuel (sp_st p) comp qz sx sy (8 * (sp_size_scaler p * lenb)) bs ;; Ok ((lenb, ws), bs))
     bs l1 b1 [Keep pre] (l1, w1) b2 [Keep used; Pad pad] I1) as HB.
  cbn [app] in HB. eapply pad_indep_ext; [|apply HB].
  - intros x. reflexivity.
  - replace [Keep used; Pad pad] with ([Keep used; Pad pad] ++ []) by reflexivity.
    eapply pad_indep_ext; [|eapply (pad_indep_bind (d_comp_block fuel (sp_st p) comp qz sx sy (8 * (sp_size_scaler p * l1)))
                                      (fun ws bs => Ok ((l1, ws), bs)) b1 w1 b2 _ (l1, w1) b2 []); [exact I2|apply pad_indep_ret]].
    intros x. reflexivity.
Qed.

(* read_many of padding-independent steps *)
Lemma read_many_indep {A B} (step : A -> list bool -> res (B * list bool)) (n : nat) :
  (forall a bs b r, step a bs = Ok (b, r) -> exists segs, pad_count segs = n /\ pad_indep (step a) bs b r segs) ->
  forall l bs bsout r, read_many step l bs = Ok (bsout, r) ->
  exists segs, pad_count segs = (length l * n)%nat /\ pad_indep (read_many step l) bs bsout r segs.
Proof.
  intros Hstep. induction l as [|a l IH]; intros bs bsout r H; cbn [read_many] in H.
  - injection H as <- <-. exists []. split; [reflexivity|]. apply (pad_indep_ret (@nil B)).
  - destruct (step a bs) as [[b r1]|e] eqn:E1; cbn [bind] in H; [|discriminate].
    destruct (read_many step l r1) as [[bs2 r2]|e] eqn:E2; cbn [bind] in H; [|discriminate].
    injection H as <- <-.
    destruct (Hstep _ _ _ _ E1) as (s1 & C1 & I1). destruct (IH _ _ _ E2) as (s2 & C2 & I2).
    exists (s1 ++ s2). split.
    { unfold pad_count in *. rewrite filter_app, app_length, C1, C2. cbn [length]. lia. }
    cbn [read_many].
    pose proof (pad_indep_bind (step a) (fun b st1 => '(bs, st2) <- read_many step l st1 ;; Ok (b :: bs, st2))
                  bs b r1 s1 (b :: bs2) r2 s2 I1) as HB.
    eapply pad_indep_ext; [|apply HB].
    + intros x. reflexivity.
    + replace s2 with (s2 ++ []) by apply app_nil_r.
      eapply pad_indep_ext; [|eapply (pad_indep_bind (read_many step l) (fun bs st2 => Ok (b :: bs, st2)) r1 bs2 r2 s2 (b :: bs2) r2 []);
                                [exact I2|apply pad_indep_ret]].
      intros x. reflexivity.
Qed.

(* what "the same slice up to padding" means for a whole-slice reader *)
Definition slice_indep (rd : list bool -> res d_slice_out) (bs : list bool) (d : d_slice_out) (segs : list seg) : Prop :=
  bs = flat segs ++ d_rest d /\
  forall segs' rest', segs_sim segs segs' ->
    rd (flat segs' ++ rest') = Ok (mk_d_out (d_qindex d) (d_lengths d) (d_writes d) rest').

Lemma slice_indep_of_pair (rd : list bool -> res d_slice_out) (rd2 : list bool -> res ((Z * list Z * list write) * list bool)) bs d segs :
  (forall x, rd x = '(t, r) <- rd2 x ;; Ok (mk_d_out (fst (fst t)) (snd (fst t)) (snd t) r)) ->
  pad_indep rd2 bs (d_qindex d, d_lengths d, d_writes d) (d_rest d) segs ->
  slice_indep rd bs d segs.
Proof.
  intros E [H1 H2]. split; [exact H1|]. intros segs' rest' Hs. rewrite E, (H2 _ _ Hs). reflexivity.
Qed.

Theorem hq_slice_padding_irrelevant fuel p sx sy bs d :
  d_hq_slice fuel p sx sy bs = Ok d ->
  exists segs, pad_count segs = 3%nat /\ slice_indep (d_hq_slice fuel p sx sy) bs d segs.
Proof.
  unfold d_hq_slice. intros H.
  destruct (d_read_nbits (8 * sp_prefix_bytes p) bs) as [[pv b1]|e] eqn:E1; cbn [bind] in H; [|discriminate].
  destruct (d_read_nbits (8 * 1) b1) as [[q b2]|e] eqn:E2; cbn [bind] in H; [|discriminate].
  destruct (read_many (d_hq_comp fuel p (slice_quantizers p q) sx sy) [Str_Y; Str_C1; Str_C2] b2) as [[cs b3]|e] eqn:E3;
    cbn [bind] in H; [|discriminate].
  injection H as <-. cbn [d_qindex d_lengths d_writes d_rest].
  destruct (nbits_indep _ _ _ _ E1) as (pre1 & I1). destruct (nbits_indep _ _ _ _ E2) as (pre2 & I2).
  destruct (read_many_indep (d_hq_comp fuel p (slice_quantizers p q) sx sy) 1) with (2 := E3) as (s3 & C3 & I3).
  { intros a x [lenb ws] r Hx. destruct (hq_comp_indep _ _ _ _ _ _ _ _ _ _ Hx) as (pre & used & pad & I).
    exists [Keep pre; Keep used; Pad pad]. split; [reflexivity|exact I]. }
  exists ([Keep pre1] ++ [Keep pre2] ++ s3). split; [exact C3|].
  destruct I1 as [X1 Y1], I2 as [X2 Y2], I3 as [X3 Y3]. split.
  - cbn [d_rest]. rewrite !flat_app, <- !app_assoc, <- X3, <- X2. exact X1.
  - intros segs' rest' Hs.
    destruct (segs_sim_app_inv _ _ _ Hs) as (a' & t' & -> & Ha & Ht).
    destruct (segs_sim_app_inv _ _ _ Ht) as (b' & c' & -> & Hb & Hc).
    rewrite !flat_app, <- !app_assoc. rewrite (Y1 _ _ Ha). cbn [bind]. rewrite (Y2 _ _ Hb). cbn [bind].
    rewrite (Y3 _ _ Hc). reflexivity.
Qed.

Theorem ld_slice_padding_irrelevant fuel p sx sy bs d :
  d_ld_slice fuel p sx sy bs = Ok d ->
  exists segs, pad_count segs = 2%nat /\ slice_indep (d_ld_slice fuel p sx sy) bs d segs.
Proof.
  unfold d_ld_slice. intros H.
  destruct (d_read_nbits 7 bs) as [[q b1]|e] eqn:E1; cbn [bind] in H; [|discriminate].
  destruct (d_read_nbits (intlog2 (8 * slice_bytes (sp_st p) sx sy - 7)) b1) as [[syl b2]|e] eqn:E2; cbn [bind] in H; [|discriminate].
  destruct (syl >? _) eqn:EG; [discriminate|].
  destruct (d_comp_block fuel (sp_st p) Str_Y (slice_quantizers p q) sx sy syl b2) as [[yw b3]|e] eqn:E3; cbn [bind] in H; [|discriminate].
  destruct (d_chroma_block fuel (sp_st p) (slice_quantizers p q) sx sy _ b3) as [[cw b4]|e] eqn:E4; cbn [bind] in H; [|discriminate].
  injection H as <-.
  destruct (nbits_indep _ _ _ _ E1) as (pre1 & X1 & Y1). destruct (nbits_indep _ _ _ _ E2) as (pre2 & X2 & Y2).
  destruct (comp_block_indep _ _ _ _ _ _ _ _ _ _ E3) as (uy & py & X3 & Y3).
  destruct (chroma_block_indep _ _ _ _ _ _ _ _ _ E4) as (uc & pc & X4 & Y4).
  exists ([Keep pre1] ++ [Keep pre2] ++ [Keep uy; Pad py] ++ [Keep uc; Pad pc]). split; [reflexivity|]. split.
  - cbn [d_rest]. rewrite !flat_app, <- !app_assoc, <- X4, <- X3, <- X2. exact X1.
  - intros segs' rest' Hs.
    destruct (segs_sim_app_inv _ _ _ Hs) as (a' & t' & -> & Ha & Ht).
    destruct (segs_sim_app_inv _ _ _ Ht) as (b' & t'' & -> & Hb & Ht').
    destruct (segs_sim_app_inv _ _ _ Ht') as (c' & d' & -> & Hc & Hd).
    rewrite !flat_app, <- !app_assoc. rewrite (Y1 _ _ Ha). cbn [bind]. rewrite (Y2 _ _ Hb). cbn [bind].
    rewrite EG. rewrite (Y3 _ _ Hc). cbn [bind]. rewrite (Y4 _ _ Hd). reflexivity.
Qed.

(* slice(): whichever profile the parse code selects *)
Theorem slice_padding_irrelevant fuel p sx sy bs d :
  d_slice fuel p sx sy bs = Ok d ->
  exists segs,
    pad_count segs = (if is_ld (sp_st p) then 2%nat else if is_hq (sp_st p) then 3%nat else 0%nat)/\
    slice_indep (d_slice fuel p sx sy) bs d segs.
Proof.
  unfold d_slice. destruct (is_ld (sp_st p)); [apply ld_slice_padding_irrelevant|].
  destruct (is_hq (sp_st p)); [apply hq_slice_padding_irrelevant|].
  intros [= <-]. exists []. split; [reflexivity|]. split; [reflexivity|].
  intros segs' rest' Hs. inversion Hs; subst. reflexivity.
Qed.

(* all the slices of a picture (transform_data: coords = slice_coords) or of a fragment
   (fragment_data: coords = fragment_coords) *)
Theorem slices_padding_irrelevant fuel p : forall coords bs ds rest,
  d_slices fuel p coords bs = Ok (ds, rest) ->
  exists segs,
    bs = flat segs ++ rest /\
    pad_count segs = (length coords * (if is_ld (sp_st p) then 2 else if is_hq (sp_st p) then 3 else 0)%nat)%nat /\
    forall segs' rest', segs_sim segs segs' ->
      exists ds', d_slices fuel p coords (flat segs' ++ rest') = Ok (ds', rest') /\
                  map d_writes ds' = map d_writes ds /\ map d_qindex ds' = map d_qindex ds /\
                  map d_lengths ds' = map d_lengths ds.
Proof.
  unfold d_slices. induction coords as [|c coords IH]; intros bs ds rest H; cbn [read_many] in H.
  - injection H as <- <-. exists []. split; [reflexivity|]. split; [reflexivity|].
    intros segs' rest' Hs. inversion Hs; subst. exists []. repeat split; reflexivity.
  - destruct (d_slice fuel p (fst c) (snd c) bs) as [o|e] eqn:E1; cbn [bind] in H; [|discriminate].
    destruct (read_many _ coords (d_rest o)) as [[ds2 r2]|e] eqn:E2; cbn [bind] in H; [|discriminate].
    injection H as <- <-.
    destruct (slice_padding_irrelevant _ _ _ _ _ _ E1) as (s1 & C1 & X1 & Y1).
    destruct (IH _ _ _ E2) as (s2 & X2 & C2 & Y2).
    exists (s1 ++ s2). split; [rewrite flat_app, <- app_assoc, <- X2; exact X1|]. split.
    { unfold pad_count in *. rewrite filter_app, app_length, C1, C2. cbn [length]. lia. }
    intros segs' rest' Hs. destruct (segs_sim_app_inv _ _ _ Hs) as (a' & b' & -> & Ha & Hb).
    destruct (Y2 b' rest' Hb) as (ds2' & R2 & W2 & Q2 & L2).
    rewrite flat_app, <- app_assoc. cbn [read_many]. rewrite (Y1 _ _ Ha). cbn [bind d_rest]. rewrite R2. cbn [bind].
    eexists. split; [reflexivity|]. cbn [map d_writes d_qindex d_lengths]. rewrite W2, Q2, L2. repeat split; reflexivity.
Qed.
