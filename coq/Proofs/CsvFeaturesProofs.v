(* Proofs about Model/CsvFeatures.v (property C28). *)
From Coq Require Import ZArith List Bool String Ascii Lia.
From VC2 Require Import Model.CsvFeatures.
Import ListNotations.
Open Scope Z_scope.

(* ------------------------------------------------------------ parsers *)

Lemma enum_lookup_name_in : forall tab s n,
  enum_lookup_name tab s = Some n -> In n (map snd tab).
Proof.
  intros tab s n H. unfold enum_lookup_name in H.
  destruct (find _ tab) as [e|] eqn:F; [|discriminate].
  injection H as <-. apply find_some in F. apply in_map. exact (proj1 F).
Qed.

Lemma enum_has_value_in : forall tab n,
  enum_has_value tab n = true -> In n (map snd tab).
Proof.
  intros tab n H. unfold enum_has_value in H. apply existsb_exists in H.
  destruct H as [e [Hin He]]. apply Z.eqb_eq in He. subst n. apply in_map. exact Hin.
Qed.

Lemma parse_int_enum_in : forall tab c n,
  parse_int_enum tab c = Some n -> In n (map snd tab).
Proof.
  intros tab c n H. unfold parse_int_enum in H.
  destruct (c_int c) as [k|].
  - destruct (enum_has_value tab k) eqn:Hv; [|discriminate].
    injection H as <-. apply enum_has_value_in. exact Hv.
  - eapply enum_lookup_name_in. exact H.
Qed.

Lemma parse_int_at_least_ge : forall m c n,
  parse_int_at_least m c = Some n -> m <= n.
Proof.
  intros m c n H. unfold parse_int_at_least in H.
  destruct (c_int c) as [k|]; [|discriminate].
  destruct (k <? m) eqn:Hk; [discriminate|].
  injection H as <-. apply Z.ltb_ge in Hk. exact Hk.
Qed.

Lemma value_in_specb_ok : forall T p v, value_in_specb T p v = true -> value_in_spec T p v.
Proof.
  intros T p v H. destruct p as [e|m|]; destruct v as [n|b]; cbn in *; try discriminate; auto.
  - apply enum_has_value_in. exact H.
  - apply Z.leb_le. exact H.
Qed.

Lemma run_vparser_in_spec : forall T p c v, run_vparser T p c = Some v -> value_in_spec T p v.
Proof.
  intros T p c v H. destruct p as [e|m|]; cbn in H.
  - destruct (parse_int_enum (enum_tab T e) c) as [n|] eqn:P; [|discriminate].
    injection H as <-. cbn. eapply parse_int_enum_in. exact P.
  - destruct (parse_int_at_least m c) as [n|] eqn:P; [|discriminate].
    injection H as <-. cbn. eapply parse_int_at_least_ge. exact P.
  - destruct (parse_bool c) as [b|]; [|discriminate]. injection H as <-. exact I.
Qed.

(* -------------------------------------------------------- bind and pop *)

Lemma bind_ok : forall A B (r : result A) (f : A -> result B) b,
  bind r f = Ok b -> exists a, r = Ok a /\ f a = Ok b.
Proof. intros A B r f b H. destruct r as [a| |]; try discriminate. exists a. auto. Qed.

Lemma bind_total : forall A B (r : result A) (f : A -> result B),
  is_ok_or_invalid r -> (forall a, r = Ok a -> is_ok_or_invalid (f a)) -> is_ok_or_invalid (bind r f).
Proof. intros A B r f Hr Hf. destruct r as [a| |]; cbn in *; auto. Qed.

Lemma pop_total : forall A name field (parser : cell -> option A) dflt col,
  is_ok_or_invalid (pop name field parser dflt col).
Proof.
  intros. unfold pop. destruct (dict_pop field col) as [[c col']|]; cbn; auto.
  destruct dflt as [d|]; [destruct (c_default c)|]; cbn; auto; destruct (parser c); cbn; auto.
Qed.

Lemma pop_ok_nodefault : forall A name field (parser : cell -> option A) col v col',
  pop name field parser None col = Ok (v, col') -> exists c, parser c = Some v.
Proof.
  intros A name field parser col v col' H. unfold pop in H.
  destruct (dict_pop field col) as [[c col1]|]; [|discriminate].
  destruct (parser c) as [w|] eqn:P; [|discriminate].
  injection H as <- <-. exists c. exact P.
Qed.

Lemma pop_ok_default : forall A name field (parser : cell -> option A) d col v col',
  pop name field parser (Some d) col = Ok (v, col') -> v = d \/ exists c, parser c = Some v.
Proof.
  intros A name field parser d col v col' H. unfold pop in H.
  destruct (dict_pop field col) as [[c col1]|]; [|discriminate].
  destruct (c_default c).
  - injection H as <- <-. left. reflexivity.
  - destruct (parser c) as [w|] eqn:P; [|discriminate].
    injection H as <- <-. right. exists c. exact P.
Qed.

(* ------------------------------------------------- quantisation matrix *)

Lemma zrange_nonpos : forall s n, n <= 0 -> zrange s n = [].
Proof.
  intros s n H. unfold zrange. replace (Z.to_nat n) with O by lia. reflexivity.
Qed.

Lemma zrange_cons : forall s n, 0 < n -> zrange s n = s :: zrange (s + 1) (n - 1).
Proof.
  intros s n H. unfold zrange.
  replace (Z.to_nat n) with (S (Z.to_nat (n - 1))) by lia.
  cbn [seq map]. f_equal; [lia|].
  rewrite <- seq_shift, map_map. apply map_ext. intros i. lia.
Qed.

Lemma qm_h_levels_keys : forall ws n level m r,
  qm_h_levels ws n level = Some (m, r) ->
  matrix_keys m = map (fun l => (l, [oH])) (zrange level n).
Proof.
  induction ws as [|w ws IH]; intros n level m r H.
  - cbn in H. destruct (n <=? 0) eqn:Hn; [|discriminate].
    injection H as <- <-. apply Z.leb_le in Hn. rewrite zrange_nonpos by exact Hn. reflexivity.
  - cbn in H. destruct (n <=? 0) eqn:Hn.
    + injection H as <- <-. apply Z.leb_le in Hn. rewrite zrange_nonpos by exact Hn. reflexivity.
    + apply Z.leb_gt in Hn. destruct w as [a|]; [|discriminate].
      destruct (qm_h_levels ws (n - 1) (level + 1)) as [[m' r']|] eqn:R; [|discriminate].
      injection H as <- <-. rewrite zrange_cons by exact Hn. cbn. f_equal.
      eapply IH. exact R.
Qed.

Lemma qm_hl_levels_keys_len : forall k ws n level m r,
  (List.length ws <= k)%nat ->
  qm_hl_levels ws n level = Some (m, r) ->
  matrix_keys m = map (fun l => (l, [oHL; oLH; oHH])) (zrange level n).
Proof.
  induction k as [|k IH]; intros ws n level m r Hk H.
  - destruct ws; [|cbn in Hk; lia]. cbn in H.
    destruct (n <=? 0) eqn:Hn; [|discriminate].
    injection H as <- <-. apply Z.leb_le in Hn. rewrite zrange_nonpos by exact Hn. reflexivity.
  - destruct ws as [|w1 ws].
    + cbn in H. destruct (n <=? 0) eqn:Hn; [|discriminate].
      injection H as <- <-. apply Z.leb_le in Hn. rewrite zrange_nonpos by exact Hn. reflexivity.
    + cbn in H. destruct (n <=? 0) eqn:Hn.
      * injection H as <- <-. apply Z.leb_le in Hn. rewrite zrange_nonpos by exact Hn. reflexivity.
      * apply Z.leb_gt in Hn.
        destruct w1 as [a|]; [|discriminate].
        destruct ws as [|[b|] ws]; try discriminate.
        destruct ws as [|[c|] ws]; try discriminate.
        destruct (qm_hl_levels ws (n - 1) (level + 1)) as [[m' r']|] eqn:R; [|discriminate].
        injection H as <- <-. rewrite zrange_cons by exact Hn. cbn. f_equal.
        eapply (IH ws). { cbn in Hk. lia. } exact R.
Qed.

Lemma qm_hl_levels_keys : forall ws n level m r,
  qm_hl_levels ws n level = Some (m, r) ->
  matrix_keys m = map (fun l => (l, [oHL; oLH; oHH])) (zrange level n).
Proof. intros ws n level m r H. eapply qm_hl_levels_keys_len; [apply le_n|exact H]. Qed.

Lemma matrix_keys_app : forall a b, matrix_keys (a ++ b) = matrix_keys a ++ matrix_keys b.
Proof. intros. unfold matrix_keys. apply map_app. Qed.

Lemma parse_quantization_matrix_shape : forall d dh c m,
  parse_quantization_matrix d dh c = Some m -> matrix_shape d dh m.
Proof.
  intros d dh c m H. unfold parse_quantization_matrix in H.
  destruct (c_words c) as [|[a|] ws1]; try discriminate.
  unfold matrix_shape, expected_shape.
  destruct (dh =? 0) eqn:Hdh.
  - apply Z.eqb_eq in Hdh. subst dh.
    destruct (qm_hl_levels ws1 d (0 + 1)) as [[m2 [|x r]]|] eqn:R2; try discriminate.
    injection H as <-. unfold matrix_keys. cbn [map fst snd app]. rewrite ?map_app. cbn [map fst snd app].
    rewrite (zrange_nonpos 1 0) by lia. cbn [map app].
    f_equal. exact (qm_hl_levels_keys _ _ _ _ _ R2).
  - destruct (qm_h_levels ws1 dh 1) as [[m1 r1]|] eqn:R1; [|discriminate].
    destruct (qm_hl_levels r1 d (dh + 1)) as [[m2 [|x r]]|] eqn:R2; try discriminate.
    injection H as <-. unfold matrix_keys. cbn [map fst snd app]. rewrite ?map_app. cbn [map fst snd app].
    f_equal. f_equal.
    + exact (qm_h_levels_keys _ _ _ _ _ R1).
    + exact (qm_hl_levels_keys _ _ _ _ _ R2).
Qed.

(* ------------------------------------------------------ video parameters *)

Lemma parse_vp_in_spec : forall T name fields defaults col vs col',
  all2b (value_in_specb T) (map snd fields) defaults = true ->
  parse_vp T name fields defaults col = Ok (vs, col') ->
  Forall2 (value_in_spec T) (map snd fields) vs.
Proof.
  induction fields as [|[f p] fs IH]; intros defaults col vs col' Hd H.
  - cbn in H. injection H as <- <-. constructor.
  - destruct defaults as [|d ds]; [cbn in Hd; discriminate|].
    cbn in Hd. apply andb_prop in Hd. destruct Hd as [Hd1 Hd2].
    cbn [parse_vp] in H.
    apply bind_ok in H. destruct H as [[v col1] [Hp H]].
    apply bind_ok in H. destruct H as [[vs' col2] [Hr H]].
    injection H as <- <-. cbn [map snd]. constructor.
    + apply pop_ok_default in Hp. destruct Hp as [->|[c Hc]].
      * apply value_in_specb_ok. exact Hd1.
      * eapply run_vparser_in_spec. exact Hc.
    + eapply IH; [exact Hd2|exact Hr].
Qed.

Lemma parse_vp_total : forall T name fields defaults col,
  (List.length fields <= List.length defaults)%nat ->
  is_ok_or_invalid (parse_vp T name fields defaults col).
Proof.
  induction fields as [|[f p] fs IH]; intros defaults col Hl.
  - exact I.
  - destruct defaults as [|d ds]; [cbn in Hl; lia|].
    cbn [parse_vp]. apply bind_total; [apply pop_total|].
    intros [v col1] _. apply bind_total.
    + apply IH. cbn in Hl. lia.
    + intros [vs col2] _. exact I.
Qed.

Lemma lookup_defaults_in : forall T bvf ds,
  lookup_defaults T bvf = Some ds -> exists r, In r (defaults_tab T) /\ snd r = ds.
Proof.
  intros T bvf ds H. unfold lookup_defaults in H.
  destruct (find _ (defaults_tab T)) as [r|] eqn:F; [|discriminate].
  injection H as <-. apply find_some in F. exists r. split; [exact (proj1 F)|reflexivity].
Qed.

(* ---------------------------------------------------------- one column *)

Ltac step H x c :=
  apply bind_ok in H; destruct H as [[x c] [?Hp H]].

Lemma parse_column_in_domain : forall T name col cfg,
  defaults_in_domainb T = true ->
  parse_column T name col = Ok cfg ->
  in_domain T cfg /\ cf_name cfg = name.
Proof.
  intros T name col cfg HT H. unfold parse_column in H.
  step H level c1. step H profile c2. step H pcm c3. step H wi c4. step H wiho c5.
  step H depth c6. step H depthho c7. step H sx c8. step H sy c9. step H fsc c10.
  step H lossless c11. step H bvf c12.
  destruct (lookup_defaults T bvf) as [defaults|] eqn:Hdef; [|discriminate].
  step H vp c13. step H pb c14. step H qm c15.
  destruct c15; [|discriminate]. injection H as <-.
  split; [|reflexivity].
  unfold in_domain; cbn [cf_level cf_profile cf_picture_coding_mode cf_wavelet_index cf_wavelet_index_ho
    cf_dwt_depth cf_dwt_depth_ho cf_slices_x cf_slices_y cf_fragment_slice_count cf_lossless
    cf_video_parameters cf_picture_bytes cf_quantization_matrix].
  assert (Hpb : (lossless = true /\ pb = None) \/
                (lossless = false /\ exists n, pb = Some n /\ 1 <= n)).
  { match goal with Hq : (if lossless then _ else _) = Ok (pb, _) |- _ =>
      destruct lossless;
      [ destruct (dict_has _ _); [discriminate|]; injection Hq as <- _; left; split; reflexivity
      | apply bind_ok in Hq; destruct Hq as [[pb' ?] [Hq1 Hq]]; injection Hq as <- _;
        apply pop_ok_nodefault in Hq1; destruct Hq1 as [? Hq1];
        apply (parse_int_at_least_ge 1) in Hq1; right; split; [reflexivity|];
        exists pb'; split; [reflexivity|exact Hq1] ] end. }
  repeat match goal with
  | Hp : pop _ _ _ None _ = Ok _ |- _ => apply pop_ok_nodefault in Hp; destruct Hp as [? Hp]
  end.
  repeat split.
  - eapply parse_int_enum_in; eassumption.
  - eapply parse_int_enum_in; eassumption.
  - eapply parse_int_enum_in; eassumption.
  - eapply parse_int_enum_in; eassumption.
  - eapply parse_int_enum_in; eassumption.
  - eapply (parse_int_at_least_ge 0); eassumption.
  - eapply (parse_int_at_least_ge 0); eassumption.
  - eapply (parse_int_at_least_ge 1); eassumption.
  - eapply (parse_int_at_least_ge 1); eassumption.
  - eapply (parse_int_at_least_ge 0); eassumption.
  - apply lookup_defaults_in in Hdef. destruct Hdef as [r [Hin <-]].
    unfold defaults_in_domainb in HT. rewrite forallb_forall in HT.
    eapply parse_vp_in_spec; [apply HT; exact Hin|eassumption].
  - intros Hnone. destruct Hpb as [[-> _]|[_ [n [-> _]]]]; [reflexivity|discriminate].
  - intros Hl. destruct Hpb as [[_ ->]|[-> _]]; [reflexivity|discriminate].
  - intros n Hn. destruct Hpb as [[_ ->]|[_ [n' [-> Hge]]]]; [discriminate|].
    injection Hn as <-. exact Hge.
  - intros m Hm. subst qm.
    match goal with Hq : pop _ _ _ (Some None) _ = Ok (Some m, _) |- _ =>
      apply pop_ok_default in Hq; destruct Hq as [Hq|[c Hq]]; [discriminate|];
      destruct (parse_quantization_matrix depth depthho c) as [m'|] eqn:P; [|discriminate];
      injection Hq as ->; eapply parse_quantization_matrix_shape; exact P end.
Qed.

Lemma defaults_complete_lookup : forall T bvf,
  defaults_completeb T = true -> In bvf (map snd (enum_tab T EBaseVideoFormats)) ->
  exists ds, lookup_defaults T bvf = Some ds /\ (List.length vp_fields <= List.length ds)%nat.
Proof.
  intros T bvf HT Hin. unfold defaults_completeb in HT. rewrite forallb_forall in HT.
  apply in_map_iff in Hin. destruct Hin as [e [<- Hin]]. specialize (HT e Hin).
  destruct (lookup_defaults T (snd e)) as [ds|]; [|discriminate].
  exists ds. split; [reflexivity|]. apply Nat.leb_le. exact HT.
Qed.

Lemma parse_column_total : forall T name col,
  defaults_completeb T = true -> is_ok_or_invalid (parse_column T name col).
Proof.
  intros T name col HT. unfold parse_column. cbv zeta.
  repeat (apply bind_total; [apply pop_total|]; intros [? ?] ?).
  match goal with Hp : pop _ "base_video_format"%string _ None _ = Ok (?b, _) |- _ =>
    apply pop_ok_nodefault in Hp; destruct Hp as [cbvf Hp]; apply parse_int_enum_in in Hp;
    destruct (defaults_complete_lookup T b HT Hp) as [ds [-> Hlen]] end.
  apply bind_total; [apply parse_vp_total; exact Hlen|]. intros [vp ?] _.
  apply bind_total.
  - match goal with |- is_ok_or_invalid (if ?l then _ else _) => destruct l end.
    + destruct (dict_has _ _); exact I.
    + apply bind_total; [apply pop_total|]. intros [? ?] _. exact I.
  - intros [pb ?] _. apply bind_total; [apply pop_total|]. intros [qm cl] _.
    destruct cl; exact I.
Qed.

(* ---------------------------------------------------------- all columns *)

Lemma NoDup_snoc : forall (A : Type) (l : list A) (x : A), NoDup l -> ~ In x l -> NoDup (l ++ [x]).
Proof.
  intros A l x Hl Hx. induction l as [|a l IH]; cbn.
  - constructor; [intros []|constructor].
  - inversion Hl as [|? ? Ha Hl']; subst. constructor.
    + intros Hin. apply in_app_or in Hin. destruct Hin as [Hin|[->|[]]]; [exact (Ha Hin)|].
      apply Hx. left. reflexivity.
    + apply IH; [exact Hl'|]. intros Hin. apply Hx. right. exact Hin.
Qed.

Lemma name_not_in : forall (out : list config) name,
  existsb (fun c => String.eqb (cf_name c) name) out = false -> ~ In name (map cf_name out).
Proof.
  intros out name H Hin. apply in_map_iff in Hin. destruct Hin as [c [Hn Hc]].
  assert (existsb (fun c => String.eqb (cf_name c) name) out = true) as E.
  { apply existsb_exists. exists c. split; [exact Hc|]. apply String.eqb_eq. exact Hn. }
  rewrite E in H. discriminate.
Qed.

Lemma read_columns_in_domain : forall T cols idx out res,
  defaults_in_domainb T = true ->
  Forall (in_domain T) out -> NoDup (map cf_name out) ->
  read_columns T idx cols out = Ok res ->
  Forall (in_domain T) res /\ NoDup (map cf_name res).
Proof.
  intros T cols. induction cols as [|col rest IH]; intros idx out res HT Hdom Hnd H.
  - cbn in H. injection H as <-. split; assumption.
  - cbn [read_columns] in H. destruct col as [|kv col].
    + eapply IH; eassumption.
    + destruct (column_name idx (kv :: col)) as [name col1].
      destruct (existsb (fun c => String.eqb (cf_name c) name) out) eqn:Hex; [discriminate|].
      apply bind_ok in H. destruct H as [cfg [Hc H]].
      apply parse_column_in_domain in Hc; [|exact HT]. destruct Hc as [Hc Hname].
      eapply IH; [exact HT| | |exact H].
      * apply Forall_app. split; [exact Hdom|]. constructor; [exact Hc|constructor].
      * rewrite map_app. cbn [map]. apply NoDup_snoc; [exact Hnd|].
        rewrite Hname. apply name_not_in. exact Hex.
Qed.

Lemma read_columns_total : forall T cols idx out,
  defaults_completeb T = true -> is_ok_or_invalid (read_columns T idx cols out).
Proof.
  intros T cols. induction cols as [|col rest IH]; intros idx out HT.
  - exact I.
  - cbn [read_columns]. destruct col as [|kv col].
    + apply IH. exact HT.
    + destruct (column_name idx (kv :: col)) as [name col1].
      destruct (existsb _ out); [exact I|].
      apply bind_total; [apply parse_column_total; exact HT|].
      intros cfg _. apply IH. exact HT.
Qed.

(* ------------------------------------------------------------ top level *)

Theorem read_model_in_domain : forall T inp cfgs,
  defaults_in_domainb T = true ->
  read_model T inp = Ok cfgs ->
  Forall (in_domain T) cfgs /\ NoDup (map cf_name cfgs).
Proof.
  intros T inp cfgs HT H. destruct inp as [rows|]; [|discriminate].
  cbn [read_model] in H. eapply read_columns_in_domain; [exact HT| | |exact H]; constructor.
Qed.

Theorem read_model_total : forall T inp,
  defaults_completeb T = true -> is_ok_or_invalid (read_model T inp).
Proof.
  intros T inp HT. destruct inp as [rows|]; [|exact I].
  cbn [read_model]. apply read_columns_total. exact HT.
Qed.

Theorem read_model_ok_or_invalid : forall T inp,
  defaults_completeb T = true ->
  (exists cfgs, read_model T inp = Ok cfgs) \/ (exists k f c, read_model T inp = Invalid k f c).
Proof.
  intros T inp HT. pose proof (read_model_total T inp HT) as H.
  destruct (read_model T inp) as [cfgs|k f c|w]; cbn in H.
  - left. exists cfgs. reflexivity.
  - right. exists k, f, c. reflexivity.
  - contradiction.
Qed.

(* ------------------------------------------- sanity of the specification *)

Lemma seq_from : forall n k, seq k n = map (fun i => (k + i)%nat) (seq 0 n).
Proof.
  induction n as [|n IH]; intros k; [reflexivity|].
  cbn [seq map]. f_equal; [lia|].
  rewrite (IH (S k)), <- seq_shift, map_map. apply map_ext. intros i. lia.
Qed.

Lemma zrange_app : forall s a b, 0 <= a -> 0 <= b -> zrange s (a + b) = zrange s a ++ zrange (s + a) b.
Proof.
  intros s a b Ha Hb. unfold zrange.
  replace (Z.to_nat (a + b)) with (Z.to_nat a + Z.to_nat b)%nat by lia.
  rewrite seq_app, map_app. f_equal. cbn [plus].
  rewrite (seq_from (Z.to_nat b) (Z.to_nat a)), map_map. apply map_ext. intros i. lia.
Qed.

(* the shape the specification demands: one entry per level 0 .. dwt_depth_ho + dwt_depth *)
Lemma expected_shape_levels : forall d dh, 0 <= d -> 0 <= dh ->
  map fst (expected_shape d dh) = zrange 0 (dh + d + 1).
Proof.
  intros d dh Hd Hdh. unfold expected_shape. cbn [map fst].
  rewrite map_app, !map_map. cbn [fst]. rewrite !map_id.
  replace (dh + d + 1) with (1 + (dh + d)) by lia.
  rewrite (zrange_app 0 1 (dh + d)) by lia.
  rewrite (zrange_app (0 + 1) dh d) by lia.
  replace (0 + 1 + dh) with (dh + 1) by lia. reflexivity.
Qed.

(* ---------------------------------- the association lists really are dictionaries *)

Definition keys_unique (d : column) : Prop := NoDup (map fst d).

Lemma dict_set_keys : forall k v d x,
  In x (map fst (dict_set k v d)) -> x = k \/ In x (map fst d).
Proof.
  induction d as [|[k' v'] r IH]; intros x H; cbn in *.
  - destruct H as [<-|[]]. left. reflexivity.
  - destruct (String.eqb k k') eqn:E; cbn in H.
    + apply String.eqb_eq in E. subst k'. destruct H as [<-|H]; auto.
    + destruct H as [<-|H]; auto. apply IH in H. destruct H; auto.
Qed.

Lemma dict_set_unique : forall k v d, keys_unique d -> keys_unique (dict_set k v d).
Proof.
  unfold keys_unique. induction d as [|[k' v'] r IH]; intros H; cbn.
  - constructor; [intros []|constructor].
  - inversion H as [|? ? Hn Hr]; subst. destruct (String.eqb k k') eqn:E; cbn.
    + apply String.eqb_eq in E. subst k'. constructor; assumption.
    + constructor; [|apply IH; exact Hr].
      intros Hin. apply dict_set_keys in Hin. destruct Hin as [->|Hin]; [|exact (Hn Hin)].
      rewrite String.eqb_refl in E. discriminate.
Qed.

Lemma add_values_unique : forall key vals out,
  Forall keys_unique out -> Forall keys_unique (add_values key vals out).
Proof.
  induction vals as [|v vs IH]; intros out H; cbn; [exact H|].
  destruct out as [|c cs].
  - constructor.
    + destruct (cell_empty v); unfold keys_unique; cbn; [constructor|].
      constructor; [intros []|constructor].
    + apply IH. constructor.
  - inversion H as [|? ? Hc Hcs]; subst. constructor.
    + destruct (cell_empty v); [exact Hc|apply dict_set_unique; exact Hc].
    + apply IH. exact Hcs.
Qed.

Lemma read_dict_list_unique : forall rows, Forall keys_unique (read_dict_list rows).
Proof.
  intros rows. unfold read_dict_list.
  assert (G : forall rs out, Forall keys_unique out -> Forall keys_unique (fold_left add_row rs out)).
  { induction rs as [|r rs IH]; intros out H; cbn; [exact H|].
    apply IH. unfold add_row. destruct r as [|k vals]; [exact H|].
    destruct (cell_empty k || starts_hash (c_text k)); [exact H|].
    apply add_values_unique. exact H. }
  apply G. constructor.
Qed.

(* on a dictionary, pop removes the key altogether (as dict.pop does) *)
Lemma dict_pop_removes : forall k d c d',
  keys_unique d -> dict_pop k d = Some (c, d') ->
  ~ In k (map fst d') /\ keys_unique d' /\ (forall x, In x (map fst d') -> In x (map fst d)).
Proof.
  unfold keys_unique. induction d as [|[k' v] r IH]; intros c d' Hu H; cbn in H; [discriminate|].
  inversion Hu as [|? ? Hn Hr]; subst.
  destruct (String.eqb k k') eqn:E.
  - apply String.eqb_eq in E. subst k'. injection H as <- <-.
    split; [exact Hn|]. split; [exact Hr|]. intros x Hx. right. exact Hx.
  - destruct (dict_pop k r) as [[c1 r1]|] eqn:P; [|discriminate]. injection H as <- <-.
    destruct (IH c1 r1 Hr eq_refl) as [H1 [H2 H3]]. cbn. split; [|split].
    + intros [->|Hin]; [rewrite String.eqb_refl in E; discriminate|exact (H1 Hin)].
    + constructor; [|exact H2]. intros Hin. apply Hn. apply H3. exact Hin.
    + intros x [<-|Hx]; [left; reflexivity|right; apply H3; exact Hx].
Qed.

(* ------------------------------------------------ non-vacuity witnesses *)

Module C28Example.
Open Scope string_scope.
Definition W (t : string) : cell := mkCell t false None None [None].
Definition K (t : string) (n : Z) : cell := mkCell t false (Some n) None [Some n].
Definition D : cell := mkCell "default" true None None [None].
Definition E : cell := mkCell "" false None None [].
Definition B (t : string) (b : bool) : cell := mkCell t false None (Some b) [None].

Definition T0 : tables := mkTables
  (fun e => match e with
            | ELevels => [("unconstrained", 0)]
            | EProfiles => [("low_delay", 0); ("high_quality", 3)]
            | EPictureCodingModes => [("pictures_are_frames", 0); ("pictures_are_fields", 1)]
            | EWaveletFilters => [("le_gall_5_3", 1); ("haar_with_shift", 4)]
            | EColorDifferenceSamplingFormats => [("color_4_4_4", 0); ("color_4_2_2", 1)]
            | EBaseVideoFormats => [("custom_format", 0)]
            | ESourceSamplingModes => [("progressive", 0); ("interlaced", 1)]
            | EPresetColorPrimaries => [("hdtv", 0)]
            | EPresetColorMatrices => [("hdtv", 0)]
            | EPresetTransferFunctions => [("tv_gamma", 0)]
            end)
  [(0, [VZ 640; VZ 480; VZ 1; VZ 0; VB false; VZ 24000; VZ 1001; VZ 1; VZ 1; VZ 640; VZ 480;
        VZ 0; VZ 0; VZ 0; VZ 255; VZ 128; VZ 255; VZ 0; VZ 0; VZ 0])].

(* two columns: "hd" (lossy, asymmetric transform with a custom matrix) and an unnamed lossless one *)
Definition rows : list (list cell) := [
  [W "# comment"; W "ignored"; W "ignored"];
  [];
  [W "name"; W "hd"; E];
  [W "level"; W "unconstrained"; K "0" 0];
  [W "profile"; W "high_quality"; K "3" 3];
  [W "picture_coding_mode"; W "pictures_are_frames"; W "pictures_are_fields"];
  [W "wavelet_index"; W "le_gall_5_3"; K "4" 4];
  [W "wavelet_index_ho"; W "haar_with_shift"; K "4" 4];
  [W "dwt_depth"; K "1" 1; K "2" 2];
  [W "dwt_depth_ho"; K "1" 1; K "0" 0];
  [W "slices_x"; K "2" 2; K "1" 1];
  [W "slices_y"; K "3" 3; K "1" 1];
  [W "fragment_slice_count"; K "0" 0; K "5" 5];
  [W "lossless"; B "FALSE" false; B "yes" true];
  [W "picture_bytes"; K "1000" 1000];
  [W "base_video_format"; W "custom_format"; K "0" 0];
  [W "frame_width"; K "8" 8; D]; [W "frame_height"; K "4" 4; D];
  [W "color_diff_format_index"; D; W "color_4_4_4"]; [W "source_sampling"; D; D];
  [W "top_field_first"; B "TRUE" true; D];
  [W "frame_rate_numer"; D; D]; [W "frame_rate_denom"; D; D];
  [W "pixel_aspect_ratio_numer"; D; D]; [W "pixel_aspect_ratio_denom"; D; D];
  [W "clean_width"; D; D]; [W "clean_height"; D; D]; [W "left_offset"; D; D]; [W "top_offset"; D; D];
  [W "luma_offset"; D; D]; [W "luma_excursion"; D; D];
  [W "color_diff_offset"; D; D]; [W "color_diff_excursion"; D; D];
  [W "color_primaries_index"; D; D]; [W "color_matrix_index"; D; D];
  [W "transfer_function_index"; D; D];
  [W "quantization_matrix"; mkCell "4 2 1 1 0" false None None [Some 4; Some 2; Some 1; Some 1; Some 0]; D]
].

Lemma example_ok : exists cfgs,
  read_model T0 (Some rows) = Ok cfgs /\
  map cf_name cfgs = ["hd"; "column_C"] /\
  map cf_picture_bytes cfgs = [Some 1000; None] /\
  map cf_quantization_matrix cfgs =
    [Some [(0, [(oL, 4)]); (1, [(oH, 2)]); (2, [(oHL, 1); (oLH, 1); (oHH, 0)])]; None].
Proof. eexists. vm_compute. repeat split. Qed.

Lemma example_tables_ok : defaults_completeb T0 = true /\ defaults_in_domainb T0 = true.
Proof. vm_compute. split; reflexivity. Qed.

(* each rejection class is reachable *)
Lemma example_invalid :
  read_model T0 (Some [[W "level"; K "7" 7]]) = Invalid EInvalid "level" "column_B" /\
  read_model T0 (Some [[W "name"; W "a"; W "a"]; [W "level"; K "0" 0]]) = Invalid EMissing "profile" "a" /\
  read_model T0 None = Invalid ECsvMalformed "" "".
Proof. vm_compute. repeat split. Qed.

(* the hypothesis of totality is needed: with an incomplete defaults table the model (like the
   code, with KeyError) leaves the two permitted outcomes *)
Definition T_bad : tables := mkTables (enum_tab T0) [].
Lemma example_crash_without_tables : exists w,
  read_model T_bad (Some (map (fun r => firstn 2 r) rows)) = Crash w.
Proof. eexists. vm_compute. reflexivity. Qed.
End C28Example.
