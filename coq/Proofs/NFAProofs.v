(* Thompson construction of Model/NFA.v is correct:
   paths start -> final of `build r n` spell exactly langE r. *)
From Coq Require Import ZArith List Bool Lia.
From VC2 Require Import Model.Regex Model.NFA.
Import ListNotations.

(* ---- paths --------------------------------------------------------------------- *)
Inductive path (eps : list (nat * nat)) (edges : list (nat * label * nat))
  : nat -> list letter -> nat -> Prop :=
| path_nil p : path eps edges p [] p
| path_eps p q w r : In (p, q) eps -> path eps edges q w r -> path eps edges p w r
| path_step p l x q w r : In (p, l, q) edges -> lmatch l x = true ->
                          path eps edges q w r -> path eps edges p (x :: w) r.

Definition npath (N : nfa) := path (n_eps N) (n_edges N).

Lemma path_app eps edges p u q v r :
  path eps edges p u q -> path eps edges q v r -> path eps edges p (u ++ v) r.
Proof.
  induction 1; intros; simpl; eauto using path.
Qed.

Lemma path_mono eps edges eps' edges' p w q :
  incl eps eps' -> incl edges edges' ->
  path eps edges p w q -> path eps' edges' p w q.
Proof.
  intros He Hd. induction 1; eauto using path.
Qed.

(* ---- ranges -------------------------------------------------------------------- *)
Definition in_range (lo hi x : nat) := lo <= x < hi.

Record wf_at (n : nat) (N : nfa) : Prop := {
  wf_next : n < n_next N;
  wf_start : in_range n (n_next N) (n_start N);
  wf_final : in_range n (n_next N) (n_final N);
  wf_eps : forall p q, In (p, q) (n_eps N) -> in_range n (n_next N) p /\ in_range n (n_next N) q;
  wf_edges : forall p l q, In (p, l, q) (n_edges N) -> in_range n (n_next N) p /\ in_range n (n_next N) q;
  wf_final_eps : forall q, ~ In (n_final N, q) (n_eps N);
  wf_final_edges : forall l q, ~ In (n_final N, l, q) (n_edges N)
}.

Ltac inv H := inversion H; subst; clear H.

Ltac in_cases :=
  repeat match goal with
         | H : In _ (_ :: _) |- _ => destruct H as [H | H]; [inv H |]
         | H : In _ (_ ++ _) |- _ => apply in_app_or in H; destruct H as [H | H]
         | H : In _ [] |- _ => destruct H
         | H : _ \/ _ |- _ => destruct H as [H | H]
         | H : False |- _ => destruct H
         | H : (_, _) = (_, _) |- _ => inv H
         end.

Lemma leaf_wf l n : wf_at n (leaf l n).
Proof.
  unfold leaf; constructor; simpl; unfold not, in_range; intros; in_cases; try lia.
Qed.

Ltac use_wf :=
  try match goal with
      | W : forall q, ~ In (?f, q) ?E, H : In (?f, _) ?E |- _ => exact (False_rect _ (W _ H))
      | W : forall l q, ~ In (?f, l, q) ?E, H : In (?f, _, _) ?E |- _ => exact (False_rect _ (W _ _ H))
      end;
  repeat match goal with
         | W : forall p q, In (p, q) ?E -> _, H : In (_, _) ?E |- _ => pose proof (W _ _ H); clear H
         | W : forall p l q, In (p, l, q) ?E -> _, H : In (_, _, _) ?E |- _ => pose proof (W _ _ _ H); clear H
         end.

Lemma build_wf r : forall n, wf_at n (build r n).
Proof.
  induction r; intros n; try apply leaf_wf.
  - constructor; simpl; unfold not, in_range; intros; in_cases; try lia.
  - pose proof (IHr1 n) as A. pose proof (IHr2 (n_next (build r1 n))) as B.
    destruct A, B. unfold in_range in *.
    constructor; simpl; unfold not, in_range; intros; in_cases; use_wf; try lia.
  - pose proof (IHr1 (S (S n))) as A. pose proof (IHr2 (n_next (build r1 (S (S n))))) as B.
    destruct A, B. unfold in_range in *.
    constructor; simpl; unfold not, in_range; intros; in_cases; use_wf; try lia.
  - pose proof (IHr (S (S n))) as A.
    destruct A. unfold in_range in *.
    constructor; simpl; unfold not, in_range; intros; in_cases; use_wf; try lia.
Qed.

(* ---- completeness: every word of the language has a path ----------------------- *)
Ltac incl_tac :=
  let x := fresh "x" in let Hx := fresh "Hx" in
  intros x Hx; repeat (apply in_cons); try (apply in_or_app; auto); assumption.

Lemma lmatch_sym s : lmatch (LSym s) (Real s) = true.
Proof. simpl. apply Z.eqb_refl. Qed.

Lemma build_complete r : forall n w, langE r w ->
  npath (build r n) (n_start (build r n)) w (n_final (build r n)).
Proof.
  unfold npath.
  induction r; intros n w H.
  - inv H. constructor.
  - inv H. simpl. eapply path_step; [left; reflexivity | apply lmatch_sym | constructor].
  - inv H. simpl. eapply path_step; [left; reflexivity | reflexivity | constructor].
  - inv H. simpl. eapply path_step; [left; reflexivity | reflexivity | constructor].
  - inv H. cbn [build n_eps n_edges n_start n_final].
    apply path_app with (q := n_final (build r1 n)).
    + eapply path_mono; [ | | apply IHr1; eauto]; incl_tac.
    + eapply path_eps; [left; reflexivity |].
      eapply path_mono; [ | | apply IHr2; eauto]; incl_tac.
  - cbn [build n_eps n_edges n_start n_final].
    inv H.
    + eapply path_eps; [left; reflexivity |].
      rewrite <- (app_nil_r w).
      apply path_app with (q := n_final (build r1 (S (S n)))).
      * eapply path_mono; [ | | apply IHr1; eauto]; incl_tac.
      * eapply path_eps; [right; right; left; reflexivity | constructor].
    + eapply path_eps; [right; left; reflexivity |].
      rewrite <- (app_nil_r w).
      apply path_app with (q := n_final (build r2 (n_next (build r1 (S (S n)))))).
      * eapply path_mono; [ | | apply IHr2; eauto]; incl_tac.
      * eapply path_eps; [right; right; right; left; reflexivity | constructor].
  - cbn [build n_eps n_edges n_start n_final].
    set (A := build r (S (S n))) in *.
    assert (Hloop : forall v, langE (Star r) v ->
              path ((n, S n) :: (n, n_start A) :: (n_final A, n_start A) :: (n_final A, S n) :: n_eps A)
                   (n_edges A) (n_final A) v (S n)).
    { clear H w. intros v Hv. remember (Star r) as sr eqn:E. induction Hv; inv E.
      - eapply path_eps; [right; right; right; left; reflexivity | constructor].
      - eapply path_eps; [right; right; left; reflexivity |].
        apply path_app with (q := n_final A).
        + eapply path_mono; [ | | apply IHr; eauto]; incl_tac.
        + apply IHHv2. reflexivity. }
    inv H.
    + eapply path_eps; [left; reflexivity | constructor].
    + eapply path_eps; [right; left; reflexivity |].
      apply path_app with (q := n_final A).
      * eapply path_mono; [ | | apply IHr; eauto]; incl_tac.
      * apply Hloop. assumption.
Qed.

(* ---- soundness: every path start -> final spells a word of the language --------- *)
(* no transition leaves node f *)
Lemma path_stuck eps edges f w q :
  (forall x, ~ In (f, x) eps) -> (forall l x, ~ In (f, l, x) edges) ->
  path eps edges f w q -> w = [] /\ q = f.
Proof.
  intros He Hd H. inversion H; subst; auto.
  - exfalso. eapply He; eauto.
  - exfalso. eapply Hd; eauto.
Qed.

Section CatSound.
  Variables (n : nat) (A B : nfa).
  Hypothesis wfA : wf_at n A.
  Hypothesis wfB : wf_at (n_next A) B.
  Let eps := (n_final A, n_start B) :: n_eps A ++ n_eps B.
  Let edges := n_edges A ++ n_edges B.

  Lemma cat_local_B p w q : path eps edges p w q -> n_next A <= p -> npath B p w q.
  Proof.
    destruct wfA, wfB. unfold in_range in *.
    induction 1; intros Hp.
    - constructor.
    - unfold eps in H. in_cases; try (use_wf; lia).
      eapply path_eps; eauto. apply IHpath. apply wf_eps1 in H. lia.
    - unfold edges in H. in_cases; try (use_wf; lia).
      eapply path_step; eauto. apply IHpath. apply wf_edges1 in H. lia.
  Qed.

  Lemma cat_split p w q : path eps edges p w q -> p < n_next A -> n_next A <= q ->
    exists u v, w = u ++ v /\ npath A p u (n_final A) /\ npath B (n_start B) v q.
  Proof.
    pose proof cat_local_B as LB.
    destruct wfA, wfB. unfold in_range in *.
    induction 1; intros Hp Hq.
    - lia.
    - unfold eps in H. in_cases.
      + exists [], w. split; [reflexivity | split; [constructor |]].
        apply LB; auto. lia.
      + destruct IHpath as (u & v & -> & PA & PB); auto.
        { apply wf_eps0 in H. lia. }
        exists u, v. split; [reflexivity | split; auto]. eapply path_eps; eauto.
      + apply wf_eps1 in H. lia.
    - unfold edges in H. in_cases.
      + destruct IHpath as (u & v & -> & PA & PB); auto.
        { apply wf_edges0 in H. lia. }
        exists (x :: u), v. split; [reflexivity | split; auto]. eapply path_step; eauto.
      + apply wf_edges1 in H. lia.
  Qed.
End CatSound.

Section AltSound.
  Variables (n : nat) (A B : nfa).
  Hypothesis wfA : wf_at (S (S n)) A.
  Hypothesis wfB : wf_at (n_next A) B.
  Let eps := (n, n_start A) :: (n, n_start B) :: (n_final A, S n) :: (n_final B, S n)
               :: n_eps A ++ n_eps B.
  Let edges := n_edges A ++ n_edges B.

  Lemma alt_final_stuck w q : path eps edges (S n) w q -> w = [] /\ q = S n.
  Proof.
    destruct wfA, wfB. unfold in_range in *.
    apply path_stuck; unfold not, eps, edges; intros; in_cases; use_wf; lia.
  Qed.

  Lemma alt_in_A p w f : path eps edges p w f -> f = S n -> S (S n) <= p < n_next A -> npath A p w (n_final A).
  Proof.
    pose proof alt_final_stuck as FS.
    destruct wfA, wfB. unfold in_range in *.
    induction 1; intros Ef Hp.
    - lia.
    - unfold eps in H. in_cases; try lia.
      + apply FS in H0. destruct H0 as [-> _]. constructor.
      + eapply path_eps; eauto. apply IHpath; auto. apply wf_eps0 in H. lia.
      + apply wf_eps1 in H. lia.
    - unfold edges in H. in_cases.
      + eapply path_step; eauto. apply IHpath; auto. apply wf_edges0 in H. lia.
      + apply wf_edges1 in H. lia.
  Qed.

  Lemma alt_in_B p w f : path eps edges p w f -> f = S n -> n_next A <= p -> npath B p w (n_final B).
  Proof.
    pose proof alt_final_stuck as FS.
    destruct wfA, wfB. unfold in_range in *.
    induction 1; intros Ef Hp.
    - lia.
    - unfold eps in H. in_cases; try lia.
      + apply FS in H0. destruct H0 as [-> _]. constructor.
      + apply wf_eps0 in H. lia.
      + eapply path_eps; eauto. apply IHpath; auto. apply wf_eps1 in H. lia.
    - unfold edges in H. in_cases.
      + apply wf_edges0 in H. lia.
      + eapply path_step; eauto. apply IHpath; auto. apply wf_edges1 in H. lia.
  Qed.

  Lemma alt_split w : path eps edges n w (S n) ->
    npath A (n_start A) w (n_final A) \/ npath B (n_start B) w (n_final B).
  Proof.
    pose proof alt_in_A as IA. pose proof alt_in_B as IB.
    destruct wfA, wfB. unfold in_range in *.
    intros H. inversion H as [ | p0 q0 w0 r0 Hin Hrest | p0 l0 x0 q0 w0 r0 Hin Hm Hrest]; subst.
    - lia.
    - unfold eps in Hin. in_cases; try lia.
      + left. eapply IA; eauto.
      + right. eapply IB; eauto. lia.
      + apply wf_eps0 in Hin. lia.
      + apply wf_eps1 in Hin. lia.
    - unfold edges in Hin. in_cases.
      + apply wf_edges0 in Hin. lia.
      + apply wf_edges1 in Hin. lia.
  Qed.
End AltSound.

Section StarSound.
  Variables (n : nat) (A : nfa) (a : re).
  Hypothesis wfA : wf_at (S (S n)) A.
  Hypothesis soundA : forall u, npath A (n_start A) u (n_final A) -> langE a u.
  Let eps := (n, S n) :: (n, n_start A) :: (n_final A, n_start A) :: (n_final A, S n) :: n_eps A.
  Let edges := n_edges A.

  Lemma star_final_stuck w q : path eps edges (S n) w q -> w = [] /\ q = S n.
  Proof.
    destruct wfA. unfold in_range in *.
    apply path_stuck; unfold not, eps, edges; intros; in_cases; use_wf; lia.
  Qed.

  Lemma star_in_A p w f : path eps edges p w f -> f = S n -> S (S n) <= p ->
    exists u v, w = u ++ v /\ npath A p u (n_final A) /\ langE (Star a) v.
  Proof.
    pose proof star_final_stuck as FS.
    destruct wfA. unfold in_range in *.
    induction 1; intros Ef Hp.
    - lia.
    - unfold eps in H. in_cases; try lia.
      + destruct IHpath as (u & v & -> & PA & SV); [auto | lia |].
        exists [], (u ++ v). split; [reflexivity | split; [constructor |]].
        apply LE_star1; auto.
      + apply FS in H0. destruct H0 as [-> _].
        exists [], []. split; [reflexivity | split; constructor].
      + destruct IHpath as (u & v & -> & PA & SV); [auto | apply wf_eps0 in H; lia |].
        exists u, v. split; [reflexivity | split; auto]. eapply path_eps; eauto.
    - unfold edges in H.
      destruct IHpath as (u & v & -> & PA & SV); [auto | apply wf_edges0 in H; lia |].
      exists (x :: u), v. split; [reflexivity | split; auto]. eapply path_step; eauto.
  Qed.

  Lemma star_sound w : path eps edges n w (S n) -> langE (Star a) w.
  Proof.
    pose proof star_in_A as IA. pose proof star_final_stuck as FS.
    destruct wfA. unfold in_range in *.
    intros H. inversion H as [ | p0 q0 w0 r0 Hin Hrest | p0 l0 x0 q0 w0 r0 Hin Hm Hrest]; subst.
    - lia.
    - unfold eps in Hin. in_cases; try lia.
      + apply FS in Hrest. destruct Hrest as [-> _]. constructor.
      + eapply IA in Hrest; [| reflexivity | lia]. destruct Hrest as (u & v & -> & PA & SV).
        apply LE_star1; auto.
      + apply wf_eps0 in Hin. lia.
    - unfold edges in Hin. apply wf_edges0 in Hin. lia.
  Qed.
End StarSound.

Lemma leaf_sound l n w : npath (leaf l n) n w (S n) -> exists x, w = [x] /\ lmatch l x = true.
Proof.
  unfold npath, leaf; cbn [n_eps n_edges].
  intros H. inversion H as [ | p0 q0 w0 r0 Hin Hrest | p0 l0 x0 q0 w0 r0 Hin Hm Hrest]; subst.
  - lia.
  - destruct Hin.
  - in_cases. apply path_stuck in Hrest.
    + destruct Hrest as [-> _]. eauto.
    + intros x Hx. destruct Hx.
    + intros l1 x Hx. in_cases. lia.
Qed.

Lemma build_sound r : forall n w,
  npath (build r n) (n_start (build r n)) w (n_final (build r n)) -> langE r w.
Proof.
  induction r; intros n w H.
  - apply path_stuck in H; simpl; auto. destruct H as [-> _]. constructor.
  - apply leaf_sound in H. destruct H as (x & -> & Hm).
    destruct x; simpl in Hm; try discriminate. apply Z.eqb_eq in Hm. subst. constructor.
  - apply leaf_sound in H. destruct H as (x & -> & Hm).
    destruct x; simpl in Hm; try discriminate. constructor.
  - apply leaf_sound in H. destruct H as (x & -> & Hm).
    destruct x; simpl in Hm; try discriminate. constructor.
  - cbn [build n_eps n_edges n_start n_final] in H.
    pose proof (build_wf r1 n) as WA. pose proof (build_wf r2 (n_next (build r1 n))) as WB.
    eapply cat_split in H; eauto.
    + destruct H as (u & v & -> & PA & PB). constructor; eauto.
    + destruct WA. unfold in_range in *. lia.
    + destruct WB. unfold in_range in *. lia.
  - cbn [build n_eps n_edges n_start n_final] in H.
    pose proof (build_wf r1 (S (S n))) as WA.
    pose proof (build_wf r2 (n_next (build r1 (S (S n))))) as WB.
    eapply alt_split in H; eauto.
    destruct H; [apply LE_altl | apply LE_altr]; eauto.
  - cbn [build n_eps n_edges n_start n_final] in H.
    pose proof (build_wf r (S (S n))) as WA.
    unfold npath in H; cbn [n_eps n_edges] in H.
    eapply star_sound; eauto.
Qed.

Theorem thompson_correct_at r n w :
  npath (build r n) (n_start (build r n)) w (n_final (build r n)) <-> langE r w.
Proof. split; [apply build_sound | apply build_complete]. Qed.

Theorem thompson_correct r w :
  npath (from_ast r) (n_start (from_ast r)) w (n_final (from_ast r)) <-> langE r w.
Proof. apply thompson_correct_at. Qed.
