(* Proofs about Model/Picture.v (property C09). *)
From Coq Require Import ZArith List Bool Lia ZifyBool.
From VC2 Require Import Base.PyZ Gen.StateRec Gen.VC2Math Model.Picture.
Import ListNotations.
Open Scope Z_scope.
Ltac Zify.zify_post_hook ::= Z.to_euclidean_division_equations.

Definition rect (w : nat) (a : array2) : Prop := Forall (fun r => length r = w) a.

(* ---- depth ------------------------------------------------------------------------------------ *)
Lemma intlog2_ge1 e : 1 <= e -> 1 <= intlog2 (e + 1).
Proof.
  intros He. unfold intlog2. replace (e + 1 - 1) with e by lia. unfold bit_length.
  destruct e as [|p|p]; try lia. pose proof (Z.log2_nonneg (Z.pos p)). lia.
Qed.

(* ---- clip + offset: every sample in [0, 2^depth - 1] ------------------------------------------- *)
Lemma map_upto_all n f : forall row, (length row <= n)%nat -> map_upto n f row = map f row.
Proof.
  induction n as [|n IH]; intros [|v r] H; cbn in *; try reflexivity; try lia.
  f_equal. apply IH. lia.
Qed.

Lemma map_upto_length n f : forall row, length (map_upto n f row) = length row.
Proof. induction n as [|n IH]; intros [|v r]; cbn; try reflexivity. f_equal. apply IH. Qed.

Lemma map_array_rect f w a : rect w a -> map_array f a = map (map f) a.
Proof.
  intros H. unfold map_array. destruct a as [|r a]; [reflexivity|].
  assert (Hw : Z.to_nat (a_width (r :: a)) = w).
  { cbn. inversion H; subst. lia. }
  rewrite Hw. apply map_ext_in. intros row Hin. apply map_upto_all.
  unfold rect in H. rewrite Forall_forall in H. rewrite (H row Hin). lia.
Qed.

Lemma rect_map f w a : rect w a -> rect w (map (map f) a).
Proof.
  unfold rect. intros H. rewrite Forall_forall in *. intros r Hin. apply in_map_iff in Hin.
  destruct Hin as (r0 & <- & Hin). rewrite map_length. apply H. exact Hin.
Qed.

Lemma clip_offset_in_range depth v : 1 <= depth ->
  0 <= clip v (- (py_pow 2 (depth - 1))) (py_pow 2 (depth - 1) - 1) + py_pow 2 (depth - 1) <= 2 ^ depth - 1.
Proof.
  intros Hd. unfold clip, py_min, py_max, py_pow.
  assert (H2 : 2 ^ depth = 2 * 2 ^ (depth - 1)).
  { replace depth with (depth - 1 + 1) at 1 by lia. rewrite Z.pow_add_r by lia. lia. }
  pose proof (Z.pow_pos_nonneg 2 (depth - 1) ltac:(lia) ltac:(lia)). lia.
Qed.

Lemma range_after_clip_offset depth w a : 1 <= depth -> rect w a ->
  Forall (Forall (fun v => 0 <= v <= 2 ^ depth - 1)) (offset_component depth (clip_component depth a)).
Proof.
  intros Hd Hr. unfold offset_component, clip_component.
  rewrite (map_array_rect _ w a Hr).
  rewrite (map_array_rect _ w _ (rect_map _ w a Hr)).
  rewrite map_map. rewrite Forall_forall. intros row Hin. apply in_map_iff in Hin.
  destruct Hin as (r0 & <- & _). rewrite map_map. rewrite Forall_forall. intros v Hv.
  apply in_map_iff in Hv. destruct Hv as (v0 & <- & _). apply clip_offset_in_range. exact Hd.
Qed.

Lemma In_firstn {A} n : forall (l : list A) x, In x (firstn n l) -> In x l.
Proof.
  induction n as [|n IH]; intros [|a l] x H; cbn in *; try contradiction.
  destruct H as [->|H]; [left; reflexivity|right; apply IH; exact H].
Qed.

(* ---- pad removal: exactly width x height ------------------------------------------------------- *)
Lemma del_from_length {A} (l : list A) k : 0 <= k <= Z.of_nat (length l) -> length (del_from l k) = Z.to_nat k.
Proof.
  intros H. unfold del_from. replace (k <? 0) with false by lia. rewrite firstn_length. lia.
Qed.

Lemma pad_removal_shape d pic c :
  0 <= comp_width d c -> 0 <= comp_height d c ->
  comp_height d c <= Z.of_nat (length pic) ->
  Forall (fun r => comp_width d c <= Z.of_nat (length r)) pic ->
  length (idwt_pad_removal d pic c) = Z.to_nat (comp_height d c) /\
  rect (Z.to_nat (comp_width d c)) (idwt_pad_removal d pic c).
Proof.
  intros Hw Hh Hlen Hrows. unfold idwt_pad_removal, delete_columns_after, delete_rows_after. split.
  - rewrite map_length. apply del_from_length. lia.
  - unfold rect. rewrite Forall_forall. intros r Hin. apply in_map_iff in Hin. destruct Hin as (r0 & <- & Hin).
    apply del_from_length. split; [exact Hw|].
    unfold del_from in Hin. replace (comp_height d c <? 0) with false in Hin by lia.
    apply In_firstn in Hin. rewrite Forall_forall in Hrows. apply Hrows. exact Hin.
Qed.

Lemma map_array_shape f w a : rect w a -> length (map_array f a) = length a /\ rect w (map_array f a).
Proof.
  intros H. rewrite (map_array_rect f w a H). split; [apply map_length|apply rect_map; exact H].
Qed.

Lemma finish_component_well_formed d c idwt_out :
  1 <= comp_depth d c ->
  0 <= comp_width d c -> 0 <= comp_height d c ->
  comp_height d c <= Z.of_nat (length idwt_out) ->
  Forall (fun r => comp_width d c <= Z.of_nat (length r)) idwt_out ->
  let out := finish_component d c idwt_out in
  length out = Z.to_nat (comp_height d c) /\
  rect (Z.to_nat (comp_width d c)) out /\
  Forall (Forall (fun v => 0 <= v <= 2 ^ comp_depth d c - 1)) out.
Proof.
  intros Hd Hw Hh Hlen Hrows. cbn zeta. unfold finish_component.
  destruct (pad_removal_shape d idwt_out c Hw Hh Hlen Hrows) as [HL HR].
  set (p := idwt_pad_removal d idwt_out c) in *.
  destruct (map_array_shape (fun v => clip v (- py_pow 2 (comp_depth d c - 1)) (py_pow 2 (comp_depth d c - 1) - 1)) _ p HR) as [HL1 HR1].
  fold (clip_component (comp_depth d c) p) in HL1, HR1.
  destruct (map_array_shape (fun v => v + py_pow 2 (comp_depth d c - 1)) _ _ HR1) as [HL2 HR2].
  fold (offset_component (comp_depth d c) (clip_component (comp_depth d c) p)) in HL2, HR2.
  split; [congruence|]. split; [exact HR2|].
  apply (range_after_clip_offset _ _ p Hd HR).
Qed.

(* the padded (transform) size is at least the picture size *)
Lemma padded_at_least w s : 0 < s -> w <= s * ((w + s - 1) / s).
Proof. intros Hs. nia. Qed.

(* ---- picture_decode call sites ----------------------------------------------------------------- *)
Definition wf_unit (u : dunit) : Prop :=
  match u with UFragFirst _ slices => 0 <= slices | UFragData _ count => 0 < count | _ => True end.

Definition inv (st : fstate) : Prop :=
  0 <= fs_remaining st /\ fs_remaining st = fs_total st - fs_received st /\
  (0 < fs_remaining st -> fs_done st = false /\ exists pn, fs_picture_number st = Some pn).

Definition pending (st : fstate) : list Z :=
  if 0 <? fs_remaining st then match fs_picture_number st with Some pn => [pn] | None => [] end else [].

Lemma loop_spec n : forall st,
  Z.of_nat n <= fs_remaining st -> fs_remaining st = fs_total st - fs_received st ->
  let st' := fragment_data_loop n st in
  fs_received st' = fs_received st + Z.of_nat n /\ fs_remaining st' = fs_remaining st - Z.of_nat n /\
  fs_total st' = fs_total st /\ fs_picture_number st' = fs_picture_number st /\
  fs_done st' = (fs_done st || ((0 <? Z.of_nat n) && (fs_remaining st =? Z.of_nat n))).
Proof.
  induction n as [|n IH]; intros st Hn Hinv; cbn zeta.
  - cbn [fragment_data_loop]. repeat split; try lia. cbn. rewrite orb_false_r. reflexivity.
  - cbn [fragment_data_loop].
    set (st1 := mk_fstate _ _ _ _ _).
    specialize (IH st1). cbn zeta in IH.
    assert (H1 : Z.of_nat n <= fs_remaining st1) by (cbn; lia).
    assert (H2 : fs_remaining st1 = fs_total st1 - fs_received st1) by (cbn; lia).
    destruct (IH H1 H2) as (Hr & Hm & Ht & Hp & Hd). cbn in Hr, Hm, Ht, Hp, Hd.
    repeat split; try lia; try assumption.
    rewrite Hd.
    destruct (fs_received st + 1 =? fs_total st) eqn:E1; destruct (fs_done st) eqn:E2;
      destruct (0 <? Z.of_nat n) eqn:E3; destruct (fs_remaining st - 1 =? Z.of_nat n) eqn:E4;
      destruct (fs_remaining st =? Z.of_nat (S n)) eqn:E5; cbn; try reflexivity; lia.
Qed.

Lemma run_from_spec us : forall st pics,
  Forall wf_unit us -> inv st -> run_from st us = Some pics -> pics = pending st ++ coded_pictures us.
Proof.
  induction us as [|u us IH]; intros st pics Hwf (Hnn & Hrem & Hpend); cbn [run_from].
  - destruct (fs_remaining st =? 0) eqn:E; [|discriminate]. intros [= <-].
    unfold pending. replace (0 <? fs_remaining st) with false by lia. reflexivity.
  - inversion Hwf as [|u' us' Hu Hus]; subst.
    destruct (step st u) as [[st' out]|] eqn:Es; [|discriminate].
    destruct (run_from st' us) as [rest|] eqn:Er; [|discriminate]. intros [= <-].
    destruct u as [pn|pn slices|pn count|]; cbn [step] in Es.
    + (* picture *)
      destruct (negb (fs_remaining st =? 0)) eqn:E; [discriminate|]. injection Es as <- <-.
      assert (Hinv' : inv (mk_fstate (Some pn) (fs_total st) (fs_received st) (fs_remaining st) (fs_done st))).
      { unfold inv; cbn. repeat split; try lia. }
      rewrite (IH _ _ Hus Hinv' Er). unfold pending; cbn.
      replace (0 <? fs_remaining st) with false by lia. reflexivity.
    + (* first fragment *)
      destruct (negb (fs_remaining st =? 0)) eqn:E; [discriminate|]. injection Es as <- <-.
      cbn in Hu.
      assert (Hinv' : inv (mk_fstate (Some pn) slices 0 slices false)).
      { unfold inv; cbn. repeat split; try lia. exists pn. reflexivity. }
      rewrite (IH _ _ Hus Hinv' Er). unfold pending; cbn.
      replace (0 <? fs_remaining st) with false by lia. reflexivity.
    + (* slice-bearing fragment *)
      cbn in Hu.
      destruct (fs_picture_number st) as [last|] eqn:Ep; [|discriminate].
      destruct (negb (last =? pn)) eqn:E1; [discriminate|].
      destruct (count >? fs_remaining st) eqn:E2; [discriminate|]. injection Es as <- <-.
      assert (Hn : Z.of_nat (Z.to_nat count) <= fs_remaining st) by lia.
      destruct (loop_spec (Z.to_nat count) st Hn Hrem) as (Hr & Hm & Ht & Hp & Hd).
      set (st' := fragment_data_loop (Z.to_nat count) st) in *.
      assert (Hpos : 0 < fs_remaining st) by lia.
      destruct (Hpend Hpos) as [Hdone _].
      assert (Hinv' : inv st').
      { unfold inv. repeat split; try lia.
        - rewrite Hd, Hdone. cbn. lia.
        - rewrite Hp, Ep. exists last. reflexivity. }
      rewrite (IH _ _ Hus Hinv' Er). unfold pending. rewrite Hp, Ep.
      replace (0 <? fs_remaining st) with true by lia.
      rewrite Hd, Hdone. cbn [orb].
      assert (last = pn) by lia. subst last.
      destruct (fs_remaining st =? Z.of_nat (Z.to_nat count)) eqn:E3.
      * replace (0 <? Z.of_nat (Z.to_nat count)) with true by lia. cbn [andb].
        replace (0 <? fs_remaining st') with false by lia. reflexivity.
      * rewrite andb_false_r. replace (0 <? fs_remaining st') with true by lia. reflexivity.
    + injection Es as <- <-. cbn. apply (IH _ _ Hus); [|exact Er]. exact (conj Hnn (conj Hrem Hpend)).
Qed.

Lemma run_spec us pics : Forall wf_unit us -> run us = Some pics -> pics = coded_pictures us.
Proof.
  intros Hwf H. apply (run_from_spec us fs_init pics Hwf) in H; [exact H|].
  unfold inv, fs_init; cbn. repeat split; lia.
Qed.
