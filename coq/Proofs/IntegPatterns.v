(* Integration C01/C03 x C18: Model/Stream.v's two ordering-pattern automata instantiated with the C18
   Matcher model (Model/IntegSeq.v mstep / gstart_m / lstart_m).  With C18_accepts_iff_viable_prefix and
   C18_complete_iff_match, "the automaton accepts the parse codes" IS "the parse-code names are in the
   language of the pattern" -- for the generic pattern `sequence_header .* end_of_sequence` and for ANY level
   pattern r with eos_ok r. *)
From Coq Require Import ZArith List Bool Lia.
From VC2 Require Import Base.PyZ Model.Regex Model.NFA Model.Matcher Model.Stream Model.IntegSeq
  Proofs.RegexProofs Proofs.NFAProofs Proofs.MatcherProofs Proofs.IntegEncoder.
Import ListNotations.
Open Scope Z_scope.

Lemma num_sym_num s : num_sym (sym_num s) = Some s.
Proof. destruct s; reflexivity. Qed.

Lemma num_sym_inv z s : num_sym z = Some s -> z = sym_num s.
Proof.
  unfold num_sym. repeat match goal with |- context [?a =? ?b] => destruct (Z.eqb_spec a b) end;
    intros H; inversion H; subst; reflexivity.
Qed.

(* the AST is what parse_regex (C18's parser model) returns for the token string of the real pattern *)
Lemma generic_re_parse : parse_regex generic_tokens = inr generic_re.
Proof. vm_compute. reflexivity. Qed.

Lemma generic_eos_ok : eos_ok generic_re = true.
Proof. reflexivity. Qed.

Lemma accepts_feed_from : forall syms m,
  automaton_accepts matcher mstep is_complete m syms =
  match feed_from m (map sym_num syms) with Some m' => is_complete m' | None => false end.
Proof.
  induction syms as [|s r IH]; intros m; [reflexivity|].
  cbn [automaton_accepts map feed_from]. unfold mstep.
  destruct (match_symbol m (sym_num s)) as [[|] m']; [apply IH|reflexivity].
Qed.

(* the Matcher-automaton of ANY pattern r (with `$` only where nothing mandatory follows) accepts a
   list of parse codes iff their names match r *)
Theorem matcher_automaton_accepts_iff_lang (r : re) (syms : list symbol) : eos_ok r = true ->
  (automaton_accepts matcher mstep is_complete (new_matcher Directed r) syms = true <-> lang r (map sym_num syms)).
Proof.
  intros Hok. rewrite accepts_feed_from. fold (feed Directed r (map sym_num syms)).
  destruct (feed Directed r (map sym_num syms)) as [m|] eqn:F.
  - apply (complete_iff_match r Hok _ m F).
  - split; [discriminate|]. intros L. exfalso.
    apply (proj2 (accepts_iff_viable_prefix r Hok (map sym_num syms))); [|exact F].
    exists []. rewrite app_nil_r. exact L.
Qed.

Lemma star_any_real : forall w : list sym, langE (Star Any) (map Real w).
Proof.
  induction w as [|s r IH]; [apply LE_star0|].
  change (map Real (s :: r)) with ([Real s] ++ map Real r). apply LE_star1; [apply LE_any|exact IH].
Qed.

Lemma generic_lang mid : lang generic_re (8 :: mid ++ [2]).
Proof.
  exists 0%nat. unfold word. cbn [repeat]. rewrite app_nil_r.
  cbn [map]. rewrite map_app. cbn [map].
  change (Real 8 :: map Real mid ++ [Real 2]) with ([Real 8] ++ (map Real mid ++ [Real 2])).
  unfold generic_re. apply LE_cat; [apply LE_sym|]. apply LE_cat; [apply star_any_real|apply LE_sym].
Qed.

(* the first Section hypothesis of C01 (C01_iff, C03_structure_partial, the C05 stream theorems) holds for the instantiation *)
Lemma generic_first_is_seqhdr : gen_first_is_seqhdr_b gstart_m mstep = true.
Proof. vm_compute. reflexivity. Qed.

Section Levels.
  Variable lvl_re : Z -> re.

  Theorem generic_ok_iff us : Mgeneric_ok us = true <-> lang generic_re (map sym_num (map u_symbol us)).
  Proof. apply matcher_automaton_accepts_iff_lang. reflexivity. Qed.

  Theorem level_ok_iff us h0 : first_hdr us = Some h0 -> eos_ok (lvl_re (h_level h0)) = true ->
    (Mlevel_ok lvl_re us = true <-> lang (lvl_re (h_level h0)) (map sym_num (map u_symbol us))).
  Proof.
    intros Hh Hok. unfold Mlevel_ok, level_pattern_ok. rewrite Hh. apply matcher_automaton_accepts_iff_lang. exact Hok.
  Qed.

  (* sequence header first, end of sequence last: the generic pattern matches, whatever is in between *)
  Theorem generic_ok_ends u0 h0 mid e : u_kind u0 = KSeqHdr h0 -> u_kind e = KEos ->
    Mgeneric_ok (u0 :: mid ++ [e]) = true.
  Proof.
    intros H0 He. apply generic_ok_iff. cbn [map]. rewrite !map_app. cbn [map].
    unfold u_symbol at 1 3. rewrite H0, He. cbn [kind_symbol sym_num]. apply generic_lang.
  Qed.

  (* the second Section hypothesis of C01 (C01_rejections_are_conformance_errors): a level whose pattern
     lets some sequence start with a sequence header passes the `assert` after its Matcher is created *)
  Lemma level_accepts_seqhdr l : eos_ok (lvl_re l) = true -> (exists v, lang (lvl_re l) (8 :: v)) ->
    lvl_accepts_seqhdr_b (lstart_m lvl_re) (lstep_m) l = true.
  Proof.
    intros Hok Hv. unfold lvl_accepts_seqhdr_b, lstep_m, lstart_m, mstep. cbn [sym_num].
    pose proof (proj2 (accepts_iff_viable_prefix (lvl_re l) Hok [8]) Hv) as F.
    unfold feed in F. cbn [feed_from] in F.
    destruct (match_symbol (new_matcher Directed (lvl_re l)) 8) as [[|] m']; [reflexivity|]. exfalso. apply F. reflexivity.
  Qed.
End Levels.

(* ---------------------------------------------------------------- end_of_sequence only last *)
Definition clean (l : letter) : Prop := l <> Real 2 /\ l <> End.

Lemma no_eos_clean r u : langE r u -> no_eos_sym r = true -> Forall clean u.
Proof.
  induction 1; cbn [no_eos_sym]; intros Hn; try discriminate.
  - constructor.
  - constructor; [|constructor]. split; [|discriminate]. intros E. injection E as ->. discriminate.
  - apply andb_prop in Hn. destruct Hn. apply Forall_app. split; auto.
  - apply andb_prop in Hn. destruct Hn. auto.
  - apply andb_prop in Hn. destruct Hn. auto.
  - constructor.
  - apply Forall_app. split; auto.
Qed.

Lemma ends_with_eos_letters : forall r u, langE r u -> ends_with_eos r = true ->
  exists u', u = u' ++ [Real 2] /\ Forall clean u'.
Proof.
  induction r; intros u L He; cbn [ends_with_eos] in He; try discriminate.
  - inversion L; subst. apply Z.eqb_eq in He. subst. exists []. split; [reflexivity|constructor].
  - apply andb_prop in He. destruct He as (Ha & Hb). inversion L as [| | | |? ? ua ub La Lb| | | |]; subst.
    destruct (IHr2 ub Lb Hb) as (ub' & -> & Hc). exists (ua ++ ub'). split; [rewrite app_assoc; reflexivity|].
    apply Forall_app. split; [exact (no_eos_clean _ _ La Ha)|exact Hc].
Qed.

Lemma ends_with_eos_names r w : lang r w -> ends_with_eos r = true -> exists w', w = w' ++ [2] /\ ~ In 2 w'.
Proof.
  intros (k & L) He. destruct (ends_with_eos_letters r _ L He) as (u' & E & Hc). unfold word in E.
  destruct k as [|k].
  - cbn [repeat] in E. rewrite app_nil_r in E. induction w as [|z w0 _] using rev_ind.
    + destruct u'; discriminate.
    + rewrite map_app in E. cbn [map] in E. apply app_inj_tail in E. destruct E as (E1 & E2). injection E2 as ->.
      exists w0. split; [reflexivity|]. intros Hin. rewrite <- E1 in Hc. rewrite Forall_forall in Hc.
      destruct (Hc (Real 2) (in_map Real _ _ Hin)) as (A & _). apply A. reflexivity.
  - exfalso. replace (repeat End (S k)) with (repeat End k ++ [End]) in E by (rewrite <- repeat_cons; reflexivity).
    rewrite app_assoc in E. apply app_inj_tail in E. destruct E as (_ & E2). discriminate.
Qed.

(* units whose names are w' ++ [end_of_sequence] with no end_of_sequence in w' *)
Lemma names_eos_only_last (us : list dunit) w' :
  map sym_num (map u_symbol us) = w' ++ [2] -> ~ In 2 w' -> eos_only_last us = true.
Proof.
  intros E Hn. rewrite map_map in E. apply map_eq_app in E. destruct E as (us' & ue & -> & E1 & E2).
  destruct ue as [|e [|? ?]]; try discriminate. cbn [map] in E2. injection E2 as E2.
  apply eos_only_last_units.
  - apply Forall_forall. intros u Hu. destruct (is_eos_kind (u_kind u)) eqn:Ek; [|reflexivity]. exfalso. apply Hn.
    rewrite <- E1. apply in_map_iff. exists u. split; [|exact Hu]. unfold u_symbol. destruct (u_kind u); try discriminate. reflexivity.
  - unfold u_symbol in E2. destruct (u_kind e) as [h|[|] n tp|[|] n tp|[|] n c x y| | |]; try discriminate. reflexivity.
Qed.
