(* Proofs about Model/FixedDict.v (property C27). *)
From Coq Require Import List Bool String ZArith Lia.
From VC2 Require Import Model.FixedDict.
Import ListNotations.

Section Proofs.
Variables K V : Type.
Variable keqb : K -> K -> bool.
Hypothesis keqb_spec : forall a b, keqb a b = true <-> a = b.

Notation items := (items K V).
Notation fd := (fd K V).
Notation fdclass := (fdclass K).
Notation declared := (declared keqb).
Notation keys := (map (@fst K V)).
Notation d_get := (d_get keqb).
Notation d_set := (d_set keqb).
Notation d_del := (d_del keqb).
Notation d_update := (d_update keqb).
Notation mapping_pairs := (mapping_pairs keqb).
Notation source_pairs := (source_pairs keqb).
Notation opt_source_pairs := (opt_source_pairs keqb).
Notation set_all := (set_all keqb).
Notation update := (update keqb).
Notation init := (init keqb).
Notation rebuild := (rebuild keqb).
Notation step := (step keqb).
Notation run := (run keqb).

Lemma keqb_refl a : keqb a a = true.
Proof. apply keqb_spec. reflexivity. Qed.

Lemma keqb_false a b : keqb a b = false <-> a <> b.
Proof.
  split.
  - intros H E. apply keqb_spec in E. congruence.
  - intros H. destruct (keqb a b) eqn:E; [apply keqb_spec in E; contradiction|reflexivity].
Qed.

Lemma declared_In c k : declared c k = true <-> In k (centries c).
Proof.
  unfold FixedDict.declared. rewrite existsb_exists. split.
  - intros [x [Hx E]]. apply keqb_spec in E. subst. exact Hx.
  - intros H. exists k. split; [exact H|apply keqb_refl].
Qed.

Lemma declared_false c k : declared c k = false <-> ~ In k (centries c).
Proof.
  rewrite <- declared_In. destruct (declared c k); split; intros; try congruence; try reflexivity.
Qed.

(* ---- plain dict ---------------------------------------------------------------------- *)
Lemma d_get_None k (l : items) : d_get k l = None <-> ~ In k (keys l).
Proof.
  induction l as [|[k' v'] r IH]; cbn.
  - split; [intros _ []|reflexivity].
  - destruct (keqb k k') eqn:E.
    + apply keqb_spec in E. subst. split; [discriminate|]. intros H. exfalso. apply H. left. reflexivity.
    + apply keqb_false in E. rewrite IH. split.
      * intros H [H1|H1]; [congruence|contradiction].
      * intros H H1. apply H. right. exact H1.
Qed.

Lemma d_get_Some_In k v (l : items) : d_get k l = Some v -> In (k, v) l.
Proof.
  induction l as [|[k' v'] r IH]; cbn; [discriminate|].
  destruct (keqb k k') eqn:E.
  - apply keqb_spec in E. subst. intros H. injection H as ->. left. reflexivity.
  - intros H. right. apply IH. exact H.
Qed.

Lemma d_set_keys k v (l : items) :
  keys (d_set k v l) = if d_get k l then keys l else keys l ++ [k].
Proof.
  induction l as [|[k' v'] r IH]; cbn; [reflexivity|].
  destruct (keqb k k') eqn:E; cbn; [reflexivity|].
  rewrite IH. destruct (d_get k r); reflexivity.
Qed.

Lemma d_set_In k v (l : items) x : In x (keys (d_set k v l)) <-> x = k \/ In x (keys l).
Proof.
  rewrite d_set_keys. destruct (d_get k l) eqn:E.
  - split; [intros H; right; exact H|]. intros [->|H]; [|exact H].
    destruct (in_dec (fun a b => match keqb a b as b0 return keqb a b = b0 -> {a = b} + {a <> b} with
                                 | true => fun e => left (proj1 (keqb_spec a b) e)
                                 | false => fun e => right (proj1 (keqb_false a b) e) end eq_refl) k (keys l)) as [Hi|Hn];
      [exact Hi|]. apply d_get_None in Hn. congruence.
  - rewrite in_app_iff. cbn. split; intros [H|H]; auto. destruct H as [H|[]]; auto.
Qed.

Lemma d_set_NoDup k v (l : items) : NoDup (keys l) -> NoDup (keys (d_set k v l)).
Proof.
  intros H. rewrite d_set_keys. destruct (d_get k l) eqn:E; [exact H|].
  apply d_get_None in E. apply NoDup_rev in H. rewrite <- (rev_involutive (keys l ++ [k])).
  apply NoDup_rev. rewrite rev_app_distr. cbn. constructor; [|exact H].
  rewrite <- in_rev. exact E.
Qed.

(* a new key is appended, an existing key keeps its place *)
Lemma d_set_new k v (l : items) : ~ In k (keys l) -> d_set k v l = l ++ [(k, v)].
Proof.
  induction l as [|[k' v'] r IH]; cbn; [reflexivity|].
  intros H. destruct (keqb k k') eqn:E.
  - apply keqb_spec in E. subst. exfalso. apply H. left. reflexivity.
  - rewrite IH; [reflexivity|]. intros H1. apply H. right. exact H1.
Qed.

Lemma d_get_set_same k v (l : items) : d_get k (d_set k v l) = Some v.
Proof.
  induction l as [|[k' v'] r IH]; cbn.
  - rewrite keqb_refl. reflexivity.
  - destruct (keqb k k') eqn:E; cbn; rewrite E; [reflexivity|exact IH].
Qed.

Lemma d_get_set_other k k' v (l : items) : k' <> k -> d_get k' (d_set k v l) = d_get k' l.
Proof.
  intros Hne. induction l as [|[k2 v2] r IH]; cbn.
  - apply keqb_false in Hne. rewrite Hne. reflexivity.
  - destruct (keqb k k2) eqn:E; cbn.
    + apply keqb_spec in E. subst. apply keqb_false in Hne. rewrite Hne. reflexivity.
    + rewrite IH. reflexivity.
Qed.

Lemma d_del_incl k (l : items) x : In x (keys (d_del k l)) -> In x (keys l).
Proof.
  induction l as [|[k' v'] r IH]; cbn; [intros []|].
  destruct (keqb k k'); cbn.
  - intros H. right. exact H.
  - intros [H|H]; [left; exact H|right; apply IH; exact H].
Qed.

Lemma d_del_NoDup k (l : items) : NoDup (keys l) -> NoDup (keys (d_del k l)).
Proof.
  induction l as [|[k' v'] r IH]; cbn; [intros H; exact H|].
  intros H. inversion H as [|? ? Hn Hr]; subst.
  destruct (keqb k k'); cbn; [exact Hr|].
  constructor; [|apply IH; exact Hr]. intros Hi. apply Hn. eapply d_del_incl. exact Hi.
Qed.

Lemma d_del_not_In k (l : items) : NoDup (keys l) -> ~ In k (keys (d_del k l)).
Proof.
  induction l as [|[k' v'] r IH]; cbn; [intros _ []|].
  intros H. inversion H as [|? ? Hn Hr]; subst.
  destruct (keqb k k') eqn:E; cbn.
  - apply keqb_spec in E. subst. exact Hn.
  - apply keqb_false in E. intros [H1|H1]; [congruence|]. exact (IH Hr H1).
Qed.

Lemma d_update_In (ps l : items) x :
  In x (keys (d_update l ps)) <-> In x (keys l) \/ In x (keys ps).
Proof.
  revert l. induction ps as [|[k v] r IH]; intros l; cbn.
  - split; [intros H; left; exact H|intros [H|[]]; exact H].
  - unfold FixedDict.d_update in IH. rewrite IH. cbn. rewrite d_set_In. intuition (subst; auto).
Qed.

Lemma d_update_NoDup (ps l : items) : NoDup (keys l) -> NoDup (keys (d_update l ps)).
Proof.
  revert l. induction ps as [|[k v] r IH]; intros l H; cbn; [exact H|].
  apply IH. apply d_set_NoDup. exact H.
Qed.

Lemma d_update_app (l p q : items) : d_update l (p ++ q) = d_update (d_update l p) q.
Proof. unfold FixedDict.d_update. apply fold_left_app. Qed.

(* storing pairs with fresh, pairwise different keys appends them in order *)
Lemma d_update_fresh (ps l : items) : NoDup (keys (l ++ ps)) -> d_update l ps = l ++ ps.
Proof.
  revert l. induction ps as [|[k v] r IH]; intros l H; cbn.
  - rewrite app_nil_r. reflexivity.
  - assert (Hk : ~ In k (keys l)).
    { rewrite map_app in H. cbn in H. apply NoDup_remove_2 in H.
      intros Hi. apply H. apply in_or_app. left. exact Hi. }
    rewrite d_set_new by exact Hk.
    replace (l ++ (k, v) :: r) with ((l ++ [(k, v)]) ++ r) in * by (rewrite <- app_assoc; reflexivity).
    apply (IH (l ++ [(k, v)])). exact H.
Qed.

Lemma d_update_nil_NoDup (ps : items) : NoDup (keys ps) -> d_update [] ps = ps.
Proof. intros H. apply (d_update_fresh ps []). exact H. Qed.

(* `for k in E: ... E[k]` over a genuine mapping enumerates its items *)
Lemma mapping_pairs_NoDup (e : items) : NoDup (keys e) -> mapping_pairs e = e.
Proof.
  unfold FixedDict.mapping_pairs, FixedDict.d_keys.
  assert (G : forall (pre suf : items), NoDup (keys (pre ++ suf)) ->
     flat_map (fun k => match d_get k (pre ++ suf) with Some v => [(k, v)] | None => [] end) (keys suf) = suf).
  { intros pre suf. revert pre. induction suf as [|[k v] r IH]; intros pre H; cbn; [reflexivity|].
    assert (Hg : d_get k (pre ++ (k, v) :: r) = Some v).
    { assert (Hk : ~ In k (keys pre)).
      { rewrite map_app in H. cbn in H. apply NoDup_remove_2 in H.
        intros Hi. apply H. apply in_or_app. left. exact Hi. }
      clear -Hk keqb_spec. induction pre as [|[k2 v2] p IHp]; cbn.
      - rewrite keqb_refl. reflexivity.
      - destruct (keqb k k2) eqn:E.
        + apply keqb_spec in E. subst. exfalso. apply Hk. left. reflexivity.
        + apply IHp. intros Hi. apply Hk. right. exact Hi. }
    rewrite Hg. cbn. f_equal.
    replace (pre ++ (k, v) :: r) with ((pre ++ [(k, v)]) ++ r) in * by (rewrite <- app_assoc; reflexivity).
    apply IH. exact H. }
  intros H. apply (G [] e). exact H.
Qed.

Lemma mapping_pairs_keys_incl (e : items) x : In x (keys (mapping_pairs e)) -> In x (keys e).
Proof.
  unfold FixedDict.mapping_pairs, FixedDict.d_keys. rewrite flat_map_concat_map, concat_map, map_map.
  intros H. apply in_concat in H. destruct H as [l [Hl Hx]].
  apply in_map_iff in Hl. destruct Hl as [k [<- Hk]].
  destruct (d_get k e); cbn in Hx; [|contradiction]. destruct Hx as [<-|[]]. exact Hk.
Qed.

(* ---- the checked store loop ---------------------------------------------------------------- *)
Definition all_declared (c : fdclass) (ps : items) : Prop :=
  forall k, In k (keys ps) -> In k (centries c).

(* the loop on a list whose first undeclared key is k: the pairs before it are stored
   (dict.update semantics), nothing after it is looked at *)
Lemma set_all_split c (pre post : items) k v (l : items) :
  all_declared c pre -> ~ In k (centries c) ->
  set_all c (pre ++ (k, v) :: post) l = (d_update l pre, Some k).
Proof.
  revert l. induction pre as [|[k1 v1] r IH]; intros l Hpre Hk; cbn.
  - apply declared_false in Hk. rewrite Hk. reflexivity.
  - assert (H1 : declared c k1 = true) by (apply declared_In; apply Hpre; left; reflexivity).
    rewrite H1. apply IH; [|exact Hk]. intros x Hx. apply Hpre. right. exact Hx.
Qed.

Lemma set_all_ok c (ps l : items) : all_declared c ps -> set_all c ps l = (d_update l ps, None).
Proof.
  revert l. induction ps as [|[k1 v1] r IH]; intros l Hps; cbn; [reflexivity|].
  assert (H1 : declared c k1 = true) by (apply declared_In; apply Hps; left; reflexivity).
  rewrite H1. apply IH. intros x Hx. apply Hps. right. exact Hx.
Qed.

(* every list either has only declared keys or splits at its first undeclared key *)
Lemma first_undeclared c (ps : items) :
  all_declared c ps \/
  exists pre k v post, ps = pre ++ (k, v) :: post /\ all_declared c pre /\ ~ In k (centries c).
Proof.
  induction ps as [|[k v] r IH].
  - left. intros k [].
  - destruct (declared c k) eqn:E.
    + apply declared_In in E. destruct IH as [IH|[pre [k' [v' [post [-> [Hp Hk]]]]]]].
      * left. intros x [<-|Hx]; [exact E|apply IH; exact Hx].
      * right. exists ((k, v) :: pre), k', v', post. split; [reflexivity|]. split; [|exact Hk].
        intros x [<-|Hx]; [exact E|apply Hp; exact Hx].
    + apply declared_false in E. right. exists [], k, v, r. split; [reflexivity|]. split; [intros x []|exact E].
Qed.

Lemma set_all_app c (p q l : items) :
  set_all c (p ++ q) l = match set_all c p l with
                         | (l1, Some k) => (l1, Some k)
                         | (l1, None) => set_all c q l1
                         end.
Proof.
  revert l. induction p as [|[k v] r IH]; intros l; cbn; [reflexivity|].
  destruct (declared c k); [apply IH|reflexivity].
Qed.

(* update(E, **F) is the loop over E's pairs followed by F's *)
Lemma update_eq c e (f l : items) : update c e f l = set_all c (opt_source_pairs e ++ f) l.
Proof. unfold FixedDict.update. rewrite set_all_app. reflexivity. Qed.

Lemma set_all_keys c (ps l : items) x :
  In x (keys (fst (set_all c ps l))) -> In x (keys l) \/ In x (centries c).
Proof.
  revert l. induction ps as [|[k v] r IH]; intros l; cbn; [intros H; left; exact H|].
  destruct (declared c k) eqn:E; cbn; [|intros H; left; exact H].
  intros H. apply IH in H. destruct H as [H|H]; [|right; exact H].
  apply d_set_In in H. destruct H as [->|H]; [right; apply declared_In; exact E|left; exact H].
Qed.

Lemma set_all_NoDup c (ps l : items) : NoDup (keys l) -> NoDup (keys (fst (set_all c ps l))).
Proof.
  revert l. induction ps as [|[k v] r IH]; intros l H; cbn; [exact H|].
  destruct (declared c k); cbn; [|exact H]. apply IH. apply d_set_NoDup. exact H.
Qed.

Lemma set_all_err_undeclared c (ps l : items) k :
  snd (set_all c ps l) = Some k -> ~ In k (centries c) /\ In k (keys ps).
Proof.
  revert l. induction ps as [|[k1 v1] r IH]; intros l; cbn; [discriminate|].
  destruct (declared c k1) eqn:E; cbn.
  - intros H. apply IH in H. destruct H as [H1 H2]. split; [exact H1|right; exact H2].
  - intros H. injection H as <-. split; [apply declared_false; exact E|left; reflexivity].
Qed.

(* ---- the invariant ------------------------------------------------------------------------------ *)
Definition keys_declared (s : fd) : Prop :=
  forall k, In k (keys (fitems s)) -> In k (centries (fcls s)).

Definition inv (s : fd) : Prop := keys_declared s /\ NoDup (keys (fitems s)).

Lemma find_undeclared_None c (ks : list K) :
  find (fun k => negb (declared c k)) ks = None <-> (forall k, In k ks -> In k (centries c)).
Proof.
  split.
  - intros H k Hk. pose proof (find_none _ _ H k Hk) as Hn. cbn in Hn.
    apply negb_false_iff in Hn. apply declared_In. exact Hn.
  - intros H. destruct (find _ ks) eqn:E; [|reflexivity].
    apply find_some in E. destruct E as [Hi Hn]. apply negb_true_iff in Hn.
    apply declared_false in Hn. exfalso. apply Hn. apply H. exact Hi.
Qed.

Definition init_items (e : option (source K V)) (f : items) : items :=
  d_update (d_update [] (opt_source_pairs e)) f.

Lemma init_items_NoDup e f : NoDup (keys (init_items e f)).
Proof. unfold init_items. apply d_update_NoDup. apply d_update_NoDup. constructor. Qed.

(* construction: accepted exactly when every given key is declared, and then the object
   holds what dict(E, **F) holds; otherwise the key error names an undeclared given key *)
Lemma init_ok_iff c e f :
  (forall k, In k (keys (init_items e f)) -> In k (centries c)) <->
  init c e f = InitOk {| fcls := c; fitems := init_items e f |}.
Proof.
  unfold FixedDict.init, FixedDict.d_keys. fold (init_items e f). split.
  - intros H. apply find_undeclared_None in H. rewrite H. reflexivity.
  - intros H. destruct (find _ _) eqn:E; [discriminate|]. apply find_undeclared_None. exact E.
Qed.

Lemma init_ok_inv c e f s : init c e f = InitOk s -> inv s /\ fcls s = c /\ fitems s = init_items e f.
Proof.
  unfold FixedDict.init, FixedDict.d_keys. fold (init_items e f).
  destruct (find _ _) eqn:E; [discriminate|]. intros H. injection H as <-. cbn.
  split; [|split; reflexivity]. split; cbn.
  - unfold keys_declared. cbn. apply find_undeclared_None. exact E.
  - apply init_items_NoDup.
Qed.

Lemma init_err c e f k : init c e f = InitErr k -> ~ In k (centries c) /\ In k (keys (init_items e f)).
Proof.
  unfold FixedDict.init, FixedDict.d_keys. fold (init_items e f).
  destruct (find _ _) eqn:E; [|discriminate]. intros H. injection H as <-.
  apply find_some in E. destruct E as [Hi Hn]. apply negb_true_iff in Hn.
  split; [apply declared_false; exact Hn|exact Hi].
Qed.

Lemma init_reject c e f k :
  In k (keys (init_items e f)) -> ~ In k (centries c) ->
  exists k', init c e f = InitErr k' /\ ~ In k' (centries c).
Proof.
  intros Hi Hk. destruct (init c e f) eqn:E.
  - apply init_ok_inv in E. destruct E as [[Hd _] [Hc Hf]]. exfalso. apply Hk.
    rewrite <- Hc. apply Hd. rewrite Hf. exact Hi.
  - exists k0. split; [reflexivity|]. apply init_err in E. apply E.
Qed.

Lemma init_empty c : init c None ([] : items) = InitOk {| fcls := c; fitems := [] |}.
Proof. reflexivity. Qed.

(* copying a well-formed object through the constructor gives the same object *)
Lemma init_of_self s : inv s -> init (fcls s) (Some (Mapping (fitems s))) [] = InitOk s.
Proof.
  intros [Hd Hn]. destruct s as [c l]. cbn in *.
  assert (Hi : init_items (Some (Mapping l)) [] = l).
  { unfold init_items. cbn. rewrite mapping_pairs_NoDup by exact Hn. apply d_update_nil_NoDup. exact Hn. }
  pose proof (proj1 (init_ok_iff c (Some (Mapping l)) [])) as H. rewrite Hi in H. apply H. exact Hd.
Qed.

(* pickle: rebuild (reduce s) = s *)
Lemma rebuild_reduce s : inv s -> rebuild (reduce s) = InitOk s.
Proof.
  intros [Hd Hn]. destruct s as [c l]. cbn in *. unfold FixedDict.getstate. cbn.
  rewrite update_eq. cbn. rewrite app_nil_r. rewrite mapping_pairs_NoDup by exact Hn.
  rewrite set_all_ok by exact Hd. rewrite d_update_nil_NoDup by exact Hn. reflexivity.
Qed.

(* whatever constructor arguments and state a pickle carries, an object that comes out
   of the rebuild holds declared keys only *)
Lemma rebuild_safe c e f st s : rebuild (c, (e, f), st) = InitOk s -> inv s /\ fcls s = c.
Proof.
  cbn. destruct (init c e f) as [s0|k] eqn:E; [|discriminate].
  apply init_ok_inv in E. destruct E as [[Hd Hn] [Hc Hf]].
  destruct (update c (Some (Mapping st)) [] (fitems s0)) as [l [k|]] eqn:U; [discriminate|].
  intros H. injection H as <-. cbn. split; [|reflexivity].
  rewrite update_eq in U. split; cbn.
  - intros k Hk. unfold keys_declared in Hd. cbn in Hk.
    replace l with (fst (set_all c (opt_source_pairs (Some (Mapping st)) ++ []) (fitems s0))) in Hk by (rewrite U; reflexivity).
    apply set_all_keys in Hk. destruct Hk as [Hk|Hk]; [|exact Hk]. rewrite <- Hc. apply Hd. exact Hk.
  - replace l with (fst (set_all c (opt_source_pairs (Some (Mapping st)) ++ []) (fitems s0))) by (rewrite U; reflexivity).
    apply set_all_NoDup. exact Hn.
Qed.

(* ---- one operation ------------------------------------------------------------------------------- *)
Lemma finish_inv s (ps : items) :
  inv s -> inv (fst (finish s (set_all (fcls s) ps (fitems s)))) /\
           fcls (fst (finish s (set_all (fcls s) ps (fitems s)))) = fcls s.
Proof.
  intros [Hd Hn].
  pose proof (set_all_keys (fcls s) ps (fitems s)) as Hk.
  pose proof (set_all_NoDup (fcls s) ps (fitems s) Hn) as Hu.
  destruct (set_all (fcls s) ps (fitems s)) as [l [k|]]; cbn in *; (split; [|reflexivity]); split; cbn; try exact Hu;
    intros x Hx; destruct (Hk x Hx) as [H|H]; auto.
Qed.

Lemma rev_keys_incl (l r : items) k v x : rev l = (k, v) :: r -> In x (keys (rev r)) -> In x (keys l).
Proof.
  intros H Hx. apply in_map_iff in Hx. destruct Hx as [[a b] [<- Hi]].
  apply in_map_iff. exists (a, b). split; [reflexivity|]. apply in_rev. rewrite H. right. apply in_rev. exact Hi.
Qed.

Lemma rev_keys_NoDup (l r : items) k v : rev l = (k, v) :: r -> NoDup (keys l) -> NoDup (keys (rev r)).
Proof.
  intros H Hn. assert (Hl : l = rev r ++ [(k, v)]).
  { rewrite <- (rev_involutive l). rewrite H. reflexivity. }
  rewrite Hl in Hn. rewrite map_app in Hn. apply NoDup_remove_1 in Hn.
  rewrite app_nil_r in Hn. exact Hn.
Qed.

(* every operation except the unchecked |= keeps the invariant and the class *)
Definition is_unchecked_ior (var : ior_variant) (o : op K V) : Prop :=
  var = IOrUnchecked /\ exists e, o = IOr e.

Lemma step_inv var s o :
  ~ is_unchecked_ior var o -> inv s -> inv (fst (step var s o)) /\ fcls (fst (step var s o)) = fcls s.
Proof.
  intros Hv Hs. pose proof Hs as [Hd Hn]. destruct o; cbn -[FixedDict.rebuild FixedDict.reduce FixedDict.init].
  - (* SetItem *) destruct (declared (fcls s) k) eqn:E; cbn; [|split; [exact Hs|reflexivity]].
    split; [|reflexivity]. split; cbn.
    + intros x Hx. cbn in Hx. apply d_set_In in Hx. destruct Hx as [->|Hx]; [apply declared_In; exact E|apply Hd; exact Hx].
    + apply d_set_NoDup. exact Hn.
  - (* SetDefault *) destruct (declared (fcls s) k) eqn:E; cbn; [|split; [exact Hs|reflexivity]].
    destruct (d_get k (fitems s)); cbn; [split; [exact Hs|reflexivity]|].
    split; [|reflexivity]. split; cbn.
    + intros x Hx. cbn in Hx. apply d_set_In in Hx. destruct Hx as [->|Hx]; [apply declared_In; exact E|apply Hd; exact Hx].
    + apply d_set_NoDup. exact Hn.
  - (* Update *) rewrite update_eq. apply finish_inv. exact Hs.
  - (* IOr *) destruct var.
    + rewrite update_eq. apply finish_inv. exact Hs.
    + exfalso. apply Hv. split; [reflexivity|]. exists e. reflexivity.
  - (* CopyMethod *) rewrite init_of_self by exact Hs. cbn. split; [exact Hs|reflexivity].
  - (* CopyModule *) rewrite rebuild_reduce by exact Hs. cbn. split; [exact Hs|reflexivity].
  - (* PickleRoundTrip *) rewrite rebuild_reduce by exact Hs. cbn. split; [exact Hs|reflexivity].
  - (* DelItem *) destruct (d_get k (fitems s)); cbn; [|split; [exact Hs|reflexivity]].
    split; [|reflexivity]. split; cbn.
    + intros x Hx. apply Hd. eapply d_del_incl. exact Hx.
    + apply d_del_NoDup. exact Hn.
  - (* Pop *) destruct (d_get k (fitems s)); cbn; [|split; [exact Hs|reflexivity]].
    split; [|reflexivity]. split; cbn.
    + intros x Hx. apply Hd. eapply d_del_incl. exact Hx.
    + apply d_del_NoDup. exact Hn.
  - (* PopItem *) destruct (rev (fitems s)) as [|[k v] r] eqn:E; cbn; [split; [exact Hs|reflexivity]|].
    split; [|reflexivity]. split; cbn.
    + intros x Hx. apply Hd. eapply rev_keys_incl; [exact E|exact Hx].
    + eapply rev_keys_NoDup; [exact E|exact Hn].
  - (* Clear *) split; [|reflexivity]. split; cbn; [intros x []|constructor].
Qed.

Lemma not_unchecked_checked o : ~ is_unchecked_ior IOrChecked o.
Proof. intros [H _]. discriminate. Qed.

Lemma run_inv_gen var s ops :
  (forall o, In o ops -> ~ is_unchecked_ior var o) -> inv s ->
  inv (run var s ops) /\ fcls (run var s ops) = fcls s.
Proof.
  revert s. induction ops as [|o r IH]; intros s Hv Hs; cbn; [split; [exact Hs|reflexivity]|].
  destruct (step_inv var s o (Hv o (or_introl eq_refl)) Hs) as [H1 H2].
  destruct (IH (fst (step var s o)) (fun o' Ho' => Hv o' (or_intror Ho')) H1) as [H3 H4].
  split; [exact H3|]. unfold FixedDict.run in *. cbn. rewrite H4. exact H2.
Qed.

(* THE INVARIANT: every history on the repaired class *)
Theorem history_inv c e f s0 ops :
  init c e f = InitOk s0 ->
  let s := run IOrChecked s0 ops in
  (forall k, In k (keys (fitems s)) -> In k (centries c)) /\ NoDup (keys (fitems s)) /\ fcls s = c.
Proof.
  intros Hi. apply init_ok_inv in Hi. destruct Hi as [H0 [Hc _]].
  destruct (run_inv_gen IOrChecked s0 ops (fun o _ => not_unchecked_checked o) H0) as [[Hd Hn] Hcl].
  cbn zeta. rewrite Hc in Hcl. split; [|split]; [|exact Hn|exact Hcl].
  intros k Hk. specialize (Hd k Hk). rewrite Hcl in Hd. exact Hd.
Qed.

(* on the pinned class |= is the ONLY hole: histories without it keep the invariant *)
Theorem history_inv_unchecked_without_ior c e f s0 ops :
  init c e f = InitOk s0 -> (forall o, In o ops -> forall e', o <> IOr e') ->
  let s := run IOrUnchecked s0 ops in
  (forall k, In k (keys (fitems s)) -> In k (centries c)) /\ NoDup (keys (fitems s)) /\ fcls s = c.
Proof.
  intros Hi Hno. apply init_ok_inv in Hi. destruct Hi as [H0 [Hc _]].
  assert (Hv : forall o, In o ops -> ~ is_unchecked_ior IOrUnchecked o).
  { intros o Ho [_ [e' He']]. exact (Hno o Ho e' He'). }
  destruct (run_inv_gen IOrUnchecked s0 ops Hv H0) as [[Hd Hn] Hcl].
  cbn zeta. rewrite Hc in Hcl. split; [|split]; [|exact Hn|exact Hcl].
  intros k Hk. specialize (Hd k Hk). rewrite Hcl in Hd. exact Hd.
Qed.

(* ---- rejection ------------------------------------------------------------------------------------- *)
Lemma setitem_reject var (s : fd) k v :
  ~ In k (centries (fcls s)) -> step var s (SetItem k v) = (s, RaisedFixedDictKeyError k).
Proof. intros H. apply declared_false in H. cbn. rewrite H. reflexivity. Qed.

Lemma setdefault_reject var (s : fd) k v :
  ~ In k (centries (fcls s)) -> step var s (SetDefault k v) = (s, RaisedFixedDictKeyError k).
Proof. intros H. apply declared_false in H. cbn. rewrite H. reflexivity. Qed.

(* update / checked |= : the first undeclared key (in E-then-F order) is reported; exactly the
   pairs before it have been stored *)
Lemma update_reject var (s : fd) e f pre k v post :
  opt_source_pairs e ++ f = pre ++ (k, v) :: post ->
  all_declared (fcls s) pre -> ~ In k (centries (fcls s)) ->
  step var s (Update e f) = (with_items s (d_update (fitems s) pre), RaisedFixedDictKeyError k).
Proof.
  intros Hsplit Hpre Hk. cbn. rewrite update_eq, Hsplit, set_all_split by assumption. reflexivity.
Qed.

Lemma ior_reject (s : fd) e pre k v post :
  source_pairs e = pre ++ (k, v) :: post ->
  all_declared (fcls s) pre -> ~ In k (centries (fcls s)) ->
  step IOrChecked s (IOr e) = (with_items s (d_update (fitems s) pre), RaisedFixedDictKeyError k).
Proof.
  intros Hsplit Hpre Hk. cbn. rewrite update_eq. cbn. rewrite app_nil_r, Hsplit, set_all_split by assumption. reflexivity.
Qed.

(* ... and no spurious rejection: with declared keys only, both behave as dict.update *)
Lemma update_accept var (s : fd) e f :
  all_declared (fcls s) (opt_source_pairs e ++ f) ->
  step var s (Update e f) = (with_items s (d_update (fitems s) (opt_source_pairs e ++ f)), Returned None).
Proof. intros H. cbn. rewrite update_eq, set_all_ok by exact H. reflexivity. Qed.

Lemma ior_accept var (s : fd) e :
  all_declared (fcls s) (source_pairs e) ->
  step var s (IOr e) = (with_items s (d_update (fitems s) (source_pairs e)), Returned None).
Proof.
  intros H. destruct var; cbn; [|reflexivity].
  rewrite update_eq. cbn. rewrite app_nil_r, set_all_ok by exact H. reflexivity.
Qed.

Lemma setitem_accept var (s : fd) k v :
  In k (centries (fcls s)) -> step var s (SetItem k v) = (with_items s (d_set k v (fitems s)), Returned None).
Proof. intros H. apply declared_In in H. cbn. rewrite H. reflexivity. Qed.

(* any operation that raises the fixeddict key error names an undeclared key *)
Lemma raised_key_undeclared (s : fd) o k :
  inv s -> snd (step IOrChecked s o) = RaisedFixedDictKeyError k -> ~ In k (centries (fcls s)).
Proof.
  intros Hs. destruct o; cbn -[FixedDict.rebuild FixedDict.reduce FixedDict.init].
  - destruct (declared (fcls s) k0) eqn:E; cbn; [discriminate|]. intros H. injection H as <-. apply declared_false. exact E.
  - destruct (declared (fcls s) k0) eqn:E; cbn.
    + destruct (d_get k0 (fitems s)); cbn; discriminate.
    + intros H. injection H as <-. apply declared_false. exact E.
  - rewrite update_eq. destruct (set_all _ _ _) as [l [k1|]] eqn:E; cbn; [|discriminate].
    intros H. injection H as <-. eapply (set_all_err_undeclared (fcls s) _ (fitems s) k1). rewrite E. reflexivity.
  - rewrite update_eq. destruct (set_all _ _ _) as [l [k1|]] eqn:E; cbn; [|discriminate].
    intros H. injection H as <-. eapply (set_all_err_undeclared (fcls s) _ (fitems s) k1). rewrite E. reflexivity.
  - rewrite init_of_self by exact Hs. cbn. discriminate.
  - rewrite rebuild_reduce by exact Hs. cbn. discriminate.
  - rewrite rebuild_reduce by exact Hs. cbn. discriminate.
  - destruct (d_get k0 (fitems s)); cbn; discriminate.
  - destruct (d_get k0 (fitems s)); cbn; discriminate.
  - destruct (rev (fitems s)) as [|[k1 v1] r]; cbn; discriminate.
  - discriminate.
Qed.

(* ---- copies --------------------------------------------------------------------------------------------- *)
Lemma copies_identical var (s : fd) o :
  inv s -> o = CopyMethod \/ o = CopyModule \/ o = PickleRoundTrip -> step var s o = (s, Returned None).
Proof.
  intros Hs [->|[->| ->]]; cbn -[FixedDict.rebuild FixedDict.reduce FixedDict.init].
  - rewrite init_of_self by exact Hs. reflexivity.
  - rewrite rebuild_reduce by exact Hs. reflexivity.
  - rewrite rebuild_reduce by exact Hs. reflexivity.
Qed.

(* the repair changes nothing for legal use *)
Lemma fix_conservative (s : fd) e :
  all_declared (fcls s) (source_pairs e) -> step IOrChecked s (IOr e) = step IOrUnchecked s (IOr e).
Proof. intros H. rewrite !ior_accept by exact H. reflexivity. Qed.

(* the unchecked |= stores an undeclared key *)
Lemma unchecked_ior_breaks (s : fd) k v :
  ~ In k (centries (fcls s)) ->
  In k (keys (fitems (fst (step IOrUnchecked s (IOr (Pairs [(k, v)])))))).
Proof. intros _. cbn. apply d_set_In. left. reflexivity. Qed.

(* ---- the same facts for every reachable state (any history from any accepted construction) ---------- *)
Lemma reachable_inv c e f (s0 : fd) ops : init c e f = InitOk s0 -> inv (run IOrChecked s0 ops) /\ fcls (run IOrChecked s0 ops) = c.
Proof.
  intros Hi. apply init_ok_inv in Hi. destruct Hi as [H0 [Hc _]].
  destruct (run_inv_gen IOrChecked s0 ops (fun o _ => not_unchecked_checked o) H0) as [H1 H2].
  split; [exact H1|]. rewrite H2. exact Hc.
Qed.

Lemma history_copies c e f (s0 : fd) ops o :
  init c e f = InitOk s0 -> o = CopyMethod \/ o = CopyModule \/ o = PickleRoundTrip ->
  step IOrChecked (run IOrChecked s0 ops) o = (run IOrChecked s0 ops, Returned None).
Proof. intros Hi Ho. apply copies_identical; [|exact Ho]. eapply reachable_inv. exact Hi. Qed.

Lemma history_pickle c e f (s0 : fd) ops :
  init c e f = InitOk s0 -> rebuild (reduce (run IOrChecked s0 ops)) = InitOk (run IOrChecked s0 ops).
Proof. intros Hi. apply rebuild_reduce. eapply reachable_inv. exact Hi. Qed.

Lemma history_raised_undeclared c e f (s0 : fd) ops o k :
  init c e f = InitOk s0 ->
  snd (step IOrChecked (run IOrChecked s0 ops) o) = RaisedFixedDictKeyError k -> ~ In k (centries c).
Proof.
  intros Hi Hr. destruct (reachable_inv c e f s0 ops Hi) as [H1 H2].
  rewrite <- H2. eapply raised_key_undeclared; [exact H1|exact Hr].
Qed.

End Proofs.

Arguments all_declared {K V}.
Arguments init_items {K V}.
Arguments keys_declared {K V}.
Arguments inv {K V}.

(* ---- the concrete witness against the pinned class (string keys, integer values) ------------------------ *)
Lemma unchecked_ior_witness :
  exists (c : fdclass string) (s0 : fd string Z) (history : list (op string Z)) (k : string),
    init String.eqb c None [] = InitOk s0 /\
    In k (d_keys (fitems (run String.eqb IOrUnchecked s0 history))) /\ ~ In k (centries c).
Proof.
  exists {| cname := "FrameSize"; centries := ["custom_dimensions_flag"; "frame_width"; "frame_height"]%string |}.
  eexists. exists [IOr (Mapping [("bogus"%string, 1%Z)])], "bogus"%string.
  split; [reflexivity|]. split.
  - vm_compute. left. reflexivity.
  - vm_compute. intros [H|[H|[H|[]]]]; discriminate.
Qed.
