(* Lemmas about Model/SeqHeader.v: every header description the encoder's enumeration
   produces decodes (decoder/sequence_header.py source_parameters) to exactly the wanted
   video parameters, and every (key, value) it makes the decoder check is admitted by the
   level-constraints column it was generated from. *)
From Coq Require Import ZArith List Bool Lia.
From VC2 Require Import Model.SeqHeader.
Import ListNotations.
Open Scope Z_scope.

(* ---- small facts ------------------------------------------------------------------- *)
Lemma zlist_eqb_eq : forall a b, zlist_eqb a b = true -> a = b.
Proof.
  induction a as [|x a IH]; destruct b as [|y b]; cbn [zlist_eqb]; intros H; try discriminate; auto.
  apply andb_true_iff in H. destruct H as [H1 H2]. apply Z.eqb_eq in H1. subst. f_equal. auto.
Qed.

Lemma zlist_eqb_refl : forall a, zlist_eqb a a = true.
Proof. induction a as [|x a IH]; cbn [zlist_eqb]; auto. rewrite Z.eqb_refl. exact IH. Qed.

Lemma assoc_in_nodup : forall {A} (l : list (Z * A)) k v,
  NoDup (map fst l) -> In (k, v) l -> assoc k l = Some v.
Proof.
  induction l as [|[k' v'] l IH]; intros k v ND HIn; cbn [assoc].
  - destruct HIn.
  - inversion ND as [|? ? Hnot ND']; subst. destruct HIn as [E|HIn].
    + inversion E; subst. rewrite Z.eqb_refl. reflexivity.
    + destruct (k =? k') eqn:Ek.
      * apply Z.eqb_eq in Ek. subst. exfalso. apply Hnot.
        change k' with (fst (k', v)). apply in_map. exact HIn.
      * apply IH; assumption.
Qed.

Lemma allowed_all_forall : forall c keys vals,
  allowed_all c keys vals = true -> Forall (fun p => c (fst p) (snd p) = true) (combine keys vals).
Proof.
  induction keys as [|k ks IH]; destruct vals as [|v vs]; cbn [allowed_all combine]; intros H;
    try discriminate; try constructor.
  - apply andb_true_iff in H. destruct H as [H _]. exact H.
  - apply IH. apply andb_true_iff in H. destruct H as [_ H]. exact H.
Qed.

Lemma in_take_somes : forall {A} (l : list (option A)) x, In x (take_somes l) -> In (Some x) l.
Proof.
  induction l as [|[y|] l IH]; cbn [take_somes]; intros x H; try destruct H.
  - subst. left. reflexivity.
  - right. apply IH. assumption.
Qed.

(* ---- zip_longest_repeating_final_value -------------------------------------------------- *)
Section Zip.
  Context {T : Type}.

  (* every entry of every produced row comes from the iterator at the same position *)
  Definition from_orig (orig : list (list T)) (row : list (option T)) : Prop :=
    Forall2 (fun o c => forall x, c = Some x -> In x o) orig row.

  Lemma map2_head_or_from : forall (orig its : list (list T)) (last : list (option T)),
    Forall2 (fun o it => incl it o) orig its ->
    from_orig orig last ->
    from_orig orig (map2 head_or its last).
  Proof.
    unfold from_orig. induction orig as [|o orig IH]; intros its last Hits Hlast.
    - inversion Hits; subst. cbn. constructor.
    - inversion Hits as [|? it ? its' Hi Hits']; subst.
      inversion Hlast as [|? l ? last' Hl Hlast']; subst.
      cbn [map2]. constructor.
      + intros x Hx. destruct it as [|y it']; cbn [head_or] in Hx.
        * apply Hl. exact Hx.
        * inversion Hx; subst. apply Hi. left. reflexivity.
      + apply IH; assumption.
  Qed.

  Lemma map_tl_incl : forall (orig its : list (list T)),
    Forall2 (fun o it => incl it o) orig its ->
    Forall2 (fun o it => incl it o) orig (map (@tl T) its).
  Proof.
    induction 1 as [|o it orig its Hi _ IH]; cbn [map]; constructor; auto.
    destruct it as [|y it']; cbn [tl]; auto. intros x Hx. apply Hi. right. exact Hx.
  Qed.

  Lemma zlr_from : forall (orig : list (list T)) fuel its last row,
    Forall2 (fun o it => incl it o) orig its ->
    from_orig orig last ->
    In row (zlr fuel its last) -> from_orig orig row.
  Proof.
    intros orig. induction fuel as [|f IH]; intros its last row Hits Hlast HIn; cbn [zlr] in HIn.
    - destruct HIn.
    - destruct (existsb running its); [|destruct HIn].
      destruct HIn as [E|HIn].
      + subst. apply map2_head_or_from; assumption.
      + eapply IH; [| |exact HIn].
        * apply map_tl_incl. exact Hits.
        * apply map2_head_or_from; assumption.
  Qed.

  Lemma zip_longest_from : forall (ls : list (list T)) row,
    In row (zip_longest ls) -> from_orig ls row.
  Proof.
    intros ls row H. unfold zip_longest in H.
    apply (zlr_from ls (S (max_len ls)) ls (map (fun _ => None) ls) row); [| |exact H]; clear H.
    - induction ls as [|a ls IH]; [constructor|constructor; [apply incl_refl|exact IH]].
    - unfold from_orig. induction ls as [|a ls IH]; cbn [map]; [constructor|constructor; [intros x Hx; discriminate|exact IH]].
  Qed.

  (* the fuel is enough: one more unit of fuel changes nothing *)
  Lemma max_len_tl : forall (its : list (list T)),
    (max_len (map (@tl T) its) = Nat.pred (max_len its))%nat.
  Proof.
    induction its as [|it its IH]; cbn [map max_len fold_right]; auto.
    fold (max_len its). fold (max_len (map (@tl T) its)). rewrite IH.
    destruct it as [|y it']; cbn [tl length]; lia.
  Qed.

  Lemma not_running_max_len : forall (its : list (list T)),
    existsb running its = false <-> max_len its = 0%nat.
  Proof.
    induction its as [|it its IH]; cbn [existsb max_len fold_right]; [tauto|].
    fold (max_len its). destruct it as [|y it']; cbn [running length orb].
    - rewrite IH. lia.
    - split; [discriminate|lia].
  Qed.

  Lemma zlr_fuel_enough : forall fuel (its : list (list T)) last,
    (max_len its < fuel)%nat -> zlr (S fuel) its last = zlr fuel its last.
  Proof.
    induction fuel as [|f IH]; intros its last Hlt; [lia|].
    cbn [zlr]. destruct (existsb running its) eqn:Er; auto.
    f_equal. change (zlr (S f) (map (@tl T) its) (map2 head_or its last) =
                     zlr f (map (@tl T) its) (map2 head_or its last)).
    apply IH. rewrite max_len_tl.
    assert (max_len its <> 0%nat).
    { intros E. apply not_running_max_len in E. congruence. }
    lia.
  Qed.
End Zip.

(* ---- one custom_*_flag group -------------------------------------------------------------- *)
Definition presets_wf (ps : list (Z * list Z)) : Prop :=
  NoDup (map fst ps) /\ ~ In 0 (map fst ps).

Lemma iter_custom_options_cases : forall c base target flag keys presets g,
  In g (iter_custom_options c base target flag keys presets) ->
  (g = GDefault /\ base = target /\ c flag 0 = true)
  \/ (exists ps ik i, presets = Some (ps, ik) /\ g = GPreset i /\ In (i, target) ps
                      /\ c flag 1 = true /\ c ik i = true)
  \/ (g = GExplicit target /\ c flag 1 = true
      /\ (forall ps ik, presets = Some (ps, ik) -> c ik 0 = true)
      /\ allowed_all c keys target = true).
Proof.
  intros c base target flag keys presets g H. unfold iter_custom_options in H.
  apply in_app_or in H. destruct H as [H|H].
  - left. destruct (zlist_eqb base target && c flag 0) eqn:E; [|destruct H].
    destruct H as [H|[]]. apply andb_true_iff in E. destruct E as [E1 E2].
    apply zlist_eqb_eq in E1. auto.
  - apply in_app_or in H. destruct H as [H|H].
    + right. left. destruct presets as [[ps ik]|]; [|destruct H].
      apply in_flat_map in H. destruct H as [[i vals] [HIn H]]. cbn [fst snd] in H.
      destruct (zlist_eqb vals target && (c flag 1 && c ik i)) eqn:E; [|destruct H].
      destruct H as [H|[]]. apply andb_true_iff in E. destruct E as [E1 E2].
      apply andb_true_iff in E2. destruct E2 as [E2 E3]. apply zlist_eqb_eq in E1. subst vals.
      exists ps, ik, i. auto.
    + right. right.
      destruct (c flag 1 && match presets with None => true | Some (_, ik) => c ik 0 end
                && allowed_all c keys target) eqn:E; [|destruct H].
      destruct H as [H|[]]. apply andb_true_iff in E. destruct E as [E E3].
      apply andb_true_iff in E. destruct E as [E1 E2]. repeat split; auto.
      intros ps ik Hp. subst presets. exact E2.
Qed.

Lemma iter_custom_options_decode : forall c base target flag keys presets g,
  (forall ps ik, presets = Some (ps, ik) -> presets_wf ps) ->
  In g (iter_custom_options c base target flag keys presets) ->
  decode_group (option_map fst presets) g base = Some target.
Proof.
  intros c base target flag keys presets g Hwf H.
  apply iter_custom_options_cases in H.
  destruct H as [[Hg [Hb _]]|[[ps [ik [i [Hp [Hg [HIn _]]]]]]|[Hg _]]]; subst g; cbn [decode_group].
  - subst. reflexivity.
  - subst presets. cbn [option_map fst]. destruct (Hwf ps ik eq_refl) as [ND N0].
    destruct (i =? 0) eqn:Ei.
    + apply Z.eqb_eq in Ei. subst i. exfalso. apply N0.
      change 0 with (fst (0, target)). apply in_map. exact HIn.
    + apply assoc_in_nodup; assumption.
  - reflexivity.
Qed.

Definition admitted (c : column) (l : list kv) : Prop := Forall (fun p => c (fst p) (snd p) = true) l.

Lemma admitted_app : forall c a b, admitted c a -> admitted c b -> admitted c (a ++ b).
Proof. intros. apply Forall_app. split; assumption. Qed.

Lemma iter_custom_options_coded : forall c base target flag keys presets g,
  In g (iter_custom_options c base target flag keys presets) ->
  admitted c (coded_group flag (option_map snd presets) keys g).
Proof.
  intros c base target flag keys presets g H.
  apply iter_custom_options_cases in H.
  destruct H as [[Hg [_ Hf]]|[[ps [ik [i [Hp [Hg [_ [Hf Hi]]]]]]]|[Hg [Hf [Hi Ha]]]]]; subst g;
    cbn [coded_group].
  - constructor; [exact Hf|constructor].
  - subst presets. cbn [option_map snd]. repeat constructor; assumption.
  - constructor; [exact Hf|]. apply admitted_app.
    + destruct presets as [[ps ik]|]; cbn [option_map snd]; [|constructor].
      constructor; [|constructor]. cbn [fst snd]. eapply Hi. reflexivity.
    + apply allowed_all_forall. exact Ha.
Qed.

(* ---- colour specification ------------------------------------------------------------------ *)
Lemma iter_color_spec_cases : forall c T base target cs,
  In cs (iter_color_spec_options c T base target) ->
  (cs = CSDefault
   /\ [vp_primaries base; vp_matrix base; vp_tf base] = [vp_primaries target; vp_matrix target; vp_tf target]
   /\ c K_custom_color_spec_flag 0 = true)
  \/ (exists i, cs = CSPreset i /\ i <> 0
        /\ In (i, [vp_primaries target; vp_matrix target; vp_tf target]) (preset_color_specs T)
        /\ c K_custom_color_spec_flag 1 = true /\ c K_color_spec_index i = true)
  \/ (exists p0 m0 tf0 gp gm gt, cs = CSCustom gp gm gt
        /\ assoc 0 (preset_color_specs T) = Some [p0; m0; tf0]
        /\ c K_custom_color_spec_flag 1 = true /\ c K_color_spec_index 0 = true
        /\ In gp (iter_custom_options c [p0] [vp_primaries target]
                    K_custom_color_primaries_flag [K_color_primaries_index] None)
        /\ In gm (iter_custom_options c [m0] [vp_matrix target]
                    K_custom_color_matrix_flag [K_color_matrix_index] None)
        /\ In gt (iter_custom_options c [tf0] [vp_tf target]
                    K_custom_transfer_function_flag [K_transfer_function_index] None)).
Proof.
  intros c T base target cs H. unfold iter_color_spec_options in H.
  apply in_app_or in H. destruct H as [H|H].
  - left.
    match type of H with In _ (if ?b then _ else _) => destruct b eqn:E; [|destruct H] end.
    destruct H as [H|[]]. apply andb_true_iff in E. destruct E as [E1 E2].
    apply zlist_eqb_eq in E1. auto.
  - apply in_app_or in H. destruct H as [H|H].
    + right. left. apply in_flat_map in H. destruct H as [[i vals] [HIn H]]. cbn [fst snd] in H.
      match type of H with In _ (if ?b then _ else _) => destruct b eqn:E; [|destruct H] end.
      destruct H as [H|[]].
      apply andb_true_iff in E. destruct E as [E E4].
      apply andb_true_iff in E. destruct E as [E E3].
      apply andb_true_iff in E. destruct E as [E1 E2].
      apply zlist_eqb_eq in E2. subst vals. exists i. repeat split; auto.
      intros E0. subst i. discriminate.
    + right. right.
      destruct (assoc 0 (preset_color_specs T)) as [[|p0 [|m0 [|tf0 [|? ?]]]]|] eqn:EA;
        try (destruct H; fail).
      match type of H with In _ (if ?b then _ else _) => destruct b eqn:E; [|destruct H] end.
      apply andb_true_iff in E. destruct E as [E1 E2].
      apply in_take_somes in H. apply in_map_iff in H. destruct H as [row [Hrow HIn]].
      apply zip_longest_from in HIn. unfold from_orig in HIn.
      inversion HIn as [|? a ? r1 Ha H1]; subst. inversion H1 as [|? b ? r2 Hb H2]; subst.
      inversion H2 as [|? d ? r3 Hd H3]; subst. inversion H3; subst.
      destruct a as [gp|]; [|discriminate]. destruct b as [gm|]; [|discriminate].
      destruct d as [gt|]; [|discriminate]. inversion Hrow; subst.
      exists p0, m0, tf0, gp, gm, gt. repeat split; auto.
Qed.

Lemma l1_single : forall x, l1 [x] = Some x.
Proof. reflexivity. Qed.

Lemma iter_color_spec_decode : forall c T base target cs v,
  NoDup (map fst (preset_color_specs T)) ->
  In cs (iter_color_spec_options c T base target) ->
  vp_primaries v = vp_primaries base -> vp_matrix v = vp_matrix base -> vp_tf v = vp_tf base ->
  decode_color T cs v =
    Some (set_tf (vp_tf target) (set_matrix (vp_matrix target) (set_primaries (vp_primaries target) v))).
Proof.
  intros c T base target cs v ND H Hp Hm Ht.
  apply iter_color_spec_cases in H.
  destruct H as [[Hc [Heq _]]|[[i [Hc [Hi [HIn _]]]]|[p0 [m0 [tf0 [gp [gm [gt [Hc [HA [_ [_ [Hgp [Hgm Hgt]]]]]]]]]]]]]];
    subst cs; cbn [decode_color].
  - inversion Heq as [[E1 E2 E3]]. rewrite <- Hp, <- Hm, <- Ht. destruct v; reflexivity.
  - apply Z.eqb_neq in Hi. rewrite Hi. rewrite (assoc_in_nodup _ _ _ ND HIn). reflexivity.
  - rewrite HA.
    apply iter_custom_options_decode in Hgp; [|intros; discriminate].
    apply iter_custom_options_decode in Hgm; [|intros; discriminate].
    apply iter_custom_options_decode in Hgt; [|intros; discriminate].
    cbn [option_map] in Hgp, Hgm, Hgt. rewrite Hgp, Hgm, Hgt. reflexivity.
Qed.

Lemma iter_color_spec_coded : forall c T base target cs,
  In cs (iter_color_spec_options c T base target) -> admitted c (coded_color cs).
Proof.
  intros c T base target cs H. apply iter_color_spec_cases in H.
  destruct H as [[Hc [_ Hf]]|[[i [Hc [_ [_ [Hf Hi]]]]]|[p0 [m0 [tf0 [gp [gm [gt [Hc [_ [Hf [Hi [Hgp [Hgm Hgt]]]]]]]]]]]]]];
    subst cs; cbn [coded_color].
  - repeat constructor; assumption.
  - repeat constructor; assumption.
  - apply iter_custom_options_coded in Hgp. apply iter_custom_options_coded in Hgm.
    apply iter_custom_options_coded in Hgt. cbn [option_map] in Hgp, Hgm, Hgt.
    apply admitted_app; [repeat constructor; assumption|].
    apply admitted_app; [assumption|]. apply admitted_app; assumption.
Qed.

(* ---- source parameters ------------------------------------------------------------------------ *)
Definition tables_wf (T : tables) : Prop :=
  presets_wf (preset_frame_rates T) /\ presets_wf (preset_pars T)
  /\ presets_wf (preset_signal_ranges T) /\ NoDup (map fst (preset_color_specs T)).

Lemma in_map_IG : forall g l, In (IG g) (map IG l) -> In g l.
Proof.
  intros g l H. apply in_map_iff in H. destruct H as [x [E H]]. inversion E; subst. exact H.
Qed.
Lemma in_map_IC : forall g l, In (IC g) (map IC l) -> In g l.
Proof.
  intros g l H. apply in_map_iff in H. destruct H as [x [E H]]. inversion E; subst. exact H.
Qed.

Lemma iter_source_parameter_options_parts : forall c T base target sp,
  In sp (iter_source_parameter_options c T base target) ->
  vp_tff base = vp_tff target
  /\ In (sp_frame_size sp) (iter_custom_options c (t2 (vp_frame_size base)) (t2 (vp_frame_size target))
        K_custom_dimensions_flag [K_frame_width; K_frame_height] None)
  /\ In (sp_cdf sp) (iter_custom_options c (t1 (vp_cdf base)) (t1 (vp_cdf target))
        K_custom_color_diff_format_flag [K_color_diff_format_index] None)
  /\ In (sp_scan sp) (iter_custom_options c (t1 (vp_scan base)) (t1 (vp_scan target))
        K_custom_scan_format_flag [K_source_sampling] None)
  /\ In (sp_frame_rate sp) (iter_custom_options c (t2 (vp_frame_rate base)) (t2 (vp_frame_rate target))
        K_custom_frame_rate_flag [K_frame_rate_numer; K_frame_rate_denom]
        (Some (preset_frame_rates T, K_frame_rate_index)))
  /\ In (sp_par sp) (iter_custom_options c (t2 (vp_par base)) (t2 (vp_par target))
        K_custom_pixel_aspect_ratio_flag [K_pixel_aspect_ratio_numer; K_pixel_aspect_ratio_denom]
        (Some (preset_pars T, K_pixel_aspect_ratio_index)))
  /\ In (sp_clean sp) (iter_custom_options c (t4 (vp_clean base)) (t4 (vp_clean target))
        K_custom_clean_area_flag clean_keys None)
  /\ In (sp_signal sp) (iter_custom_options c (t4 (vp_signal base)) (t4 (vp_signal target))
        K_custom_signal_range_flag signal_keys
        (Some (preset_signal_ranges T, K_custom_signal_range_index)))
  /\ In (sp_color sp) (iter_color_spec_options c T base target).
Proof.
  intros c T base target sp H. unfold iter_source_parameter_options in H.
  destruct (vp_tff base =? vp_tff target) eqn:Et; cbn [negb] in H; [|destruct H].
  apply Z.eqb_eq in Et. split; [exact Et|].
  apply in_take_somes in H. apply in_map_iff in H. destruct H as [row [Hrow HIn]].
  apply zip_longest_from in HIn. unfold from_orig in HIn.
  inversion HIn as [|? a1 ? r1 Ha1 H1]; subst. inversion H1 as [|? a2 ? r2 Ha2 H2]; subst.
  inversion H2 as [|? a3 ? r3 Ha3 H3]; subst. inversion H3 as [|? a4 ? r4 Ha4 H4]; subst.
  inversion H4 as [|? a5 ? r5 Ha5 H5]; subst. inversion H5 as [|? a6 ? r6 Ha6 H6]; subst.
  inversion H6 as [|? a7 ? r7 Ha7 H7]; subst. inversion H7 as [|? a8 ? r8 Ha8 H8]; subst.
  inversion H8; subst.
  unfold row_to_src in Hrow.
  destruct a1 as [[g1|?]|]; try discriminate. destruct a2 as [[g2|?]|]; try discriminate.
  destruct a3 as [[g3|?]|]; try discriminate. destruct a4 as [[g4|?]|]; try discriminate.
  destruct a5 as [[g5|?]|]; try discriminate. destruct a6 as [[g6|?]|]; try discriminate.
  destruct a7 as [[g7|?]|]; try discriminate. destruct a8 as [[?|g8]|]; try discriminate.
  inversion Hrow; subst. cbn [sp_frame_size sp_cdf sp_scan sp_frame_rate sp_par sp_clean sp_signal sp_color].
  repeat split;
    first [ apply in_map_IG; auto | apply in_map_IC; auto ].
Qed.

Lemma l2_t2 : forall p, l2 (t2 p) = Some p. Proof. intros [a b]. reflexivity. Qed.
Lemma l4_t4 : forall p, l4 (t4 p) = Some p. Proof. intros [[[a b] c0] d]. reflexivity. Qed.

Ltac red_vp :=
  cbn [obind l1 t1 set_frame_size set_cdf set_scan set_frame_rate set_par set_clean set_signal
       vp_frame_size vp_cdf vp_scan vp_tff vp_frame_rate vp_par vp_clean vp_signal
       vp_primaries vp_matrix vp_tf].

Lemma iter_source_parameter_options_decode : forall c T bvf base target sp,
  tables_wf T ->
  set_source_defaults T bvf = Some base ->
  In sp (iter_source_parameter_options c T base target) ->
  decode_source_parameters T bvf sp = Some target.
Proof.
  intros c T bvf base target sp [Wfr [Wpar [Wsig Wcs]]] Hbase H.
  apply iter_source_parameter_options_parts in H.
  destruct H as [Htff [H1 [H2 [H3 [H4 [H5 [H6 [H7 H8]]]]]]]].
  apply iter_custom_options_decode in H1; [|intros; discriminate].
  apply iter_custom_options_decode in H2; [|intros; discriminate].
  apply iter_custom_options_decode in H3; [|intros; discriminate].
  apply iter_custom_options_decode in H4; [|intros ps ik E; inversion E; subst; exact Wfr].
  apply iter_custom_options_decode in H5; [|intros ps ik E; inversion E; subst; exact Wpar].
  apply iter_custom_options_decode in H6; [|intros; discriminate].
  apply iter_custom_options_decode in H7; [|intros ps ik E; inversion E; subst; exact Wsig].
  cbn [option_map fst] in *.
  destruct base as [bfs bcdf bscan btff bfr bpar bclean bsig bp bm bt].
  destruct target as [tfs tcdf tscan ttff tfr tpar tclean tsig tp tm tt].
  unfold decode_source_parameters. rewrite Hbase.
  cbn [vp_frame_size vp_cdf vp_scan vp_tff vp_frame_rate vp_par vp_clean vp_signal
       vp_primaries vp_matrix vp_tf t1] in *.
  red_vp. rewrite H1. red_vp. rewrite l2_t2. red_vp.
  rewrite H2. red_vp. rewrite H3. red_vp.
  rewrite H4. red_vp. rewrite l2_t2. red_vp.
  rewrite H5. red_vp. rewrite l2_t2. red_vp.
  rewrite H6. red_vp. rewrite l4_t4. red_vp.
  rewrite H7. red_vp. rewrite l4_t4. red_vp.
  erewrite iter_color_spec_decode; [|exact Wcs|exact H8|reflexivity|reflexivity|reflexivity].
  cbn. subst. reflexivity.
Qed.

Lemma coded_clean_admitted : forall c g,
  admitted c (coded_group K_custom_clean_area_flag None clean_keys g) -> admitted c (coded_clean g).
Proof.
  intros c g H. destruct g as [|i|vals]; cbn [coded_clean]; auto.
  destruct vals as [|cw [|ch [|topo [|lefto [|? ?]]]]]; auto.
  cbn [coded_group clean_keys combine app] in H. unfold admitted in *.
  inversion H as [|? ? Hf H1]; subst. inversion H1 as [|? ? Hcw H2]; subst.
  inversion H2 as [|? ? Hch H3]; subst. inversion H3 as [|? ? Htop H4]; subst.
  inversion H4 as [|? ? Hleft H5]; subst. repeat constructor; assumption.
Qed.

Lemma iter_source_parameter_options_coded : forall c T base target sp,
  In sp (iter_source_parameter_options c T base target) -> admitted c (coded_src sp).
Proof.
  intros c T base target sp H. apply iter_source_parameter_options_parts in H.
  destruct H as [_ [H1 [H2 [H3 [H4 [H5 [H6 [H7 H8]]]]]]]].
  apply iter_custom_options_coded in H1, H2, H3, H4, H5, H6, H7. cbn [option_map snd] in *.
  apply iter_color_spec_coded in H8. unfold coded_src.
  repeat (apply admitted_app; [assumption|]).
  apply admitted_app; [apply coded_clean_admitted; assumption|].
  apply admitted_app; assumption.
Qed.

(* ---- iter_sequence_headers ------------------------------------------------------------------------ *)
Lemma iter_sequence_headers_parts : forall T tbl cf cands h,
  In h (iter_sequence_headers T tbl cf cands) ->
  exists base c,
    set_source_defaults T (h_base h) = Some base
    /\ In c tbl
    /\ col_admits c ((K_base_video_format, h_base h) :: trivial_level_constraints cf) = true
    /\ In (h_src h) (iter_source_parameter_options c T base (cf_video cf))
    /\ h_profile h = cf_profile cf /\ h_level h = cf_level cf /\ h_pcm h = cf_pcm cf
    /\ In (h_base h) (rank_base_video_format_similarity T (cf_video cf) cands).
Proof.
  intros T tbl cf cands h H. unfold iter_sequence_headers in H.
  apply in_flat_map in H. destruct H as [bvf [Hb H]].
  destruct (set_source_defaults T bvf) as [base|] eqn:Eb; [|destruct H].
  apply in_flat_map in H. destruct H as [c [Hc H]].
  apply in_map_iff in H. destruct H as [sp [E Hsp]]. subst h. cbn [h_base h_src h_profile h_level h_pcm].
  unfold filter_table in Hc. apply filter_In in Hc. destruct Hc as [Hc1 Hc2].
  exists base, c. repeat split; auto.
Qed.

Theorem options_decode_to_target : forall T tbl cf cands h,
  tables_wf T ->
  In h (iter_sequence_headers T tbl cf cands) ->
  decode_header T h = Some (cf_video cf, cf_pcm cf).
Proof.
  intros T tbl cf cands h Wf H. apply iter_sequence_headers_parts in H.
  destruct H as [base [c [Hb [_ [_ [Hsp [_ [_ [Hpcm _]]]]]]]]].
  unfold decode_header. erewrite iter_source_parameter_options_decode; eauto.
  cbn [obind]. rewrite Hpcm. reflexivity.
Qed.

Lemma col_admits_forall : forall c l, col_admits c l = true -> admitted c l.
Proof.
  intros c l H. unfold col_admits in H. rewrite forallb_forall in H.
  apply Forall_forall. exact H.
Qed.

(* every (key, value) the decoder checks against the level while parsing the header is
   admitted by ONE column of the table, which also admits all the trivial constraints of the
   configuration (wavelet, slice counts, ... : cf_extra) *)
Theorem options_respect_column : forall T tbl cf cands h,
  In h (iter_sequence_headers T tbl cf cands) ->
  exists c, In c tbl
    /\ admitted c (trivial_level_constraints cf)
    /\ admitted c (coded_keys h).
Proof.
  intros T tbl cf cands h H. apply iter_sequence_headers_parts in H.
  destruct H as [base [c [_ [Hc [Hadm [Hsp [Hprof [Hlvl [Hpcm _]]]]]]]]].
  apply col_admits_forall in Hadm. inversion Hadm as [|? ? Hbvf Htriv]; subst.
  exists c. split; [exact Hc|]. split; [exact Htriv|].
  unfold coded_keys. rewrite Hprof, Hlvl, Hpcm.
  unfold trivial_level_constraints in Htriv.
  inversion Htriv as [|? ? Hl H1]; subst. inversion H1 as [|? ? Hp H2]; subst.
  inversion H2 as [|? ? Hm _]; subst.
  apply admitted_app; [repeat constructor; assumption|].
  apply admitted_app; [eapply iter_source_parameter_options_coded; eauto|].
  repeat constructor; assumption.
Qed.

(* the base video format of a generated header is one of the candidates with the wanted
   top_field_first *)
Lemma insert_by_in : forall k x l p, In p (insert_by k x l) -> p = (k, x) \/ In p l.
Proof.
  induction l as [|[k' y] l IH]; cbn [insert_by]; intros p H.
  - destruct H as [H|[]]; auto.
  - destruct (k <? k').
    + destruct H as [H|H]; auto.
    + destruct H as [H|H]; [right; left; exact H|].
      apply IH in H. destruct H; auto. right. right. assumption.
Qed.

Lemma stable_sort_by_in : forall l p, In p (stable_sort_by l) -> In p l.
Proof.
  intros l p. unfold stable_sort_by.
  assert (G : forall acc, In p (fold_left (fun acc q => insert_by (fst q) (snd q) acc) l acc) ->
                          In p acc \/ In p l).
  { induction l as [|q l IH]; cbn [fold_left]; intros acc H; auto.
    apply IH in H. destruct H as [H|H]; [|right; right; exact H].
    apply insert_by_in in H. destruct H as [H|H]; auto. right. left. destruct q. subst. reflexivity. }
  intros H. apply G in H. destruct H as [[]|H]. exact H.
Qed.

Lemma rank_in : forall T target cands i,
  In i (rank_base_video_format_similarity T target cands) ->
  In i cands /\ exists b, assoc i (base_formats T) = Some b /\ b_tff b = vp_tff target.
Proof.
  intros T target cands i H. unfold rank_base_video_format_similarity in H.
  apply in_map_iff in H. destruct H as [[k j] [E H]]. cbn [snd] in E. subst j.
  apply stable_sort_by_in in H. apply in_flat_map in H. destruct H as [j [Hj H]].
  destruct (assoc j (base_formats T)) as [b|] eqn:Eb; [|destruct H].
  destruct (set_source_defaults T j); [|destruct H].
  destruct (b_tff b =? vp_tff target) eqn:Et; [|destruct H].
  destruct H as [H|[]]. inversion H; subst. split; auto. exists b. split; auto.
  apply Z.eqb_eq. exact Et.
Qed.

Theorem header_base_is_candidate : forall T tbl cf cands h,
  In h (iter_sequence_headers T tbl cf cands) -> In (h_base h) cands.
Proof.
  intros T tbl cf cands h H. apply iter_sequence_headers_parts in H.
  destruct H as [base [c [_ [_ [_ [_ [_ [_ [_ Hr]]]]]]]]]. apply rank_in in Hr. tauto.
Qed.

Theorem make_sequence_header_in : forall T tbl cf cands h,
  make_sequence_header T tbl cf cands = Some h -> In h (iter_sequence_headers T tbl cf cands).
Proof.
  intros T tbl cf cands h H. unfold make_sequence_header in H.
  destruct (iter_sequence_headers T tbl cf cands) as [|h' r]; [discriminate|].
  inversion H; subst. left. reflexivity.
Qed.
