(* Integration C04 x C11 -- DEFINITIONS ONLY (no proofs; evaluated by tools/harness/C04.py).

   The adaptor between the wavelet model of C11 (Model/Wavelet.v: a component's transform is
   the record [coeffs] = DC band, [H of level 1..dh], [(HL,LH,HH) of level dh+1..dh+d]) and the
   slice model of C04 (Model/EncoderSlices.v: a component's transform is the list of
   [subband] = (level, quantisation matrix entry, array) in BITSTREAM order), and the concrete
   picture_encode / picture_decode built from it:

     picture_encode (picture_encoding.py) = remove_offset_picture ; dwt_pad_addition ; dwt
     picture_decode (picture_decoding.py) = idwt ; idwt_pad_removal ; clip_picture ; offset_picture

   What is bridged, explicitly:
   * order of subbands: transform_and_slice_picture iterates `sorted(state[t].items())` (levels
     ascending) and, within a level, orientations sorted by position in
     ["L","LL","H","HL","LH","HH"]: level 0 holds one band ("LL" if dwt_depth_ho = 0 else "L"),
     levels 1..dh one band "H", levels dh+1..dh+d the bands "HL","LH","HH" in that order.
   * orientations are the codes 0..5 = index in that list; the quantisation matrix
     state["quant_matrix"][level][orient] is a function [qm level orient_code] (a missing entry
     makes Python raise KeyError; the theorems assume an unsigned entry for every
     level/orientation PRESENT, see IntegChain.qmat_ok).
   * the picture's bit depths luma_depth / color_diff_depth are not fields of the generated
     [pystate] (Gen/StateRec.v carries only what the translated modules read), so they are
     separate arguments [ld], [cd].
   * [band] (EncoderSlices) and [arr] (Wavelet) are the same type, list (list Z). *)
From Coq Require Import ZArith List Bool.
From VC2 Require Import Base.PyZ Gen.StateRec Gen.VC2Math Gen.SliceSizes Model.Lifting Model.Wavelet Model.EncoderSlices.
Import ListNotations.
Open Scope Z_scope.

(* orientation codes: index in ["L"; "LL"; "H"; "HL"; "LH"; "HH"] *)
Definition o_L : Z := 0.
Definition o_LL : Z := 1.
Definition o_H : Z := 2.
Definition o_HL : Z := 3.
Definition o_LH : Z := 4.
Definition o_HH : Z := 5.

Definition dc_orient (dh : Z) : Z := if dh =? 0 then o_LL else o_L.   (* "LL" if dwt_depth_ho == 0 else "L" *)

(* levels l, l+1, ... each with its "H" band *)
Fixpoint ho_bands (qm : Z -> Z -> Z) (l : Z) (hs : list arr) : list subband :=
  match hs with
  | [] => []
  | H :: r => (l, qm l o_H, H) :: ho_bands qm (l + 1) r
  end.

(* levels l, l+1, ... each with its "HL", "LH", "HH" bands *)
Fixpoint vh_bands (qm : Z -> Z -> Z) (l : Z) (ts : list (arr * arr * arr)) : list subband :=
  match ts with
  | [] => []
  | (HL, LH, HH) :: r => (l, qm l o_HL, HL) :: (l, qm l o_LH, LH) :: (l, qm l o_HH, HH) :: vh_bands qm (l + 1) r
  end.

(* {level: {orient: array}} of dwt() in the order transform_and_slice_picture visits it *)
Definition bands_of (qm : Z -> Z -> Z) (dh : Z) (cf : coeffs) : list subband :=
  (0, qm 0 (dc_orient dh), c_dc cf) :: ho_bands qm 1 (c_ho cf) ++ vh_bands qm (dh + 1) (c_vh cf).

(* the decoder's arrays (in bitstream order, as decode_picture returns them) back into
   the {level: {orient: array}} structure idwt() reads *)
Fixpoint triples (l : list arr) : list (arr * arr * arr) :=
  match l with
  | a :: b :: c :: r => (a, b, c) :: triples r
  | _ => []
  end.

Definition coeffs_of (dh : Z) (bl : list band) : coeffs :=
  mk_coeffs (hd [] bl) (firstn (Z.to_nat dh) (tl bl)) (triples (skipn (Z.to_nat dh) (tl bl))).

(* 15.5 offset / clip; picture_encoding.remove_offset_component *)
Definition half_range (depth : Z) : Z := py_pow 2 (depth - 1).
Definition remove_offset (depth : Z) (a : arr) : arr := map (map (fun v => v - half_range depth)) a.
Definition add_offset (depth : Z) (a : arr) : arr := map (map (fun v => v + half_range depth)) a.
Definition clip_component (depth : Z) (a : arr) : arr :=
  map (map (fun v => clip v (- half_range depth) (half_range depth - 1))) a.

(* one component through picture_encode / picture_decode *)
Definition encode_component (fv fh : filter) (st : pystate) (qm : Z -> Z -> Z) (depth : Z) (c : pystr) (a : arr)
  : list subband :=
  bands_of qm (st_dwt_depth_ho st)
    (dwt fv fh (st_dwt_depth st) (st_dwt_depth_ho st) (dwt_pad_addition st c (remove_offset depth a))).

Definition decode_comp (fv fh : filter) (st : pystate) (depth : Z) (c : pystr) (bl : list band) : arr :=
  add_offset depth (clip_component depth
    (idwt_pad_removal st c (idwt fv fh (st_dwt_depth st) (st_dwt_depth_ho st) (coeffs_of (st_dwt_depth_ho st) bl)))).

(* a picture = its three component arrays (Y, C1, C2) *)
Definition picture : Type := (arr * arr * arr)%type.

Definition pic_encode (fv fh : filter) (st : pystate) (qm : Z -> Z -> Z) (ld cd : Z) (p : picture)
  : list subband * list subband * list subband :=
  (encode_component fv fh st qm ld Str_Y (fst (fst p)),
   encode_component fv fh st qm cd Str_C1 (snd (fst p)),
   encode_component fv fh st qm cd Str_C2 (snd p)).

Definition pic_decode (fv fh : filter) (st : pystate) (ld cd : Z) (b : list band * list band * list band) : picture :=
  (decode_comp fv fh st ld Str_Y (fst (fst b)),
   decode_comp fv fh st cd Str_C1 (snd (fst b)),
   decode_comp fv fh st cd Str_C2 (snd b)).
