(* Proofs/HeadersProofs.v -- totality of the header parsers of Model/Headers.v (C02 stage 2).

   Technique: a weakest-precondition calculus `wp fuel m Q s` for the state/error monad of the model:
   started in `s` with fewer unread bits than `fuel`, the program `m` ends in HOk (a, s') with Q a s' and
   no more unread bits than before, or in HReject / HEof -- never in HCrash or HOutOfFuel.  One rule per
   primitive, one lemma per Python function, composed with the bind rule.  The invariants carried
   between functions are: keys of `state` never disappear (`ext`), _level_constrained_values stays
   present once created, and dwt_depth / dwt_depth_ho are non-negative (`dnn`). *)
From Coq Require Import ZArith List Bool Lia.
From VC2 Require Import Base.PyZ Gen.StateRec Gen.VC2Math Gen.SliceSizes Gen.ParseCodes Gen.Version.
From VC2 Require Import Proofs.SliceSizesProofs.
From VC2 Require Import Model.Headers.
Import ListNotations.
Open Scope Z_scope.

(* ------------------------------------------------------------------ the reader *)
Lemma read_bit_ok r b r' : read_bit r = HOk (b, r') -> (S (length (r_bits r')) = length (r_bits r))%nat.
Proof.
  unfold read_bit. destruct (r_bits r) as [|x t] eqn:E; [discriminate|].
  intros H. inversion H; subst. reflexivity.
Qed.

Lemma read_bit_cases r :
  (exists b r', read_bit r = HOk (b, r')) \/ read_bit r = HEof.
Proof. unfold read_bit. destruct (r_bits r); [right; reflexivity | left; eauto]. Qed.

Lemma shl1_nonneg v b : 0 <= v -> 0 <= py_shl v 1 + b2z b.
Proof.
  intros H. unfold py_shl. assert (0 <= Z.shiftl v 1) by (apply Z.shiftl_nonneg; exact H).
  destruct b; cbn [b2z]; lia.
Qed.

Lemma read_nbits_loop_spec n : forall v r,
  match read_nbits_loop n v r with
  | HOk (v', r') => (length (r_bits r') <= length (r_bits r))%nat /\ (0 <= v -> 0 <= v')
  | HEof => True
  | _ => False
  end.
Proof.
  induction n as [|n IH]; intros v r; cbn [read_nbits_loop].
  - split; [lia | auto].
  - destruct (read_bit_cases r) as [(b & r1 & E) | E]; rewrite E; [|exact I].
    pose proof (read_bit_ok _ _ _ E) as L.
    specialize (IH (py_shl v 1 + b2z b) r1).
    destruct (read_nbits_loop n (py_shl v 1 + b2z b) r1) as [[v' r']| | | |]; try exact IH; try exact I.
    destruct IH as [IH1 IH2]. split; [lia|]. intros Hv. apply IH2. apply shl1_nonneg; exact Hv.
Qed.

Lemma read_uint_loop_spec fuel : forall v r, (length (r_bits r) < fuel)%nat -> 1 <= v ->
  match read_uint_loop fuel v r with
  | HOk (v', r') => (length (r_bits r') < length (r_bits r))%nat /\ 0 <= v'
  | HEof => True
  | _ => False
  end.
Proof.
  induction fuel as [|f IH]; intros v r Hl Hv; [lia|].
  cbn [read_uint_loop].
  destruct (read_bit_cases r) as [(b & r1 & E) | E]; rewrite E; [|exact I].
  pose proof (read_bit_ok _ _ _ E) as L.
  destruct b.
  - split; lia.
  - destruct (read_bit_cases r1) as [(b2 & r2 & E2) | E2]; rewrite E2; [|exact I].
    pose proof (read_bit_ok _ _ _ E2) as L2.
    assert (Hs : 1 <= py_shl v 1) by (unfold py_shl; rewrite Z.shiftl_mul_pow2 by lia; lia).
    specialize (IH (if b2 then py_shl v 1 + 1 else py_shl v 1) r2).
    destruct (read_uint_loop f (if b2 then py_shl v 1 + 1 else py_shl v 1) r2) as [[v' r']| | | |];
      try (apply IH; [lia | destruct b2; lia]).
    destruct IH as [IH1 IH2]; [lia | destruct b2; lia |]. split; lia.
Qed.

Lemma byte_align_len r : (length (r_bits (byte_align r)) <= length (r_bits r))%nat.
Proof.
  unfold byte_align. destruct (py_mod (r_pos r) 8 =? 0); [lia|].
  cbn [r_bits]. rewrite skipn_length. lia.
Qed.

(* ------------------------------------------------------------------ the calculus *)
Definition bitlen (s : St) : nat := length (r_bits (s_rd s)).

Definition wp {A} (fuel : nat) (m : M A) (Q : A -> St -> Prop) (s : St) : Prop :=
  (bitlen s < fuel)%nat ->
  match m s with
  | HOk (a, s') => (bitlen s' <= bitlen s)%nat /\ Q a s'
  | HReject _ | HEof => True
  | HCrash _ | HOutOfFuel => False
  end.

Lemma wp_ret {A} fuel (a : A) (Q : A -> St -> Prop) s : Q a s -> wp fuel (ret a) Q s.
Proof. intros H _. cbn. split; [lia | exact H]. Qed.

Lemma wp_bind {A B} fuel (m : M A) (k : A -> M B) (Q : B -> St -> Prop) s :
  wp fuel m (fun a s' => wp fuel (k a) Q s') s -> wp fuel (bind m k) Q s.
Proof.
  unfold wp, bind. intros H Hl. specialize (H Hl).
  destruct (m s) as [[a s']| | | |]; try exact H.
  destruct H as [L H]. assert (Hl' : (bitlen s' < fuel)%nat) by lia. specialize (H Hl').
  destruct (k a s') as [[b s'']| | | |]; try exact H.
  destruct H as [L2 H]. split; [lia | exact H].
Qed.

Lemma wp_conseq {A} fuel (m : M A) (Q Q' : A -> St -> Prop) s :
  wp fuel m Q s -> (forall a s', Q a s' -> Q' a s') -> wp fuel m Q' s.
Proof.
  unfold wp. intros H HQ Hl. specialize (H Hl).
  destruct (m s) as [[a s']| | | |]; try exact H. destruct H as [L H]. split; [exact L | apply HQ; exact H].
Qed.

Lemma wp_raise {A} fuel e (Q : A -> St -> Prop) s : wp fuel (raise e) Q s.
Proof. intros _. exact I. Qed.

Lemma wp_raise_if fuel c e (Q : _ -> St -> Prop) s : (c = false -> Q tt s) -> wp fuel (raise_if c e) Q s.
Proof. intros H. unfold raise_if. destruct c; [apply wp_raise | apply wp_ret; apply H; reflexivity]. Qed.

Lemma wp_ok {A} fuel (m : M A) (Q : A -> St -> Prop) s a s' :
  m s = HOk (a, s') -> (bitlen s' <= bitlen s)%nat -> Q a s' -> wp fuel m Q s.
Proof. intros E L H _. rewrite E. split; assumption. Qed.

Definition present (k : Z) (s : St) : Prop := s_st s k <> None.

Lemma wp_get_state fuel k (Q : _ -> St -> Prop) s :
  present k s -> (forall v, s_st s k = Some v -> Q v s) -> wp fuel (get_state k) Q s.
Proof.
  unfold present, wp, get_state. intros Hp H _. destruct (s_st s k) as [v|] eqn:E; [|congruence].
  split; [lia | apply H; reflexivity].
Qed.

Lemma isSome_present s k : isSome (s_st s k) = true -> present k s.
Proof. unfold present. destruct (s_st s k); [discriminate | discriminate]. Qed.

Lemma wp_has_state fuel k (Q : _ -> St -> Prop) s : Q (isSome (s_st s k)) s -> wp fuel (has_state k) Q s.
Proof. intros H _. cbn. split; [lia | exact H]. Qed.

Lemma wp_get_state_default fuel k d (Q : _ -> St -> Prop) s :
  Q (match s_st s k with Some v => v | None => d end) s -> wp fuel (get_state_default k d) Q s.
Proof. intros H _. cbn. split; [lia | exact H]. Qed.

Lemma wp_set_state fuel k v (Q : _ -> St -> Prop) s :
  Q tt (st_upd s k v) -> wp fuel (set_state k v) Q s.
Proof. intros H _. cbn. split; [unfold bitlen; cbn; lia | exact H]. Qed.

Lemma wp_get_vp fuel k (Q : _ -> St -> Prop) s : Q (s_vp s k) s -> wp fuel (get_vp k) Q s.
Proof. intros H _. cbn. split; [lia | exact H]. Qed.

Lemma wp_set_vpk fuel k v (Q : _ -> St -> Prop) s : Q tt (vp_upd s k v) -> wp fuel (set_vpk k v) Q s.
Proof. intros H _. cbn. split; [unfold bitlen; cbn; lia | exact H]. Qed.

Lemma wp_read_bool fuel (Q : _ -> St -> Prop) s :
  (forall b r', (length (r_bits r') < bitlen s)%nat -> Q b (set_rd s r')) -> wp fuel m_read_bool Q s.
Proof.
  intros H _. unfold m_read_bool, lift_rd.
  destruct (read_bit_cases (s_rd s)) as [(b & r' & E) | E]; rewrite E; [|exact I].
  pose proof (read_bit_ok _ _ _ E) as L. unfold bitlen in *. cbn. split; [lia | apply H; lia].
Qed.

Lemma wp_read_uint fuel (Q : _ -> St -> Prop) s :
  (forall v r', 0 <= v -> (length (r_bits r') < bitlen s)%nat -> Q v (set_rd s r')) ->
  wp fuel (m_read_uint fuel) Q s.
Proof.
  intros H Hl. unfold m_read_uint, lift_rd, read_uint.
  assert (H1 : 1 <= 1) by lia. pose proof (read_uint_loop_spec fuel 1 (s_rd s) Hl H1) as R.
  destruct (read_uint_loop fuel 1 (s_rd s)) as [[v r']| | | |]; try exact R; try exact I.
  destruct R as [R1 R2]. unfold bitlen in *. cbn. split; [lia | apply H; [exact R2 | exact R1]].
Qed.

Lemma wp_read_uint_lit fuel n (Q : _ -> St -> Prop) s :
  (forall v r', 0 <= v -> (length (r_bits r') <= bitlen s)%nat -> Q v (set_rd s r')) ->
  wp fuel (m_read_uint_lit n) Q s.
Proof.
  intros H _. unfold m_read_uint_lit, lift_rd, read_uint_lit, read_nbits.
  pose proof (read_nbits_loop_spec (Z.to_nat (8 * n)) 0 (s_rd s)) as R.
  destruct (read_nbits_loop (Z.to_nat (8 * n)) 0 (s_rd s)) as [[v r']| | | |]; try exact R; try exact I.
  destruct R as [R1 R2]. unfold bitlen in *. cbn. split; [lia | apply H; [apply R2; lia | exact R1]].
Qed.

Lemma wp_byte_align fuel (Q : _ -> St -> Prop) s : Q tt (set_rd s (byte_align (s_rd s))) -> wp fuel m_byte_align Q s.
Proof.
  intros H _. unfold m_byte_align. split; [|exact H]. unfold bitlen. cbn. apply byte_align_len.
Qed.

Lemma wp_tell_byte fuel (Q : _ -> St -> Prop) s : Q (tell_byte (s_rd s)) s -> wp fuel m_tell_byte Q s.
Proof. intros H _. cbn. split; [lia | exact H]. Qed.

Lemma wp_pos fuel (Q : _ -> St -> Prop) s : Q (r_pos (s_rd s)) s -> wp fuel m_pos Q s.
Proof. intros H _. cbn. split; [lia | exact H]. Qed.

Lemma wp_subscript {A} fuel (d : list (Z * A)) k (Q : A -> St -> Prop) s x :
  lookup d k = Some x -> Q x s -> wp fuel (subscript d k) Q s.
Proof. intros E H _. unfold subscript. rewrite E. split; [lia | exact H]. Qed.

Lemma wp_checked_mod fuel a b (Q : _ -> St -> Prop) s : b <> 0 -> Q (py_mod a b) s -> wp fuel (checked_mod a b) Q s.
Proof.
  intros Hb H. unfold checked_mod. destruct (Z.eqb_spec b 0); [contradiction|]. apply wp_ret; exact H.
Qed.

Lemma wp_checked_div fuel a b (Q : _ -> St -> Prop) s : b <> 0 -> Q (py_div a b) s -> wp fuel (checked_div a b) Q s.
Proof.
  intros Hb H. unfold checked_div. destruct (Z.eqb_spec b 0); [contradiction|]. apply wp_ret; exact H.
Qed.

Lemma wp_pystate fuel (Q : _ -> St -> Prop) s : Q (pystate_of (s_st s)) s -> wp fuel m_pystate Q s.
Proof. intros H _. cbn. split; [lia | exact H]. Qed.
Lemma wp_get_rd fuel (Q : _ -> St -> Prop) s : Q (s_rd s) s -> wp fuel m_get_rd Q s.
Proof. intros H _. cbn. split; [lia | exact H]. Qed.
Lemma wp_get_lcv fuel (Q : _ -> St -> Prop) s :
  s_lcv s <> None -> (forall h, s_lcv s = Some h -> Q h s) -> wp fuel get_lcv Q s.
Proof.
  intros Hp H _. unfold get_lcv. destruct (s_lcv s) as [h|] eqn:E; [|congruence]. split; [lia | apply H; reflexivity].
Qed.
Lemma wp_set_quant_matrix fuel q (Q : _ -> St -> Prop) s : Q tt (set_qm s (Some q)) -> wp fuel (set_quant_matrix q) Q s.
Proof. intros H _. cbn. split; [unfold bitlen; cbn; lia | exact H]. Qed.
Lemma wp_qm_store fuel l o v (Q : _ -> St -> Prop) s :
  (forall q, Q tt (set_qm s (Some q))) -> wp fuel (qm_store l o v) Q s.
Proof. intros H _. unfold qm_store. split; [unfold bitlen; cbn; lia | apply H]. Qed.

(* ------------------------------------------------------------------ invariants *)
(* keys never disappear; _level_constrained_values stays once created *)
Definition ext (s s' : St) : Prop :=
  (forall k, present k s -> present k s') /\ (s_lcv s <> None -> s_lcv s' <> None).

Lemma ext_refl s : ext s s.
Proof. split; auto. Qed.
Lemma ext_trans a b c : ext a b -> ext b c -> ext a c.
Proof. intros [H1 H2] [H3 H4]. split; auto. Qed.
Lemma ext_set_rd s s' r : ext s s' -> ext s (set_rd s' r).
Proof. intros H. exact H. Qed.
Lemma ext_set_vp s s' v : ext s s' -> ext s (set_vp s' v).
Proof. intros H. exact H. Qed.
Lemma ext_set_qm s s' q : ext s s' -> ext s (set_qm s' q).
Proof. intros H. exact H. Qed.
Lemma ext_set_hdr s s' h : ext s s' -> ext s (set_hdr s' h).
Proof. intros H. exact H. Qed.
Lemma ext_set_lcv s s' h : ext s s' -> ext s (set_lcv s' (Some h)).
Proof. intros [H1 H2]. split; [exact H1 | intros _; cbn; discriminate]. Qed.
Lemma ext_vp_upd s s' k v : ext s s' -> ext s (vp_upd s' k v).
Proof. intros H. exact H. Qed.
Lemma ext_upd s s' k v : ext s s' -> ext s (st_upd s' k v).
Proof.
  intros [H1 H2]. unfold st_upd. split; [|exact H2]. intros k' Hp. specialize (H1 k' Hp).
  unfold present in *. cbn. unfold upd. destruct (k' =? k); [discriminate | exact H1].
Qed.
Lemma present_upd_same s k v : present k (st_upd s k v).
Proof. unfold present, st_upd. cbn. unfold upd. rewrite Z.eqb_refl. discriminate. Qed.
Lemma present_ext s s' k : ext s s' -> present k s -> present k s'.
Proof. intros [H _]. apply H. Qed.
Lemma lcv_ext s s' : ext s s' -> s_lcv s <> None -> s_lcv s' <> None.
Proof. intros [_ H]. exact H. Qed.

Lemma upd_eq d k v : upd d k v k = v.
Proof. unfold upd. rewrite Z.eqb_refl. reflexivity. Qed.
Lemma upd_neq d k v k' : k' <> k -> upd d k v k' = d k'.
Proof. intros H. unfold upd. destruct (Z.eqb_spec k' k); [contradiction | reflexivity]. Qed.

(* dwt_depth and dwt_depth_ho, when present, are non-negative *)
Definition dnn (s : St) : Prop :=
  (forall v, s_st s S_dwt_depth = Some v -> 0 <= v) /\ (forall v, s_st s S_dwt_depth_ho = Some v -> 0 <= v).
Lemma s_st_upd s k v : s_st (st_upd s k v) = upd (s_st s) k (Some v).
Proof. reflexivity. Qed.
Lemma dnn_upd_other s k v : k <> S_dwt_depth -> k <> S_dwt_depth_ho -> dnn s ->
  dnn (st_upd s k v).
Proof.
  intros N1 N2 [H1 H2]. unfold st_upd. split; intros w; cbn; rewrite upd_neq by congruence; auto.
Qed.
Lemma dnn_upd_nonneg s k v : 0 <= v -> dnn s -> dnn (st_upd s k v).
Proof.
  intros Hv [H1 H2]. unfold st_upd. split; intros w; cbn; unfold upd;
    match goal with |- context [?a =? ?b] => destruct (a =? b) end; auto; intros E; inversion E; subst; exact Hv.
Qed.

Lemma s_lcv_upd s k v : s_lcv (st_upd s k v) = s_lcv s.
Proof. reflexivity. Qed.
Ltac simp_st := cbn [s_st s_lcv s_qm s_hdr s_vp s_rd set_st set_lcv set_qm set_hdr set_vp set_rd] in *.

(* evaluate  s_st <chain of updates> K  for literal keys *)
Ltac st_eval :=
  repeat (cbn [s_st s_lcv s_qm s_hdr s_vp s_rd set_st set_lcv set_qm set_hdr set_vp set_rd];
          rewrite ?s_st_upd; first [rewrite upd_eq | rewrite upd_neq by discriminate]);
  cbn [s_st s_lcv s_qm s_hdr s_vp s_rd set_st set_lcv set_qm set_hdr set_vp set_rd].

Ltac simp_st_in H := cbn [s_st s_lcv s_qm s_hdr s_vp s_rd set_st set_lcv set_qm set_hdr set_vp set_rd] in H.
Ltac simp_st_goal := cbn [s_st s_lcv s_qm s_hdr s_vp s_rd set_st set_lcv set_qm set_hdr set_vp set_rd].
Ltac st_eval_in H :=
  repeat (simp_st_in H; rewrite ?s_st_upd in H; first [rewrite upd_eq in H | rewrite upd_neq in H by discriminate]);
  simp_st_in H.

(* a proof of `ext s <some chain of updates of s'>`, through `ext` hypotheses of the context *)
Ltac solve_ext :=
  first
    [ assumption
    | apply ext_refl
    | match goal with
      | |- ext _ (set_rd _ _) => apply ext_set_rd; solve_ext
      | |- ext _ (set_vp _ _) => apply ext_set_vp; solve_ext
      | |- ext _ (set_qm _ _) => apply ext_set_qm; solve_ext
      | |- ext _ (set_hdr _ _) => apply ext_set_hdr; solve_ext
      | |- ext _ (set_lcv _ (Some _)) => apply ext_set_lcv; solve_ext
      | |- ext _ (st_upd _ _ _) => apply ext_upd; solve_ext
      | |- ext _ (vp_upd _ _ _) => apply ext_vp_upd; solve_ext
      | H : ext ?a ?s' |- ext ?s ?s' => apply (ext_trans s a s'); [solve_ext | exact H]
      end ].

Ltac solve_present :=
  first
    [ assumption
    | match goal with
      | |- present ?k (st_upd ?s ?k _) => apply present_upd_same
      | |- present ?k (st_upd ?s _ _) =>
          apply (present_ext s); [apply ext_upd; apply ext_refl | solve_present]
      | |- present ?k (vp_upd ?s _ _) => change (present k s); solve_present
      | |- present ?k (set_rd ?s _) => change (present k s); solve_present
      | |- present ?k (set_vp ?s _) => change (present k s); solve_present
      | |- present ?k (set_qm ?s _) => change (present k s); solve_present
      | |- present ?k (set_hdr ?s _) => change (present k s); solve_present
      | |- present ?k (set_lcv ?s _) => change (present k s); solve_present
      | H : ext ?s0 ?s |- present ?k ?s => apply (present_ext s0 s k H); solve_present
      | H : isSome (s_st ?X ?k) = true |- present ?k ?X => exact (isSome_present X k H)
      end ].

Ltac solve_dnn :=
  first
    [ assumption
    | match goal with
      | |- dnn (set_rd ?s _) => change (dnn s); solve_dnn
      | |- dnn (set_vp ?s _) => change (dnn s); solve_dnn
      | |- dnn (set_qm ?s _) => change (dnn s); solve_dnn
      | |- dnn (set_hdr ?s _) => change (dnn s); solve_dnn
      | |- dnn (set_lcv ?s _) => change (dnn s); solve_dnn
      | |- dnn (vp_upd ?s _ _) => change (dnn s); solve_dnn
      | |- dnn (st_upd ?s _ _) =>
          first [ apply dnn_upd_other; [discriminate | discriminate | solve_dnn]
                | apply dnn_upd_nonneg; [lia | solve_dnn] ]
      end ].

Section Proofs.
  Variable T : tables.
  Variable lvl : hist -> Z -> Z -> bool.
  Variable fuel : nat.
  Implicit Types Q : unit -> St -> Prop.

  Notation alc := (assert_level_constraint lvl).

  Lemma wp_alc k v (Q : _ -> St -> Prop) s : (forall h, Q tt (set_lcv s (Some h))) -> wp fuel (alc k v) Q s.
  Proof.
    intros H _. unfold assert_level_constraint.
    destruct (lvl _ k v); [|exact I]. split; [unfold bitlen; cbn; lia | apply H].
  Qed.

  Lemma wp_assert_in_enum v enum e (Q : _ -> St -> Prop) s :
    (zmem v enum = true -> Q tt s) -> wp fuel (assert_in_enum v enum e) Q s.
  Proof.
    intros H. unfold assert_in_enum. apply wp_raise_if. intros E. apply H.
    destruct (zmem v enum); [reflexivity | discriminate].
  Qed.

  Ltac wp_step_base :=
    lazymatch goal with
    | |- wp _ (bind _ _) _ _ => apply wp_bind
    | |- wp _ (ret _) _ _ => apply wp_ret
    | |- wp _ m_read_bool _ _ => apply wp_read_bool; intros ? ? ?
    | |- wp _ (m_read_uint _) _ _ => apply wp_read_uint; intros ? ? ? ?
    | |- wp _ (m_read_uint_lit _) _ _ => apply wp_read_uint_lit; intros ? ? ? ?
    | |- wp _ m_byte_align _ _ => apply wp_byte_align
    | |- wp _ m_tell_byte _ _ => apply wp_tell_byte
    | |- wp _ m_pos _ _ => apply wp_pos
    | |- wp _ m_pystate _ _ => apply wp_pystate
    | |- wp _ m_get_rd _ _ => apply wp_get_rd
    | |- wp _ (set_quant_matrix _) _ _ => apply wp_set_quant_matrix
    | |- wp _ (qm_store _ _ _) _ _ => apply wp_qm_store; intros ?
    | |- wp _ get_lcv _ _ =>
        apply wp_get_lcv; [first [assumption | simp_st; discriminate | eapply lcv_ext; eassumption] | intros ? ?]
    | |- wp _ (set_vpk _ _) _ _ => apply wp_set_vpk
    | |- wp _ (set_state _ _) _ _ => apply wp_set_state
    | |- wp _ (get_vp _) _ _ => apply wp_get_vp
    | |- wp _ (has_state _) _ _ => apply wp_has_state
    | |- wp _ (get_state_default _ _) _ _ => apply wp_get_state_default
    | |- wp _ (get_state _) _ _ => apply wp_get_state; [solve_present | intros ? ?]
    | |- wp _ (assert_level_constraint _ _ _) _ _ => apply wp_alc; intros ?
    | |- wp _ (raise_if _ _) _ _ => apply wp_raise_if; intros ?
    | |- wp _ (raise _) _ _ => apply wp_raise
    | |- wp _ (assert_in_enum _ _ _) _ _ => apply wp_assert_in_enum; intros ?
    | |- wp _ (let '(_, _) := ?p in _) _ _ => destruct p
    end.
  Ltac wp_step :=
    first
      [ wp_step_base
      | lazymatch goal with
        | |- wp _ (if negb false then _ else _) _ _ => cbn [negb]; cbv iota
        | |- wp _ (if negb true then _ else _) _ _ => cbn [negb]; cbv iota
        | |- wp _ (if ?c then _ else _) _ _ => destruct c eqn:?
        end ].
  (* a block that leaves the state unchanged: prove it separately, continue once *)
  Ltac wp_same_state :=
    match goal with |- wp _ _ _ ?X => apply (wp_conseq _ _ (fun _ s' => s' = X)) end.
  Ltac wp_steps := repeat wp_step.

  (* ---------------------------------------------------------------- assertions.py *)
  Lemma wp_log_version_lower_bound v (Q : _ -> St -> Prop) s :
    (forall s', ext s s' -> (dnn s -> dnn s') -> Q tt s') -> wp fuel (log_version_lower_bound v) Q s.
  Proof.
    intros HQ. unfold log_version_lower_bound. wp_steps. apply HQ; [solve_ext | intros; solve_dnn].
  Qed.

  Lemma wp_version_check minimum e (Q : _ -> St -> Prop) s :
    present S_major_version s ->
    (forall s', ext s s' -> (dnn s -> dnn s') -> Q tt s') -> wp fuel (version_check minimum e) Q s.
  Proof.
    intros HP HQ. unfold version_check. wp_steps. apply wp_log_version_lower_bound. exact HQ.
  Qed.

  Lemma wp_apn (Q : _ -> St -> Prop) s :
    present S_picture_number s -> present S_picture_coding_mode s -> present S_num_pictures_in_sequence s ->
    (forall s', ext s s' -> (dnn s -> dnn s') -> Q tt s') ->
    wp fuel (assert_picture_number_incremented_as_expected T) Q s.
  Proof.
    intros P1 P2 P3 HQ. unfold assert_picture_number_incremented_as_expected.
    apply wp_bind. wp_step. apply wp_bind.
    apply (wp_conseq _ _ (fun _ s' => s' = s)).
    - destruct (isSome (s_st s S_last_picture_number)) eqn:E.
      + pose proof (isSome_present _ _ E). wp_steps. reflexivity.
      + wp_steps. reflexivity.
    - intros _ s' ->. wp_steps; (apply HQ; [solve_ext | intros; solve_dnn]).
  Qed.

  (* ---------------------------------------------------------------- tables_ok *)
  Hypothesis HT : tables_ok T = true.

  Lemma zmem_In v l : zmem v l = true -> In v l.
  Proof.
    unfold zmem. rewrite existsb_exists. intros (x & Hx & E). apply Z.eqb_eq in E. subst. exact Hx.
  Qed.

  Ltac split_HT :=
    let H := fresh "H" in
    pose proof HT as H; unfold tables_ok in H;
    repeat (apply andb_true_iff in H; let H2 := fresh "H" in destruct H as [H H2]).

  Lemma tk_base v : zmem v (t_BaseVideoFormats T) = true ->
    exists b, lookup (t_BASE_VIDEO_FORMAT_PARAMETERS T) v = Some b /\ base_ok T b = true.
  Proof.
    intros E. apply zmem_In in E. split_HT.
    rewrite forallb_forall in H. specialize (H v E).
    destruct (lookup (t_BASE_VIDEO_FORMAT_PARAMETERS T) v) as [b|]; [eauto | discriminate].
  Qed.
  Lemma isSome_ex {A} (o : option A) : isSome o = true -> exists x, o = Some x.
  Proof. destruct o; [eauto | discriminate]. Qed.
  Lemma tk_frame_rate v : zmem v (t_PresetFrameRates T) = true -> exists x, lookup (t_PRESET_FRAME_RATES T) v = Some x.
  Proof. intros E. apply zmem_In in E. split_HT. rewrite forallb_forall in H5. apply isSome_ex, H5, E. Qed.
  Lemma tk_par v : zmem v (t_PresetPixelAspectRatios T) = true -> exists x, lookup (t_PRESET_PIXEL_ASPECT_RATIOS T) v = Some x.
  Proof. intros E. apply zmem_In in E. split_HT. rewrite forallb_forall in H4. apply isSome_ex, H4, E. Qed.
  Lemma tk_signal_range v : zmem v (t_PresetSignalRanges T) = true -> exists x, lookup (t_PRESET_SIGNAL_RANGES T) v = Some x.
  Proof. intros E. apply zmem_In in E. split_HT. rewrite forallb_forall in H3. apply isSome_ex, H3, E. Qed.
  Lemma tk_color_spec v : zmem v (t_PresetColorSpecs T) = true -> exists x, lookup (t_PRESET_COLOR_SPECS T) v = Some x.
  Proof. intros E. apply zmem_In in E. split_HT. rewrite forallb_forall in H2. apply isSome_ex, H2, E. Qed.
  Lemma tk_profile v : zmem v (t_Profiles T) = true -> exists x, lookup (t_PROFILES T) v = Some x.
  Proof. intros E. apply zmem_In in E. split_HT. rewrite forallb_forall in H1. apply isSome_ex, H1, E. Qed.
  Lemma tk_level v : zmem v (t_Levels T) = true -> lookup (t_LEVEL_SEQUENCE_RESTRICTIONS T) v = Some true.
  Proof.
    intros E. apply zmem_In in E. split_HT. rewrite forallb_forall in H0. specialize (H0 v E).
    destruct (lookup (t_LEVEL_SEQUENCE_RESTRICTIONS T) v) as [[|]|]; [reflexivity | discriminate | discriminate].
  Qed.

  (* ---------------------------------------------------------------- sequence header *)
  Definition IA (s : St) : Prop := present S_major_version s.
  Ltac finish HQ := apply HQ; [solve_ext | unfold IA in *; solve_present].

  Lemma wp_parse_parameters Q s :
    (forall s', ext s s' -> IA s' -> Q tt s') -> wp fuel (parse_parameters T lvl fuel) Q s.
  Proof.
    intros HQ. unfold parse_parameters. wp_steps.
    apply wp_version_check; [solve_present|]. intros s1 E1 _. wp_steps.
    - finish HQ.
    - match goal with H : zmem _ (t_Levels T) = true |- _ => pose proof (tk_level _ H) as EL end.
      apply (wp_subscript _ _ _ _ _ true EL). wp_steps. finish HQ.
  Qed.

  Lemma wp_set_source_defaults v Q s :
    zmem v (t_BaseVideoFormats T) = true ->
    (forall vp, Q tt (set_vp s vp)) -> wp fuel (set_source_defaults T v) Q s.
  Proof.
    intros E HQ. destruct (tk_base v E) as (b & Eb & Hb).
    unfold base_ok in Hb. repeat (apply andb_true_iff in Hb; let H2 := fresh "Hb" in destruct Hb as [Hb H2]).
    apply isSome_ex in Hb, Hb0, Hb1, Hb2.
    destruct Hb as (fr & Efr), Hb2 as (par & Epar), Hb1 as (sr & Esr), Hb0 as (cs & Ecs).
    unfold set_source_defaults.
    apply wp_bind. apply (wp_subscript _ _ _ _ _ b Eb).
    apply wp_bind. apply (wp_subscript _ _ _ _ _ fr Efr).
    apply wp_bind. apply (wp_subscript _ _ _ _ _ par Epar).
    apply wp_bind. apply (wp_subscript _ _ _ _ _ sr Esr).
    apply wp_bind. apply (wp_subscript _ _ _ _ _ cs Ecs).
    destruct sr as [[[lo le] co] ce]. destruct cs as [[cp cm] tf].
    intros _. split; [unfold bitlen; cbn; lia | apply HQ].
  Qed.

  Lemma wp_frame_size Q s :
    IA s -> (forall s', ext s s' -> IA s' -> Q tt s') -> wp fuel (frame_size lvl fuel) Q s.
  Proof. intros HI HQ. unfold frame_size. wp_steps; finish HQ. Qed.

  Lemma wp_color_diff_sampling_format Q s :
    IA s -> (forall s', ext s s' -> IA s' -> Q tt s') -> wp fuel (color_diff_sampling_format T lvl fuel) Q s.
  Proof. intros HI HQ. unfold color_diff_sampling_format. wp_steps; finish HQ. Qed.

  Lemma wp_scan_format Q s :
    IA s -> (forall s', ext s s' -> IA s' -> Q tt s') -> wp fuel (scan_format T lvl fuel) Q s.
  Proof. intros HI HQ. unfold scan_format. wp_steps; finish HQ. Qed.

  Ltac use_version_check :=
    apply wp_version_check; [unfold IA in *; solve_present | intros ? ? _].

  Lemma wp_frame_rate Q s :
    IA s -> (forall s', ext s s' -> IA s' -> Q tt s') -> wp fuel (frame_rate T lvl fuel) Q s.
  Proof.
    intros HI HQ. unfold frame_rate. wp_steps; try (finish HQ).
    use_version_check.
    match goal with H : zmem _ (t_PresetFrameRates T) = true |- _ => destruct (tk_frame_rate _ H) as (p & Ep) end.
    apply wp_bind. apply (wp_subscript _ _ _ _ _ p Ep). wp_steps. finish HQ.
  Qed.

  Lemma wp_pixel_aspect_ratio Q s :
    IA s -> (forall s', ext s s' -> IA s' -> Q tt s') -> wp fuel (pixel_aspect_ratio T lvl fuel) Q s.
  Proof.
    intros HI HQ. unfold pixel_aspect_ratio. wp_steps; try (finish HQ).
    match goal with H : zmem _ (t_PresetPixelAspectRatios T) = true |- _ => destruct (tk_par _ H) as (p & Ep) end.
    apply (wp_subscript _ _ _ _ _ p Ep). wp_steps. finish HQ.
  Qed.

  Lemma wp_clean_area Q s :
    IA s -> (forall s', ext s s' -> IA s' -> Q tt s') -> wp fuel (clean_area lvl fuel) Q s.
  Proof.
    intros HI HQ. unfold clean_area. do 4 wp_step.
    apply wp_bind. apply (wp_conseq _ _ (fun _ s' => ext s s' /\ IA s')).
    - wp_steps; (split; [solve_ext | unfold IA in *; solve_present]).
    - intros _ s1 [E1 I1]. wp_steps. apply HQ; assumption.
  Qed.

  Lemma wp_signal_range Q s :
    IA s -> (forall s', ext s s' -> IA s' -> Q tt s') -> wp fuel (signal_range T lvl fuel) Q s.
  Proof.
    intros HI HQ. unfold signal_range. wp_steps; try (finish HQ).
    use_version_check.
    match goal with H : zmem _ (t_PresetSignalRanges T) = true |- _ => destruct (tk_signal_range _ H) as (p & Ep) end.
    apply wp_bind. apply (wp_subscript _ _ _ _ _ p Ep). wp_steps. finish HQ.
  Qed.

  Lemma wp_color_primaries Q s :
    IA s -> (forall s', ext s s' -> IA s' -> Q tt s') -> wp fuel (color_primaries T lvl fuel) Q s.
  Proof.
    intros HI HQ. unfold color_primaries. wp_steps; try (finish HQ).
    use_version_check. wp_steps. finish HQ.
  Qed.

  Lemma wp_color_matrix Q s :
    IA s -> (forall s', ext s s' -> IA s' -> Q tt s') -> wp fuel (color_matrix T lvl fuel) Q s.
  Proof.
    intros HI HQ. unfold color_matrix. wp_steps; try (finish HQ).
    use_version_check. wp_steps. finish HQ.
  Qed.

  Lemma wp_transfer_function Q s :
    IA s -> (forall s', ext s s' -> IA s' -> Q tt s') -> wp fuel (transfer_function T lvl fuel) Q s.
  Proof.
    intros HI HQ. unfold transfer_function. wp_steps; try (finish HQ).
    use_version_check. wp_steps. finish HQ.
  Qed.

  Lemma wp_color_spec Q s :
    IA s -> (forall s', ext s s' -> IA s' -> Q tt s') -> wp fuel (color_spec T lvl fuel) Q s.
  Proof.
    intros HI HQ. unfold color_spec. wp_steps; try (finish HQ).
    match goal with H : zmem _ (t_PresetColorSpecs T) = true |- _ => destruct (tk_color_spec _ H) as (p & Ep) end.
    apply (wp_subscript _ _ _ _ _ p Ep). wp_steps.
    - apply wp_color_primaries; [unfold IA in *; solve_present|]. intros s1 E1 I1.
      apply wp_bind. apply wp_color_matrix; [exact I1|]. intros s2 E2 I2.
      apply wp_transfer_function; [exact I2|]. intros s3 E3 I3.
      apply HQ; [solve_ext | exact I3].
    - use_version_check. finish HQ.
  Qed.

  Lemma wp_source_parameters v Q s :
    zmem v (t_BaseVideoFormats T) = true -> IA s ->
    (forall s', ext s s' -> IA s' -> Q tt s') -> wp fuel (source_parameters T lvl fuel v) Q s.
  Proof.
    intros E HI HQ. unfold source_parameters.
    apply wp_bind. apply wp_set_source_defaults; [exact E|]. intros vp.
    apply wp_bind. apply wp_frame_size; [exact HI|]. intros s1 E1 I1.
    apply wp_bind. apply wp_color_diff_sampling_format; [exact I1|]. intros s2 E2 I2.
    apply wp_bind. apply wp_scan_format; [exact I2|]. intros s3 E3 I3.
    apply wp_bind. apply wp_frame_rate; [exact I3|]. intros s4 E4 I4.
    apply wp_bind. apply wp_pixel_aspect_ratio; [exact I4|]. intros s5 E5 I5.
    apply wp_bind. apply wp_clean_area; [exact I5|]. intros s6 E6 I6.
    apply wp_bind. apply wp_signal_range; [exact I6|]. intros s7 E7 I7.
    apply wp_color_spec; [exact I7|]. intros s8 E8 I8.
    apply HQ; [|exact I8].
    change (ext s (set_vp s vp)) in E1 || idtac.
    eapply ext_trans; [|exact E8]. eapply ext_trans; [|exact E7]. eapply ext_trans; [|exact E6].
    eapply ext_trans; [|exact E5]. eapply ext_trans; [|exact E4]. eapply ext_trans; [|exact E3].
    eapply ext_trans; [|exact E2]. exact E1.
  Qed.

  Definition dims_present (s : St) : Prop :=
    present S_luma_width s /\ present S_luma_height s /\ present S_color_diff_width s /\ present S_color_diff_height s.

  Lemma wp_picture_dimensions Q s :
    present S_picture_coding_mode s ->
    (forall s', ext s s' -> dims_present s' -> Q tt s') -> wp fuel (picture_dimensions T) Q s.
  Proof.
    intros HP HQ. unfold picture_dimensions. wp_steps.
    apply HQ; [solve_ext | unfold dims_present; repeat split; solve_present].
  Qed.

  Lemma wp_video_depth Q s :
    (forall s', ext s s' -> Q tt s') -> wp fuel video_depth Q s.
  Proof. intros HQ. unfold video_depth. wp_steps. apply HQ. solve_ext. Qed.

  Lemma wp_finish_recording r0 Q s :
    (forall b, Q tt (set_hdr s (Some b))) -> wp fuel (finish_recording r0) Q s.
  Proof.
    intros HQ _. unfold finish_recording.
    destruct (s_hdr s) as [last|].
    - destruct (bits_eqb _ last); [|exact I]. split; [unfold bitlen; cbn; lia | apply HQ].
    - split; [unfold bitlen; cbn; lia | apply HQ].
  Qed.

  (* what a successfully parsed sequence header leaves in `state` *)
  Definition after_seq_hdr (s : St) : Prop :=
    present S_major_version s /\ present S_picture_coding_mode s /\ dims_present s.

  Lemma wp_sequence_header Q s :
    py_mod (r_pos (s_rd s)) 8 = 0 ->
    (forall s', ext s s' -> after_seq_hdr s' -> Q tt s') -> wp fuel (sequence_header T lvl fuel) Q s.
  Proof.
    intros HA HQ. unfold sequence_header, m_set_coding_parameters.
    wp_step. wp_step. wp_step. rewrite HA. change (0 =? 0) with true. cbv iota. wp_step.
    wp_step. wp_step.
    wp_step. apply wp_parse_parameters. intros s1 E1 I1.
    wp_steps.
    apply wp_source_parameters; [assumption | unfold IA in *; solve_present |]. intros s2 E2 I2.
    wp_steps.
    apply wp_picture_dimensions; [solve_present|]. intros s3 E3 (D1 & D2 & D3 & D4).
    apply wp_video_depth. intros s4 E4.
    wp_steps.
    repeat (apply wp_checked_mod; [apply Z.eqb_neq; assumption|]; wp_steps).
    apply wp_finish_recording. intros b. apply HQ; [solve_ext|].
    unfold after_seq_hdr, dims_present. repeat split; solve_present.
  Qed.

  (* ---------------------------------------------------------------- picture / fragment *)
  Definition IB (s : St) : Prop :=
    present S_major_version s /\ dims_present s /\ present S_parse_code s.
  Definition IB2 (s : St) : Prop :=
    IB s /\ present S_wavelet_index s /\ present S_dwt_depth s /\ present S_wavelet_index_ho s /\
    present S_dwt_depth_ho s /\ dnn s /\ s_lcv s <> None.

  Lemma IB_ext s s' : IB s -> ext s s' -> IB s'.
  Proof.
    unfold IB, dims_present. intros (A & (B & C & D & E) & F) X.
    repeat split; eapply present_ext; eassumption.
  Qed.
  Lemma IB2_ext s s' : IB2 s -> ext s s' -> dnn s' -> IB2 s'.
  Proof.
    unfold IB2. intros (A & B & C & D & E & F & G) X Y.
    repeat split; try (eapply present_ext; eassumption); try exact Y;
      try (eapply IB_ext; eassumption); try (apply Y); try (eapply lcv_ext; eassumption).
  Qed.

  Ltac ib2 H := let A := fresh in let B := fresh in let C := fresh in let D := fresh in let E := fresh in
                let F := fresh in let G := fresh in
                destruct H as (A & B & C & D & E & F & G);
                let A1 := fresh in let A2 := fresh in let A3 := fresh in
                destruct A as (A1 & A2 & A3);
                let D1 := fresh in let D2 := fresh in let D3 := fresh in let D4 := fresh in
                destruct A2 as (D1 & D2 & D3 & D4).

  Lemma wp_extended_transform_parameters Q s :
    IB2 s -> (forall s', ext s s' -> dnn s' -> Q tt s') ->
    wp fuel (extended_transform_parameters T lvl fuel) Q s.
  Proof.
    intros HI HQ. ib2 HI. unfold extended_transform_parameters. wp_steps;
      (apply wp_log_version_lower_bound; intros s1 E1 D1; apply HQ; [solve_ext | apply D1; solve_dnn]).
  Qed.

  Lemma pystate_of_fields d :
    let g k := match d k with Some v => v | None => 0 end in
    st_dwt_depth (pystate_of d) = g S_dwt_depth /\ st_dwt_depth_ho (pystate_of d) = g S_dwt_depth_ho /\
    st_slices_x (pystate_of d) = g S_slices_x /\ st_slices_y (pystate_of d) = g S_slices_y.
  Proof. cbv zeta. repeat split; reflexivity. Qed.

  Lemma shsd_dom_ok ps :
    0 <= st_dwt_depth ps -> 0 <= st_dwt_depth_ho ps -> st_slices_x ps <> 0 -> st_slices_y ps <> 0 ->
    slices_have_same_dimensions_dom ps = true.
  Proof.
    intros Hd Hdh Hx Hy. unfold slices_have_same_dimensions_dom.
    rewrite !subband_width_dom_ok, !subband_height_dom_ok by (unfold depth_sum; lia).
    apply Z.eqb_neq in Hx, Hy. rewrite Hx, Hy. cbn [negb andb].
    repeat match goal with |- context [if ?b then _ else _] => destruct b end; reflexivity.
  Qed.

  Lemma shsd_dict d sx sy dd dh :
    d S_dwt_depth = Some dd -> 0 <= dd -> d S_dwt_depth_ho = Some dh -> 0 <= dh ->
    d S_slices_x = Some sx -> sx <> 0 -> d S_slices_y = Some sy -> sy <> 0 ->
    slices_have_same_dimensions_dom (pystate_of d) = true.
  Proof.
    intros E1 H1 E2 H2 E3 H3 E4 H4. destruct (pystate_of_fields d) as (F1 & F2 & F3 & F4).
    rewrite E1 in F1. rewrite E2 in F2. rewrite E3 in F3. rewrite E4 in F4.
    apply shsd_dom_ok; congruence.
  Qed.

  Definition slices_present (s : St) : Prop := present S_slices_x s /\ present S_slices_y s.

  Lemma wp_slice_parameters Q s :
    IB2 s -> (forall s', ext s s' -> dnn s' -> slices_present s' -> Q tt s') ->
    wp fuel (slice_parameters lvl fuel) Q s.
  Proof.
    intros HI HQ. ib2 HI. unfold slice_parameters. wp_steps.
    all: try (apply HQ; [solve_ext | solve_dnn | unfold slices_present; split; solve_present]).
    exfalso.
    match goal with
    | Hd : s_st ?X S_dwt_depth = Some ?dd, Hh : s_st ?X S_dwt_depth_ho = Some ?dh,
      Hz : (?sx =? 0) || (?sy =? 0) = false,
      Hc : slices_have_same_dimensions_dom (pystate_of (s_st ?X)) = false |- _ =>
        assert (HD : dnn X) by solve_dnn;
        apply orb_false_iff in Hz; destruct Hz as [Hz1 Hz2]; apply Z.eqb_neq in Hz1, Hz2;
        rewrite (shsd_dict (s_st X) sx sy dd dh Hd (proj1 HD _ Hd) Hh (proj2 HD _ Hh)) in Hc;
          [discriminate | | exact Hz1 | | exact Hz2]
    end.
    - simp_st. rewrite s_st_upd. rewrite upd_neq by discriminate. simp_st. rewrite s_st_upd, upd_eq. reflexivity.
    - simp_st. rewrite s_st_upd, upd_eq. reflexivity.
  Qed.

  (* ---- quant_matrix ---- *)
  Lemma wp_qm_entry level orient Q s :
    s_lcv s <> None -> dnn s ->
    (forall s', ext s s' -> dnn s' -> (bitlen s' < bitlen s)%nat -> Q tt s') ->
    wp fuel (qm_entry lvl fuel level orient) Q s.
  Proof.
    intros HL HD HQ. unfold qm_entry. wp_steps.
    apply HQ; [solve_ext | solve_dnn | unfold bitlen in *; simp_st; assumption].
  Qed.

  Lemma wp_qm_loop_h n : forall level hi Q s,
    (bitlen s < n)%nat -> s_lcv s <> None -> dnn s ->
    (forall s', ext s s' -> dnn s' -> Q tt s') ->
    wp fuel (qm_loop_h lvl n fuel level hi) Q s.
  Proof.
    induction n as [|n IH]; intros level hi Q s Hn HL HD HQ; [lia|].
    cbn [qm_loop_h]. destruct (level <? hi).
    - apply wp_bind. apply wp_qm_entry; [exact HL | exact HD|]. intros s1 E1 D1 L1.
      apply IH; [lia | eapply lcv_ext; eassumption | exact D1 |].
      intros s2 E2 D2. apply HQ; [eapply ext_trans; eassumption | exact D2].
    - apply wp_ret. apply HQ; [apply ext_refl | exact HD].
  Qed.

  Lemma wp_qm_loop_2d n : forall level hi Q s,
    (bitlen s < n)%nat -> s_lcv s <> None -> dnn s ->
    (forall s', ext s s' -> dnn s' -> Q tt s') ->
    wp fuel (qm_loop_2d lvl n fuel level hi) Q s.
  Proof.
    induction n as [|n IH]; intros level hi Q s Hn HL HD HQ; [lia|].
    cbn [qm_loop_2d]. destruct (level <? hi).
    - apply wp_bind. apply wp_qm_entry; [exact HL | exact HD|]. intros s1 E1 D1 L1.
      apply wp_bind. apply wp_qm_entry; [eapply lcv_ext; eassumption | exact D1|]. intros s2 E2 D2 L2.
      apply wp_bind. apply wp_qm_entry; [eapply lcv_ext; [exact E2|]; eapply lcv_ext; eassumption | exact D2|].
      intros s3 E3 D3 L3.
      assert (E13 : ext s s3) by (eapply ext_trans; [exact E1|]; eapply ext_trans; eassumption).
      apply IH; [lia | eapply lcv_ext; eassumption | exact D3 |].
      intros s4 E4 D4. apply HQ; [eapply ext_trans; eassumption | exact D4].
    - apply wp_ret. apply HQ; [apply ext_refl | exact HD].
  Qed.

  Lemma wp_qm_loop_h' level hi Q s :
    s_lcv s <> None -> dnn s -> (forall s', ext s s' -> dnn s' -> Q tt s') ->
    wp fuel (qm_loop_h lvl fuel fuel level hi) Q s.
  Proof. intros HL HD HQ Hl. apply wp_qm_loop_h; assumption. Qed.
  Lemma wp_qm_loop_2d' level hi Q s :
    s_lcv s <> None -> dnn s -> (forall s', ext s s' -> dnn s' -> Q tt s') ->
    wp fuel (qm_loop_2d lvl fuel fuel level hi) Q s.
  Proof. intros HL HD HQ Hl. apply wp_qm_loop_2d; assumption. Qed.

  Lemma wp_quant_matrix Q s :
    IB2 s -> (forall s', ext s s' -> dnn s' -> Q tt s') -> wp fuel (quant_matrix T lvl fuel) Q s.
  Proof.
    intros HI HQ. ib2 HI. unfold quant_matrix. do 5 wp_step.
    - (* custom *)
      do 6 wp_step.
      apply wp_bind.
      apply (wp_conseq _ _ (fun _ s' => ext s s' /\ dnn s')).
      + wp_step.
        * apply wp_qm_entry; [simp_st; discriminate | solve_dnn |]. intros s1 E1 D1 L1.
          split; [solve_ext | exact D1].
        * apply wp_bind. apply wp_qm_entry; [simp_st; discriminate | solve_dnn |]. intros s1 E1 D1 L1.
          apply wp_qm_loop_h'; [eapply lcv_ext; [exact E1|]; simp_st; discriminate | exact D1|].
          intros s2 E2 D2. split; [solve_ext | exact D2].
      + intros _ s1 (E1 & D1). wp_steps.
        apply wp_qm_loop_2d'; [eapply lcv_ext; eassumption | exact D1|].
        intros s2 E2 D2. apply HQ; [eapply ext_trans; eassumption | exact D2].
    - (* default *)
      wp_steps.
      destruct (lookup_cfg (t_QUANTISATION_MATRICES T) (v, v0, v1, v2)); wp_steps.
      apply HQ; [solve_ext | solve_dnn].
  Qed.

  Lemma wp_transform_parameters Q s :
    IB s -> (forall s', ext s s' -> slices_present s' -> Q tt s') ->
    wp fuel (transform_parameters T lvl fuel) Q s.
  Proof.
    intros HI HQ. pose proof HI as HI0. destruct HI as (A1 & (D1 & D2 & D3 & D4) & A3).
    unfold transform_parameters. do 20 wp_step.
    match goal with |- wp _ _ _ ?X => assert (HD : dnn X); [|assert (HX : IB2 X); [|assert (EX : ext s X) by solve_ext]] end.
    { split; intros w; st_eval; intros E; inversion E; subst; lia. }
    { unfold IB2. split; [eapply IB_ext; [exact HI0 | solve_ext]|].
      split; [solve_present|]. split; [solve_present|]. split; [solve_present|]. split; [solve_present|].
      split; [exact HD|]. rewrite !s_lcv_upd. simp_st. discriminate. }
    wp_step.
    match goal with |- wp _ _ _ ?X => apply (wp_conseq _ _ (fun _ s' => ext X s' /\ dnn s')) end.
    - wp_step.
      + apply wp_extended_transform_parameters; [exact HX|]. intros s1 E1 DD1. split; assumption.
      + wp_step. split; [apply ext_refl | exact HD].
    - intros _ s1 (E1 & DD1). wp_step.
      apply wp_slice_parameters; [eapply IB2_ext; eassumption|]. intros s2 E2 DD2 SP.
      assert (E12 : ext s s2) by (eapply ext_trans; [exact EX|]; eapply ext_trans; eassumption).
      apply wp_quant_matrix.
      { eapply IB2_ext; [exact HX | eapply ext_trans; eassumption | exact DD2]. }
      intros s3 E3 DD3. apply HQ; [eapply ext_trans; eassumption|].
      destruct SP as [SP1 SP2]. split; eapply present_ext; eassumption.
  Qed.

  Lemma wp_picture_header Q s :
    present S_picture_coding_mode s -> present S_num_pictures_in_sequence s ->
    (forall s', ext s s' -> Q tt s') -> wp fuel (picture_header T) Q s.
  Proof.
    intros P1 P2 HQ. unfold picture_header. wp_steps.
    apply wp_apn; [solve_present | solve_present | solve_present |]. intros s1 E1 _. apply HQ. solve_ext.
  Qed.

  (* the context of a picture / fragment data unit: a sequence header has been parsed in this sequence
     (after_seq_hdr), parse_sequence has initialised its counters and parse_info has stored the parse code *)
  Definition PIC (s : St) : Prop :=
    IB s /\ present S_picture_coding_mode s /\ present S_num_pictures_in_sequence s.

  Lemma wp_picture_parse_header Q s :
    PIC s -> (forall s', ext s s' -> slices_present s' -> Q tt s') ->
    wp fuel (picture_parse_header T lvl fuel) Q s.
  Proof.
    intros (HI & P1 & P2) HQ. unfold picture_parse_header. wp_steps.
    apply wp_picture_header; [solve_present | solve_present |]. intros s1 E1. wp_steps.
    apply wp_transform_parameters; [eapply IB_ext; [exact HI | solve_ext]|]. intros s2 E2 SP. wp_steps.
    apply HQ; [solve_ext|]. destruct SP as [SP1 SP2]. split; solve_present.
  Qed.

  (* a fragmented picture in progress (slices remaining) has its counters, and a non-zero slices_x *)
  Definition frag_inv (s : St) : Prop :=
    forall rem, s_st s S_fragment_slices_remaining = Some rem -> rem <> 0 ->
      present S_fragment_slices_received s /\ present S_picture_initial_fragment_offset s /\
      exists sx, s_st s S_slices_x = Some sx /\ sx <> 0.
  Definition FRAG (s : St) : Prop :=
    PIC s /\ present S_fragment_slices_remaining s /\ frag_inv s.

  Lemma wp_fragment_header Q s :
    FRAG s -> (forall s', ext s s' -> present S_fragment_slice_count s' -> Q tt s') ->
    wp fuel (fragment_header T) Q s.
  Proof.
    intros ((HI & P1 & P2) & P3 & FI) HQ. unfold fragment_header. do 15 wp_step.
    destruct (v1 =? 0) eqn:EC.
    - (* fragment_slice_count == 0 *)
      do 2 wp_step.
      match goal with H : s_st _ S_fragment_slices_remaining = Some ?r |- _ =>
        st_eval_in H; pose proof (FI r H) as FR end.
      do 2 wp_step.
      + destruct FR as (F1 & F2 & sx & F3 & F4).
        { match goal with H : negb (?r =? 0) = true |- _ => destruct (Z.eqb_spec r 0); [discriminate H | assumption] end. }
        wp_steps.
      + wp_step. wp_step.
        apply wp_apn; [solve_present | solve_present | solve_present |]. intros s1 E1 _. wp_steps.
        apply HQ; [solve_ext | solve_present].
    - (* a fragment carrying slices *)
      do 3 wp_step.
      apply (wp_conseq _ _ (fun _ s' => s' =
         (st_upd (set_rd (st_upd (set_rd (st_upd (set_rd s r') S_picture_number v) r'0) S_fragment_data_length v0) r'1)
                 S_fragment_slice_count v1))).
      { wp_step.
        - match goal with H : isSome _ = true |- _ => pose proof (isSome_present _ _ H) end. wp_steps. reflexivity.
        - wp_steps. reflexivity. }
      intros _ s1 ->. do 3 wp_step.
      match goal with H : s_st _ S_fragment_slices_remaining = Some ?r |- _ =>
        st_eval_in H; pose proof (FI r H) as FR end.
      wp_step.
      destruct FR as (F1 & F2 & sx & F3 & F4).
      { match goal with H : (v1 >? ?r) = false |- _ => apply Z.gtb_ltb in H || idtac end.
        apply Z.eqb_neq in EC.
        match goal with H : (v1 >? ?r) = false |- _ => destruct (Z.gtb_spec v1 r); [discriminate H | lia] end. }
      assert (PX : present S_slices_x s) by (unfold present; rewrite F3; discriminate).
      wp_steps.
      match goal with H : s_st ?X S_slices_x = Some ?x |- wp _ _ _ ?X => st_eval_in H; rewrite F3 in H; inversion H; subst end.
      apply wp_checked_mod; [assumption|]. wp_step. apply wp_checked_div; [assumption|]. wp_steps.
      all: apply HQ; [solve_ext | solve_present].
  Qed.

  Lemma wp_fragment_parse_header Q s :
    FRAG s -> (forall s', ext s s' -> Q tt s') -> wp fuel (fragment_parse_header T lvl fuel) Q s.
  Proof.
    intros HF HQ. pose proof HF as ((HI & P1 & P2) & P3 & FI). unfold fragment_parse_header.
    wp_step. apply wp_fragment_header; [exact HF|]. intros s1 E1 PC. wp_steps.
    - apply wp_transform_parameters; [eapply IB_ext; eassumption|]. intros s2 E2 (SP1 & SP2). wp_steps.
      apply HQ. solve_ext.
    - apply HQ. solve_ext.
  Qed.

  (* ---------------------------------------------------------------- parse_info *)
  Variable generic_accepts : Z -> bool.
  Variable level_accepts : Z -> bool.

  (* the state at a parse_info inside parse_sequence *)
  Definition PINFO (s : St) : Prop :=
    present S_generic_sequence_matcher s /\
    (present S_level_sequence_matcher s -> present S_level s) /\
    (forall v, s_st s S_next_parse_offset = Some v -> v <> 0 -> present S_last_parse_info_offset s) /\
    (forall p, s_st s S_profile = Some p -> zmem p (t_Profiles T) = true).

  Lemma wp_parse_info Q s :
    PINFO s -> (forall s', ext s s' -> present S_parse_code s' -> Q tt s') ->
    wp fuel (parse_info T generic_accepts level_accepts) Q s.
  Proof.
    intros (G1 & G2 & G3 & G4) HQ. unfold parse_info. do 11 wp_step.
    simp_st_goal.
    match goal with |- wp _ _ _ ?X => apply (wp_conseq _ _ (fun _ s' => s' = X)) end.
    { destruct (s_st s S_next_parse_offset) as [npo|] eqn:EN.
      - destruct (Z.eqb_spec npo 0) as [E0|NZ]; cbn [negb]; cbv iota.
        + wp_steps. reflexivity.
        + pose proof (G3 npo eq_refl NZ) as PL. unfold present in PL.
          destruct (s_st s S_last_parse_info_offset) eqn:EL; [|congruence]. cbn [isSome]. wp_steps; reflexivity.
      - change (0 =? 0) with true. cbn [negb]. cbv iota. wp_steps. reflexivity. }
    intros _ s1 ->. repeat wp_step_base.
    (* the level matcher *)
    wp_same_state.
    { wp_step.
      - match goal with H : isSome _ = true |- _ => pose proof H as HM; st_eval_in HM; apply isSome_present in HM; apply G2 in HM end.
        wp_steps. reflexivity.
      - wp_steps. reflexivity. }
    intros _ s1 ->. repeat wp_step_base.
    (* the profile's parse codes *)
    wp_same_state.
    { wp_step.
      - wp_steps.
        match goal with H : s_st _ S_profile = Some ?p |- _ => st_eval_in H; destruct (tk_profile p (G4 p H)) as (al & Eal) end.
        apply (wp_subscript _ _ _ _ _ al Eal). wp_steps. reflexivity.
      - wp_steps. reflexivity. }
    intros _ s1 ->. repeat wp_step_base.
    apply wp_log_version_lower_bound. intros s1 E1 _. repeat wp_step_base.
    wp_same_state.
    { wp_steps; reflexivity. }
    intros _ s2 ->. repeat wp_step_base.
    wp_same_state.
    { wp_steps; reflexivity. }
    intros _ s2 ->. wp_steps.
    apply HQ; [solve_ext | solve_present].
  Qed.
End Proofs.





(* ------------------------------------------------------------------ totality *)
(* a verdict: the parser returned, rejected with a conformance error, or hit the end of the stream *)
Definition verdict {A} (r : hres A) : Prop :=
  (exists a, r = HOk a) \/ (exists e, r = HReject e) \/ r = HEof.

Lemma verdict_iff {A} (r : hres A) : verdict r <-> (forall c, r <> HCrash c) /\ r <> HOutOfFuel.
Proof.
  unfold verdict. split.
  - intros [(a & ->) | [(e & ->) | ->]]; split; intros; discriminate.
  - intros [H1 H2]. destruct r as [a|e| |c|]; eauto. + exfalso. exact (H1 c eq_refl). + exfalso. exact (H2 eq_refl).
Qed.

Lemma wp_verdict {A} fuel (m : M A) (Q : A -> St -> Prop) s :
  wp fuel m Q s -> (bitlen s < fuel)%nat ->
  verdict (m s) /\ (forall a s', m s = HOk (a, s') -> Q a s' /\ (bitlen s' <= bitlen s)%nat).
Proof.
  unfold wp, verdict. intros H Hl. specialize (H Hl). destruct (m s) as [[a s']|e| |c|].
  - split; [left; eauto|]. intros a0 s0 E. inversion E; subst. destruct H. split; assumption.
  - split; [right; left; eauto | discriminate].
  - split; [right; right; reflexivity | discriminate].
  - contradiction.
  - contradiction.
Qed.

Theorem sequence_header_total T lvl fuel s :
  tables_ok T = true -> (length (r_bits (s_rd s)) < fuel)%nat -> py_mod (r_pos (s_rd s)) 8 = 0 ->
  verdict (sequence_header T lvl fuel s) /\
  (forall s', sequence_header T lvl fuel s = HOk (tt, s') -> ext s s' /\ after_seq_hdr s').
Proof.
  intros HT Hl HA.
  destruct (wp_verdict fuel (sequence_header T lvl fuel) (fun _ s' => ext s s' /\ after_seq_hdr s') s) as [V P].
  - apply wp_sequence_header; [exact HT | exact HA|]. intros s' E A. split; assumption.
  - exact Hl.
  - split; [exact V|]. intros s' E. apply (P tt s' E).
Qed.

Theorem picture_parse_header_total T lvl fuel s :
  PIC s -> (length (r_bits (s_rd s)) < fuel)%nat ->
  verdict (picture_parse_header T lvl fuel s) /\
  (forall s', picture_parse_header T lvl fuel s = HOk (tt, s') -> ext s s' /\ slices_present s').
Proof.
  intros HP Hl.
  destruct (wp_verdict fuel (picture_parse_header T lvl fuel) (fun _ s' => ext s s' /\ slices_present s') s) as [V P].
  - apply wp_picture_parse_header; [exact HP|]. intros s' E A. split; assumption.
  - exact Hl.
  - split; [exact V|]. intros s' E. apply (P tt s' E).
Qed.

Theorem fragment_parse_header_total T lvl fuel s :
  FRAG s -> (length (r_bits (s_rd s)) < fuel)%nat ->
  verdict (fragment_parse_header T lvl fuel s) /\
  (forall s', fragment_parse_header T lvl fuel s = HOk (tt, s') -> ext s s').
Proof.
  intros HP Hl.
  destruct (wp_verdict fuel (fragment_parse_header T lvl fuel) (fun _ s' => ext s s') s) as [V P].
  - apply wp_fragment_parse_header; [exact HP|]. intros s' E. exact E.
  - exact Hl.
  - split; [exact V|]. intros s' E. apply (P tt s' E).
Qed.

Theorem parse_info_total T ga la fuel s :
  tables_ok T = true -> PINFO T s -> (length (r_bits (s_rd s)) < fuel)%nat ->
  verdict (parse_info T ga la s) /\
  (forall s', parse_info T ga la s = HOk (tt, s') -> ext s s' /\ present S_parse_code s').
Proof.
  intros HT HP Hl.
  destruct (wp_verdict fuel (parse_info T ga la) (fun _ s' => ext s s' /\ present S_parse_code s') s) as [V P].
  - apply wp_parse_info; [exact HT | exact HP|]. intros s' E A. split; assumption.
  - exact Hl.
  - split; [exact V|]. intros s' E. apply (P tt s' E).
Qed.

(* the context of a picture data unit is what a sequence header + parse_sequence + parse_info leave *)
Lemma PIC_intro s :
  after_seq_hdr s -> present S_num_pictures_in_sequence s -> present S_parse_code s -> PIC s.
Proof.
  intros (A & B & C) D E. unfold PIC, IB. repeat split; try assumption; apply C.
Qed.
Lemma PIC_ext s s' : PIC s -> ext s s' -> PIC s'.
Proof.
  intros (A & B & C) E. split; [eapply IB_ext; eassumption|]. split; eapply present_ext; eassumption.
Qed.

(* `tables_ok` cannot be dropped: with a base video format in the enum but not in
   BASE_VIDEO_FORMAT_PARAMETERS the model (as the code would) fails with KeyError *)
Definition toy_tables (with_base : bool) : tables :=
  mkTables [0] [0; 1] [0; 3] [0] [0; 1; 2] [0; 1] [1] [1] [1] [0] [0] [0] [0] [0; 1] [0; 16; 232]
    (if with_base then [(0, mkBase 4 2 0 0 0 1 1 4 2 0 0 1 0)] else [])
    [(1, (24, 1))] [(1, (1, 1))] [(1, (0, 255, 128, 255))] [(0, (0, 0, 0))]
    [(0, [0; 16]); (3, [0; 16; 232])] [(0, true)] [((0, 0, 0, 0), [((0, 0), 0)])]
    1 2 1 16 1111638852 13.

Lemma tables_ok_needed :
  tables_ok (toy_tables false) = false /\
  exists bits, sequence_header (toy_tables false) (fun _ _ _ => true) (fuel_for bits)
                 (init_S [] None None bits 0) = HCrash X_KeyError.
Proof.
  split; [reflexivity|].
  (* major 1, minor 0, profile 0, level 0, base video format 0 *)
  exists (bits_of_bytes [62; 0]). vm_compute. reflexivity.
Qed.

Lemma toy_header_parses :
  tables_ok (toy_tables true) = true /\
  exists s', sequence_header (toy_tables true) (fun _ _ _ => true) (fuel_for (bits_of_bytes [62; 1]))
               (init_S [] None None (bits_of_bytes [62; 1]) 0) = HOk (tt, s') /\
             s_st s' S_luma_width = Some 4 /\ s_st s' S_luma_height = Some 2 /\
             s_st s' S_luma_depth = Some 8 /\ r_pos (s_rd s') = 16.
Proof. split; [reflexivity|]. eexists. vm_compute. repeat split; reflexivity. Qed.
