(* Integration C04 x C11: the C04 chain with the CONCRETE wavelet transform of C11.

   Composition (nothing here re-proves what C04 / C11 / C13 own):
     C11  round_trip_exact (Props/C11.v C11_roundtrip), dwt_shapes (C11_dwt_shapes)
     C04  decode_component_gathered (gather/scatter, DC prediction), lossless_slice_roundtrip,
          hq_lossy_q0_roundtrip, ld_q0_roundtrip, encoder_slice_cc_ok ... (Proofs/EncoderSlicesProofs.v)
   New here: the adaptor lemmas (bands_of / coeffs_of are inverse; the subband list of the
   concrete transform satisfies pic_wf = "shapes are the slice geometry's"; offset/clip are
   inverse on in-range samples).

   Why the chain is re-derived POINTWISE (chain_core_at) rather than by instantiating the
   Section hypothesis of EncoderSlicesProofs.Chain: that hypothesis is
       forall p : Pic, idwt (bands (dwt p)) = p
   over ALL inhabitants of Pic, while the concrete round trip holds only for pictures of the
   configured shape with in-range samples (a ragged or out-of-range picture is not
   reconstructed: padding / clipping lose information).  chain_core's proof uses the hypothesis
   at the one picture p only; chain_core_at states exactly that, with the same proof, and the
   C04 parametric theorems are its instances (chain_core_from_at below). *)
From Coq Require Import ZArith List Bool Lia.
From VC2 Require Import Base.PyZ Gen.StateRec Gen.VC2Math Gen.Quant Gen.SliceSizes Model.Lifting Model.Wavelet Model.EncoderSlices
  Proofs.SliceSizesProofs Proofs.WaveletProofs Proofs.EncoderSlicesProofs Proofs.IntegChainDefs.
Import ListNotations.
Open Scope Z_scope.

(* ---------------- the chain, pointwise ---------------- *)
Definition bands3 (t : list subband * list subband * list subband) : list band * list band * list band :=
  (map sb_band (fst (fst t)), map sb_band (snd (fst t)), map sb_band (snd t)).

Lemma chain_core_at (Pic : Type) (dwt : Pic -> list subband * list subband * list subband)
      (idwt : list band * list band * list band -> Pic) st p dc V :
  good_state st ->
  idwt (bands3 (dwt p)) = p ->
  pic_wf Pic dwt st p ->
  (forall sx sy, 0 <= sx < st_slices_x st -> 0 <= sy < st_slices_y st ->
     V sx sy = (fst (sc_Y (encoder_slice Pic dwt st p dc sx sy)), fst (sc_C1 (encoder_slice Pic dwt st p dc sx sy)),
                fst (sc_C2 (encoder_slice Pic dwt st p dc sx sy)))) ->
  decode_model Pic dwt idwt st p dc V = p.
Proof.
  intros st_good Hrt (Wy & W1 & W2) HV. unfold decode_model, decode_picture.
  rewrite (decode_component_gathered st Str_Y _ dc (fun sx sy => fst (fst (V sx sy))) st_good Wy).
  2:{ intros sx sy Hx Hy. rewrite (HV sx sy Hx Hy). destruct dc; reflexivity. }
  rewrite (decode_component_gathered st Str_C1 _ dc (fun sx sy => snd (fst (V sx sy))) st_good W1).
  2:{ intros sx sy Hx Hy. rewrite (HV sx sy Hx Hy). destruct dc; reflexivity. }
  rewrite (decode_component_gathered st Str_C2 _ dc (fun sx sy => snd (V sx sy)) st_good W2).
  2:{ intros sx sy Hx Hy. rewrite (HV sx sy Hx Hy). destruct dc; reflexivity. }
  exact Hrt.
Qed.

(* C04's chain_core is the instance "round trip at every p" *)
Lemma chain_core_from_at (Pic : Type) dwt idwt :
  (forall p, idwt (bands3 (dwt p)) = p) ->
  forall st, good_state st -> forall p dc V, pic_wf Pic dwt st p ->
  (forall sx sy, 0 <= sx < st_slices_x st -> 0 <= sy < st_slices_y st ->
     V sx sy = (fst (sc_Y (encoder_slice Pic dwt st p dc sx sy)), fst (sc_C1 (encoder_slice Pic dwt st p dc sx sy)),
                fst (sc_C2 (encoder_slice Pic dwt st p dc sx sy)))) ->
  decode_model Pic dwt idwt st p dc V = p.
Proof. intros H st Hg p dc V Hwf HV. apply chain_core_at; auto. Qed.

(* ---------------- adaptor: bands_of / coeffs_of ---------------- *)
Lemma map_band_ho qm : forall hs l, map sb_band (ho_bands qm l hs) = hs.
Proof. induction hs as [|H r IH]; intros l; [reflexivity|]. cbn [ho_bands map sb_band snd]. rewrite IH. reflexivity. Qed.

Lemma triples_vh qm : forall ts l, triples (map sb_band (vh_bands qm l ts)) = ts.
Proof.
  induction ts as [|[[HL LH] HH] r IH]; intros l; [reflexivity|].
  cbn [vh_bands map sb_band snd triples]. rewrite IH. reflexivity.
Qed.

Lemma ho_bands_length qm : forall hs l, length (ho_bands qm l hs) = length hs.
Proof. induction hs as [|H r IH]; intros l; [reflexivity|]. cbn [ho_bands length]. rewrite IH. reflexivity. Qed.

Lemma coeffs_of_bands_of qm dh cf :
  Z.of_nat (length (c_ho cf)) = dh ->
  coeffs_of dh (map sb_band (bands_of qm dh cf)) = cf.
Proof.
  intros Hl. destruct cf as [dc ho vh]. cbn [c_ho c_dc c_vh] in *.
  unfold coeffs_of, bands_of. cbn [c_ho c_dc c_vh map sb_band snd hd tl].
  rewrite map_app, map_band_ho.
  replace (Z.to_nat dh) with (length ho) by lia.
  rewrite firstn_app_exact.
  rewrite skipn_app, skipn_all, Nat.sub_diag. cbn [skipn app].
  rewrite triples_vh. reflexivity.
Qed.

(* the levels present depend only on the depths *)
Lemma ho_levels qm qm' : forall hs hs' l, length hs = length hs' ->
  map sb_level (ho_bands qm l hs) = map sb_level (ho_bands qm' l hs').
Proof.
  induction hs as [|H r IH]; intros [|H' r'] l Hl; try discriminate; [reflexivity|].
  cbn [ho_bands map sb_level fst]. f_equal. apply IH. cbn in Hl. lia.
Qed.

Lemma vh_levels qm qm' : forall ts ts' l, length ts = length ts' ->
  map sb_level (vh_bands qm l ts) = map sb_level (vh_bands qm' l ts').
Proof.
  induction ts as [|[[HL LH] HH] r IH]; intros [|[[HL' LH'] HH'] r'] l Hl; try discriminate; [reflexivity|].
  cbn [vh_bands map sb_level fst]. do 3 f_equal. apply IH. cbn in Hl. lia.
Qed.

Lemma bands_of_levels qm qm' dh cf cf' :
  length (c_ho cf) = length (c_ho cf') -> length (c_vh cf) = length (c_vh cf') ->
  map sb_level (bands_of qm dh cf) = map sb_level (bands_of qm' dh cf').
Proof.
  intros H1 H2. unfold bands_of. cbn [map sb_level fst]. f_equal. rewrite !map_app.
  f_equal; [apply ho_levels|apply vh_levels]; assumption.
Qed.

(* ---------------- shapes: C11_dwt_shapes gives bands_wf ---------------- *)
Lemma band_shape_of_has_shape (a : arr) H W :
  has_shape a H W -> band_shape a (Z.to_nat H) (Z.to_nat W).
Proof. intros Hs. exact (rect_of_shape a H W Hs). Qed.

Lemma Forall_ho_bands (P : subband -> Prop) qm : forall (hs : list arr) l,
  (forall i, (i < length hs)%nat -> P (l + Z.of_nat i, qm (l + Z.of_nat i) o_H, nth i hs [])) ->
  Forall P (ho_bands qm l hs).
Proof.
  induction hs as [|H r IH]; intros l HP; [constructor|]. cbn [ho_bands]. constructor.
  - specialize (HP 0%nat ltac:(cbn; lia)). cbn [nth] in HP. rewrite Z.add_0_r in HP. exact HP.
  - apply IH. intros i Hi. specialize (HP (S i) ltac:(cbn; lia)). cbn [nth] in HP.
    replace (l + 1 + Z.of_nat i) with (l + Z.of_nat (S i)) by lia. exact HP.
Qed.

Lemma Forall_vh_bands (P : subband -> Prop) qm : forall (ts : list (arr * arr * arr)) l,
  (forall i, (i < length ts)%nat ->
     let t := nth i ts ([], [], []) in
     P (l + Z.of_nat i, qm (l + Z.of_nat i) o_HL, fst (fst t)) /\
     P (l + Z.of_nat i, qm (l + Z.of_nat i) o_LH, snd (fst t)) /\
     P (l + Z.of_nat i, qm (l + Z.of_nat i) o_HH, snd t)) ->
  Forall P (vh_bands qm l ts).
Proof.
  induction ts as [|[[HL LH] HH] r IH]; intros l HP; [constructor|]. cbn [vh_bands].
  pose proof (HP 0%nat ltac:(cbn; lia)) as H0. cbn [nth fst snd] in H0. rewrite Z.add_0_r in H0.
  destruct H0 as (A & B & C). repeat (constructor; [assumption|]).
  apply IH. intros i Hi. specialize (HP (S i) ltac:(cbn; lia)). cbn [nth] in HP.
  replace (l + 1 + Z.of_nat i) with (l + Z.of_nat (S i)) by lia. exact HP.
Qed.

Section Component.
  Variables (fv fh : filter) (st : pystate) (qm : Z -> Z -> Z) (c : pystr).
  Hypothesis Hd : 0 <= st_dwt_depth st.
  Hypothesis Hdh : 0 <= st_dwt_depth_ho st.
  Hypothesis Hw : 1 <= Wavelet.comp_width st c.
  Hypothesis Hh : 1 <= Wavelet.comp_height st c.

  Let P (s : subband) : Prop := 0 <= sb_level s <= depth_sum st + 1 /\ shape_ok st c s.

  Lemma transform_bands_wf (a : arr) :
    has_shape a (Wavelet.comp_height st c) (Wavelet.comp_width st c) ->
    bands_wf st c (bands_of qm (st_dwt_depth_ho st)
                     (dwt fv fh (st_dwt_depth st) (st_dwt_depth_ho st) (dwt_pad_addition st c a))).
  Proof.
    intros Ha. destruct (dwt_shapes fv fh st c Hd Hdh Hw Hh a Ha) as (Sdc & Lho & Lvh & Sho & Svh).
    set (cf := dwt _ _ _ _ _) in *. clearbody cf.
    assert (HF : Forall P (bands_of qm (st_dwt_depth_ho st) cf)).
    { unfold bands_of. constructor; [|apply Forall_app; split].
      - unfold P, shape_ok, depth_sum. cbn [sb_level sb_band fst snd]. split; [lia|].
        apply band_shape_of_has_shape. exact Sdc.
      - apply Forall_ho_bands. intros i Hi. unfold P, shape_ok, depth_sum. cbn [sb_level sb_band fst snd].
        split; [lia|]. apply band_shape_of_has_shape.
        specialize (Sho (1 + Z.of_nat i) ltac:(lia)).
        replace (Z.to_nat (1 + Z.of_nat i - 1)) with i in Sho by lia. exact Sho.
      - apply Forall_vh_bands. intros i Hi. cbv zeta.
        specialize (Svh (st_dwt_depth_ho st + 1 + Z.of_nat i) ltac:(lia)).
        replace (Z.to_nat (st_dwt_depth_ho st + 1 + Z.of_nat i - st_dwt_depth_ho st - 1)) with i in Svh by lia.
        destruct (nth i (c_vh cf) ([], [], [])) as [[HL LH] HH]. destruct Svh as (S1 & S2 & S3).
        unfold P, shape_ok, depth_sum. cbn [sb_level sb_band fst snd].
        refine (conj (conj _ _) (conj (conj _ _) (conj _ _))); try lia; apply band_shape_of_has_shape; assumption. }
    split; eapply Forall_impl; try exact HF; intros s [H1 H2]; assumption.
  Qed.
End Component.

(* ---------------- offset / clip ---------------- *)
Definition in_range (depth : Z) (a : arr) : Prop := Forall (Forall (fun v => 0 <= v < 2 ^ depth)) a.

Lemma map_map_id (f : Z -> Z) (Q : Z -> Prop) (a : arr) :
  (forall v, Q v -> f v = v) -> Forall (Forall Q) a -> map (map f) a = a.
Proof.
  intros Hf Ha. induction Ha as [|r a Hr Ha IH]; [reflexivity|]. cbn [map]. rewrite IH. f_equal.
  induction Hr as [|v r Hv Hr IHr]; [reflexivity|]. cbn [map]. rewrite IHr, (Hf v Hv). reflexivity.
Qed.

Lemma offset_clip_roundtrip depth a : 1 <= depth -> in_range depth a ->
  add_offset depth (clip_component depth (remove_offset depth a)) = a.
Proof.
  intros Hd Ha. unfold add_offset, clip_component, remove_offset.
  rewrite !map_map.
  rewrite (map_ext _ (map (fun v => clip (v - half_range depth) (- half_range depth) (half_range depth - 1) + half_range depth))).
  2:{ intros r. rewrite !map_map. reflexivity. }
  apply (map_map_id _ (fun v => 0 <= v < 2 ^ depth)); [|exact Ha].
  intros v Hv. unfold half_range, py_pow, clip, py_min, py_max.
  assert (E : 2 ^ depth = 2 * 2 ^ (depth - 1)).
  { replace depth with (Z.succ (depth - 1)) at 1 by lia. apply Z.pow_succ_r. lia. }
  lia.
Qed.

Lemma remove_offset_shape depth a H W : has_shape a H W -> has_shape (remove_offset depth a) H W.
Proof.
  intros [HL HF]. unfold remove_offset. split; [rewrite map_length; exact HL|].
  apply Forall_map. eapply Forall_impl; [|exact HF]. cbv beta. intros r Hr. rewrite map_length. exact Hr.
Qed.

(* ---------------- one component through picture_encode ; picture_decode ---------------- *)
Definition comp_ok (st : pystate) (depth : Z) (c : pystr) (a : arr) : Prop :=
  has_shape a (Wavelet.comp_height st c) (Wavelet.comp_width st c) /\ in_range depth a.

Lemma component_roundtrip fv fh st qm depth c a :
  0 <= st_dwt_depth st -> 0 <= st_dwt_depth_ho st ->
  1 <= Wavelet.comp_width st c -> 1 <= Wavelet.comp_height st c -> 1 <= depth ->
  comp_ok st depth c a ->
  decode_comp fv fh st depth c (map sb_band (encode_component fv fh st qm depth c a)) = a.
Proof.
  intros Hd Hdh Hw Hh Hdep [Hs Hr]. unfold decode_comp, encode_component.
  pose proof (remove_offset_shape depth a _ _ Hs) as Hs'.
  destruct (dwt_shapes fv fh st c Hd Hdh Hw Hh _ Hs') as (_ & Lho & _).
  rewrite coeffs_of_bands_of by exact Lho.
  pose proof (round_trip_exact fv fh st c Hd Hdh Hw Hh _ Hs') as RT. unfold round_trip in RT. rewrite RT.
  apply offset_clip_roundtrip; assumption.
Qed.

(* ---------------- the whole picture ---------------- *)
(* sizes >= 1 (dwt_pad_addition reads pic_row[-1] / pic[-1]); bit depths >= 1 (2 ** (depth - 1)) *)
Definition config_ok (st : pystate) (ld cd : Z) : Prop :=
  good_state st /\ 1 <= st_luma_width st /\ 1 <= st_luma_height st /\
  1 <= st_color_diff_width st /\ 1 <= st_color_diff_height st /\ 1 <= ld /\ 1 <= cd.

(* "in-range integer picture of the configured size" *)
Definition pic_ok (st : pystate) (ld cd : Z) (p : picture) : Prop :=
  comp_ok st ld Str_Y (fst (fst p)) /\ comp_ok st cd Str_C1 (snd (fst p)) /\ comp_ok st cd Str_C2 (snd p).

(* the quantisation matrix has an unsigned entry for every (level, orientation) present *)
Definition qm_present (st : pystate) (l o : Z) : Prop :=
  (l = 0 /\ o = dc_orient (st_dwt_depth_ho st)) \/
  (1 <= l <= st_dwt_depth_ho st /\ o = o_H) \/
  (st_dwt_depth_ho st + 1 <= l <= st_dwt_depth_ho st + st_dwt_depth st /\ o_HL <= o <= o_HH).
Definition qmat_ok (st : pystate) (qm : Z -> Z -> Z) : Prop := forall l o, qm_present st l o -> 0 <= qm l o.

Section Picture.
  Variables (fv fh : filter) (st : pystate) (qm : Z -> Z -> Z) (ld cd : Z).
  Hypothesis Hcfg : config_ok st ld cd.

  Let enc := pic_encode fv fh st qm ld cd.
  Let dec := pic_decode fv fh st ld cd.

  Let Hgood : good_state st := proj1 Hcfg.
  Let Hd : 0 <= st_dwt_depth st. Proof. pose proof Hcfg as (G & _). unfold good_state in G. lia. Qed.
  Let Hdh : 0 <= st_dwt_depth_ho st. Proof. pose proof Hcfg as (G & _). unfold good_state in G. lia. Qed.
  Let Hdims c : 1 <= Wavelet.comp_width st c /\ 1 <= Wavelet.comp_height st c.
  Proof. pose proof Hcfg as (_ & A & B & C & D & _). unfold Wavelet.comp_width, Wavelet.comp_height. destruct c; cbn; lia. Qed.
  Let Hld : 1 <= ld. Proof. pose proof Hcfg as (_ & _ & _ & _ & _ & A & _). exact A. Qed.
  Let Hcd : 1 <= cd. Proof. pose proof Hcfg as (_ & _ & _ & _ & _ & _ & A). exact A. Qed.

  (* C11_roundtrip, through the adaptor, offset and clip: picture_decode undoes picture_encode *)
  Theorem pic_decode_encode p : pic_ok st ld cd p -> dec (bands3 (enc p)) = p.
  Proof.
    intros (Oy & O1 & O2). destruct p as [[y c1] c2]. unfold dec, enc, pic_decode, pic_encode, bands3. cbn [fst snd] in *.
    rewrite !component_roundtrip; try assumption; try reflexivity; apply Hdims.
  Qed.

  (* C11_dwt_shapes, through the adaptor: every subband has the shape the slice geometry uses *)
  Theorem pic_encode_wf p : pic_ok st ld cd p -> pic_wf picture enc st p.
  Proof.
    intros ((Sy & _) & (S1 & _) & (S2 & _)). unfold pic_wf, enc, pic_encode, encode_component. cbn [fst snd].
    repeat split; apply transform_bands_wf; try assumption; try apply Hdims; apply remove_offset_shape; assumption.
  Qed.

  Lemma bands_of_qm_ok cf : qmat_ok st qm ->
    Z.of_nat (length (c_ho cf)) = st_dwt_depth_ho st -> Z.of_nat (length (c_vh cf)) = st_dwt_depth st ->
    Forall (fun s => 0 <= sb_qm s) (bands_of qm (st_dwt_depth_ho st) cf).
  Proof.
    intros Hq L1 L2. unfold bands_of. constructor; [|apply Forall_app; split].
    - cbn [sb_qm fst snd]. apply Hq. left. split; reflexivity.
    - apply Forall_ho_bands. intros i Hi. cbn [sb_qm fst snd]. apply Hq. right. left. split; [lia|reflexivity].
    - apply Forall_vh_bands. intros i Hi. cbv zeta. cbn [sb_qm fst snd].
      repeat split; apply Hq; right; right; unfold o_HL, o_LH, o_HH; lia.
  Qed.

  Theorem pic_encode_qm_ok p : qmat_ok st qm -> pic_ok st ld cd p -> pic_qm_ok picture enc p.
  Proof.
    intros Hq ((Sy & _) & (S1 & _) & (S2 & _)). unfold pic_qm_ok, enc, pic_encode, encode_component. cbn [fst snd].
    repeat split; apply bands_of_qm_ok; try assumption.
    all: match goal with |- context [dwt_pad_addition st ?c (remove_offset ?dep ?a)] =>
           destruct (dwt_shapes fv fh st c Hd Hdh (proj1 (Hdims c)) (proj2 (Hdims c)) (remove_offset dep a)
                       ltac:(apply remove_offset_shape; assumption)) as (_ & A & B & _); assumption end.
  Qed.

  (* C1 and C2 carry the same levels (needed by the LD colour-difference interleaving) *)
  Lemma pic_encode_levels p : pic_ok st ld cd p ->
    map sb_level (snd (fst (enc p))) = map sb_level (snd (enc p)).
  Proof.
    intros (_ & (S1 & _) & (S2 & _)). unfold enc, pic_encode, encode_component. cbn [fst snd].
    destruct (dwt_shapes fv fh st Str_C1 Hd Hdh (proj1 (Hdims _)) (proj2 (Hdims _)) _ (remove_offset_shape cd _ _ _ S1)) as (_ & A1 & B1 & _).
    destruct (dwt_shapes fv fh st Str_C2 Hd Hdh (proj1 (Hdims _)) (proj2 (Hdims _)) _ (remove_offset_shape cd _ _ _ S2)) as (_ & A2 & B2 & _).
    apply bands_of_levels; lia.
  Qed.

  (* ---- end to end: NO abstract transform ---- *)
  Theorem end_to_end_hq_lossless p s :
    qmat_ok st qm -> pic_ok st ld cd p -> 1 <= s ->
    decode_model picture enc dec st p false
      (fun sx sy => hq_slice_roundtrip s (encoder_slice picture enc st p false sx sy)
                                       (lossless_slice s (encoder_slice picture enc st p false sx sy))) = p.
  Proof.
    intros Hq Hp Hs. apply chain_core_at; [exact Hgood|apply pic_decode_encode; exact Hp|apply pic_encode_wf; exact Hp|].
    intros sx sy _ _.
    destruct (encoder_slice_cc_ok picture enc st p false sx sy (pic_encode_qm_ok p Hq Hp)) as (Cy & C1 & C2).
    apply lossless_slice_roundtrip; assumption.
  Qed.

  Theorem end_to_end_hq_lossy_q0 p bst s minq (SL : Z -> Z -> hq_slice) :
    qmat_ok st qm -> pic_ok st ld cd p -> 0 < s ->
    (forall sx sy, 0 <= sx < st_slices_x st -> 0 <= sy < st_slices_y st ->
       hq_slice_ok bst s minq sx sy (encoder_slice picture enc st p false sx sy) (SL sx sy) /\ hq_qindex (SL sx sy) = 0) ->
    decode_model picture enc dec st p false
      (fun sx sy => hq_slice_roundtrip s (encoder_slice picture enc st p false sx sy) (SL sx sy)) = p.
  Proof.
    intros Hq Hp Hs HSL. apply chain_core_at; [exact Hgood|apply pic_decode_encode; exact Hp|apply pic_encode_wf; exact Hp|].
    intros sx sy Hx Hy.
    destruct (encoder_slice_cc_ok picture enc st p false sx sy (pic_encode_qm_ok p Hq Hp)) as (Cy & C1 & C2).
    destruct (HSL sx sy Hx Hy) as [Hok H0].
    apply (hq_lossy_q0_roundtrip bst s minq sx sy); assumption.
  Qed.

  Theorem end_to_end_ld_lossy_q0 p bst minq (SL : Z -> Z -> ld_slice) :
    qmat_ok st qm -> pic_ok st ld cd p ->
    (forall sx sy, 0 <= sx < st_slices_x st -> 0 <= sy < st_slices_y st ->
       ld_slice_ok bst minq sx sy (encoder_slice picture enc st p true sx sy) (SL sx sy) /\ ld_qindex (SL sx sy) = 0) ->
    decode_model picture enc dec st p true
      (fun sx sy => ld_slice_roundtrip (slice_bytes bst sx sy) (encoder_slice picture enc st p true sx sy) (SL sx sy)) = p.
  Proof.
    intros Hq Hp HSL. apply chain_core_at; [exact Hgood|apply pic_decode_encode; exact Hp|apply pic_encode_wf; exact Hp|].
    intros sx sy Hx Hy.
    destruct (encoder_slice_cc_ok picture enc st p true sx sy (pic_encode_qm_ok p Hq Hp)) as (Cy & C1 & C2).
    destruct (HSL sx sy Hx Hy) as [Hok H0].
    apply (ld_q0_roundtrip bst minq sx sy); try assumption.
    unfold encoder_slice, gathered, sc_C1, sc_C2. cbn [fst snd].
    apply gather_len_C1_C2. rewrite !dc_bands_levels. apply pic_encode_levels. exact Hp.
  Qed.
End Picture.
