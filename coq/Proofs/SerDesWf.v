(* Proofs about Model/SerDes.v, part 2: well-formed interpreter states, set_context_type (C21). *)
From Coq Require Import ZArith List Bool Lia.
From VC2 Require Import Model.SerDes Proofs.SerDesBits.
Import ListNotations.
Open Scope Z_scope.

(* ====================================================================== *)
(* ---- association lists ---- *)
Lemma alookup_aupd_same {V} t (v : V) l : alookup t (aupd t v l) = Some v.
Proof.
  induction l as [|[k x] l IH]; simpl.
  - rewrite Z.eqb_refl. reflexivity.
  - destruct (k =? t) eqn:E; simpl; rewrite E; auto.
Qed.

Lemma alookup_aupd_other {V} t t' (v : V) l : t' <> t -> alookup t' (aupd t v l) = alookup t' l.
Proof.
  intros N. induction l as [|[k x] l IH]; simpl.
  - destruct (t =? t') eqn:E; auto. apply Z.eqb_eq in E. congruence.
  - destruct (k =? t) eqn:E; simpl.
    + apply Z.eqb_eq in E. subst k. destruct (t =? t') eqn:E'; auto.
      apply Z.eqb_eq in E'. congruence.
    + destruct (k =? t'); auto.
Qed.

Lemma aupd_aupd {V} t (v v' : V) l : aupd t v' (aupd t v l) = aupd t v' l.
Proof.
  induction l as [|[k x] l IH]; simpl.
  - rewrite Z.eqb_refl. reflexivity.
  - destruct (k =? t) eqn:E; simpl; rewrite E; auto. rewrite IH. reflexivity.
Qed.

Lemma alookup_dec {V} t t' (v : V) l :
  alookup t' (aupd t v l) = if t' =? t then Some v else alookup t' l.
Proof.
  destruct (t' =? t) eqn:E.
  - apply Z.eqb_eq in E. subst. apply alookup_aupd_same.
  - apply Z.eqb_neq in E. apply alookup_aupd_other; auto.
Qed.

Lemma list_set_length {V} i (v : V) l : length (list_set i v l) = length l.
Proof. revert i. induction l; destruct i; simpl; auto. Qed.

Lemma list_set_twice {V} i (v v' : V) l : list_set i v' (list_set i v l) = list_set i v' l.
Proof. revert i. induction l; destruct i; simpl; auto. rewrite IHl. reflexivity. Qed.

Lemma list_set_app_last {V} (v d : V) l : list_set (length l) v (l ++ [d]) = l ++ [v].
Proof. induction l; simpl; auto. rewrite IHl. reflexivity. Qed.

Lemma firstn_list_set {V} i (v : V) l : (i < length l)%nat ->
  firstn (S i) (list_set i v l) = firstn i l ++ [v].
Proof.
  revert i. induction l; intros i H; simpl in H; [lia|].
  destruct i; simpl; auto. rewrite <- IHl by lia. reflexivity.
Qed.

Lemma firstn_nth_error {V} i (v : V) l : nth_error l i = Some v -> firstn (S i) l = firstn i l ++ [v].
Proof.
  revert i. induction l; intros i H; destruct i; simpl in *; try discriminate.
  - inv H. reflexivity.
  - rewrite (IHl _ H). reflexivity.
Qed.

(* ---- no dangling reference marker anywhere inside a value ---- *)
Fixpoint nohole (v : val) : Prop :=
  match v with
  | VHole => False
  | VL l => (fix go (l : list val) : Prop := match l with [] => True | x :: r => nohole x /\ go r end) l
  | VC _ f => (fix go (f : list (Z * val)) : Prop :=
                 match f with [] => True | kx :: r => nohole (snd kx) /\ go r end) f
  | _ => True
  end.
Definition nohole_f (f : fields) : Prop := Forall (fun kx => nohole (snd kx)) f.

Lemma nohole_VL l : nohole (VL l) <-> Forall nohole l.
Proof.
  induction l; simpl; split; intros H; auto.
  - destruct H. constructor; auto. apply IHl; auto.
  - inv H. split; auto. apply IHl; auto.
Qed.
Lemma nohole_VC ty f : nohole (VC ty f) <-> nohole_f f.
Proof.
  unfold nohole_f. induction f; simpl; split; intros H; auto.
  - destruct H. constructor; auto. apply IHf; auto.
  - inv H. split; auto. apply IHf; auto.
Qed.

Lemma nohole_f_aupd t v f : nohole v -> nohole_f f -> nohole_f (aupd t v f).
Proof.
  intros Hv. unfold nohole_f. induction f as [|[k x] f IH]; simpl; intros H.
  - constructor; auto.
  - inv H. destruct (k =? t); constructor; auto.
Qed.

Lemma nohole_f_lookup t v f : nohole_f f -> alookup t f = Some v -> nohole v.
Proof.
  unfold nohole_f. induction f as [|[k x] f IH]; simpl; intros H E; [discriminate|].
  inv H. destruct (k =? t); [inv E; auto | auto].
Qed.

Lemma plug1_nohole x v : nohole v -> plug1 x v = v.
Proof.
  destruct v; simpl; auto; intros H; try contradiction.
  f_equal. apply nohole_VL in H. induction H; simpl; auto.
  rewrite IHForall. destruct x0; auto. simpl in H. contradiction.
Qed.

Lemma plug_nohole x f : nohole_f f -> plug x f = f.
Proof.
  unfold plug, nohole_f. induction 1 as [|[k y] f H _ IH]; simpl; auto.
  simpl in H. rewrite plug1_nohole, IH; auto.
Qed.

Lemma plug_aupd x t v f : plug x (aupd t v f) = aupd t (plug1 x v) (plug x f).
Proof.
  unfold plug. induction f as [|[k y] f IH]; simpl; auto.
  destruct (k =? t); simpl; auto. rewrite IH. reflexivity.
Qed.

Lemma map_hole_id x l : Forall nohole l ->
  map (fun y => match y with VHole => x | _ => y end) l = l.
Proof.
  induction 1 as [|y l Hy _ IH]; simpl; auto. rewrite IH. destruct y; auto. simpl in Hy. contradiction.
Qed.

Lemma map_hole_list_set x n l : Forall nohole l ->
  map (fun y => match y with VHole => x | _ => y end) (list_set n VHole l) = list_set n x l.
Proof.
  intros H. revert n. induction H as [|y l Hy Hl IH]; intros n; [destruct n; reflexivity|].
  destruct n; cbn [list_set map].
  - rewrite map_hole_id; auto.
  - rewrite IH. destruct y; auto. simpl in Hy. contradiction.
Qed.

Lemma nohole_list_set n v l : nohole v -> Forall nohole l -> Forall nohole (list_set n v l).
Proof.
  intros Hv H. revert n. induction H; intros n; [destruct n; constructor|].
  destruct n; cbn [list_set]; constructor; auto.
Qed.

(* ---- well-formed interpreter states ---- *)
Definition lists_ok (f : fields) (ixs : indices) : Prop :=
  forall t i, alookup t ixs = Some (Nxt i) -> exists l, alookup t f = Some (VL l) /\ (i <= length l)%nat.

(* the parent's fields reference the dictionary being worked on exactly in the slot the parent's
   index bookkeeping designates: key [fr_tgt] itself, or element [index - 1] of the list there *)
Definition wf_frame (fr : frame) : Prop :=
  exists f0, nohole_f f0 /\ lists_ok f0 (fr_ix fr) /\
    ((alookup (fr_tgt fr) (fr_ix fr) = Some Used /\ fr_f fr = aupd (fr_tgt fr) VHole f0) \/
     (exists n l, alookup (fr_tgt fr) (fr_ix fr) = Some (Nxt (S n)) /\
                  alookup (fr_tgt fr) f0 = Some (VL l) /\ (n < length l)%nat /\
                  fr_f fr = aupd (fr_tgt fr) (VL (list_set n VHole l)) f0)).

Record wf (s : st) : Prop := mkwf {
  wf_nh : nohole_f (c_f s);
  wf_lists : lists_ok (c_f s) (c_ix s);
  wf_stk : Forall wf_frame (stk s) }.

(* dereferencing a well-formed frame *)
Lemma plug_wf_frame fr x : wf_frame fr ->
  exists f0, nohole_f f0 /\ lists_ok f0 (fr_ix fr) /\
   ((alookup (fr_tgt fr) (fr_ix fr) = Some Used /\ fr_f fr = aupd (fr_tgt fr) VHole f0 /\
     plug x (fr_f fr) = aupd (fr_tgt fr) x f0) \/
    (exists n l, alookup (fr_tgt fr) (fr_ix fr) = Some (Nxt (S n)) /\
                 alookup (fr_tgt fr) f0 = Some (VL l) /\ (n < length l)%nat /\
                 fr_f fr = aupd (fr_tgt fr) (VL (list_set n VHole l)) f0 /\
                 plug x (fr_f fr) = aupd (fr_tgt fr) (VL (list_set n x l)) f0)).
Proof.
  intros (f0 & Hn & Hl & [[Hu Hf] | (n & l & Hi & Hf0 & Hlen & Hf)]); exists f0; split; auto; split; auto.
  - left. split; auto. split; auto. rewrite Hf, plug_aupd, plug_nohole; auto.
  - right. exists n, l. repeat (split; auto). rewrite Hf, plug_aupd, plug_nohole by auto. simpl.
    rewrite map_hole_list_set; auto. apply nohole_VL. eapply nohole_f_lookup; eauto.
Qed.

(* set_context_type never fails on a well-formed state, changes only the type of the current
   dictionary, and leaves every enclosing dictionary referencing it in the same slot *)
Lemma set_context_type_wf ty s : wf s ->
  set_context_type ty s = Ok (mkst ty (c_f s) (c_ix s) (stk s) (sio s)).
Proof.
  intros W. unfold set_context_type. destruct (c_ty s =? ty) eqn:E.
  - apply Z.eqb_eq in E. subst. destruct s; reflexivity.
  - destruct (stk s) as [|fr rest] eqn:Es; auto.
    assert (Wf : wf_frame fr). { pose proof (wf_stk _ W) as H. rewrite Es in H. inv H. auto. }
    destruct (plug_wf_frame fr (VC (c_ty s) (c_f s)) Wf) as (f0 & Hn & Hl & [(Hu & Hf & Hp) | (n & l & Hi & Hf0 & Hlen & Hf & Hp)]).
    + unfold patch_parent. rewrite Hu, Hp, aupd_aupd, <- Hf. simpl. destruct fr; reflexivity.
    + unfold patch_parent. rewrite Hi, Hp, alookup_aupd_same.
      assert (Hlt : Nat.ltb n (length (list_set n (VC (c_ty s) (c_f s)) l)) = true).
      { apply Nat.ltb_lt. rewrite list_set_length. auto. }
      rewrite Hlt, aupd_aupd, list_set_twice, <- Hf. simpl. destruct fr; reflexivity.
Qed.

(* ====================================================================== *)
Lemma wf_set_io s w : wf s -> wf (set_io s w).
Proof. intros [A B C]. constructor; auto. Qed.

Lemma lists_ok_aupd_used t v f ixs : lists_ok f ixs -> lists_ok (aupd t v f) (aupd t Used ixs).
Proof.
  intros H t' i. rewrite !alookup_dec. destruct (t' =? t); [discriminate|]. apply H.
Qed.

Lemma lists_ok_ix_used t f ixs : lists_ok f ixs -> lists_ok f (aupd t Used ixs).
Proof.
  intros H t' i. rewrite alookup_dec. destruct (t' =? t); [discriminate|]. apply H.
Qed.

Lemma lists_ok_aupd_list t l n f ixs : lists_ok f ixs -> (n <= length l)%nat ->
  lists_ok (aupd t (VL l) f) (aupd t (Nxt n) ixs).
Proof.
  intros H Hn t' i. rewrite !alookup_dec. destruct (t' =? t).
  - intros E; inv E. eauto.
  - apply H.
Qed.

Lemma lists_ok_ix_list t l n f ixs : lists_ok f ixs -> alookup t f = Some (VL l) -> (n <= length l)%nat ->
  lists_ok f (aupd t (Nxt n) ixs).
Proof.
  intros H Hf Hn t' i. rewrite alookup_dec. destruct (t' =? t) eqn:E.
  - apply Z.eqb_eq in E. subst. intros E; inv E. eauto.
  - apply H.
Qed.

(* exact effect of _set_context_value *)
Lemma set_value_spec t v s s' : set_value t v s = Ok s' ->
  (alookup t (c_ix s) = None /\ s' = set_fix s (aupd t v (c_f s)) (aupd t Used (c_ix s))) \/
  (exists i l l2, alookup t (c_ix s) = Some (Nxt i) /\ alookup t (c_f s) = Some (VL l) /\
     ((i = length l /\ l2 = l ++ [v]) \/ ((i < length l)%nat /\ l2 = list_set i v l)) /\
     s' = set_fix s (aupd t (VL l2) (c_f s)) (aupd t (Nxt (S i)) (c_ix s))).
Proof.
  unfold set_value. destruct (alookup t (c_ix s)) as [[|i]|] eqn:E; try discriminate.
  - destruct (alookup t (c_f s)) as [[| | | |l| |]|] eqn:F; try discriminate.
    destruct (Nat.eqb (length l) i) eqn:E1.
    + apply Nat.eqb_eq in E1. intros H; inv H. right. exists (length l), l, (l ++ [v]). auto 10.
    + destruct (Nat.ltb i (length l)) eqn:E2; [|discriminate]. apply Nat.ltb_lt in E2.
      intros H; inv H. right. exists i, l, (list_set i v l). auto 10.
  - intros H; inv H. left. auto.
Qed.

Lemma set_value_wf t v s s' : wf s -> nohole v -> set_value t v s = Ok s' ->
  wf s' /\ sio s' = sio s /\ stk s' = stk s /\ c_ty s' = c_ty s.
Proof.
  intros [A B C] Hv H. apply set_value_spec in H.
  destruct H as [[E ->] | (i & l & l2 & E & F & Hl & ->)]; simpl; repeat split; auto.
  - apply nohole_f_aupd; auto.
  - apply lists_ok_aupd_used; auto.
  - apply nohole_f_aupd; auto. apply nohole_VL.
    pose proof (nohole_f_lookup _ _ _ A F) as Hn. apply nohole_VL in Hn.
    destruct Hl as [[-> ->] | [Hlt ->]].
    + apply Forall_app. auto.
    + apply nohole_list_set; auto.
  - apply lists_ok_aupd_list; auto. destruct Hl as [[-> ->] | [Hlt ->]].
    + rewrite app_length. simpl. lia.
    + rewrite list_set_length. lia.
Qed.

Lemma ser_get_spec D t s v s1 : ser_get D t s = Ok (v, s1) ->
  (alookup t (c_ix s) = None /\ s1 = set_ix s (aupd t Used (c_ix s)) /\
     (alookup t (c_f s) = Some v \/ (alookup t (c_f s) = None /\ dlookup D (c_ty s) t = Some v))) \/
  (exists i l, alookup t (c_ix s) = Some (Nxt i) /\ alookup t (c_f s) = Some (VL l) /\
     ((nth_error l i = Some v /\ s1 = set_ix s (aupd t (Nxt (S i)) (c_ix s))) \/
      (nth_error l i = None /\ dlookup D (c_ty s) t = Some v /\ s1 = s))).
Proof.
  unfold ser_get. destruct (alookup t (c_ix s)) as [[|i]|] eqn:E; try discriminate.
  - destruct (alookup t (c_f s)) as [[| | | |l| |]|] eqn:F; try discriminate.
    destruct (nth_error l i) eqn:N.
    + intros H; inv H. right. exists i, l. auto 10.
    + destruct (dlookup D (c_ty s) t) eqn:Dl; [|discriminate]. intros H; inv H. right. exists i, l. auto 10.
  - destruct (alookup t (c_f s)) eqn:F.
    + intros H; inv H. left. auto.
    + destruct (dlookup D (c_ty s) t) eqn:Dl; [|discriminate]. intros H; inv H. left. auto 10.
Qed.

Lemma ser_get_wf D t s v s1 : wf s -> ser_get D t s = Ok (v, s1) ->
  wf s1 /\ sio s1 = sio s /\ stk s1 = stk s /\ c_ty s1 = c_ty s /\ c_f s1 = c_f s.
Proof.
  intros [A B C] H. apply ser_get_spec in H.
  destruct H as [(E & -> & _) | (i & l & E & F & [[N ->] | (N & Dl & ->)])]; simpl; repeat split; auto.
  - apply lists_ok_ix_used; auto.
  - eapply lists_ok_ix_list; eauto. apply nth_error_Some. congruence.
Qed.

Lemma setdefault_spec t d s v lc s1 : setdefault t d s = Ok (v, lc, s1) ->
  (alookup t (c_ix s) = None /\ lc = LKey /\
     ((alookup t (c_f s) = Some v /\ s1 = set_ix s (aupd t Used (c_ix s))) \/
      (alookup t (c_f s) = None /\ v = d /\ s1 = set_fix s (aupd t d (c_f s)) (aupd t Used (c_ix s))))) \/
  (exists i l, alookup t (c_ix s) = Some (Nxt i) /\ alookup t (c_f s) = Some (VL l) /\ lc = LIdx i /\
     ((i = length l /\ v = d /\ s1 = set_fix s (aupd t (VL (l ++ [d])) (c_f s)) (aupd t (Nxt (S i)) (c_ix s))) \/
      (nth_error l i = Some v /\ s1 = set_ix s (aupd t (Nxt (S i)) (c_ix s))))).
Proof.
  unfold setdefault. destruct (alookup t (c_ix s)) as [[|i]|] eqn:E; try discriminate.
  - destruct (alookup t (c_f s)) as [[| | | |l| |]|] eqn:F; try discriminate.
    destruct (Nat.eqb i (length l)) eqn:E1.
    + apply Nat.eqb_eq in E1. intros H; inv H. right. exists (length l), l. auto 10.
    + destruct (nth_error l i) eqn:N; [|discriminate]. intros H; inv H. right. exists i, l. auto 10.
  - destruct (alookup t (c_f s)) eqn:F; intros H; inv H; left; auto 10.
Qed.

(* what subcontext_enter needs to know about the slot *)
Lemma setdefault_wf t d s v lc s1 : wf s -> nohole d -> setdefault t d s = Ok (v, lc, s1) ->
  wf s1 /\ sio s1 = sio s /\ stk s1 = stk s /\ c_ty s1 = c_ty s /\ nohole v /\
  match lc with
  | LKey => alookup t (c_ix s1) = Some Used /\ alookup t (c_f s1) = Some v
  | LIdx i => alookup t (c_ix s1) = Some (Nxt (S i)) /\
              exists l1, alookup t (c_f s1) = Some (VL l1) /\ nth_error l1 i = Some v
  end.
Proof.
  intros [A B C] Hd H. apply setdefault_spec in H.
  destruct H as [(E & -> & [[F ->] | (F & -> & ->)]) | (i & l & E & F & -> & [(-> & -> & ->) | (N & ->)])]; simpl.
  - repeat split; auto. apply lists_ok_ix_used; auto. eapply nohole_f_lookup; eauto. apply alookup_aupd_same.
  - repeat split; auto. apply nohole_f_aupd; auto. apply lists_ok_aupd_used; auto.
    apply alookup_aupd_same. apply alookup_aupd_same.
  - pose proof (nohole_f_lookup _ _ _ A F) as Hn. apply nohole_VL in Hn.
    repeat split; auto.
    + apply nohole_f_aupd; auto. apply nohole_VL. apply Forall_app. auto.
    + apply lists_ok_aupd_list; auto. rewrite app_length. simpl. lia.
    + apply alookup_aupd_same.
    + exists (l ++ [d]). split. apply alookup_aupd_same. rewrite nth_error_app2, Nat.sub_diag by lia. reflexivity.
  - pose proof (nohole_f_lookup _ _ _ A F) as Hn. apply nohole_VL in Hn.
    repeat split; auto.
    + eapply lists_ok_ix_list; eauto. apply nth_error_Some. congruence.
    + rewrite Forall_forall in Hn. apply Hn. eapply nth_error_In; eauto.
    + apply alookup_aupd_same.
    + eauto.
Qed.

Lemma declare_list_wf t s s' : wf s -> declare_list t s = Ok s' ->
  wf s' /\ sio s' = sio s /\ stk s' = stk s /\ c_ty s' = c_ty s.
Proof.
  intros [A B C]. unfold declare_list. destruct (alookup t (c_ix s)) eqn:E; [discriminate|].
  destruct (alookup t (c_f s)) as [[| | | |l| |]|] eqn:F; try discriminate; intros H; inv H; simpl; repeat split; auto.
  - eapply lists_ok_ix_list; eauto. lia.
  - apply nohole_f_aupd; simpl; auto.
  - apply lists_ok_aupd_list; auto.
Qed.

Lemma subcontext_enter_wf t s s' : wf s -> subcontext_enter t s = Ok s' -> wf s' /\ sio s' = sio s.
Proof.
  intros W H. unfold subcontext_enter in H. apply rbind_ok in H. destruct H as ([[v lc] s1] & H1 & H2).
  assert (Hd : nohole (VC 0 [])) by (simpl; auto).
  destruct (setdefault_wf _ _ _ _ _ _ W Hd H1) as ([A B C] & Io & Sk & Ty & Hv & Hs).
  destruct v; try discriminate. inv H2. simpl. split; auto.
  constructor; simpl.
  - apply nohole_VC in Hv. auto.
  - intros t' i E. discriminate.
  - constructor; auto. exists (c_f s1). split; auto. split; auto. simpl.
    destruct lc as [|i]; simpl.
    + destruct Hs as [Hu Hf]. left. auto.
    + destruct Hs as (Hu & l1 & Hf & N). right. exists i, l1. rewrite Hf. repeat split; auto.
      apply nth_error_Some. congruence.
Qed.

Lemma subcontext_leave_wf s s' : wf s -> subcontext_leave s = Ok s' -> wf s' /\ sio s' = sio s.
Proof.
  intros [A B C] H. unfold subcontext_leave in H. apply rbind_ok in H. destruct H as (u & _ & H).
  destruct (stk s) as [|fr rest] eqn:Es; [discriminate|]. inv H. simpl. split; auto.
  inv C. rename H1 into Wf. rename H2 into Wr.
  assert (Hc : nohole (VC (c_ty s) (c_f s))) by (apply nohole_VC; auto).
  destruct (plug_wf_frame fr (VC (c_ty s) (c_f s)) Wf) as (f0 & Hn & Hl & [(Hu & Hf & Hp) | (n & l & Hi & Hf0 & Hlen & Hf & Hp)]);
    constructor; simpl; auto; rewrite Hp.
  - apply nohole_f_aupd; auto.
  - intros t' i E. rewrite alookup_dec. destruct (t' =? fr_tgt fr) eqn:E'.
    + apply Z.eqb_eq in E'. subst. congruence.
    + apply Hl; auto.
  - apply nohole_f_aupd; auto. apply nohole_VL. apply nohole_list_set; auto.
    apply nohole_VL. eapply nohole_f_lookup; eauto.
  - intros t' i E. rewrite alookup_dec. destruct (t' =? fr_tgt fr) eqn:E'.
    + apply Z.eqb_eq in E'. subst. rewrite Hi in E. inv E. eexists. split; eauto.
      rewrite list_set_length. lia.
    + apply Hl; auto.
Qed.

Definition op_ok (o : op) : Prop := match o with OComputed _ v => nohole v | _ => True end.

Lemma unitr_ok r u s' : unitr r = Ok (u, s') -> exists v, r = Ok (v, s').
Proof. unfold unitr. destruct r as [[v s]|]; simpl; intros H; inv H. eauto. Qed.
Lemma unitst_ok r u s' : unitst r = Ok (u, s') -> r = Ok s'.
Proof. unfold unitst. destruct r; simpl; intros H; inv H. auto. Qed.

Lemma step_wf prim :
  (forall k t s v s', wf s -> prim k t s = Ok (v, s') -> wf s') ->
  forall o s r s', wf s -> op_ok o -> step prim o s = Ok (r, s') -> wf s'.
Proof.
  intros P o s r s' W Hok H. destruct o; simpl in H; try (eapply P; eauto; fail).
  - apply unitr_ok in H. destruct H as (v & H). eapply P; eauto.
  - destruct (rem (sio s)); inv H. apply wf_set_io; auto.
  - destruct (rem (sio s)); [|discriminate]. apply unitr_ok in H. destruct H as (v & H).
    eapply P; [|eauto]. apply wf_set_io; auto.
  - apply unitst_ok in H. eapply declare_list_wf; eauto.
  - apply unitst_ok in H. eapply subcontext_enter_wf; eauto.
  - apply unitst_ok in H. eapply subcontext_leave_wf; eauto.
  - apply unitst_ok in H. rewrite set_context_type_wf in H by auto. inv H.
    destruct W as [A B C]. constructor; auto.
  - apply unitst_ok in H. eapply set_value_wf; eauto.
  - apply rbind_ok in H. destruct H as (b & _ & H). inv H. auto.
Qed.

Lemma ser_prim_wf D k t s v s' : wf s -> ser_prim D k t s = Ok (v, s') -> wf s'.
Proof.
  intros W H. unfold ser_prim in H. apply rbind_ok in H. destruct H as ([v1 s1] & H1 & H).
  apply rbind_ok in H. destruct H as (w & _ & H). inv H.
  apply wf_set_io. eapply ser_get_wf; eauto.
Qed.

Lemma read_val_nohole k r v r' : read_val k r = Ok (v, r') -> nohole v.
Proof.
  destruct k; simpl; intros H; apply rbind_ok in H; destruct H as ([x y] & _ & H); inv H; simpl; auto.
Qed.

Lemma des_prim_wf k t s v s' : wf s -> des_prim k t s = Ok (v, s') -> wf s'.
Proof.
  intros W H. unfold des_prim in H. apply rbind_ok in H. destruct H as ([v1 r1] & H1 & H).
  apply rbind_ok in H. destruct H as (s1 & H2 & H). inv H.
  eapply set_value_wf; [| |eauto]. apply wf_set_io; auto. eapply read_val_nohole; eauto.
Qed.

Lemma init_wf ty f bs : nohole (VC ty f) -> wf (init_st ty f bs).
Proof.
  intros H. constructor; simpl; auto. apply nohole_VC in H; auto. intros t i E; discriminate.
Qed.

