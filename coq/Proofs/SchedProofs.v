From Coq Require Import ZArith List Bool Lia.
From VC2 Require Import Model.Sched.
Import ListNotations.
Open Scope Z_scope.

Lemma run_last_write l : forall f p,
  run l f p = match last_write p l with Some c => Some c | None => f p end.
Proof.
  induction l as [|w r IH]; intros f p; [reflexivity|].
  unfold run in *. cbn [fold_left last_write]. rewrite IH.
  destruct (last_write p r); [reflexivity|].
  unfold apply_write. destruct (p =? w_path w); reflexivity.
Qed.

(* if every write to p in l is by command i, the last write to p is the one in i's own sequence *)
Lemma last_write_of_cmd p i l :
  (forall w, In w l -> w_path w = p -> w_cmd w = i) ->
  last_write p l = last_write p (of_cmd i l).
Proof.
  induction l as [|w r IH]; intros H; [reflexivity|].
  cbn [last_write of_cmd filter].
  assert (Hr : forall w0, In w0 r -> w_path w0 = p -> w_cmd w0 = i) by (intros; apply H; [right|]; assumption).
  specialize (IH Hr). fold (of_cmd i r).
  destruct (w_cmd w =? i) eqn:E.
  - cbn [last_write]. rewrite IH. reflexivity.
  - rewrite IH. destruct (last_write p (of_cmd i r)); [reflexivity|].
    destruct (p =? w_path w) eqn:Ep; [|reflexivity].
    exfalso. assert (w_cmd w = i) by (apply H; [left; reflexivity|lia]). lia.
Qed.

Lemma last_write_none p l : (forall w, In w l -> w_path w <> p) -> last_write p l = None.
Proof.
  induction l as [|w r IH]; intros H; [reflexivity|]. cbn [last_write].
  rewrite IH by (intros; apply H; right; assumption).
  destruct (p =? w_path w) eqn:E; [|reflexivity].
  exfalso. apply (H w (or_introl eq_refl)). lia.
Qed.

Lemma in_of_cmd i l w : In w (of_cmd i l) -> In w l /\ w_cmd w = i.
Proof. unfold of_cmd. rewrite filter_In. intros [H1 H2]. split; [exact H1|lia]. Qed.

Theorem schedule_independent (l1 l2 : list write) (f : fs) :
  path_disjoint l1 -> path_disjoint l2 ->
  (forall i, of_cmd i l1 = of_cmd i l2) ->
  forall p, run l1 f p = run l2 f p.
Proof.
  intros D1 D2 Hsame p. rewrite !run_last_write.
  assert (Hlw : last_write p l1 = last_write p l2).
  { destruct (in_dec Z.eq_dec p (map w_path l1)) as [Hin|Hnin].
    - apply in_map_iff in Hin. destruct Hin as (w0 & Hp & Hw0).
      set (i := w_cmd w0).
      rewrite (last_write_of_cmd p i l1).
      2:{ intros w Hw Hpw. apply (D1 w w0 Hw Hw0). congruence. }
      (* w0 also occurs in l2 (it is in of_cmd i l2), so writes to p in l2 are by i too *)
      assert (Hw0' : In w0 l2).
      { assert (In w0 (of_cmd i l1)) by (unfold of_cmd; rewrite filter_In; split; [exact Hw0|unfold i; lia]).
        rewrite Hsame in H. apply in_of_cmd in H. tauto. }
      rewrite (last_write_of_cmd p i l2).
      2:{ intros w Hw Hpw. apply (D2 w w0 Hw Hw0'). congruence. }
      rewrite Hsame. reflexivity.
    - rewrite (last_write_none p l1).
      2:{ intros w Hw Hpw. apply Hnin. apply in_map_iff. exists w. split; assumption. }
      rewrite (last_write_none p l2); [reflexivity|].
      intros w Hw Hpw.
      assert (In w (of_cmd (w_cmd w) l2)) by (unfold of_cmd; rewrite filter_In; split; [exact Hw|lia]).
      rewrite <- Hsame in H. apply in_of_cmd in H. destruct H as [H _].
      apply Hnin. apply in_map_iff. exists w. split; assumption. }
  rewrite Hlw. reflexivity.
Qed.

(* serial execution of the commands in a given order *)
Definition serial (cmds : list (list write)) : list write := concat cmds.
