(* Proofs/HeadersBridge.v -- tie T for the hand model of (11.6.1) set_coding_parameters in Model/Headers.v:
   the six state entries written by the model's `picture_dimensions ;;; video_depth` step are the fields
   computed by Gen/VideoParams.v `set_coding_parameters`, which is REGENERATED from
   vc2_conformance/pseudocode/video_parameters.py on every run.  An edit of that Python file which changes
   what is computed breaks this lemma (and Props/C02.v C02_coding_parameters_match_source) on the next run. *)
From Coq Require Import ZArith List Bool Lia.
From VC2 Require Import Base.PyZ Gen.StateRec Gen.VC2Math Gen.VideoParams.
From VC2 Require Import Model.Headers Proofs.HeadersProofs.
Import ListNotations.
Open Scope Z_scope.

(* the enum members which the translator turned into integer literals; evaluated on the live tables by the
   correspondence run (tools/harness/C02_headers.py) *)
Definition consts_ok (T : tables) : bool :=
  (t_color_4_2_2 T =? 1) && (t_color_4_2_0 T =? 2) && (t_pictures_are_fields T =? 1).

(* the model's step, as it stands inside sequence_header *)
Definition model_set_coding_parameters (T : tables) : M unit := m_set_coding_parameters T.

(* the records the translated function is applied to: `state` carries picture_coding_mode, `video_parameters`
   the five entries that are read *)
Definition rec_state (pcm : Z) : pystate := set_st_picture_coding_mode empty_pystate pcm.
Definition rec_vp (vp : vdict) : pystate :=
  set_st_color_diff_excursion
   (set_st_luma_excursion
    (set_st_color_diff_format_index
     (set_st_frame_height
      (set_st_frame_width empty_pystate (vp V_frame_width))
      (vp V_frame_height))
     (vp V_color_diff_format_index))
    (vp V_luma_excursion))
   (vp V_color_diff_excursion).

Lemma coding_parameters_match_source T s s' :
  consts_ok T = true ->
  model_set_coding_parameters T s = HOk (tt, s') ->
  exists pcm, s_st s S_picture_coding_mode = Some pcm /\
    set_coding_parameters_dom (rec_state pcm) (rec_vp (s_vp s)) = true /\
    let ps := set_coding_parameters (rec_state pcm) (rec_vp (s_vp s)) in
    s_st s' S_luma_width = Some (st_luma_width ps) /\
    s_st s' S_luma_height = Some (st_luma_height ps) /\
    s_st s' S_color_diff_width = Some (st_color_diff_width ps) /\
    s_st s' S_color_diff_height = Some (st_color_diff_height ps) /\
    s_st s' S_luma_depth = Some (st_luma_depth ps) /\
    s_st s' S_color_diff_depth = Some (st_color_diff_depth ps).
Proof.
  intros HC. unfold consts_ok in HC.
  apply andb_true_iff in HC. destruct HC as [HC H3]. apply andb_true_iff in HC. destruct HC as [H1 H2].
  apply Z.eqb_eq in H1, H2, H3.
  unfold model_set_coding_parameters, m_set_coding_parameters, picture_dimensions, video_depth, bind, get_vp, get_state, set_state.
  rewrite H1, H2, H3.
  destruct (s_st s S_picture_coding_mode) as [pcm|] eqn:EP; [|discriminate].
  intros E. inversion E; subst s'; clear E.
  exists pcm. split; [reflexivity|].
  set (cdf := s_vp s V_color_diff_format_index).
  set (fw := s_vp s V_frame_width). set (fh := s_vp s V_frame_height).
  set (le := s_vp s V_luma_excursion). set (ce := s_vp s V_color_diff_excursion).
  assert (EV : rec_vp (s_vp s) =
    set_st_color_diff_excursion (set_st_luma_excursion (set_st_color_diff_format_index
      (set_st_frame_height (set_st_frame_width empty_pystate fw) fh) cdf) le) ce) by reflexivity.
  rewrite EV. clearbody cdf fw fh le ce.
  split.
  - cbv -[py_div intlog2 Z.eqb Z.add].
    destruct (cdf =? 1), (cdf =? 2), (pcm =? 1); reflexivity.
  - cbv zeta. repeat split; st_eval;
      cbv -[py_div intlog2 Z.eqb Z.add];
      destruct (cdf =? 1), (cdf =? 2), (pcm =? 1); reflexivity.
Qed.
