(* Bridge (tie T): the hand definitions of component dimensions/depths in Model/FileFormat.v and
   Model/PicGen.v equal what the TRANSLATED pseudocode computes (Gen/VideoParams.v, regenerated from
   vc2_conformance/pseudocode/video_parameters.py on every run): compute_dimensions_and_depths builds
   State(picture_coding_mode=pcm), calls set_coding_parameters(state, video_parameters) and reads
   luma_/color_diff_ width, height, depth back; bytes_per_sample is derived as in dimensions_and_depths.py. *)
From Coq Require Import ZArith List Bool Lia.
From VC2 Require Import Base.PyZ Gen.StateRec Gen.VC2Math Gen.VideoParams Gen.BytesPerSample Model.FileFormat Model.PicGen
  Proofs.FileFormatProofs Proofs.PicGenProofs.
Import ListNotations.
Open Scope Z_scope.

(* the video parameters / state dictionaries as the translator's global record (enums as integer codes) *)
Definition vp_of_format (f : format) : pystate :=
  set_st_color_diff_excursion
    (set_st_luma_excursion
       (set_st_color_diff_format_index
          (set_st_frame_height (set_st_frame_width empty_pystate (frame_width f)) (frame_height f))
          (cdf_index f))
       (luma_excursion f))
    (color_diff_excursion f).

Definition state_of_pcm (pcm : Z) : pystate := set_st_picture_coding_mode empty_pystate pcm.

Definition coded_state (f : format) (pcm : Z) : pystate :=
  set_coding_parameters (state_of_pcm pcm) (vp_of_format f).

(* dimensions_and_depths.compute_dimensions_and_depths over the translated pseudocode *)
Definition source_dims (f : format) (pcm : Z) : list dims :=
  let st := coded_state f pcm in
  [ mkDims (st_luma_width st) (st_luma_height st) (st_luma_depth st) (bytes_per_sample_of_depth (st_luma_depth st));
    mkDims (st_color_diff_width st) (st_color_diff_height st) (st_color_diff_depth st)
           (bytes_per_sample_of_depth (st_color_diff_depth st));
    mkDims (st_color_diff_width st) (st_color_diff_height st) (st_color_diff_depth st)
           (bytes_per_sample_of_depth (st_color_diff_depth st)) ].

(* the two `bytes_per_sample = ...` statements of compute_dimensions_and_depths (Gen/BytesPerSample.v) *)
Lemma bytes_per_sample_matches_source : forall depth,
  bytes_per_sample depth = bytes_per_sample_of_depth depth /\ bytes_per_sample_of_depth_dom depth = true.
Proof.
  intros depth. split; [reflexivity|].
  unfold bytes_per_sample_of_depth_dom, intlog2_dom. cbv zeta.
  pose proof (intlog2_nonneg (py_div (depth + 7) 8)) as H.
  replace (0 <=? intlog2 (py_div (depth + 7) 8)) with true by (symmetry; apply Z.leb_le; exact H).
  reflexivity.
Qed.

Lemma pack_length_source : forall depth v,
  length (pack depth v) = Z.to_nat (bytes_per_sample_of_depth depth).
Proof. intros. apply pack_length. Qed.

Lemma sample_roundtrip_source : forall depth v, 1 <= depth -> 0 <= v < 2 ^ depth ->
  unpack depth (le_bytes (Z.to_nat (bytes_per_sample_of_depth depth)) v) = v.
Proof. intros depth v Hd Hv. exact (sample_roundtrip depth v Hd Hv). Qed.

Lemma coded_state_fields : forall f pcm,
  (st_luma_width (coded_state f pcm), st_luma_height (coded_state f pcm)) = luma_dims_wh f pcm /\
  (st_color_diff_width (coded_state f pcm), st_color_diff_height (coded_state f pcm)) = color_diff_dims_wh f pcm /\
  st_luma_depth (coded_state f pcm) = depth_of_excursion (luma_excursion f) /\
  st_color_diff_depth (coded_state f pcm) = depth_of_excursion (color_diff_excursion f).
Proof.
  intros [fw fh cdf le ce o] pcm.
  cbv -[Z.div Z.eqb Z.add intlog2].
  destruct (cdf =? 1); destruct (cdf =? 2); destruct (pcm =? 1); repeat split; reflexivity.
Qed.

Lemma set_coding_parameters_dom_ok : forall f pcm,
  set_coding_parameters_dom (state_of_pcm pcm) (vp_of_format f) = true.
Proof.
  intros [fw fh cdf le ce o] pcm.
  cbv -[Z.div Z.eqb Z.add intlog2].
  destruct (cdf =? 1); destruct (cdf =? 2); destruct (pcm =? 1); reflexivity.
Qed.

Lemma dimensions_match_source : forall f pcm,
  compute_dimensions_and_depths f pcm = source_dims f pcm /\
  set_coding_parameters_dom (state_of_pcm pcm) (vp_of_format f) = true.
Proof.
  intros f pcm. split; [|apply set_coding_parameters_dom_ok].
  destruct (coded_state_fields f pcm) as (H1 & H2 & H3 & H4).
  unfold source_dims, compute_dimensions_and_depths, mk_dims. cbv zeta.
  rewrite <- H1, <- H2, <- H3, <- H4. reflexivity.
Qed.

(* the round trip stated over the translated functions *)
Lemma file_roundtrip_source : forall f pcm pic rest,
  1 <= luma_excursion f -> 1 <= color_diff_excursion f ->
  picture_ok (source_dims f pcm) pic = true ->
  read_picture (source_dims f pcm) (write_picture (source_dims f pcm) pic ++ rest) = Some (pic, rest).
Proof.
  intros f pcm pic rest Hl Hc Hok. destruct (dimensions_match_source f pcm) as [E _].
  rewrite <- E in *. apply picture_roundtrip; [now apply compute_depths_ok | assumption].
Qed.

(* the generated plane sizes stated over the translated functions *)
Lemma component_dims_source : forall f pcm interlaced, (pcm = 0 \/ pcm = 1) -> regular f pcm interlaced = true ->
  let st := coded_state f pcm in
  generated_dims f pcm interlaced =
    Some ((st_luma_width st, st_luma_height st), (st_color_diff_width st, st_color_diff_height st)) /\
  0 < st_luma_width st /\ 0 < st_luma_height st /\ 0 < st_color_diff_width st /\ 0 < st_color_diff_height st.
Proof.
  intros f pcm interlaced Hp Hr. cbv zeta.
  destruct (coded_state_fields f pcm) as (H1 & H2 & _ & _).
  destruct (component_dims f pcm interlaced Hp Hr) as (G & A & B & C & D).
  set (st := coded_state f pcm) in *. clearbody st.
  destruct (luma_dims_wh f pcm) as [lw lh]. destruct (color_diff_dims_wh f pcm) as [cw ch].
  injection H1 as -> ->. injection H2 as -> ->. auto.
Qed.

Lemma clip_in_depth_source : forall f pcm a, 0 <= luma_excursion f -> 0 <= color_diff_excursion f ->
  0 <= clip_sample (luma_excursion f) a <= 2 ^ st_luma_depth (coded_state f pcm) - 1 /\
  0 <= clip_sample (color_diff_excursion f) a <= 2 ^ st_color_diff_depth (coded_state f pcm) - 1.
Proof.
  intros f pcm a Hl Hc. destruct (coded_state_fields f pcm) as (_ & _ & H3 & H4).
  rewrite H3, H4. split; now apply clip_in_depth.
Qed.
