(* Proofs about Model/Wavelet.v: single-level and multi-level analysis/synthesis round trips, padding,
   and the sub-band shapes against the generated slice geometry (Gen/SliceSizes.v). *)
From Coq Require Import ZArith List Bool Lia ZifyBool Arith.
From VC2 Require Import Base.PyZ Gen.StateRec Gen.SliceSizes Model.Lifting Model.Wavelet Proofs.LiftingProofs.
Import ListNotations.
Open Scope Z_scope.
Ltac Zify.zify_post_hook ::= Z.to_euclidean_division_equations.


(* ---- two-step list induction, evens / odds / interleave --------------------------- *)
Lemma list_ind2 {A} (P : list A -> Prop) :
  P [] -> (forall a, P [a]) -> (forall a b l, P l -> P (a :: b :: l)) -> forall l, P l.
Proof. intros H0 H1 H2. fix IH 1. intros [|a [|b l]]; [exact H0|apply H1|apply H2, IH]. Qed.

Lemma even_SS : forall n, Nat.even (S (S n)) = Nat.even n.
Proof. reflexivity. Qed.

Lemma interleave_evens_odds : forall {A} (l : list A), Nat.even (length l) = true ->
  interleave (evens l) (odds l) = l.
Proof.
  intros A l. induction l as [| a | a b l IH] using list_ind2; intros H.
  - reflexivity.
  - discriminate H.
  - cbn [evens odds interleave]. f_equal. f_equal. apply IH. exact H.
Qed.

Lemma evens_length : forall {A} (l : list A), length (evens l) = Nat.div2 (length l).
Proof. intros A l. induction l as [| a | a b l IH] using list_ind2; cbn [evens length Nat.div2]; auto. Qed.
Lemma odds_length : forall {A} (l : list A), length (odds l) = Nat.div2 (length l).
Proof. intros A l. induction l as [| a | a b l IH] using list_ind2; cbn [odds length Nat.div2]; auto. Qed.

Lemma div2_double' : forall n, Nat.div2 (2 * n) = n.
Proof. intros. apply Nat.div2_double. Qed.

Lemma Forall_evens : forall {A} (P : A -> Prop) l, Forall P l -> Forall P (evens l).
Proof.
  intros A P l. induction l as [| a | a b l IH] using list_ind2; intros H; cbn [evens]; auto.
  inversion H as [|? ? Ha H']; subst. inversion H' as [|? ? Hb H'']; subst. constructor; auto.
Qed.
Lemma Forall_odds : forall {A} (P : A -> Prop) l, Forall P l -> Forall P (odds l).
Proof.
  intros A P l. induction l as [| a | a b l IH] using list_ind2; intros H; cbn [odds]; auto.
  inversion H as [|? ? Ha H']; subst. inversion H' as [|? ? Hb H'']; subst. constructor; auto.
Qed.

Lemma evens_interleave : forall {A} (l h : list A), length l = length h -> evens (interleave l h) = l.
Proof.
  intros A l. induction l as [|a l IH]; intros [|b h] H; cbn in H; try discriminate; [reflexivity|].
  cbn [interleave evens]. f_equal. apply IH. lia.
Qed.
Lemma odds_interleave : forall {A} (l h : list A), length l = length h -> odds (interleave l h) = h.
Proof.
  intros A l. induction l as [|a l IH]; intros [|b h] H; cbn in H; try discriminate; [reflexivity|].
  cbn [interleave odds]. f_equal. apply IH. lia.
Qed.
Lemma interleave_length : forall {A} (l h : list A), length l = length h ->
  length (interleave l h) = (2 * length l)%nat.
Proof.
  intros A l. induction l as [|a l IH]; intros [|b h] H; cbn in H; try discriminate; [reflexivity|].
  cbn [interleave length]. rewrite IH by lia. lia.
Qed.

(* ---- map2 ---------------------------------------------------------------------------- *)
Lemma map2_length : forall {A B C} (f : A -> B -> C) l m, length l = length m -> length (map2 f l m) = length l.
Proof.
  intros A B C f l. induction l as [|a l IH]; intros [|b m] H; cbn in H; try discriminate; [reflexivity|].
  cbn [map2 length]. rewrite IH by lia. reflexivity.
Qed.

Lemma map2_interleave_evens_odds : forall (a : arr),
  Forall (fun r => Nat.even (length r) = true) a ->
  map2 interleave (map evens a) (map odds a) = a.
Proof.
  induction a as [|r a IH]; intros H; [reflexivity|].
  inversion H as [|? ? Hr Ha]; subst. cbn [map map2]. rewrite interleave_evens_odds by exact Hr.
  f_equal. apply IH, Ha.
Qed.

(* ---- rect helpers --------------------------------------------------------------------- *)
Lemma rect_nth : forall a h w i, rect a h w -> (i < h)%nat -> length (nth i a []) = w.
Proof.
  intros a h w i [HL HF] Hi. rewrite Forall_forall in HF. apply HF, nth_In. lia.
Qed.

Lemma rect_map : forall f a h w w', rect a h w -> (forall r, length r = w -> length (f r) = w') -> rect (map f a) h w'.
Proof.
  intros f a h w w' [HL HF] Hf. split; [rewrite map_length; exact HL|].
  rewrite Forall_map. eapply Forall_impl; [|exact HF]. exact Hf.
Qed.

Lemma map2_rect : forall (f : list Z -> list Z -> list Z) L H h w w', rect L h w -> rect H h w ->
  (forall r s, length r = w -> length s = w -> length (f r s) = w') -> rect (map2 f L H) h w'.
Proof.
  intros f L. induction L as [|r L IH]; intros [|s H] h w w' [HL1 HF1] [HL2 HF2] Hf; cbn in *; subst h; try discriminate.
  - split; [reflexivity|constructor].
  - inversion HF1; inversion HF2; subst.
    destruct (IH H (length L) (length r) w') as [HL' HF']; [split; auto|split; [lia|auto]|exact Hf|].
    split; [cbn [length]; rewrite HL'; reflexivity|]. constructor; [apply Hf; auto|exact HF'].
Qed.

(* ---- columns ----------------------------------------------------------------------------- *)
Lemma get_col_length : forall a x, length (get_col a x) = length a.
Proof. intros. apply map_length. Qed.

Lemma set_col_rect : forall a x c h w, rect a h w -> length c = h -> rect (set_col a x c) h w.
Proof.
  induction a as [|r a IH]; intros x [|v c] h w [HL HF] Hc; cbn in *; subst h; try discriminate.
  - split; [reflexivity|constructor].
  - inversion HF as [|? ? Hr Ha]; subst.
    destruct (IH x c (length a) (length r)) as [HL' HF']; [split; auto|lia|].
    unfold set_col in *. cbn [map2]. split; [cbn [length]; rewrite HL'; reflexivity|].
    constructor; [apply upd_length|exact HF'].
Qed.

Lemma get_set_same : forall a x c h w, rect a h w -> length c = h -> (x < w)%nat ->
  get_col (set_col a x c) x = c.
Proof.
  induction a as [|r a IH]; intros x [|v c] h w [HL HF] Hc Hx; cbn in *; subst h; try discriminate; [reflexivity|].
  inversion HF as [|? ? Hr Ha]; subst. unfold set_col, get_col in *. cbn [map2 map]. f_equal.
  - apply nth_upd_same. lia.
  - apply (IH x c (length a) (length r)); [split; auto|lia|exact Hx].
Qed.

Lemma get_set_other : forall a x y c, x <> y -> length c = length a ->
  get_col (set_col a x c) y = get_col a y.
Proof.
  induction a as [|r a IH]; intros x y [|v c] Hxy Hc; cbn in *; try discriminate; [reflexivity|].
  unfold set_col, get_col in *. cbn [map2 map]. f_equal.
  - apply nth_upd_other. exact Hxy.
  - apply IH; [exact Hxy|lia].
Qed.

Definition col_step (f : list Z -> list Z) (a : arr) (x : nat) : arr := set_col a x (f (get_col a x)).

Lemma cols_fold_spec : forall f a h w k, rect a h w -> (k <= w)%nat ->
  (forall c, length c = h -> length (f c) = h) ->
  let b := fold_left (col_step f) (seq 0 k) a in
  rect b h w /\ (forall x, (x < k)%nat -> get_col b x = f (get_col a x)) /\
  (forall x, (k <= x)%nat -> get_col b x = get_col a x).
Proof.
  intros f a h w k Ha. induction k as [|k IH]; intros Hk Hf.
  - cbn. split; [exact Ha|]. split; [intros; lia|reflexivity].
  - rewrite seq_S, fold_left_app. cbn [fold_left plus].
    destruct IH as (Hb & Hlt & Hge); [lia|exact Hf|].
    set (b := fold_left (col_step f) (seq 0 k) a) in *.
    assert (Hlen : length (f (get_col b k)) = h).
    { apply Hf. rewrite get_col_length. apply Hb. }
    unfold col_step. split; [apply set_col_rect; assumption|]. split.
    + intros x Hx. destruct (Nat.eq_dec x k) as [->|Hne].
      * rewrite (get_set_same b k _ h w) by (auto; lia). rewrite Hge by lia. reflexivity.
      * rewrite get_set_other by (try lia; rewrite Hlen; symmetry; apply Hb). apply Hlt. lia.
    + intros x Hx. rewrite get_set_other by (try lia; rewrite Hlen; symmetry; apply Hb). apply Hge. lia.
Qed.

Lemma rect_width : forall a h w, rect a (S h) w -> width a = w.
Proof.
  intros [|r a] h w [HL HF]; [discriminate|]. inversion HF; subst. reflexivity.
Qed.

Lemma cols_spec : forall f a h w, rect a (S h) w ->
  (forall c, length c = S h -> length (f c) = S h) ->
  rect (cols f a) (S h) w /\ (forall x, (x < w)%nat -> get_col (cols f a) x = f (get_col a x)).
Proof.
  intros f a h w Ha Hf. unfold cols. rewrite (rect_width a h w Ha).
  destruct (cols_fold_spec f a (S h) w w Ha (le_n w) Hf) as (H1 & H2 & _). split; assumption.
Qed.

Lemma col_ext : forall a b h w, rect a h w -> rect b h w ->
  (forall x, (x < w)%nat -> get_col a x = get_col b x) -> a = b.
Proof.
  induction a as [|r a IH]; intros [|s b] h w [HLa HFa] [HLb HFb] H; cbn in *; subst h; try discriminate; [reflexivity|].
  inversion HFa as [|? ? Hr Ha]; inversion HFb as [|? ? Hs Hb]; subst. f_equal.
  - apply nth_ext with (d := 0) (d' := 0); [congruence|].
    intros x Hx. specialize (H x Hx). unfold get_col in H. cbn [map] in H. congruence.
  - apply (IH b (length a) (length r)); [split; auto|split; [lia|auto]|].
    intros x Hx. specialize (H x Hx). unfold get_col in *. cbn [map] in H. congruence.
Qed.

Lemma cols_nil : forall f, cols f [] = [].
Proof. reflexivity. Qed.

Lemma cols_rect : forall f a h w, rect a h w -> (forall c, length c = h -> length (f c) = h) -> rect (cols f a) h w.
Proof.
  intros f a [|h] w Ha Hf.
  - destruct a; [exact Ha|destruct Ha; discriminate].
  - apply cols_spec; assumption.
Qed.

Lemma cols_inverse : forall f g a h w, rect a h w ->
  (forall c, length c = h -> length (f c) = h) ->
  (forall c, length c = h -> length (g c) = h) ->
  (forall c, length c = h -> g (f c) = c) ->
  cols g (cols f a) = a.
Proof.
  intros f g a [|h] w Ha Hf Hg Hgf.
  - destruct a; [reflexivity|destruct Ha; discriminate].
  - destruct (cols_spec f a h w Ha Hf) as [Hb Hbc].
    destruct (cols_spec g (cols f a) h w Hb Hg) as [Hc Hcc].
    apply (col_ext _ _ (S h) w Hc Ha). intros x Hx.
    rewrite Hcc, Hbc by exact Hx. apply Hgf. rewrite get_col_length. apply Ha.
Qed.

(* ---- rows ---------------------------------------------------------------------------------- *)
Lemma rows_inverse : forall f g a h w, rect a h w -> (forall r, length r = w -> g (f r) = r) -> rows g (rows f a) = a.
Proof.
  intros f g a h w [_ HF] H. unfold rows. rewrite map_map. rewrite <- (map_id a) at 2.
  apply map_ext_in. intros r Hr. apply H. rewrite Forall_forall in HF. apply HF, Hr.
Qed.

(* ---- bit shift ---------------------------------------------------------------------------- *)
Lemma shift_down_up_z : forall s v, 0 < s -> py_shr (py_shl v s + py_shl 1 (s - 1)) s = v.
Proof.
  intros s v Hs. unfold py_shr, py_shl. rewrite Z.shiftr_div_pow2, !Z.shiftl_mul_pow2 by lia.
  replace (2 ^ s) with (2 * 2 ^ (s - 1)) by (rewrite <- Z.pow_succ_r by lia; f_equal; lia).
  assert (0 < 2 ^ (s - 1)) by (apply Z.pow_pos_nonneg; lia).
  nia.
Qed.

Lemma shift_down_up : forall s a, shift_down s (shift_up s a) = a.
Proof.
  intros s a. unfold shift_down, shift_up. destruct (s >? 0) eqn:E; [|reflexivity].
  rewrite map_map. rewrite <- (map_id a) at 2. apply map_ext. intros r.
  rewrite map_map. rewrite <- (map_id r) at 2. apply map_ext. intros v. apply shift_down_up_z. lia.
Qed.

Lemma shift_up_rect : forall s a h w, rect a h w -> rect (shift_up s a) h w.
Proof.
  intros s a h w Ha. unfold shift_up. destruct (s >? 0); [|exact Ha].
  eapply rect_map; [exact Ha|]. intros r Hr. rewrite map_length. exact Hr.
Qed.

(* ---- single level --------------------------------------------------------------------------- *)
Lemma even_2n : forall n, Nat.even (2 * n) = true.
Proof. intros n. rewrite Nat.even_mul. reflexivity. Qed.

Lemma Forall_even_rows : forall a h w, rect a h (2 * w) -> Forall (fun r => Nat.even (length r) = true) a.
Proof. intros a h w [_ HF]. eapply Forall_impl; [|exact HF]. cbv beta. intros r ->. apply even_2n. Qed.

Lemma rect_evens_rows : forall a h w, rect a (2 * h) w -> rect (evens a) h w.
Proof. intros a h w [HL HF]. split; [rewrite evens_length, HL; apply div2_double'|apply Forall_evens, HF]. Qed.
Lemma rect_odds_rows : forall a h w, rect a (2 * h) w -> rect (odds a) h w.
Proof. intros a h w [HL HF]. split; [rewrite odds_length, HL; apply div2_double'|apply Forall_odds, HF]. Qed.
Lemma rect_map_evens : forall a h w, rect a h (2 * w) -> rect (map evens a) h w.
Proof. intros a h w H. eapply rect_map; [exact H|]. intros r Hr. rewrite evens_length, Hr. apply div2_double'. Qed.
Lemma rect_map_odds : forall a h w, rect a h (2 * w) -> rect (map odds a) h w.
Proof. intros a h w H. eapply rect_map; [exact H|]. intros r Hr. rewrite odds_length, Hr. apply div2_double'. Qed.

Lemma rows_rect : forall f a h w, rect a h w -> (forall r, length (f r) = length r) -> rect (rows f a) h w.
Proof. intros f a h w H Hf. eapply rect_map; [exact H|]. intros r Hr. rewrite Hf. exact Hr. Qed.

Section Level.
  Variables fv fh : filter.

  (* the array just before de-interleaving *)
  Definition h_pre (data : arr) : arr := rows (oned_analysis (f_stages fh)) (shift_up (f_shift fh) data).
  Definition vh_pre (data : arr) : arr := cols (oned_analysis (f_stages fv)) (h_pre data).

  Lemma h_pre_rect : forall data h w, rect data h w -> rect (h_pre data) h w.
  Proof. intros. apply rows_rect; [apply shift_up_rect; assumption|apply oned_analysis_length]. Qed.
  Lemma vh_pre_rect : forall data h w, rect data h w -> rect (vh_pre data) h w.
  Proof. intros. apply cols_rect; [apply h_pre_rect; assumption|]. intros c Hc. rewrite oned_analysis_length. exact Hc. Qed.

  Lemma h_pre_undo : forall data h w, rect data h (2 * w) ->
    shift_down (f_shift fh) (rows (oned_synthesis (f_stages fh)) (h_pre data)) = data.
  Proof.
    intros data h w Hd. unfold h_pre.
    rewrite (rows_inverse _ _ _ h (2 * w)%nat); [apply shift_down_up|apply shift_up_rect, Hd|].
    intros r Hr. apply oned_roundtrip. rewrite Hr. apply even_2n.
  Qed.

  Lemma vh_pre_undo : forall data h w, rect data (2 * h) (2 * w) ->
    shift_down (f_shift fh) (rows (oned_synthesis (f_stages fh)) (cols (oned_synthesis (f_stages fv)) (vh_pre data))) = data.
  Proof.
    intros data h w Hd. unfold vh_pre.
    rewrite (cols_inverse _ _ _ (2 * h)%nat (2 * w)%nat).
    - apply (h_pre_undo data (2 * h)%nat w Hd).
    - apply h_pre_rect, Hd.
    - intros c Hc. rewrite oned_analysis_length. exact Hc.
    - intros c Hc. rewrite oned_synthesis_length. exact Hc.
    - intros c Hc. apply oned_roundtrip. rewrite Hc. apply even_2n.
  Qed.

  Theorem h_roundtrip : forall data h w, rect data h (2 * w) ->
    let '(L, H) := h_analysis fh data in
    h_synthesis fh L H = data /\ rect L h w /\ rect H h w.
  Proof.
    intros data h w Hd. unfold h_analysis, h_synthesis. fold (h_pre data).
    pose proof (h_pre_rect data h (2 * w)%nat Hd) as Hp.
    rewrite map2_interleave_evens_odds by (eapply Forall_even_rows; exact Hp).
    split; [apply (h_pre_undo data h w Hd)|]. split; [apply rect_map_evens|apply rect_map_odds]; exact Hp.
  Qed.

  Theorem vh_roundtrip : forall data h w, rect data (2 * h) (2 * w) ->
    let '(LL, HL, LH, HH) := vh_analysis fv fh data in
    vh_synthesis fv fh LL HL LH HH = data /\ rect LL h w /\ rect HL h w /\ rect LH h w /\ rect HH h w.
  Proof.
    intros data h w Hd. unfold vh_analysis, vh_synthesis. fold (h_pre data). fold (vh_pre data).
    pose proof (vh_pre_rect data (2 * h)%nat (2 * w)%nat Hd) as Hp.
    pose proof (rect_evens_rows _ _ _ Hp) as He. pose proof (rect_odds_rows _ _ _ Hp) as Ho.
    rewrite !map2_interleave_evens_odds by (eapply Forall_even_rows; eassumption).
    rewrite interleave_evens_odds by (rewrite (proj1 Hp); apply even_2n).
    split; [apply (vh_pre_undo data h w Hd)|].
    split; [apply rect_map_evens, He|]. split; [apply rect_map_odds, He|]. split; [apply rect_map_evens, Ho|apply rect_map_odds, Ho].
  Qed.
End Level.

(* ---- multi level ------------------------------------------------------------------------------ *)
Definition vh3_rect (t : arr * arr * arr) (h w : nat) : Prop :=
  let '(a, b, c) := t in rect a h w /\ rect b h w /\ rect c h w.

Section Multi.
  Variables fv fh : filter.

  Definition vh_synth_step (dc : arr) (t : arr * arr * arr) : arr :=
    let '(HL, LH, HH) := t in vh_synthesis fv fh dc HL LH HH.
  Definition h_synth_step (dc H : arr) : arr := h_synthesis fh dc H.

  Lemma dwt_vh_spec : forall d pic h w dc lv,
    rect pic (2 ^ d * h) (2 ^ d * w) -> dwt_vh fv fh d pic = (dc, lv) ->
    rect dc h w /\ length lv = d /\ fold_left vh_synth_step lv dc = pic /\
    (forall i, (i < d)%nat -> vh3_rect (nth i lv ([], [], [])) (2 ^ i * h) (2 ^ i * w)).
  Proof.
    induction d as [|d IH]; intros pic h w dc lv Hp E.
    - cbn [dwt_vh] in E. injection E as <- <-. cbn [Nat.pow] in Hp. rewrite !Nat.mul_1_l in Hp.
      split; [exact Hp|]. split; [reflexivity|]. split; [reflexivity|]. intros i Hi; lia.
    - cbn [dwt_vh] in E.
      replace (2 ^ S d * h)%nat with (2 * (2 ^ d * h))%nat in Hp by (rewrite Nat.pow_succ_r'; lia).
      replace (2 ^ S d * w)%nat with (2 * (2 ^ d * w))%nat in Hp by (rewrite Nat.pow_succ_r'; lia).
      pose proof (vh_roundtrip fv fh pic _ _ Hp) as HR.
      destruct (vh_analysis fv fh pic) as [[[LL HL] LH] HH].
      destruct HR as (Hsyn & HLL & HHL & HLH & HHH).
      destruct (dwt_vh fv fh d LL) as [dc' lv'] eqn:ED. injection E as <- <-.
      destruct (IH LL h w dc' lv' HLL ED) as (Hdc & Hlen & Hfold & Hsh).
      split; [exact Hdc|]. split; [rewrite app_length, Hlen; cbn; lia|]. split.
      + rewrite fold_left_app. cbn [fold_left]. rewrite Hfold. exact Hsyn.
      + intros i Hi. destruct (Nat.eq_dec i d) as [->|Hne].
        * rewrite app_nth2 by lia. rewrite Hlen, Nat.sub_diag. cbn [nth vh3_rect]. auto.
        * rewrite app_nth1 by lia. apply Hsh. lia.
  Qed.

  Lemma dwt_ho_spec : forall dh pic h w dc lv,
    rect pic h (2 ^ dh * w) -> dwt_ho fh dh pic = (dc, lv) ->
    rect dc h w /\ length lv = dh /\ fold_left h_synth_step lv dc = pic /\
    (forall i, (i < dh)%nat -> rect (nth i lv []) h (2 ^ i * w)).
  Proof.
    induction dh as [|dh IH]; intros pic h w dc lv Hp E.
    - cbn [dwt_ho] in E. injection E as <- <-. cbn [Nat.pow] in Hp. rewrite !Nat.mul_1_l in Hp.
      split; [exact Hp|]. split; [reflexivity|]. split; [reflexivity|]. intros i Hi; lia.
    - cbn [dwt_ho] in E.
      replace (2 ^ S dh * w)%nat with (2 * (2 ^ dh * w))%nat in Hp by (rewrite Nat.pow_succ_r'; lia).
      pose proof (h_roundtrip fh pic _ _ Hp) as HR.
      destruct (h_analysis fh pic) as [L H].
      destruct HR as (Hsyn & HL & HH).
      destruct (dwt_ho fh dh L) as [dc' lv'] eqn:ED. injection E as <- <-.
      destruct (IH L h w dc' lv' HL ED) as (Hdc & Hlen & Hfold & Hsh).
      split; [exact Hdc|]. split; [rewrite app_length, Hlen; cbn; lia|]. split.
      + rewrite fold_left_app. cbn [fold_left]. rewrite Hfold. exact Hsyn.
      + intros i Hi. destruct (Nat.eq_dec i dh) as [->|Hne].
        * rewrite app_nth2 by lia. rewrite Hlen, Nat.sub_diag. cbn [nth]. exact HH.
        * rewrite app_nth1 by lia. apply Hsh. lia.
  Qed.

  (* all depths, all (already padded) sizes *)
  Theorem idwt_dwt : forall d dh pic h w, 0 <= d -> 0 <= dh ->
    rect pic (2 ^ Z.to_nat d * h) (2 ^ Z.to_nat d * (2 ^ Z.to_nat dh * w)) ->
    idwt fv fh d dh (dwt fv fh d dh pic) = pic.
  Proof.
    intros d dh pic h w Hd Hdh Hp. unfold dwt, idwt.
    destruct (dwt_vh fv fh (Z.to_nat d) pic) as [dc1 vh] eqn:E1.
    destruct (dwt_vh_spec _ _ _ _ _ _ Hp E1) as (Hdc1 & Hl1 & Hf1 & _).
    destruct (dwt_ho fh (Z.to_nat dh) dc1) as [dc ho] eqn:E2.
    destruct (dwt_ho_spec _ _ _ _ _ _ Hdc1 E2) as (Hdc & Hl2 & Hf2 & _).
    cbn [c_dc c_ho c_vh].
    rewrite <- Hl2 at 1. rewrite <- Hl1 at 1. rewrite !firstn_all.
    change (fold_left vh_synth_step vh (fold_left h_synth_step ho dc) = pic).
    rewrite Hf2. exact Hf1.
  Qed.
End Multi.

(* ---- padding ------------------------------------------------------------------------------------ *)
Lemma firstn_app_exact : forall {A} (l m : list A), firstn (length l) (l ++ m) = l.
Proof. intros. rewrite firstn_app, firstn_all, Nat.sub_diag. cbn. apply app_nil_r. Qed.

Lemma last_In : forall {A} (l : list A) d, l <> [] -> In (last l d) l.
Proof.
  induction l as [|a l IH]; intros d H; [congruence|].
  destruct l as [|b l]; [left; reflexivity|]. right. apply IH. discriminate.
Qed.

Lemma pad_rect : forall pic h w ph pw, rect pic h w -> (1 <= h)%nat -> (w <= pw)%nat -> (h <= ph)%nat ->
  rect (pad_rows ph (map (pad_row pw) pic)) ph pw.
Proof.
  intros pic h w ph pw Hp Hh Hw Hph.
  assert (H1 : rect (map (pad_row pw) pic) h pw).
  { eapply rect_map; [exact Hp|]. intros r Hr. unfold pad_row. rewrite app_length, repeat_length. lia. }
  destruct H1 as [HL HF]. unfold pad_rows. split.
  - rewrite app_length, repeat_length. lia.
  - apply Forall_app. split; [exact HF|]. apply Forall_forall. intros r Hr. apply repeat_spec in Hr. subst r.
    rewrite Forall_forall in HF. apply HF, last_In. intro E. rewrite E in HL. cbn in HL. lia.
Qed.

Lemma pad_removal : forall pic h w ph pw, rect pic h w ->
  map (firstn w) (firstn h (pad_rows ph (map (pad_row pw) pic))) = pic.
Proof.
  intros pic h w ph pw [HL HF]. unfold pad_rows.
  replace h with (length (map (pad_row pw) pic)) by (rewrite map_length; exact HL).
  rewrite firstn_app_exact, map_map. rewrite <- (map_id pic) at 2. apply map_ext_in. intros r Hr.
  rewrite Forall_forall in HF. rewrite <- (HF r Hr). apply firstn_app_exact.
Qed.

(* ---- arithmetic of the generated slice geometry ---------------------------------------------------- *)
Definition ceil_div (a k : Z) : Z := (a + k - 1) / k.

Lemma pow2_pos : forall k, 0 <= k -> 0 < 2 ^ k.
Proof. intros. apply Z.pow_pos_nonneg; lia. Qed.

Lemma div_pow2 : forall a b q, 0 <= a -> 0 <= b -> (2 ^ (a + b) * q) / 2 ^ b = 2 ^ a * q.
Proof.
  intros a b q Ha Hb. rewrite Z.pow_add_r by assumption.
  replace (2 ^ a * 2 ^ b * q) with (2 ^ a * q * 2 ^ b) by ring.
  apply Z.div_mul. pose proof (pow2_pos b Hb). lia.
Qed.

Lemma subband_width_eq : forall st level c,
  let d := st_dwt_depth st in let dh := st_dwt_depth_ho st in
  0 <= d -> 0 <= dh -> 0 <= level <= dh + d + 1 ->
  subband_width st level c =
  if level =? 0 then ceil_div (comp_width st c) (2 ^ (dh + d))
  else 2 ^ (level - 1) * ceil_div (comp_width st c) (2 ^ (dh + d)).
Proof.
  intros st level c d dh Hd Hdh Hl. subst d dh.
  assert (E0 : forall q, 2 ^ (st_dwt_depth_ho st + st_dwt_depth st) * q / 2 ^ (st_dwt_depth_ho st + st_dwt_depth st) = q).
  { intros q. replace (st_dwt_depth_ho st + st_dwt_depth st) with (0 + (st_dwt_depth_ho st + st_dwt_depth st)) at 1 by lia.
    rewrite div_pow2 by lia. lia. }
  assert (E1 : forall q, level <> 0 -> 2 ^ (st_dwt_depth_ho st + st_dwt_depth st) * q / 2 ^ (st_dwt_depth_ho st + st_dwt_depth st - level + 1) = 2 ^ (level - 1) * q).
  { intros q Hne. replace (st_dwt_depth_ho st + st_dwt_depth st) with ((level - 1) + (st_dwt_depth_ho st + st_dwt_depth st - level + 1)) at 1 by lia.
    apply div_pow2; lia. }
  unfold subband_width, comp_width, ceil_div, py_shl, py_div. rewrite !Z.shiftl_1_l.
  destruct c; cbn [pystr_eqb pystr_code Z.eqb orb];
    (destruct (level =? 0) eqn:L0; [apply E0|];
     destruct (level <=? st_dwt_depth_ho st) eqn:L1; [apply E1; lia|];
     destruct (level >? st_dwt_depth_ho st) eqn:L2; [apply E1; lia|lia]).
Qed.

Lemma subband_height_eq : forall st level c,
  let d := st_dwt_depth st in let dh := st_dwt_depth_ho st in
  0 <= d -> 0 <= dh -> 0 <= level <= dh + d + 1 ->
  subband_height st level c =
  if level <=? dh then ceil_div (comp_height st c) (2 ^ d)
  else 2 ^ (level - dh - 1) * ceil_div (comp_height st c) (2 ^ d).
Proof.
  intros st level c d dh Hd Hdh Hl. subst d dh.
  assert (E0 : forall q, 2 ^ (st_dwt_depth st) * q / 2 ^ (st_dwt_depth st) = q).
  { intros q. replace (st_dwt_depth st) with (0 + st_dwt_depth st) at 1 by lia.
    rewrite div_pow2 by lia. lia. }
  assert (E1 : forall q, st_dwt_depth_ho st < level -> 2 ^ (st_dwt_depth st) * q / 2 ^ (st_dwt_depth_ho st + st_dwt_depth st - level + 1) = 2 ^ (level - st_dwt_depth_ho st - 1) * q).
  { intros q Hne. replace (st_dwt_depth st) with ((level - st_dwt_depth_ho st - 1) + (st_dwt_depth_ho st + st_dwt_depth st - level + 1)) at 1 by lia.
    apply div_pow2; lia. }
  unfold subband_height, comp_height, ceil_div, py_shl, py_div. rewrite !Z.shiftl_1_l.
  destruct c; cbn [pystr_eqb pystr_code Z.eqb orb];
    (destruct (level =? 0) eqn:L0; [replace (level <=? st_dwt_depth_ho st) with true by lia; apply E0|];
     destruct (level <=? st_dwt_depth_ho st) eqn:L1; [apply E0|];
     destruct (level >? st_dwt_depth_ho st) eqn:L2; [apply E1; lia|lia]).
Qed.

Lemma ceil_div_ge : forall a k, 0 < k -> a <= k * ceil_div a k.
Proof. intros a k Hk. unfold ceil_div. lia. Qed.
Lemma ceil_div_pos : forall a k, 0 < k -> 1 <= a -> 1 <= ceil_div a k.
Proof. intros a k Hk Ha. unfold ceil_div. nia. Qed.

Lemma to_nat_pow2 : forall k, 0 <= k -> Z.to_nat (2 ^ k) = (2 ^ Z.to_nat k)%nat.
Proof. intros k Hk. rewrite Z2Nat.inj_pow by lia. reflexivity. Qed.

(* ---- the property ------------------------------------------------------------------------------------ *)
Lemma rect_of_shape : forall a H W, has_shape a H W -> rect a (Z.to_nat H) (Z.to_nat W).
Proof.
  intros a H W [HL HF]. split; [lia|]. eapply Forall_impl; [|exact HF]. cbv beta. intros r Hr. lia.
Qed.
Lemma shape_of_rect : forall a h w H W, rect a h w -> Z.of_nat h = H -> Z.of_nat w = W -> has_shape a H W.
Proof.
  intros a h w H W [HL HF] EH EW. split; [lia|]. eapply Forall_impl; [|exact HF]. cbv beta. intros r Hr. lia.
Qed.

Lemma of_nat_pow2_mul : forall k q, 0 <= k -> 0 <= q -> Z.of_nat (2 ^ Z.to_nat k * Z.to_nat q) = 2 ^ k * q.
Proof.
  intros k q Hk Hq. rewrite Nat2Z.inj_mul, Nat2Z.inj_pow, !Z2Nat.id by lia. reflexivity.
Qed.

Section Property.
  Variables (fv fh : filter) (st : pystate) (c : pystr).
  Let d := st_dwt_depth st.
  Let dh := st_dwt_depth_ho st.
  Let w := comp_width st c.
  Let h := comp_height st c.
  Let qw := ceil_div w (2 ^ (dh + d)).
  Let qh := ceil_div h (2 ^ d).
  Hypothesis Hd : 0 <= d.
  Hypothesis Hdh : 0 <= dh.
  Hypothesis Hw : 1 <= w.
  Hypothesis Hh : 1 <= h.

  Lemma qw_pos : 1 <= qw.
  Proof. apply ceil_div_pos; [apply pow2_pos; lia|exact Hw]. Qed.
  Lemma qh_pos : 1 <= qh.
  Proof. apply ceil_div_pos; [apply pow2_pos; lia|exact Hh]. Qed.

  Lemma padded_rect : forall pic, has_shape pic h w ->
    rect (dwt_pad_addition st c pic) (2 ^ Z.to_nat d * Z.to_nat qh) (2 ^ Z.to_nat d * (2 ^ Z.to_nat dh * Z.to_nat qw)).
  Proof.
    intros pic Hs. pose proof qw_pos as Hqw. pose proof qh_pos as Hqh.
    unfold dwt_pad_addition. fold d dh.
    rewrite (subband_width_eq st (d + dh + 1) c), (subband_height_eq st (d + dh + 1) c) by (fold d dh; lia).
    fold d dh w h qw qh.
    replace (d + dh + 1 =? 0) with false by lia. replace (d + dh + 1 <=? dh) with false by lia.
    replace (d + dh + 1 - 1) with (dh + d) by lia. replace (d + dh + 1 - dh - 1) with d by lia.
    assert (Ew : Z.to_nat (2 ^ (dh + d) * qw) = (2 ^ Z.to_nat d * (2 ^ Z.to_nat dh * Z.to_nat qw))%nat).
    { apply Nat2Z.inj. rewrite Nat.mul_assoc, Nat2Z.inj_mul, <- Nat.pow_add_r, Nat2Z.inj_pow.
      rewrite Z2Nat.id by (pose proof (pow2_pos (dh + d)); nia).
      rewrite Nat2Z.inj_add, !Z2Nat.id by lia. f_equal. f_equal. lia. }
    assert (Eh : Z.to_nat (2 ^ d * qh) = (2 ^ Z.to_nat d * Z.to_nat qh)%nat).
    { apply Nat2Z.inj. rewrite of_nat_pow2_mul by lia. apply Z2Nat.id. pose proof (pow2_pos d); nia. }
    rewrite <- Ew, <- Eh.
    apply (pad_rect pic (Z.to_nat h) (Z.to_nat w)); [apply rect_of_shape, Hs|lia| |].
    - pose proof (ceil_div_ge w (2 ^ (dh + d)) (pow2_pos _ (Z.add_nonneg_nonneg _ _ Hdh Hd))) as H. fold qw in H.
      apply Z2Nat.inj_le; lia.
    - pose proof (ceil_div_ge h (2 ^ d) (pow2_pos _ Hd)) as H. fold qh in H.
      apply Z2Nat.inj_le; lia.
  Qed.

  Theorem round_trip_exact : forall pic, has_shape pic h w -> round_trip fv fh st c pic = pic.
  Proof.
    intros pic Hs. unfold round_trip. fold d dh.
    rewrite (idwt_dwt fv fh d dh _ _ _ Hd Hdh (padded_rect pic Hs)).
    unfold idwt_pad_removal, dwt_pad_addition. fold w h.
    apply pad_removal. apply rect_of_shape, Hs.
  Qed.

  Theorem dwt_shapes : forall pic, has_shape pic h w ->
    let cf := dwt fv fh d dh (dwt_pad_addition st c pic) in
    has_shape (c_dc cf) (subband_height st 0 c) (subband_width st 0 c) /\
    Z.of_nat (length (c_ho cf)) = dh /\ Z.of_nat (length (c_vh cf)) = d /\
    (forall level, 1 <= level <= dh ->
       has_shape (nth (Z.to_nat (level - 1)) (c_ho cf) []) (subband_height st level c) (subband_width st level c)) /\
    (forall level, dh + 1 <= level <= dh + d ->
       vh3_shape (nth (Z.to_nat (level - dh - 1)) (c_vh cf) ([], [], [])) (subband_height st level c) (subband_width st level c)).
  Proof.
    intros pic Hs. pose proof qw_pos as Hqw. pose proof qh_pos as Hqh.
    pose proof (padded_rect pic Hs) as HP. cbv zeta. unfold dwt.
    destruct (dwt_vh fv fh (Z.to_nat d) (dwt_pad_addition st c pic)) as [dc1 vh] eqn:E1.
    destruct (dwt_vh_spec _ _ _ _ _ _ _ _ HP E1) as (Hdc1 & Hl1 & _ & Hs1).
    destruct (dwt_ho fh (Z.to_nat dh) dc1) as [dc ho] eqn:E2.
    destruct (dwt_ho_spec _ _ _ _ _ _ _ Hdc1 E2) as (Hdc & Hl2 & _ & Hs2).
    cbn [c_dc c_ho c_vh].
    assert (SW : forall level, 0 <= level <= dh + d + 1 -> subband_width st level c =
              if level =? 0 then qw else 2 ^ (level - 1) * qw).
    { intros level Hl. apply subband_width_eq; fold d dh; lia. }
    assert (SH : forall level, 0 <= level <= dh + d + 1 -> subband_height st level c =
              if level <=? dh then qh else 2 ^ (level - dh - 1) * qh).
    { intros level Hl. apply subband_height_eq; fold d dh; lia. }
    split; [|split; [lia|split; [lia|split]]].
    - rewrite SW, SH by lia. replace (0 <=? dh) with true by lia. cbn [Z.eqb].
      eapply shape_of_rect; [exact Hdc|lia|lia].
    - intros level Hl. rewrite SW, SH by lia.
      replace (level =? 0) with false by lia. replace (level <=? dh) with true by lia.
      eapply shape_of_rect; [apply Hs2; lia|lia|]. apply of_nat_pow2_mul; lia.
    - intros level Hl. rewrite SW, SH by lia.
      replace (level =? 0) with false by lia. replace (level <=? dh) with false by lia.
      specialize (Hs1 (Z.to_nat (level - dh - 1)) ltac:(lia)).
      destruct (nth (Z.to_nat (level - dh - 1)) vh ([], [], [])) as [[HL LH] HH].
      destruct Hs1 as (R1 & R2 & R3).
      assert (EH : Z.of_nat (2 ^ Z.to_nat (level - dh - 1) * Z.to_nat qh) = 2 ^ (level - dh - 1) * qh)
        by (apply of_nat_pow2_mul; lia).
      assert (EW : Z.of_nat (2 ^ Z.to_nat (level - dh - 1) * (2 ^ Z.to_nat dh * Z.to_nat qw)) = 2 ^ (level - 1) * qw).
      { rewrite Nat2Z.inj_mul, Nat2Z.inj_pow, of_nat_pow2_mul, Z2Nat.id by lia.
        rewrite Z.mul_assoc, <- Z.pow_add_r by lia. f_equal. f_equal. lia. }
      cbn [vh3_shape]. repeat split; try (eapply shape_of_rect; [eassumption|exact EH|exact EW]).
  Qed.
End Property.
