From Coq Require Import ZArith List Bool Lia ZifyBool.
From VC2 Require Import Base.PyZ Gen.StateRec Gen.ParseCodes Gen.Version Gen.Consts Model.Autofill.
Import ListNotations.
Open Scope Z_scope.


(* Proofs about Model/Autofill.v (C07). *)
Lemma po_unit_explicit_npo : forall d u v, u_npo u = Explicit v ->
  u_npo (m_unit (po_unit d u)) = Explicit v /\ m_npo_todo (po_unit d u) = false.
Proof.
  intros d u v Hn. unfold po_unit.
  assert (Hp : po_padaux d u = Explicit v).
  { unfold po_padaux. rewrite Hn. cbn [is_autoish].
    destruct (u_parse_code u) as [pc|]; [|reflexivity].
    destruct (pc =? PC_AUXILIARY_DATA); [reflexivity|]. destruct (pc =? PC_PADDING_DATA); reflexivity. }
  rewrite Hp. cbn [is_autoish m_unit m_npo_todo].
  destruct (is_autoish (u_ppo u)); cbn; auto.
Qed.
