(* Proofs about Model/Autofill.v against Model/AutofillSpec.v (C07). *)
From Coq Require Import ZArith List Bool Lia ZifyBool.
From VC2 Require Import Base.PyZ Gen.StateRec Gen.ParseCodes Gen.Version Gen.Consts Model.Autofill Model.AutofillSpec.
Import ListNotations.
Open Scope Z_scope.
Ltac Zify.zify_post_hook ::= Z.to_euclidean_division_equations.
Ltac splits := repeat match goal with |- _ /\ _ => split end.

(* ---------- generic list lemmas ---------- *)
Lemma Forall2_refl_on {A} (R : A -> A -> Prop) : (forall x, R x x) -> forall l, Forall2 R l l.
Proof. intros H l; induction l; constructor; auto. Qed.

Lemma Forall2_trans {A} (R : A -> A -> Prop) :
  (forall x y z, R x y -> R y z -> R x z) ->
  forall l1 l2 l3, Forall2 R l1 l2 -> Forall2 R l2 l3 -> Forall2 R l1 l3.
Proof.
  intros HT l1 l2 l3 H12; revert l3; induction H12; intros l3 H23; inversion H23; subst; constructor; eauto.
Qed.

Lemma Forall2_map_r {A B} (R : A -> B -> Prop) (f : A -> B) :
  (forall x, R x (f x)) -> forall l, Forall2 R l (map f l).
Proof. intros H l; induction l; cbn; constructor; auto. Qed.

(* ---------- preservation relation ---------- *)
Lemma af_pres_refl f : af_pres f f.
Proof. intros v H; exact H. Qed.
Lemma af_pres_trans f g h : af_pres f g -> af_pres g h -> af_pres f h.
Proof. intros H1 H2 v H; auto. Qed.
Lemma tp_pres_refl t : tp_pres t t.
Proof. split; auto. Qed.
Lemma tp_pres_trans a b c : tp_pres a b -> tp_pres b c -> tp_pres a c.
Proof.
  intros [H1 H2] [H3 H4]; split; [congruence|].
  destruct H4 as [H4|H4]; [|auto]. destruct H2 as [H2|H2]; [left|right]; congruence.
Qed.
Lemma sh_pres_refl h : sh_pres h h.
Proof. unfold sh_pres; splits; auto using af_pres_refl. Qed.
Lemma sh_pres_trans a b c : sh_pres a b -> sh_pres b c -> sh_pres a c.
Proof.
  unfold sh_pres; intros (A1&A2&A3&A4&A5&A6&A7&A8) (B1&B2&B3&B4&B5&B6&B7&B8).
  splits; try congruence. eapply af_pres_trans; eauto.
Qed.
Lemma unit_pres_refl u : unit_pres u u.
Proof. unfold unit_pres; splits; auto using af_pres_refl, sh_pres_refl, tp_pres_refl. Qed.
Lemma unit_pres_trans a b c : unit_pres a b -> unit_pres b c -> unit_pres a c.
Proof.
  unfold unit_pres.
  intros (A1&A2&A3&A4&A5&A6&A7&A8&A9&A10&A11&A12) (B1&B2&B3&B4&B5&B6&B7&B8&B9&B10&B11&B12).
  splits; try congruence; eauto using af_pres_trans, sh_pres_trans, tp_pres_trans.
Qed.

Definition stream_pres := Forall2 (Forall2 unit_pres).
Lemma stream_pres_trans a b c : stream_pres a b -> stream_pres b c -> stream_pres a c.
Proof.
  apply Forall2_trans. intros x y z. apply Forall2_trans. apply unit_pres_trans.
Qed.

(* ---------- picture numbers: preservation ---------- *)
Lemma pn_unit_pres d last u : unit_pres u (fst (pn_unit d last u)).
Proof.
  unfold pn_unit. destruct (pn_kind u) eqn:K; cbn [fst]; try apply unit_pres_refl.
  - unfold unit_pres; cbn. splits; auto using af_pres_refl, sh_pres_refl, tp_pres_refl.
    intros v Hv. unfold pn_value, pn_field. rewrite K, Hv. reflexivity.
  - unfold unit_pres; cbn. splits; auto using af_pres_refl, sh_pres_refl, tp_pres_refl.
    intros v Hv. unfold pn_value, pn_field. rewrite K, Hv. reflexivity.
Qed.

Lemma pn_seq_pres d : forall us last, Forall2 unit_pres us (pn_seq d last us).
Proof.
  induction us as [|u r IH]; intros last; cbn [pn_seq]; [constructor|].
  pose proof (pn_unit_pres d last u) as H. destruct (pn_unit d last u) as [u' l']. constructor; auto.
Qed.

(* ---------- major version: preservation ---------- *)
Lemma tp_pres_drop t : tp_pres t (drop_etp t).
Proof. split; [reflexivity | right; reflexivity]. Qed.
Lemma drop_unit_etp_pres d u : unit_pres u (drop_unit_etp d u).
Proof.
  unfold drop_unit_etp. destruct (tp_select d u); try apply unit_pres_refl;
  unfold unit_pres; cbn; splits; auto using af_pres_refl, sh_pres_refl, tp_pres_refl, tp_pres_drop.
Qed.

Lemma mv_fill_pres d mv : forall us b, Forall2 unit_pres us (mv_fill d mv b us).
Proof.
  induction us as [|u r IH]; intros b; cbn [mv_fill]; [constructor|].
  destruct (eff_parse_code d u =? PC_SEQUENCE_HEADER).
  - destruct (mv_is_auto d (sh_major_version (u_sh u))) eqn:A; constructor; auto using unit_pres_refl.
    unfold unit_pres, sh_pres; cbn. splits; auto using af_pres_refl, tp_pres_refl.
    intros v Hv. rewrite Hv in A. discriminate.
  - constructor; auto. destruct (b && (mv <? 3)); auto using unit_pres_refl, drop_unit_etp_pres.
Qed.

(* ---------- parse offsets: preservation ---------- *)
Lemma po_padaux_pres d u : af_pres (u_npo u) (po_padaux d u).
Proof.
  intros v Hv. unfold po_padaux. rewrite Hv. cbn [is_autoish].
  destruct (u_parse_code u) as [pc|]; [|reflexivity].
  destruct (pc =? PC_AUXILIARY_DATA); [reflexivity|]. destruct (pc =? PC_PADDING_DATA); reflexivity.
Qed.

Lemma po_unit_pres d u : unit_pres u (m_unit (po_unit d u)).
Proof.
  unfold po_unit. cbn [m_unit].
  pose proof (po_padaux_pres d u) as Hp.
  destruct (is_autoish (u_ppo u)) eqn:Pp;
  unfold unit_pres; cbn; splits; auto using af_pres_refl, sh_pres_refl, tp_pres_refl.
  - intros v Hv. specialize (Hp v Hv). rewrite Hp. reflexivity.
  - intros v Hv. rewrite Hv in Pp. discriminate.
  - intros v Hv. specialize (Hp v Hv). rewrite Hp. reflexivity.
Qed.

(* ---------- finalize: positions only matter through their differences ---------- *)
Definition fin_unit (m : marked) (npo ppo : Z) : dunit :=
  let u1 := if m_npo_todo m then set_npo (m_unit m) (Explicit npo) else m_unit m in
  if m_ppo_todo m then set_ppo u1 (Explicit ppo) else u1.

(* prev = length of the previous unit of the sequence *)
Fixpoint fin_len (prev : option Z) (ms : list marked) : list dunit :=
  match ms with
  | [] => []
  | m :: r =>
      fin_unit m (match r with [] => 0 | _ => u_len (m_unit m) end)
                 (match prev with None => 0 | Some p => p end)
      :: fin_len (Some (u_len (m_unit m))) r
  end.

Lemma seq_offsets_length : forall ms start, length (fst (seq_offsets start ms)) = length ms.
Proof.
  induction ms as [|m r IH]; intros start; cbn [seq_offsets]; [reflexivity|].
  specialize (IH (start + u_len (m_unit m))). destruct (seq_offsets (start + u_len (m_unit m)) r). cbn in *. lia.
Qed.

(* the recorded positions are the running sum of the unit lengths *)
Lemma seq_offsets_positions : forall ms start pre m post,
  ms = pre ++ m :: post ->
  nth_error (fst (seq_offsets start ms)) (length pre) =
    Some (start + fold_right Z.add 0 (map (fun x => u_len (m_unit x)) pre)).
Proof.
  intros ms start pre; revert ms start; induction pre as [|p pre IH]; intros ms start m post ->.
  - cbn. destruct (seq_offsets (start + u_len (m_unit m)) post). cbn. f_equal. lia.
  - cbn [app seq_offsets]. specialize (IH (pre ++ m :: post) (start + u_len (m_unit p)) m post eq_refl).
    destruct (seq_offsets (start + u_len (m_unit p)) (pre ++ m :: post)). cbn in *. rewrite IH. f_equal. lia.
Qed.

Lemma fin_seq_len : forall ms start prevo,
  fin_seq prevo (combine ms (fst (seq_offsets start ms))) =
  fin_len (match prevo with None => None | Some p => Some (start - p) end) ms.
Proof.
  induction ms as [|m r IH]; intros start prevo; [reflexivity|].
  cbn [seq_offsets]. specialize (IH (start + u_len (m_unit m)) (Some start)).
  destruct (seq_offsets (start + u_len (m_unit m)) r) as [os e] eqn:E. cbn [fst combine fin_seq fin_len] in *.
  rewrite IH. replace (start + u_len (m_unit m) - start) with (u_len (m_unit m)) by lia.
  f_equal. unfold fin_unit.
  assert (Hn : match combine r os with [] => 0 | (_, o') :: _ => o' - start end =
               match r with [] => 0 | _ => u_len (m_unit m) end).
  { destruct r as [|m2 r2]; [reflexivity|]. cbn [seq_offsets] in E.
    destruct (seq_offsets (start + u_len (m_unit m) + u_len (m_unit m2)) r2). inversion E; subst. cbn. lia. }
  rewrite Hn. destruct prevo; reflexivity.
Qed.

Lemma finalize_eq : forall ms start,
  autofill_parse_offsets_finalize ms (stream_offsets start ms) = map (fin_len None) ms.
Proof.
  unfold autofill_parse_offsets_finalize.
  induction ms as [|us r IH]; intros start; [reflexivity|].
  cbn [stream_offsets]. destruct (seq_offsets start us) as [os e] eqn:E. cbn [combine map fst snd].
  rewrite IH. f_equal. replace os with (fst (seq_offsets start us)) by (rewrite E; reflexivity).
  apply (fin_seq_len us start None).
Qed.

Definition L0 : Z := 4294967295.
Definition seq_prep (d : defaults) (us : list dunit) : list marked :=
  map (po_unit d) (mv_seq d (pn_seq d L0 us)).
Definition seq_out (d : defaults) (us : list dunit) : list dunit := fin_len None (seq_prep d us).

(* every sequence is processed on its own: numbering, version and offsets all restart *)
Lemma autofill_stream_per_sequence d start s : autofill_stream d start s = map (seq_out d) s.
Proof.
  unfold autofill_stream. rewrite finalize_eq. unfold prepare, autofill_parse_offsets, autofill_major_version,
    autofill_picture_number. rewrite !map_map. apply map_ext. intros us. reflexivity.
Qed.

(* ---------- explicit_preserved ---------- *)
Lemma fin_len_pres d : forall us prev, Forall2 unit_pres us (fin_len prev (map (po_unit d) us)).
Proof.
  induction us as [|u r IH]; intros prev; cbn [map fin_len]; constructor; auto.
  pose proof (po_padaux_pres d u) as Hp.
  set (n := match map (po_unit d) r with [] => 0 | _ => u_len (m_unit (po_unit d u)) end).
  set (p := match prev with None => 0 | Some p => p end). clearbody n p.
  unfold fin_unit, po_unit. cbn [m_unit m_npo_todo m_ppo_todo].
  destruct (is_autoish (po_padaux d u)) eqn:Pn; destruct (is_autoish (u_ppo u)) eqn:Pp;
  unfold unit_pres; cbn; splits; auto using af_pres_refl, sh_pres_refl, tp_pres_refl;
  intros v Hv; try (rewrite Hv in Pp; discriminate);
  try (rewrite (Hp v Hv) in Pn; discriminate); try (rewrite (Hp v Hv); reflexivity).
Qed.

Lemma seq_out_pres d us : Forall2 unit_pres us (seq_out d us).
Proof.
  unfold seq_out, seq_prep, mv_seq.
  eapply Forall2_trans; [exact unit_pres_trans | apply pn_seq_pres |].
  eapply Forall2_trans; [exact unit_pres_trans | apply mv_fill_pres |].
  apply fin_len_pres.
Qed.

Theorem explicit_preserved d start s : Forall2 (Forall2 unit_pres) s (autofill_stream d start s).
Proof.
  rewrite autofill_stream_per_sequence. apply Forall2_map_r. apply seq_out_pres.
Qed.

(* ---------- offsets_true ---------- *)
(* the fields the offset passes read are not touched by the number / version passes *)
Definition same_po (u u' : dunit) : Prop :=
  u_parse_code u' = u_parse_code u /\ u_npo u' = u_npo u /\ u_ppo u' = u_ppo u /\
  u_aux_len u' = u_aux_len u /\ u_pad_len u' = u_pad_len u /\ u_len u' = u_len u.
Lemma same_po_refl u : same_po u u.
Proof. unfold same_po; splits; reflexivity. Qed.
Lemma same_po_trans a b c : same_po a b -> same_po b c -> same_po a c.
Proof. unfold same_po; intros (A1&A2&A3&A4&A5&A6) (B1&B2&B3&B4&B5&B6); splits; congruence. Qed.

Lemma pn_seq_same_po d : forall us last, Forall2 same_po us (pn_seq d last us).
Proof.
  induction us as [|u r IH]; intros last; cbn [pn_seq]; [constructor|].
  assert (H : same_po u (fst (pn_unit d last u))).
  { unfold pn_unit. destruct (pn_kind u); cbn [fst]; unfold same_po; cbn; splits; reflexivity. }
  destruct (pn_unit d last u) as [u' l']. constructor; auto.
Qed.
Lemma mv_fill_same_po d mv : forall us b, Forall2 same_po us (mv_fill d mv b us).
Proof.
  induction us as [|u r IH]; intros b; cbn [mv_fill]; [constructor|].
  destruct (eff_parse_code d u =? PC_SEQUENCE_HEADER).
  - destruct (mv_is_auto d (sh_major_version (u_sh u))); constructor; auto using same_po_refl.
    unfold same_po; cbn; splits; reflexivity.
  - constructor; auto. destruct (b && (mv <? 3)); auto using same_po_refl.
    unfold drop_unit_etp. destruct (tp_select d u); unfold same_po; cbn; splits; reflexivity.
Qed.

Definition last_len (pre : list dunit) : Z := match rev pre with [] => 0 | p :: _ => u_len p end.

Lemma last_len_snoc pre p : last_len (pre ++ [p]) = u_len p.
Proof. unfold last_len. rewrite rev_app_distr. reflexivity. Qed.

Lemma fin_len_nth d : forall pre prev u post,
  nth_error (fin_len prev (map (po_unit d) (pre ++ u :: post))) (length pre) =
  Some (fin_unit (po_unit d u)
          (match post with [] => 0 | _ => u_len u end)
          (match pre with [] => match prev with None => 0 | Some p => p end | _ => last_len pre end)).
Proof.
  induction pre as [|q pre IH]; intros prev u post.
  - cbn [app map fin_len length nth_error]. f_equal. f_equal.
    + destruct post; [reflexivity|]. cbn [map]. unfold po_unit. cbn [m_unit].
      destruct (is_autoish (u_ppo u)); reflexivity.
    (* second argument is syntactically equal *)
  - cbn [app map fin_len length nth_error]. rewrite IH. f_equal. f_equal.
    destruct pre as [|q2 pre2].
    + unfold last_len. cbn. unfold po_unit. cbn [m_unit]. destruct (is_autoish (u_ppo q)); reflexivity.
    + change (q :: q2 :: pre2) with ([q] ++ (q2 :: pre2)). unfold last_len. rewrite rev_app_distr.
      destruct (rev (q2 :: pre2)) eqn:R; [|reflexivity].
      apply (f_equal (@length _)) in R. rewrite rev_length in R. discriminate.
Qed.

Lemma fin_unit_npo d u post p :
  u_npo (fin_unit (po_unit d u) (match post with [] => 0 | _ => u_len u end) p) = expected_npo d u post.
Proof.
  unfold fin_unit, po_unit, expected_npo, po_padaux, padaux_payload. cbn [m_unit m_npo_todo m_ppo_todo].
  destruct (u_npo u) as [|v|] eqn:N; cbn [is_autoish];
  destruct (u_parse_code u) as [pc|]; try destruct (pc =? PC_AUXILIARY_DATA); try destruct (pc =? PC_PADDING_DATA);
  cbn [is_autoish]; destruct (is_autoish (u_ppo u)); cbn; try rewrite N; try reflexivity.
Qed.

Lemma fin_unit_ppo d u n pre :
  u_ppo (fin_unit (po_unit d u) n (match pre with [] => 0 | _ => last_len pre end)) = expected_ppo u pre.
Proof.
  assert (E : match pre with [] => 0 | _ => last_len pre end = match rev pre with [] => 0 | p :: _ => u_len p end).
  { destruct pre; reflexivity. }
  rewrite E. unfold fin_unit, po_unit, expected_ppo. cbn [m_unit m_npo_todo m_ppo_todo].
  destruct (u_ppo u) as [|v|] eqn:P; cbn [is_autoish]; destruct (is_autoish (po_padaux d u)); cbn; try rewrite P; reflexivity.
Qed.

Lemma Forall2_same_po_split : forall pre u post l,
  Forall2 same_po (pre ++ u :: post) l ->
  exists pre' u' post', l = pre' ++ u' :: post' /\ Forall2 same_po pre pre' /\ same_po u u' /\ Forall2 same_po post post'.
Proof.
  intros pre u post l H. apply Forall2_app_inv_l in H. destruct H as (pre' & l2 & H1 & H2 & ->).
  inversion H2; subst. eauto 8.
Qed.

Lemma same_po_last_len : forall pre pre', Forall2 same_po pre pre' -> last_len pre' = last_len pre /\ length pre' = length pre.
Proof.
  intros pre pre' H. induction H as [|x y l l' Hxy Hl IH]; [split; reflexivity|].
  destruct IH as [IH1 IH2]. split; [|cbn; lia].
  destruct Hl as [|x2 y2 l2 l2' Hxy2 Hl2].
  - unfold last_len; cbn. apply Hxy.
  - change (y :: y2 :: l2') with ([y] ++ y2 :: l2'). change (x :: x2 :: l2) with ([x] ++ x2 :: l2).
    unfold last_len in *. rewrite !rev_app_distr.
    destruct (rev (y2 :: l2')) eqn:R1.
    { apply (f_equal (@length _)) in R1. rewrite rev_length in R1. discriminate. }
    destruct (rev (x2 :: l2)) eqn:R2.
    { apply (f_equal (@length _)) in R2. rewrite rev_length in R2. discriminate. }
    cbn. exact IH1.
Qed.

Lemma expected_npo_same d u u' post post' :
  same_po u u' -> Forall2 same_po post post' -> expected_npo d u' post' = expected_npo d u post.
Proof.
  intros (A1&A2&A3&A4&A5&A6) HP. unfold expected_npo, padaux_payload. rewrite A1, A2, A4, A5, A6.
  destruct HP; reflexivity.
Qed.
Lemma expected_ppo_same u u' pre pre' :
  same_po u u' -> Forall2 same_po pre pre' -> expected_ppo u' pre' = expected_ppo u pre.
Proof.
  intros (A1&A2&A3&A4&A5&A6) HP. unfold expected_ppo. rewrite A3.
  pose proof (same_po_last_len _ _ HP) as [H _]. unfold last_len in H. rewrite H. reflexivity.
Qed.

Theorem seq_offsets_true d pre u post :
  exists u', nth_error (seq_out d (pre ++ u :: post)) (length pre) = Some u' /\
             u_npo u' = expected_npo d u post /\ u_ppo u' = expected_ppo u pre.
Proof.
  unfold seq_out, seq_prep, mv_seq.
  assert (H : Forall2 same_po (pre ++ u :: post)
                (mv_fill d (seq_version d (pn_seq d L0 (pre ++ u :: post))) false (pn_seq d L0 (pre ++ u :: post)))).
  { eapply Forall2_trans; [exact same_po_trans | apply pn_seq_same_po | apply mv_fill_same_po]. }
  apply Forall2_same_po_split in H. destruct H as (pre' & u' & post' & -> & Hpre & Hu & Hpost).
  pose proof (same_po_last_len _ _ Hpre) as [HL Hlen].
  rewrite <- Hlen. rewrite fin_len_nth. eexists; split; [reflexivity|]. split.
  - rewrite (fin_unit_npo d u' post'). apply expected_npo_same; assumption.
  - etransitivity; [exact (fin_unit_ppo d u' _ pre') | apply expected_ppo_same; assumption].
Qed.

Theorem offsets_true d start s i us pre u post :
  nth_error s i = Some us -> us = pre ++ u :: post ->
  exists us' u', nth_error (autofill_stream d start s) i = Some us' /\
                 nth_error us' (length pre) = Some u' /\
                 u_npo u' = expected_npo d u post /\ u_ppo u' = expected_ppo u pre.
Proof.
  intros Hs ->. rewrite autofill_stream_per_sequence.
  destruct (seq_offsets_true d pre u post) as (u' & H1 & H2 & H3).
  exists (seq_out d (pre ++ u :: post)), u'. split; [|auto].
  rewrite nth_error_map, Hs. reflexivity.
Qed.

(* next offset 0 exactly for the last unit (units occupy at least the 13 header bytes) *)
Corollary npo_zero_iff_last d u post :
  is_autoish (u_npo u) = true -> 0 < u_len u -> (forall n, padaux_payload d u = Some n -> 0 <= n) ->
  (expected_npo d u post = Explicit 0 <-> post = [] /\ padaux_payload d u = None).
Proof.
  intros Ha Hl Hp. unfold expected_npo.
  assert (G : match padaux_payload d u with
              | Some n => Explicit (13 + n)
              | None => Explicit match post with [] => 0 | _ :: _ => u_len u end
              end = Explicit 0 <-> post = [] /\ padaux_payload d u = None).
  { destruct (padaux_payload d u) as [n|] eqn:P.
    - specialize (Hp n eq_refl). split.
      + intros H. assert (H' : 13 + n = 0) by congruence. lia.
      + intros [_ H]. discriminate.
    - destruct post; split.
      + auto.
      + reflexivity.
      + intros H. assert (H' : u_len u = 0) by congruence. lia.
      + intros [H _]. discriminate. }
  destruct (u_npo u); try discriminate; exact G.
Qed.

(* ---------- picnum_auto ---------- *)
Definition M32 : Z := 4294967296.
Lemma mask32_mod x : mask32 x = x mod M32.
Proof. unfold mask32, M32. change 4294967295 with (Z.ones 32). rewrite Z.land_ones by lia. reflexivity. Qed.

Definition pn_last (d : defaults) (last : Z) (us : list dunit) : Z :=
  fold_left (fun l u => snd (pn_unit d l u)) us last.

Lemma pn_seq_app d : forall pre last rest,
  pn_seq d last (pre ++ rest) = pn_seq d last pre ++ pn_seq d (pn_last d last pre) rest.
Proof.
  induction pre as [|u r IH]; intros last rest; [reflexivity|].
  cbn [app pn_seq pn_last fold_left]. destruct (pn_unit d last u) as [u' l'] eqn:E. cbn [snd].
  rewrite IH. reflexivity.
Qed.

Lemma pn_seq_length d : forall us last, length (pn_seq d last us) = length us.
Proof.
  induction us as [|u r IH]; intros last; [reflexivity|]. cbn [pn_seq].
  destruct (pn_unit d last u). cbn. rewrite IH. reflexivity.
Qed.

Lemma pn_kind_set_pic u f : pn_kind (set_pic_number u f) = pn_kind u.
Proof. reflexivity. Qed.
Lemma pn_kind_set_frag u f : pn_kind (set_frag_number u f) = pn_kind u.
Proof. reflexivity. Qed.

(* what one unit becomes, and the running `last_picture_number` afterwards *)
Lemma pn_unit_number d last u :
  let '(u', l') := pn_unit d last u in
  match pn_kind u with
  | PNOther => u' = u /\ l' = last /\ number_of u' = None
  | _ => number_of u' = Some (pn_value d last u) /\ l' = pn_value d last u
  end.
Proof.
  unfold pn_unit. destruct (pn_kind u) eqn:K.
  - unfold number_of, pn_field. rewrite pn_kind_set_pic, K. cbn. auto.
  - unfold number_of, pn_field. rewrite pn_kind_set_frag, K. cbn. auto.
  - unfold number_of, pn_field. rewrite K. auto.
Qed.

(* the running value is the number of the closest preceding picture/fragment of the output *)
Lemma pn_last_is_last_number d : forall pre last,
  pn_last d last pre = last_number last (pn_seq d last pre).
Proof.
  induction pre as [|u r IH]; intros last; [reflexivity|].
  cbn [pn_last fold_left pn_seq]. pose proof (pn_unit_number d last u) as H.
  destruct (pn_unit d last u) as [u' l']. cbn [snd last_number].
  fold (pn_last d l' r). rewrite IH. f_equal.
  destruct (pn_kind u); [destruct H as [H1 H2]; rewrite H1; auto .. | destruct H as (_ & H2 & H3); rewrite H3; auto].
Qed.

Theorem seq_picnum_auto d pre u post :
  let out := pn_seq d L0 (pre ++ u :: post) in
  let prev := last_number L0 (firstn (length pre) out) in
  exists u', nth_error out (length pre) = Some u' /\
    match pn_kind u with
    | PNOther => u' = u
    | _ => number_of u' =
           Some (match pn_field u with
                 | Explicit v => v
                 | _ => if pn_increment d u then (prev + 1) mod M32 else prev
                 end)
    end.
Proof.
  cbn zeta. rewrite pn_seq_app.
  rewrite firstn_app, (pn_seq_length d pre L0), Nat.sub_diag, firstn_all2 by (rewrite pn_seq_length; lia).
  cbn [firstn]. rewrite app_nil_r.
  rewrite nth_error_app2 by (rewrite pn_seq_length; lia). rewrite pn_seq_length, Nat.sub_diag.
  cbn [pn_seq]. pose proof (pn_unit_number d (pn_last d L0 pre) u) as H.
  destruct (pn_unit d (pn_last d L0 pre) u) as [u' l']. cbn [nth_error]. exists u'. split; [reflexivity|].
  rewrite <- pn_last_is_last_number.
  destruct (pn_kind u) eqn:K.
  - destruct H as [H _]. rewrite H. unfold pn_value. rewrite mask32_mod. reflexivity.
  - destruct H as [H _]. rewrite H. unfold pn_value. rewrite mask32_mod. reflexivity.
  - apply H.
Qed.

(* numbering restarts in every sequence: the stream pass is the sequence pass started from
   (0 - 1) & 0xFFFFFFFF on each sequence *)
Theorem picnum_restarts d s : autofill_picture_number d 0 s = map (pn_seq d L0) s.
Proof. reflexivity. Qed.

(* closed form when nothing is explicit: number = (pictures started so far - 1) mod 2^32 *)
Lemma starts_app d a b : starts d (a ++ b) = starts d a + starts d b.
Proof. unfold starts. rewrite filter_app, app_length. lia. Qed.

Lemma pn_increment_other d u : pn_kind u = PNOther -> pn_increment d u = false.
Proof. unfold pn_increment. intros ->. reflexivity. Qed.

Lemma pn_last_all_auto d : forall pre k last,
  pn_all_auto pre -> last = (k - 1) mod M32 ->
  pn_last d last pre = (k + starts d pre - 1) mod M32.
Proof.
  induction pre as [|u r IH]; intros k last HA HL.
  - cbn. unfold starts. cbn. rewrite HL. f_equal. lia.
  - cbn [pn_last fold_left]. fold (pn_last d (snd (pn_unit d last u)) r).
    assert (HAr : pn_all_auto r). { intros x Hx. apply HA. right; exact Hx. }
    specialize (HA u (or_introl eq_refl)).
    change (u :: r) with ([u] ++ r). rewrite starts_app.
    pose proof (pn_unit_number d last u) as H. destruct (pn_unit d last u) as [u' l']. cbn [snd].
    assert (E : l' = (k + starts d [u] - 1) mod M32).
    { unfold starts. cbn [filter]. unfold is_pn_unit in HA. unfold pn_value in H.
      destruct (pn_kind u) eqn:K.
      - destruct H as [_ H]. specialize (HA eq_refl).
        destruct (pn_field u); try discriminate; (destruct (pn_increment d u); cbn [length]; rewrite H, ?mask32_mod, HL; unfold M32; lia).
      - destruct H as [_ H]. specialize (HA eq_refl).
        destruct (pn_field u); try discriminate; (destruct (pn_increment d u); cbn [length]; rewrite H, ?mask32_mod, HL; unfold M32; lia).
      - destruct H as (_ & H & _). rewrite (pn_increment_other d u K). cbn [length]. rewrite H, HL. f_equal. lia. }
    rewrite (IH (k + starts d [u]) l' HAr E). f_equal. lia.
Qed.

Theorem seq_picnum_all_auto d pre u post :
  pn_all_auto (pre ++ [u]) -> is_pn_unit u = true ->
  exists u', nth_error (pn_seq d L0 (pre ++ u :: post)) (length pre) = Some u' /\
             number_of u' = Some ((starts d (pre ++ [u]) - 1) mod M32).
Proof.
  intros HA HU.
  rewrite pn_seq_app. rewrite nth_error_app2 by (rewrite pn_seq_length; lia). rewrite pn_seq_length, Nat.sub_diag.
  cbn [pn_seq]. pose proof (pn_unit_number d (pn_last d L0 pre) u) as H.
  destruct (pn_unit d (pn_last d L0 pre) u) as [u' l']. cbn [nth_error]. exists u'. split; [reflexivity|].
  assert (HP : pn_all_auto pre). { intros x Hx. apply HA. apply in_or_app. left; exact Hx. }
  assert (HUa : is_autoish (pn_field u) = true). { apply HA; [apply in_or_app; right; left; reflexivity | exact HU]. }
  rewrite (pn_last_all_auto d pre 0 L0 HP eq_refl) in H.
  rewrite starts_app. unfold starts at 2. cbn [filter]. unfold is_pn_unit in HU. unfold pn_value in H.
  destruct (pn_kind u) eqn:K; try discriminate;
  (destruct H as [H _]; rewrite H; f_equal;
   destruct (pn_field u); try discriminate; (destruct (pn_increment d u); cbn [length]; rewrite ?mask32_mod; unfold M32; lia)).
Qed.

(* ---------- major_version ---------- *)
Lemma lmax_app m a b : lmax m (a ++ b) = lmax (lmax m a) b.
Proof. unfold lmax. apply fold_left_app. Qed.

Lemma lmax_le_iff : forall l m x, lmax m l <= x <-> m <= x /\ forall f, In f l -> f <= x.
Proof.
  induction l as [|a l IH]; intros m x; cbn [lmax fold_left In].
  - split; [intros H; split; [exact H | intros f []] | intros [H _]; exact H].
  - fold (lmax (Z.max m a) l). rewrite IH. split.
    + intros [H1 H2]. split; [lia|]. intros f [<-|Hf]; [lia | auto].
    + intros [H1 H2]. split; [pose proof (H2 a (or_introl eq_refl)); lia | auto].
Qed.
Lemma lmax_ge_init m l : m <= lmax m l.
Proof. exact (proj1 (proj1 (lmax_le_iff l m (lmax m l)) (Z.le_refl _))). Qed.
Lemma lmax_ge_in m l f : In f l -> f <= lmax m l.
Proof. intros H. apply (proj2 (proj1 (lmax_le_iff l m (lmax m l)) (Z.le_refl _))). exact H. Qed.

Lemma max_opt_lmax mv imp o : max_opt mv imp o = lmax mv (val_preset_always imp o).
Proof. destruct o; reflexivity. Qed.

Lemma header_version_lmax d mv h : header_version d mv h = lmax mv (af_header_feats d h).
Proof.
  unfold header_version, af_header_feats. rewrite !max_opt_lmax.
  rewrite !lmax_app. cbn [lmax fold_left].
  destruct (preset_on (sh_color_spec h) (d_color_spec d)) as [i|]; [|reflexivity].
  rewrite lmax_app. cbn [lmax fold_left]. destruct (i =? 0); [|reflexivity].
  rewrite !max_opt_lmax, !lmax_app. reflexivity.
Qed.

Lemma unit_version_lmax d mv u : unit_version d mv u = lmax mv (af_unit_feats d u).
Proof.
  unfold unit_version, af_unit_feats. cbn [lmax fold_left].
  destruct (eff_parse_code d u =? PC_SEQUENCE_HEADER).
  - apply header_version_lmax.
  - destruct (get_tp d u); reflexivity.
Qed.

(* the automatic version is the maximum of 1 and the implications of the listed features *)
Theorem seq_version_is_max d us : seq_version d us = lmax MINIMUM_MAJOR_VERSION (af_feats d us).
Proof.
  unfold seq_version, af_feats. generalize MINIMUM_MAJOR_VERSION as m.
  induction us as [|u r IH]; intros m; [reflexivity|].
  cbn [fold_left flat_map]. rewrite lmax_app, IH, unit_version_lmax. reflexivity.
Qed.

(* facts about the TRANSLATED implication functions *)
Lemma wavelet_imp_lt3 wi ho dho : wavelet_transform_version_implication wi ho dho < 3 -> ho = wi /\ dho = 0.
Proof.
  unfold wavelet_transform_version_implication.
  destruct (dho =? 0) eqn:E1; cbn [negb]; [|lia]. destruct (wi =? ho) eqn:E2; cbn [negb]; lia.
Qed.
Lemma wavelet_imp_sym wi dho : dho = 0 -> wavelet_transform_version_implication wi wi dho = 1.
Proof.
  intros ->. unfold wavelet_transform_version_implication. cbn. rewrite Z.eqb_refl. reflexivity.
Qed.
Lemma wavelet_imp_le3 wi ho dho : wavelet_transform_version_implication wi ho dho <= 3.
Proof.
  unfold wavelet_transform_version_implication.
  destruct (negb (dho =? 0)); [lia|]. destruct (negb (wi =? ho)); lia.
Qed.
Lemma tp_version_le3 d tp : tp_version d tp <= 3.
Proof. unfold tp_version. destruct (tp_triple d tp) as [[wi ho] dho]. apply wavelet_imp_le3. Qed.
Lemma tp_version_sym d tp : symmetric_tp d tp -> tp_version d tp = 1.
Proof.
  unfold symmetric_tp, tp_version. destruct (tp_triple d tp) as [[wi ho] dho]. intros [-> H]. apply wavelet_imp_sym; exact H.
Qed.
Lemma tp_version_lt3 d tp : tp_version d tp < 3 -> symmetric_tp d tp.
Proof.
  unfold symmetric_tp, tp_version. destruct (tp_triple d tp) as [[wi ho] dho]. apply wavelet_imp_lt3.
Qed.

Lemma imp_le3_fr i : preset_frame_rate_version_implication i <= 3.
Proof. unfold preset_frame_rate_version_implication. destruct (i >? 11); lia. Qed.
Lemma imp_le3_sr i : preset_signal_range_version_implication i <= 3.
Proof. unfold preset_signal_range_version_implication. destruct (i >? 4); lia. Qed.
Lemma imp_le3_cs i : preset_color_spec_version_implication i <= 3.
Proof. unfold preset_color_spec_version_implication. destruct (i >? 4); lia. Qed.
Lemma imp_le3_cp i : preset_color_primaries_version_implication i <= 3.
Proof. unfold preset_color_primaries_version_implication. destruct (i >? 3); lia. Qed.
Lemma imp_le3_cm i : preset_color_matrix_version_implication i <= 3.
Proof. unfold preset_color_matrix_version_implication. destruct (i >? 3); lia. Qed.
Lemma imp_le3_tf i : preset_transfer_function_version_implication i <= 3.
Proof. unfold preset_transfer_function_version_implication. destruct (i >? 3); lia. Qed.
Lemma imp_le3_pc i : parse_code_version_implication i <= 3.
Proof. unfold parse_code_version_implication. destruct (is_fragment _); lia. Qed.
Lemma imp_le3_profile i : profile_version_implication i <= 3.
Proof. unfold profile_version_implication. destruct (i =? 3); lia. Qed.

Lemma in_always imp o f : In f (val_preset_always imp o) -> exists i, f = imp i.
Proof. destruct o; cbn; [intros [<-|[]]; eauto | intros []]. Qed.

Lemma af_header_feats_le3 d h f : In f (af_header_feats d h) -> f <= 3.
Proof.
  unfold af_header_feats. intros H.
  repeat (apply in_app_or in H; destruct H as [H|H]).
  - destruct H as [<-|[]]. apply imp_le3_profile.
  - apply in_always in H. destruct H as [i ->]. apply imp_le3_fr.
  - apply in_always in H. destruct H as [i ->]. apply imp_le3_sr.
  - destruct (preset_on (sh_color_spec h) (d_color_spec d)) as [i|]; [|destruct H].
    apply in_app_or in H; destruct H as [H|H].
    + destruct H as [<-|[]]. apply imp_le3_cs.
    + destruct (i =? 0); [|destruct H].
      repeat (apply in_app_or in H; destruct H as [H|H]); apply in_always in H; destruct H as [j ->];
      auto using imp_le3_cp, imp_le3_cm, imp_le3_tf.
Qed.

(* validator's header logs vs autofill's header features: the same, except that autofill also
   evaluates the frame-rate / signal-range / colour-spec implication at index 0 (custom values),
   which is the minimum *)
Lemma in_val_preset imp o f : In f (val_preset imp o) -> In f (val_preset_always imp o).
Proof. destruct o as [i|]; cbn; [destruct (i =? 0); cbn; tauto | tauto]. Qed.
Lemma in_always_val imp o f : In f (val_preset_always imp o) -> In f (val_preset imp o) \/ f = imp 0.
Proof.
  destruct o as [i|]; cbn; [|tauto]. destruct (i =? 0) eqn:E; cbn; [|tauto].
  intros [<-|[]]. right. f_equal. lia.
Qed.

Lemma val_header_in_af d h f : In f (val_header_logs d h) -> In f (af_header_feats d h).
Proof.
  unfold val_header_logs, af_header_feats. intros H.
  apply in_app_or in H; destruct H as [H|H]; [apply in_or_app; left; exact H|]. apply in_or_app; right.
  apply in_app_or in H; destruct H as [H|H]; [apply in_or_app; left; apply in_val_preset; exact H|]. apply in_or_app; right.
  apply in_app_or in H; destruct H as [H|H]; [apply in_or_app; left; apply in_val_preset; exact H|]. apply in_or_app; right.
  destruct (preset_on (sh_color_spec h) (d_color_spec d)) as [i|]; [|exact H].
  apply in_or_app. destruct (i =? 0); [right; exact H | left; exact H].
Qed.

Lemma af_header_in_val d h f : In f (af_header_feats d h) -> In f (val_header_logs d h) \/ f = 1.
Proof.
  unfold val_header_logs, af_header_feats. intros H.
  apply in_app_or in H; destruct H as [H|H]; [left; apply in_or_app; left; exact H|].
  apply in_app_or in H; destruct H as [H|H].
  { apply in_always_val in H. destruct H as [H|H]; [left; apply in_or_app; right; apply in_or_app; left; exact H | right; exact H]. }
  apply in_app_or in H; destruct H as [H|H].
  { apply in_always_val in H. destruct H as [H|H]; [left; apply in_or_app; right; apply in_or_app; right; apply in_or_app; left; exact H | right; exact H]. }
  destruct (preset_on (sh_color_spec h) (d_color_spec d)) as [i|]; [|destruct H].
  apply in_app_or in H; destruct H as [H|H].
  - destruct H as [<-|[]]. destruct (i =? 0) eqn:E.
    + right. replace i with 0 by lia. reflexivity.
    + left. do 3 (apply in_or_app; right). left; reflexivity.
  - destruct (i =? 0); [|destruct H]. left. do 3 (apply in_or_app; right). exact H.
Qed.

Lemma get_tp_val d u : (eff_parse_code d u =? PC_SEQUENCE_HEADER) = false ->
  get_tp d u = if val_has_tp d u then Some (val_tp d u) else None.
Proof.
  intros H. unfold get_tp, tp_select, val_has_tp, val_tp. rewrite H. cbn [negb andb].
  destruct (is_picture_pc (eff_parse_code d u)); cbn [orb]; [reflexivity|].
  destruct (is_fragment_pc (eff_parse_code d u) && (getd (u_frag_slice_count u) (d_frag_slice_count d) =? 0)); reflexivity.
Qed.
Lemma val_has_tp_not_header d u : val_has_tp d u = true -> (eff_parse_code d u =? PC_SEQUENCE_HEADER) = false.
Proof. unfold val_has_tp. destruct (eff_parse_code d u =? PC_SEQUENCE_HEADER); [discriminate|reflexivity]. Qed.

Lemma val_checked_in_af d u f : In f (val_unit_checked d u) -> In f (af_unit_feats d u).
Proof.
  unfold val_unit_checked, af_unit_feats. intros [H|H]; [left; exact H|]. right.
  destruct (eff_parse_code d u =? PC_SEQUENCE_HEADER); [apply val_header_in_af; exact H | destruct H].
Qed.
Lemma val_tp_in_af d u : val_has_tp d u = true -> In (tp_version d (val_tp d u)) (af_unit_feats d u).
Proof.
  intros H. unfold af_unit_feats. right. rewrite (val_has_tp_not_header d u H), (get_tp_val d u (val_has_tp_not_header d u H)), H.
  left; reflexivity.
Qed.
Lemma af_feats_cases d u f : In f (af_unit_feats d u) ->
  In f (val_unit_checked d u) \/ f = 1 \/ (val_has_tp d u = true /\ f = tp_version d (val_tp d u)).
Proof.
  unfold af_unit_feats, val_unit_checked. intros [H|H]; [left; left; exact H|].
  destruct (eff_parse_code d u =? PC_SEQUENCE_HEADER) eqn:E.
  - apply af_header_in_val in H. destruct H as [H|H]; [left; right; exact H | right; left; exact H].
  - rewrite (get_tp_val d u E) in H. destruct (val_has_tp d u); [|destruct H].
    destruct H as [<-|[]]. right; right; split; reflexivity.
Qed.
Lemma af_unit_feats_le3 d u f : In f (af_unit_feats d u) -> f <= 3.
Proof.
  unfold af_unit_feats. intros [<-|H]; [apply imp_le3_pc|].
  destruct (eff_parse_code d u =? PC_SEQUENCE_HEADER); [eapply af_header_feats_le3; exact H|].
  destruct (get_tp d u); [destruct H as [<-|[]]; apply tp_version_le3 | destruct H].
Qed.

Lemma min_is_1 : MINIMUM_MAJOR_VERSION = 1.
Proof. reflexivity. Qed.

Lemma seq_version_bounds d us : 1 <= seq_version d us <= 3.
Proof.
  rewrite seq_version_is_max. split.
  - rewrite <- min_is_1 at 1. apply lmax_ge_init.
  - apply lmax_le_iff. split; [rewrite min_is_1; lia|]. intros f Hf. unfold af_feats in Hf.
    apply in_flat_map in Hf. destruct Hf as (u & _ & Hf). eapply af_unit_feats_le3; exact Hf.
Qed.

Definition codable_at (d : defaults) (v : Z) (u : dunit) : Prop :=
  3 <= v \/ (val_has_tp d u = true -> symmetric_tp d (val_tp d u)).
Lemma etp_codable_at d v us u : etp_codable d v us -> In u us -> codable_at d v u.
Proof. intros [H|H] Hu; [left; exact H | right; intros Ht; apply H; assumption]. Qed.

(* what the validator expects = what autofill computes, whenever the description can be coded *)
Lemma val_expected_eq d v us : etp_codable d v us -> val_expected d v us = seq_version d us.
Proof.
  intros HC. unfold val_expected. rewrite seq_version_is_max. apply Z.le_antisymm.
  - apply lmax_le_iff. split; [apply lmax_ge_init|]. intros f Hf. apply lmax_ge_in.
    unfold val_logged in Hf. apply in_flat_map in Hf. destruct Hf as (u & Hu & Hf).
    unfold af_feats. apply in_flat_map. exists u. split; [exact Hu|].
    apply in_app_or in Hf. destruct Hf as [Hf|Hf]; [apply val_checked_in_af; exact Hf|].
    unfold val_unit_etp in Hf. destruct (val_has_tp d u) eqn:T; cbn [andb] in Hf; [|destruct Hf].
    destruct (3 <=? v); [|destruct Hf]. destruct Hf as [<-|[]]. apply val_tp_in_af; exact T.
  - apply lmax_le_iff. split; [apply lmax_ge_init|]. intros f Hf.
    unfold af_feats in Hf. apply in_flat_map in Hf. destruct Hf as (u & Hu & Hf).
    apply af_feats_cases in Hf. destruct Hf as [Hf|[->|[T ->]]].
    + apply lmax_ge_in. unfold val_logged. apply in_flat_map. exists u. split; [exact Hu|]. apply in_or_app; left; exact Hf.
    + rewrite <- min_is_1 at 1. apply lmax_ge_init.
    + destruct (etp_codable_at d v us u HC Hu) as [H3|HS].
      * apply lmax_ge_in. unfold val_logged. apply in_flat_map. exists u. split; [exact Hu|]. apply in_or_app; right.
        unfold val_unit_etp. rewrite T. replace (3 <=? v) with true by lia. left; reflexivity.
      * rewrite (tp_version_sym d _ (HS T)). rewrite <- min_is_1 at 1. apply lmax_ge_init.
Qed.

Lemma checked_le_seq_version d us f : In f (val_checked d us) -> f <= seq_version d us.
Proof.
  intros Hf. rewrite seq_version_is_max. apply lmax_ge_in. unfold val_checked in Hf.
  apply in_flat_map in Hf. destruct Hf as (u & Hu & Hf). unfold af_feats. apply in_flat_map.
  exists u. split; [exact Hu | apply val_checked_in_af; exact Hf].
Qed.

(* the automatic version can code the description: below 3 every transform is symmetric *)
Lemma seq_version_codable d us : etp_codable d (seq_version d us) us.
Proof.
  destruct (Z_lt_le_dec (seq_version d us) 3) as [H|H]; [right | left; exact H].
  intros u Hu T. apply tp_version_lt3. eapply Z.le_lt_trans; [|exact H].
  rewrite seq_version_is_max. apply lmax_ge_in. unfold af_feats. apply in_flat_map. exists u. split; [exact Hu|].
  apply val_tp_in_af; exact T.
Qed.

Theorem major_version_agrees d us v' :
  etp_codable d v' us ->
  (val_version_ok d v' us <-> v' = seq_version d us \/ (v' = 3 /\ val_npics d us = 0)).
Proof.
  intros HC. pose proof (seq_version_bounds d us) as HB. unfold val_version_ok. rewrite (val_expected_eq d v' us HC), min_is_1.
  split.
  - intros (H1 & H2 & H3). destruct H3 as [[H3 H4]|H3]; [right; split; assumption|]. left.
    apply Z.le_antisymm; [exact H3|]. rewrite seq_version_is_max. apply lmax_le_iff. split; [rewrite min_is_1; exact H1|].
    intros f Hf. unfold af_feats in Hf. apply in_flat_map in Hf. destruct Hf as (u & Hu & Hf).
    apply af_feats_cases in Hf. destruct Hf as [Hf|[->|[T ->]]].
    + apply H2. unfold val_checked. apply in_flat_map. exists u. split; assumption.
    + exact H1.
    + destruct (etp_codable_at d v' us u HC Hu) as [H5|HS].
      * pose proof (tp_version_le3 d (val_tp d u)). lia.
      * rewrite (tp_version_sym d _ (HS T)). exact H1.
  - intros [->|[-> HN]].
    + split; [lia|]. split; [apply checked_le_seq_version | right; lia].
    + split; [lia|]. split; [|left; split; [exact HN | reflexivity]].
      intros f Hf. apply checked_le_seq_version in Hf. lia.
Qed.

(* ... hence it is the least version the validator's rules accept *)
Theorem major_version_least d us :
  let v := seq_version d us in
  etp_codable d v us /\ val_version_ok d v us /\
  forall v', etp_codable d v' us -> val_version_ok d v' us -> v <= v'.
Proof.
  cbn zeta. split; [apply seq_version_codable|]. split.
  - apply (major_version_agrees d us _ (seq_version_codable d us)). left; reflexivity.
  - intros v' HC HV. apply (major_version_agrees d us v' HC) in HV. pose proof (seq_version_bounds d us).
    destruct HV as [->|[-> _]]; lia.
Qed.

(* every automatic major_version field of the sequence receives that value *)
Lemma mv_fill_headers d mv : forall us b,
  Forall2 (fun u u' => (eff_parse_code d u =? PC_SEQUENCE_HEADER) = true ->
                       mv_is_auto d (sh_major_version (u_sh u)) = true ->
                       sh_major_version (u_sh u') = Explicit mv) us (mv_fill d mv b us).
Proof.
  induction us as [|u r IH]; intros b; cbn [mv_fill]; [constructor|].
  destruct (eff_parse_code d u =? PC_SEQUENCE_HEADER) eqn:E.
  - destruct (mv_is_auto d (sh_major_version (u_sh u))) eqn:A; constructor; auto; intros; try reflexivity; congruence.
  - constructor; auto. intros; congruence.
Qed.
Theorem mv_headers_filled d us :
  Forall2 (fun u u' => (eff_parse_code d u =? PC_SEQUENCE_HEADER) = true ->
                       mv_is_auto d (sh_major_version (u_sh u)) = true ->
                       sh_major_version (u_sh u') = Explicit (seq_version d us)) us (mv_seq d us).
Proof. apply mv_fill_headers. Qed.

(* extended_transform_parameters is removed only from a transform that is symmetric *)
Definition etp_ok (d : defaults) (u u' : dunit) : Prop :=
  forall tp, get_tp d u = Some tp ->
    exists tp', get_tp d u' = Some tp' /\ t_wavelet_index tp' = t_wavelet_index tp /\
                (t_etp tp' = t_etp tp \/ (t_etp tp' = None /\ symmetric_tp d tp)).

Lemma etp_ok_refl d u : etp_ok d u u.
Proof. intros tp H. exists tp. auto. Qed.

Lemma get_tp_header d u : (eff_parse_code d u =? PC_SEQUENCE_HEADER) = true -> get_tp d u = None.
Proof.
  intros H. unfold get_tp, tp_select. unfold PC_SEQUENCE_HEADER in H.
  replace (eff_parse_code d u) with 0 by lia. reflexivity.
Qed.

Lemma etp_ok_drop d mv u :
  mv < 3 -> (val_has_tp d u = true -> tp_version d (val_tp d u) <= mv) -> etp_ok d u (drop_unit_etp d u).
Proof.
  intros Hlt HB tp Htp.
  assert (E : (eff_parse_code d u =? PC_SEQUENCE_HEADER) = false).
  { destruct (eff_parse_code d u =? PC_SEQUENCE_HEADER) eqn:E; [|reflexivity].
    rewrite (get_tp_header d u E) in Htp. discriminate. }
  assert (Hs : symmetric_tp d tp).
  { apply tp_version_lt3. eapply Z.le_lt_trans; [|exact Hlt].
    rewrite (get_tp_val d u E) in Htp. destruct (val_has_tp d u) eqn:T; [|discriminate].
    inversion Htp; subst. apply HB. reflexivity. }
  unfold drop_unit_etp, get_tp in *. destruct (tp_select d u) eqn:S.
  - assert (S' : tp_select d (set_pic_tp u (drop_etp (u_pic_tp u))) = TPpic) by exact S.
    rewrite S'. inversion Htp; subst. eexists; split; [reflexivity|]. cbn. auto.
  - assert (S' : tp_select d (set_frag_tp u (drop_etp (u_frag_tp u))) = TPfrag) by exact S.
    rewrite S'. inversion Htp; subst. eexists; split; [reflexivity|]. cbn. auto.
  - discriminate.
Qed.

Lemma mv_fill_etp d mv : forall us b,
  (forall u, In u us -> val_has_tp d u = true -> tp_version d (val_tp d u) <= mv) ->
  Forall2 (etp_ok d) us (mv_fill d mv b us).
Proof.
  induction us as [|u r IH]; intros b H; cbn [mv_fill]; [constructor|].
  assert (Hr : forall x, In x r -> val_has_tp d x = true -> tp_version d (val_tp d x) <= mv).
  { intros x Hx. apply H. right; exact Hx. }
  destruct (eff_parse_code d u =? PC_SEQUENCE_HEADER) eqn:E.
  - destruct (mv_is_auto d (sh_major_version (u_sh u))); constructor; auto using etp_ok_refl.
    intros tp Htp. rewrite (get_tp_header d u E) in Htp. discriminate.
  - constructor; auto. destruct (b && (mv <? 3)) eqn:C; [|apply etp_ok_refl].
    apply (etp_ok_drop d mv); [lia | apply H; left; reflexivity].
Qed.

Theorem etp_removed_only_if_symmetric d us : Forall2 (etp_ok d) us (mv_seq d us).
Proof.
  unfold mv_seq. apply mv_fill_etp. intros u Hu T.
  rewrite seq_version_is_max. apply lmax_ge_in. unfold af_feats. apply in_flat_map. exists u.
  split; [exact Hu | apply val_tp_in_af; exact T].
Qed.
(* ---------- lifting the per-pass results to the whole pipeline ---------- *)
Lemma Forall2_compose {A B C} (R : A -> B -> Prop) (S : B -> C -> Prop) : forall l1 l2 l3,
  Forall2 R l1 l2 -> Forall2 S l2 l3 -> Forall2 (fun a c => exists b, R a b /\ S b c) l1 l3.
Proof.
  intros l1 l2 l3 H; revert l3; induction H; intros l3 H'; inversion H'; subst; constructor; eauto.
Qed.
Lemma Forall2_impl {A B} (R S : A -> B -> Prop) : (forall a b, R a b -> S a b) ->
  forall l1 l2, Forall2 R l1 l2 -> Forall2 S l1 l2.
Proof. intros H l1 l2 HF; induction HF; constructor; auto. Qed.

(* the later passes do not touch parse code, numbers, sequence header (except its version), transforms' wavelet *)
Definition same_hdr (u u' : dunit) : Prop :=
  u_parse_code u' = u_parse_code u /\ u_pic_number u' = u_pic_number u /\ u_frag_number u' = u_frag_number u /\
  u_sh u' = u_sh u.
Lemma same_hdr_number u u' : same_hdr u u' -> pn_kind u' = pn_kind u /\ number_of u' = number_of u.
Proof.
  intros (H1 & H2 & H3 & _). assert (K : pn_kind u' = pn_kind u) by (unfold pn_kind; rewrite H1; reflexivity).
  split; [exact K|]. unfold number_of, pn_field. rewrite K, H2, H3. reflexivity.
Qed.

Lemma fin_len_same_hdr d : forall us prev, Forall2 same_hdr us (fin_len prev (map (po_unit d) us)).
Proof.
  induction us as [|u r IH]; intros prev; cbn [map fin_len]; constructor; auto.
  unfold fin_unit, po_unit. cbn [m_unit m_npo_todo m_ppo_todo].
  destruct (is_autoish (po_padaux d u)); destruct (is_autoish (u_ppo u)); unfold same_hdr; cbn; auto.
Qed.

Lemma mv_fill_same_numbers d mv : forall us b,
  Forall2 (fun u u' => u_parse_code u' = u_parse_code u /\ u_pic_number u' = u_pic_number u /\ u_frag_number u' = u_frag_number u)
          us (mv_fill d mv b us).
Proof.
  induction us as [|u r IH]; intros b; cbn [mv_fill]; [constructor|].
  destruct (eff_parse_code d u =? PC_SEQUENCE_HEADER).
  - destruct (mv_is_auto d (sh_major_version (u_sh u))); constructor; auto.
  - constructor; auto. destruct (b && (mv <? 3)); auto.
    unfold drop_unit_etp. destruct (tp_select d u); cbn; auto.
Qed.

(* the numbers in the serialised description are those assigned by the numbering pass *)
Theorem picnum_final d start s i us :
  nth_error s i = Some us ->
  exists us', nth_error (autofill_stream d start s) i = Some us' /\
    Forall2 (fun a b => pn_kind b = pn_kind a /\ number_of b = number_of a) (pn_seq d 4294967295 us) us'.
Proof.
  intros Hs. rewrite autofill_stream_per_sequence. exists (seq_out d us). split; [rewrite nth_error_map, Hs; reflexivity|].
  unfold seq_out, seq_prep, mv_seq.
  pose proof (mv_fill_same_numbers d (seq_version d (pn_seq d L0 us)) (pn_seq d L0 us) false) as H1.
  pose proof (fin_len_same_hdr d (mv_fill d (seq_version d (pn_seq d L0 us)) false (pn_seq d L0 us)) None) as H2.
  pose proof (Forall2_compose _ _ _ _ _ H1 H2) as H3.
  eapply Forall2_impl; [|exact H3]. intros a c (b & (A1 & A2 & A3) & HB).
  apply same_hdr_number in HB. destruct HB as [K N].
  assert (K' : pn_kind b = pn_kind a) by (unfold pn_kind; rewrite A1; reflexivity).
  split; [congruence|]. rewrite N. unfold number_of, pn_field. rewrite K', A2, A3. reflexivity.
Qed.

(* the version does not depend on picture numbers *)
Lemma pn_unit_version d l mv u : unit_version d mv (fst (pn_unit d l u)) = unit_version d mv u.
Proof. unfold pn_unit. destruct (pn_kind u); reflexivity. Qed.
Lemma pn_seq_version d : forall us l mv,
  fold_left (unit_version d) (pn_seq d l us) mv = fold_left (unit_version d) us mv.
Proof.
  induction us as [|u r IH]; intros l mv; [reflexivity|]. cbn [pn_seq].
  pose proof (pn_unit_version d l mv u) as H. destruct (pn_unit d l u) as [u' l']. cbn [fst] in H.
  cbn [fold_left]. rewrite IH, H. reflexivity.
Qed.
Lemma pn_seq_hdr d : forall us l,
  Forall2 (fun u u' => u_parse_code u' = u_parse_code u /\ u_sh u' = u_sh u) us (pn_seq d l us).
Proof.
  induction us as [|u r IH]; intros l; cbn [pn_seq]; [constructor|].
  assert (H : u_parse_code (fst (pn_unit d l u)) = u_parse_code u /\ u_sh (fst (pn_unit d l u)) = u_sh u).
  { unfold pn_unit. destruct (pn_kind u); split; reflexivity. }
  destruct (pn_unit d l u) as [u' l']. constructor; auto.
Qed.

(* whole pipeline: every automatic major_version of sequence i is the maximum over that sequence's features *)
Theorem major_version_final d start s i us :
  nth_error s i = Some us ->
  exists us', nth_error (autofill_stream d start s) i = Some us' /\
    Forall2 (fun u u' => (eff_parse_code d u =? PC_SEQUENCE_HEADER) = true ->
                         mv_is_auto d (sh_major_version (u_sh u)) = true ->
                         sh_major_version (u_sh u') = Explicit (seq_version d us)) us us'.
Proof.
  intros Hs. rewrite autofill_stream_per_sequence. exists (seq_out d us). split; [rewrite nth_error_map, Hs; reflexivity|].
  unfold seq_out, seq_prep.
  assert (EV : seq_version d (pn_seq d L0 us) = seq_version d us) by (unfold seq_version; apply pn_seq_version).
  pose proof (pn_seq_hdr d us L0) as H1.
  pose proof (mv_headers_filled d (pn_seq d L0 us)) as H2. rewrite EV in H2.
  pose proof (fin_len_same_hdr d (mv_seq d (pn_seq d L0 us)) None) as H3.
  pose proof (Forall2_compose _ _ _ _ _ (Forall2_compose _ _ _ _ _ H1 H2) H3) as H4.
  eapply Forall2_impl; [|exact H4]. intros a c (b & (a1 & (A1 & A2) & HB) & (_ & _ & _ & C4)) Hpc Hau.
  rewrite C4. apply HB.
  - unfold eff_parse_code in *. rewrite A1. exact Hpc.
  - rewrite A2. exact Hau.
Qed.
