From Coq Require Import ZArith List Bool Lia ZifyBool Btauto.
From VC2 Require Import Base.PyZ Gen.StateRec Gen.ParseCodes Gen.Version Model.Stream Proofs.StreamProofs.
Import ListNotations.
Open Scope Z_scope.

Ltac ex_refl := first [exists BadLevel; reflexivity | eexists; reflexivity].

Section Refine.
  Variable gst : Type.
  Variable gstart : gst.
  Variable gstep : gst -> symbol -> option gst.
  Variable gcomplete : gst -> bool.
  Variable lst : Type.
  Variable lstart : Z -> lst.
  Variable lstep : Z -> lst -> symbol -> option lst.
  Variable lcomplete : Z -> lst -> bool.
  Variable level_known : Z -> bool.

  (* the sequence's first header *)
  Variable h0 : hdr.

  (* ---- the product of the ten checkers, as one state machine over the data units that follow
     the first header *)
  Record cst := mkC { c_prev : Z; c_last : option Z; c_idx : Z; c_o : frag_open;
                      c_ls : lst; c_g : gst; c_accv : Z }.

  Definition fields := h_pcm h0 =? 1.
  Definition hdr_same (u : dunit) : bool :=
    match u_kind u with KSeqHdr h => h_id h =? h_id h0 | _ => true end.
  Definition code_ok (u : dunit) : bool := profile_allows (h_profile h0) (u_symbol u).
  Definition supp_ok (u : dunit) : bool := symbol_version (u_symbol u) <=? h_major h0.
  Definition picnum_head (c : cst) (u : dunit) : bool :=
    match u_kind u with
    | KPic _ n _ | KFragFirst _ n _ =>
        match c_last c with Some l => n =? (l + 1) mod 4294967296 | None => true end &&
        (negb fields || negb (c_idx c mod 2 =? 0) || (n mod 2 =? 0))
    | _ => true
    end.
  Definition new_pic (u : dunit) : Z := if is_new_picture u then 1 else 0.

  Definition head_ok (c : cst) (u : dunit) : bool :=
    (u_ppo u =? c_prev c) && npo_ok u && hdr_same u && code_ok u && supp_ok u && picnum_head c u &&
    match frag_step (c_o c) u with Some _ => true | None => false end &&
    match lstep (h_level h0) (c_ls c) (u_symbol u) with Some _ => true | None => false end &&
    match gstep (c_g c) (u_symbol u) with Some _ => true | None => false end.

  Definition cnext (c : cst) (u : dunit) : cst :=
    mkC (u_len u)
        (match u_kind u with KPic _ n _ | KFragFirst _ n _ => Some n | _ => c_last c end)
        (c_idx c + new_pic u)
        (match frag_step (c_o c) u with Some o => o | None => c_o c end)
        (match lstep (h_level h0) (c_ls c) (u_symbol u) with Some l => l | None => c_ls c end)
        (match gstep (c_g c) (u_symbol u) with Some g => g | None => c_g c end)
        (Z.max (unit_version u) (c_accv c)).

  Definition final_ok (c : cst) : bool :=
    ((h_major h0 <=? c_accv c) || ((c_idx c =? 0) && (h_major h0 =? 3))) &&
    (negb fields || (c_idx c mod 2 =? 0)) &&
    match c_o c with None => true | Some _ => false end &&
    lcomplete (h_level h0) (c_ls c) && gcomplete (c_g c).

  Fixpoint prod_ok (c : cst) (us : list dunit) : bool :=
    match us with
    | [] => false
    | u :: r =>
        if is_eos_kind (u_kind u)
        then match r with [] => head_ok c u && final_ok (cnext c u) | _ => false end
        else head_ok c u && prod_ok (cnext c u) r
    end.

  (* ---- the ten independent checkers, on the tail, from arbitrary checker states *)
  Definition needed_from (a : Z) (us : list dunit) : Z :=
    fold_right (fun u a => Z.max (unit_version u) a) a us.
  Definition tail_rules (c : cst) (us : list dunit) : bool :=
    eos_only_last us && offsets_from (c_prev c) us && forallb hdr_same us && forallb code_ok us &&
    (forallb supp_ok us &&
     ((h_major h0 <=? needed_from (c_accv c) us) || ((c_idx c + count_pictures us =? 0) && (h_major h0 =? 3)))) &&
    picnums_from fields (c_last c) (c_idx c) us &&
    (negb fields || ((c_idx c + count_pictures us) mod 2 =? 0)) &&
    frags_from (c_o c) us &&
    automaton_accepts lst (lstep (h_level h0)) (lcomplete (h_level h0)) (c_ls c) (map u_symbol us) &&
    automaton_accepts gst gstep gcomplete (c_g c) (map u_symbol us).

  Lemma needed_from_max a v us : needed_from (Z.max v a) us = Z.max v (needed_from a us).
  Proof. unfold needed_from. induction us as [|u r IH]; cbn [fold_right]; [reflexivity|]. rewrite IH. lia. Qed.

  Lemma count_pictures_cons u r : count_pictures (u :: r) = new_pic u + count_pictures r.
  Proof.
    unfold count_pictures, new_pic. cbn [filter]. destruct (is_new_picture u); cbn [length]; [rewrite Nat2Z.inj_succ|]; lia.
  Qed.

  Lemma eos_symbol u : is_eos_kind (u_kind u) = true -> u_kind u = KEos.
  Proof. destruct (u_kind u); simpl; congruence. Qed.

  Lemma prod_ok_tail_rules us : forall c, prod_ok c us = tail_rules c us.
  Proof.
    induction us as [|u r IH]; intros c.
    - reflexivity.
    - unfold tail_rules. cbn [prod_ok eos_only_last offsets_from forallb frags_from map automaton_accepts].
      rewrite count_pictures_cons. cbn [needed_from fold_right]. fold (needed_from (c_accv c) r).
      destruct (is_eos_kind (u_kind u)) eqn:Eeos.
      + pose proof (eos_symbol u Eeos) as Ek. destruct r as [|u' r'].
        * unfold head_ok, final_ok, cnext, hdr_same, code_ok, supp_ok, picnum_head, new_pic, is_new_picture, frag_step, u_symbol.
          cbn [picnums_from]. rewrite Ek. cbn. destruct (lstep _ _ _); destruct (gstep _ _); destruct (c_o c);
            cbn; rewrite ?andb_false_r, ?Z.add_0_r; try reflexivity; btauto.
        * reflexivity.
      + rewrite IH. unfold tail_rules, head_ok.
        assert ((match r with [] => false | _ :: _ => negb false && eos_only_last r end) = eos_only_last r) as ->
            by (destruct r; reflexivity).
        cbn [cnext c_prev c_last c_idx c_o c_ls c_g c_accv].
        rewrite needed_from_max. rewrite <- Z.add_assoc.
        replace (picnums_from fields (c_last c) (c_idx c) (u :: r)) with
            (picnum_head c u && picnums_from fields
               (match u_kind u with KPic _ n _ | KFragFirst _ n _ => Some n | _ => c_last c end)
               (c_idx c + new_pic u) r).
        2:{ unfold picnum_head, new_pic, is_new_picture. cbn [picnums_from].
            destruct (u_kind u); cbn; rewrite ?Z.add_0_r; try reflexivity; btauto. }
        fold (hdr_same u) (code_ok u) (supp_ok u).
        destruct (frag_step (c_o c) u); destruct (lstep _ _ _); destruct (gstep _ _);
          rewrite ?andb_false_r; cbn; rewrite ?andb_false_r; try reflexivity; try btauto.
  Qed.

  (* ---- simulation: validator state vs. product-checker state *)
  Notation Mstep := (step gst gstep gcomplete lst lstart lstep lcomplete level_known false).
  Notation Mrun_from := (run_from gst gstart gstep gcomplete lst lstart lstep lcomplete level_known false).

  Hypothesis H0_version : hdr_version h0 <= h_major h0.
  Hypothesis H0_profile : profile_known (h_profile h0) = true.
  Hypothesis H0_level : level_known (h_level h0) = true.

  Definition frel (f : fstate) (o : frag_open) (last : option Z) : Prop :=
    match o with
    | None => f_remaining f = 0
    | Some (n0, sx, rcv, rem) =>
        f_remaining f = rem /\ 0 < rem /\ f_received f = Some rcv /\ f_init_offset f = true /\
        f_slices_x f = Some sx /\ sx <> 0 /\ last = Some n0
    end.

  Definition R (s : vstate gst lst) (c : cst) (npo : Z) : Prop :=
    vp s = mkP (Some (c_prev c)) (Some npo) /\
    vh s = mkH (Some (h_id h0)) (Some (h_profile h0)) (Some (h_major h0)) (Some (h_pcm h0)) (Some (c_accv c)) /\
    vn s = mkN (c_last c) (c_idx c) /\
    frel (vf s) (c_o c) (c_last c) /\
    vm s = mkM (c_g c) (Some (h_level h0, c_ls c)) /\
    hdr_version h0 <= c_accv c.

  Definition pending_ok (npo prev : Z) : bool := (npo =? 0) || (npo =? prev).
  Definition npo_eager (u : dunit) : bool :=
    (if is_eos_kind (u_kind u) then u_npo u =? 0
     else if negb (is_picture_kind (u_kind u) || is_fragment_kind (u_kind u)) then negb (u_npo u =? 0) else true) &&
    negb ((1 <=? u_npo u) && (u_npo u <? PARSE_INFO_HEADER_BYTES)) &&
    match u_kind u with KPad | KAux => u_npo u =? u_len u | _ => true end.

  Lemma npo_ok_split u : PARSE_INFO_HEADER_BYTES <= u_len u ->
    npo_ok u = npo_eager u && pending_ok (u_npo u) (u_len u).
  Proof.
    unfold npo_ok, npo_eager, pending_ok, PARSE_INFO_HEADER_BYTES. intros Hl.
    destruct (u_kind u); cbn; lia.
  Qed.

  Definition head_ok' (c : cst) (u : dunit) : bool :=
    (u_ppo u =? c_prev c) && npo_eager u && hdr_same u && code_ok u && supp_ok u && picnum_head c u &&
    match frag_step (c_o c) u with Some _ => true | None => false end &&
    match lstep (h_level h0) (c_ls c) (u_symbol u) with Some _ => true | None => false end &&
    match gstep (c_g c) (u_symbol u) with Some _ => true | None => false end.

  Lemma head_ok_split c u : PARSE_INFO_HEADER_BYTES <= u_len u ->
    head_ok c u = head_ok' c u && pending_ok (u_npo u) (u_len u).
  Proof. intros Hl. unfold head_ok, head_ok'. rewrite (npo_ok_split u Hl). btauto. Qed.

  Definition uvalid (u : dunit) : Prop := unit_valid level_known (Some h0) u = true.

  Definition step_post (s : vstate gst lst) (c : cst) (npo : Z) (u : dunit) (r : step_result gst lst) : Prop :=
    match r with
    | Continue s' => pending_ok npo (c_prev c) = true /\ head_ok' c u = true /\
                     is_eos_kind (u_kind u) = false /\ R s' (cnext c u) (u_npo u)
    | SeqDone => pending_ok npo (c_prev c) = true /\ head_ok' c u = true /\
                 is_eos_kind (u_kind u) = true /\ final_ok (cnext c u) = true
    | Fail v => v <> Accept /\
                pending_ok npo (c_prev c) && head_ok' c u &&
                (negb (is_eos_kind (u_kind u)) || final_ok (cnext c u)) = false
    end.

  Notation Mparse_info := (parse_info gst gstep lst lstep false).

  Definition npo_eager_pi (u : dunit) : bool :=
    (if is_eos_kind (u_kind u) then u_npo u =? 0
     else if negb (is_picture_kind (u_kind u) || is_fragment_kind (u_kind u)) then negb (u_npo u =? 0) else true) &&
    negb ((1 <=? u_npo u) && (u_npo u <? PARSE_INFO_HEADER_BYTES)).

  Definition pi_conds (c : cst) (npo : Z) (u : dunit) : bool :=
    pending_ok npo (c_prev c) && (u_ppo u =? c_prev c) && npo_eager_pi u && code_ok u && supp_ok u &&
    match lstep (h_level h0) (c_ls c) (u_symbol u) with Some _ => true | None => false end &&
    match gstep (c_g c) (u_symbol u) with Some _ => true | None => false end.

  Lemma chk_prev_npo_spec prev npo :
    chk_prev_npo (mkP (Some prev) (Some npo)) =
    if pending_ok npo prev then Ok tt else Reject InconsistentNextParseOffset.
  Proof.
    unfold chk_prev_npo, pending_ok, raise_if, get. cbn.
    destruct (npo =? 0); cbn; [reflexivity|]. destruct (npo =? prev); reflexivity.
  Qed.

  Lemma chk_npo_spec u : exists e, chk_npo u = if npo_eager_pi u then Ok tt else Reject e.
  Proof.
    unfold chk_npo, npo_eager_pi, raise_if, bind.
    destruct (is_eos_kind (u_kind u));
      destruct (negb (is_picture_kind (u_kind u) || is_fragment_kind (u_kind u)));
      destruct (u_npo u =? 0);
      destruct ((1 <=? u_npo u) && (u_npo u <? PARSE_INFO_HEADER_BYTES));
      cbn [negb andb]; first [exists BadLevel; reflexivity | eexists; reflexivity].
  Qed.

  Lemma chk_ppo_spec prev npo u : exists e,
    chk_ppo false (mkP (Some prev) npo) u = if u_ppo u =? prev then Ok tt else Reject e.
  Proof. unfold chk_ppo. cbn. destruct (u_ppo u =? prev); cbn; first [exists BadLevel; reflexivity | eexists; reflexivity]. Qed.

  Lemma parse_info_spec s c npo u : R s c npo ->
    match Mparse_info s u with
    | Ok s1 => pi_conds c npo u = true /\
               exists g' ls', gstep (c_g c) (u_symbol u) = Some g' /\
                              lstep (h_level h0) (c_ls c) (u_symbol u) = Some ls' /\
                 s1 = mkV (mkP (Some (c_prev c)) (Some (u_npo u)))
                          (mkH (Some (h_id h0)) (Some (h_profile h0)) (Some (h_major h0)) (Some (h_pcm h0))
                               (Some (Z.max (c_accv c) (symbol_version (u_symbol u)))))
                          (vn s) (vf s) (mkM g' (Some (h_level h0, ls')))
    | Reject _ => pi_conds c npo u = false
    | Crash _ => False
    end.
  Proof.
    intros (Ep & Eh & En & Hf & Em & Hacc).
    unfold parse_info, pi_conds, code_ok, supp_ok.
    rewrite Ep, chk_prev_npo_spec.
    destruct (pending_ok npo (c_prev c)); cbn [bind andb]; [|reflexivity].
    unfold chk_gen; rewrite Em; cbn [m_gen m_lvl].
    destruct (gstep (c_g c) (u_symbol u)) as [g'|] eqn:Eg; cbn [bind]; [|rewrite ?andb_false_r; reflexivity].
    unfold chk_lvl; cbn [m_lvl].
    destruct (lstep (h_level h0) (c_ls c) (u_symbol u)) as [ls'|] eqn:El; cbn [bind]; [|rewrite ?andb_false_r; reflexivity].
    unfold chk_profile, chk_version; rewrite Eh; cbn [s_profile s_major]. unfold raise_if.
    destruct (profile_allows (h_profile h0) (u_symbol u)) eqn:Ec; cbn [negb bind]; [|rewrite ?andb_false_r; reflexivity].
    destruct (h_major h0 <? symbol_version (u_symbol u)) eqn:Es; cbn [bind].
    { assert ((symbol_version (u_symbol u) <=? h_major h0) = false) as -> by lia. rewrite ?andb_false_r; reflexivity. }
    assert ((symbol_version (u_symbol u) <=? h_major h0) = true) as -> by lia.
    destruct (chk_npo_spec u) as (e1 & ->).
    destruct (npo_eager_pi u); cbn [bind]; [|rewrite ?andb_false_r; reflexivity].
    destruct (chk_ppo_spec (c_prev c) (Some npo) u) as (e2 & ->).
    destruct (u_ppo u =? c_prev c); cbn [bind]; [|rewrite ?andb_false_r; reflexivity].
    split; [reflexivity|]. exists g', ls'. repeat split.
  Qed.

  Notation Mdata_unit := (data_unit gst lst lstart lstep level_known false).

  Lemma symbol_version_ge1 sym : 1 <= symbol_version sym.
  Proof. destruct sym; vm_compute; discriminate. Qed.

  Definition du_conds (c : cst) (u : dunit) : bool :=
    hdr_same u && picnum_head c u && match frag_step (c_o c) u with Some _ => true | None => false end.

  (* state after parse_info, kind-specific part *)
  Definition R1 (s1 : vstate gst lst) (c : cst) (a1 : Z) (g1 : gst) (ls1 : lst) : Prop :=
    vh s1 = mkH (Some (h_id h0)) (Some (h_profile h0)) (Some (h_major h0)) (Some (h_pcm h0)) (Some a1) /\
    vn s1 = mkN (c_last c) (c_idx c) /\
    frel (vf s1) (c_o c) (c_last c) /\
    vm s1 = mkM g1 (Some (h_level h0, ls1)).

  Definition du_post (s1 s2 : vstate gst lst) (c : cst) (a1 : Z) (g1 : gst) (ls1 : lst) (u : dunit) : Prop :=
    vp s2 = vp s1 /\
    vh s2 = mkH (Some (h_id h0)) (Some (h_profile h0)) (Some (h_major h0)) (Some (h_pcm h0))
                (Some (Z.max (unit_version u) a1)) /\
    vn s2 = mkN (c_last (cnext c u)) (c_idx (cnext c u)) /\
    frel (vf s2) (c_o (cnext c u)) (c_last (cnext c u)) /\
    vm s2 = mkM g1 (Some (h_level h0, ls1)).

  Lemma chk_frag_closed_spec f o last e : frel f o last ->
    chk_frag_closed f e = match o with None => Ok tt | Some _ => Reject e end.
  Proof.
    unfold frel, chk_frag_closed. destruct o as [[[[n0 sx] rcv] rem]|].
    - intros (-> & Hrem & -> & -> & _). assert ((rem =? 0) = false) as -> by lia. reflexivity.
    - intros ->. reflexivity.
  Qed.

  Definition picnum_cond (c : cst) (n : Z) : bool :=
    match c_last c with Some l => n =? (l + 1) mod 4294967296 | None => true end &&
    (negb fields || negb (c_idx c mod 2 =? 0) || (n mod 2 =? 0)).

  Lemma picture_number_step_spec c n :
    exists e, picture_number_step (Some (h_pcm h0)) (mkN (c_last c) (c_idx c)) n =
              if picnum_cond c n then Ok (mkN (Some n) (c_idx c + 1)) else Reject e.
  Proof.
    unfold picture_number_step, picnum_cond, fields, raise_if, get, bind. cbn [n_last_picnum n_num_pictures].
    destruct (c_last c) as [l|].
    - destruct (n =? (l + 1) mod 4294967296); cbn [negb andb]; [|ex_refl].
      destruct (h_pcm h0 =? 1); destruct (c_idx c mod 2 =? 0); destruct (n mod 2 =? 0); cbn; ex_refl.
    - destruct (h_pcm h0 =? 1); destruct (c_idx c mod 2 =? 0); destruct (n mod 2 =? 0); cbn; ex_refl.
  Qed.

  Lemma hdr_eqb_eq h : hdr_eqb h h0 = true ->
    h_id h = h_id h0 /\ h_major h = h_major h0 /\ h_profile h = h_profile h0 /\ h_level h = h_level h0 /\
    h_pcm h = h_pcm h0 /\ h_pvmin h = h_pvmin h0.
  Proof. unfold hdr_eqb. intros H. repeat (apply andb_prop in H; destruct H as (H & ?)). lia. Qed.

  Lemma data_unit_spec s1 c a1 g1 ls1 u :
    R1 s1 c a1 g1 ls1 -> uvalid u -> hdr_version h0 <= a1 -> symbol_version (u_symbol u) <= a1 ->
    is_eos_kind (u_kind u) = false ->
    match Mdata_unit s1 u with
    | Ok s2 => du_conds c u = true /\ du_post s1 s2 c a1 g1 ls1 u
    | Reject _ => du_conds c u = false
    | Crash _ => False
    end.
  Proof.
    intros (Eh & En & Hf & Em) Hv Ha1 Hsv Heos.
    unfold uvalid, unit_valid in Hv. apply andb_prop in Hv. destruct Hv as (Hlen & Hv).
    unfold data_unit, du_conds, du_post, hdr_same, picnum_head, cnext, new_pic, is_new_picture, unit_version, u_symbol in *.
    destruct (u_kind u) as [h|hq n tp|hq n tp|hq n cnt x y| | |] eqn:Ek; cbn [c_last c_idx c_o kind_symbol] in *.
    - (* sequence header *)
      apply andb_prop in Hv. destruct Hv as (Hv1 & Hv). apply andb_prop in Hv1. destruct Hv1 as (Hpk & Hlk).
      unfold sequence_header. rewrite Em, Eh. cbn [make_lvl m_lvl bind chk_lvl_value fst m_gen].
      unfold frag_step. rewrite Ek.
      destruct (h_id h =? h_id h0) eqn:Eid.
      + (* identical header *)
        cbn [negb orb] in Hv. destruct (hdr_eqb_eq h Hv) as (E1 & E2 & E3 & E4 & E5 & E6).
        unfold hdr_version, MINIMUM_MAJOR_VERSION in *.
        unfold chk_hdr_params, chk_presets, chk_hdr_same, chk_lvl_value, raise_if, MINIMUM_MAJOR_VERSION. cbn [s_last_hdr fst].
        rewrite E1, E2, E3, E4, E6, H0_profile, H0_level.
        assert ((h_major h0 <? 1) = false) as -> by lia.
        assert ((h_major h0 <? profile_version_implication (h_profile h0)) = false) as -> by lia.
        assert ((h_major h0 <? h_pvmin h0) = false) as -> by lia.
        rewrite !Z.eqb_refl. cbn [negb bind].
        split; [destruct (c_o c); reflexivity|].
        rewrite E5. unfold log_version_lower_bound. cbn.
        replace (Z.max (Z.max a1 (profile_version_implication (h_profile h0))) (h_pvmin h0)) with (Z.max 1 a1) by lia.
        split; [reflexivity|]. split; [reflexivity|]. split; [rewrite Z.add_0_r; assumption|].
        split; [assumption|reflexivity].
      + (* another header: some check rejects it *)
        rewrite andb_false_l.
        unfold chk_hdr_params, chk_presets, chk_hdr_same, chk_lvl_value, raise_if. cbn [s_last_hdr fst].
        destruct (h_major h <? MINIMUM_MAJOR_VERSION); [reflexivity|].
        destruct (negb (profile_known (h_profile h))); [reflexivity|].
        destruct (h_major h <? profile_version_implication (h_profile h)); [reflexivity|].
        destruct (negb (level_known (h_level h))); [reflexivity|]. cbn [bind].
        destruct (negb (h_level h0 =? h_level h)); [reflexivity|]. cbn [bind].
        destruct (h_major h <? h_pvmin h); [reflexivity|]. cbn [bind].
        rewrite Z.eqb_sym, Eid. reflexivity.
    - (* picture *)
      rewrite (chk_frag_closed_spec _ _ _ PictureInterleavedWithFragmentedPicture Hf). unfold frag_step. rewrite Ek.
      destruct (c_o c) as [o'|] eqn:Eo; cbn [bind]; [rewrite andb_false_r; reflexivity|].
      rewrite Eh, En. cbn [s_pcm].
      destruct (picture_number_step_spec c n) as (e & Hpn). unfold picnum_cond in Hpn. rewrite Hpn. clear Hpn.
      destruct (match c_last c with Some l => n =? (l + 1) mod 4294967296 | None => true end &&
                (negb fields || negb (c_idx c mod 2 =? 0) || (n mod 2 =? 0))); cbn [bind andb]; [|reflexivity].
      unfold tp_version, chk_slices, raise_if. cbn [s_major get bind].
      unfold tp_valid in Hv. assert ((tp_sx tp =? 0) || (tp_sy tp =? 0) = false) as -> by lia.
      split; [reflexivity|]. cbn.
      split; [reflexivity|]. split.
      { pose proof (symbol_version_ge1 (if hq then SHqPic else SLdPic)).
        destruct (3 <=? h_major h0) eqn:E3; unfold log_version_lower_bound; cbn; f_equal; f_equal.
        - lia.
        - assert (wavelet_transform_version_implication (tp_wi tp) (tp_wi_ho tp) (tp_depth_ho tp) = 1) as ->.
          { unfold wavelet_transform_version_implication.
            assert ((tp_depth_ho tp =? 0) = true) as -> by lia. assert ((tp_wi tp =? tp_wi_ho tp) = true) as -> by lia. reflexivity. }
          lia. }
      split; [reflexivity|]. split; [|assumption].
      unfold frel in *. cbn. assumption.
    - (* first fragment *)
      rewrite (chk_frag_closed_spec _ _ _ FragmentedPictureRestarted Hf). unfold frag_step. rewrite Ek.
      destruct (c_o c) as [o'|] eqn:Eo; cbn [bind]; [rewrite andb_false_r; reflexivity|].
      rewrite Eh, En. cbn [s_pcm].
      destruct (picture_number_step_spec c n) as (e & Hpn). unfold picnum_cond in Hpn. rewrite Hpn. clear Hpn.
      destruct (match c_last c with Some l => n =? (l + 1) mod 4294967296 | None => true end &&
                (negb fields || negb (c_idx c mod 2 =? 0) || (n mod 2 =? 0))); cbn [bind andb]; [|reflexivity].
      unfold tp_version, chk_slices, raise_if. cbn [s_major get bind].
      unfold tp_valid in Hv. assert ((tp_sx tp =? 0) || (tp_sy tp =? 0) = false) as -> by lia.
      split; [reflexivity|]. cbn.
      split; [reflexivity|]. split.
      { pose proof (symbol_version_ge1 (if hq then SHqFrag else SLdFrag)).
        destruct (3 <=? h_major h0) eqn:E3; unfold log_version_lower_bound; cbn; f_equal; f_equal.
        - lia.
        - assert (wavelet_transform_version_implication (tp_wi tp) (tp_wi_ho tp) (tp_depth_ho tp) = 1) as ->.
          { unfold wavelet_transform_version_implication.
            assert ((tp_depth_ho tp =? 0) = true) as -> by lia. assert ((tp_wi tp =? tp_wi_ho tp) = true) as -> by lia. reflexivity. }
          lia. }
      split; [reflexivity|]. split; [|assumption].
      unfold frel. cbn. repeat split; try reflexivity; nia.
    - (* slice-bearing fragment *)
      unfold chk_frag_picnum, chk_frag_count, frag_data, frag_step, raise_if, get. rewrite En, Ek. cbn [n_last_picnum andb].
      rewrite Z.add_0_r.
      destruct (c_o c) as [[[[n0 sx] rcv] rem]|] eqn:Eo.
      + destruct Hf as (Er & Hrem & Ercv & Eio & Esx & Hsx & El). rewrite El, Er, Ercv, Esx, Eio. cbn [bind negb].
        rewrite (Z.eqb_sym n0 n).
        destruct (n =? n0) eqn:En0; cbn [negb bind andb]; [|reflexivity].
        destruct (rem <? cnt) eqn:Ec; cbn [bind andb].
        { assert ((cnt <=? rem) = false) as -> by lia. reflexivity. }
        assert ((cnt <=? rem) = true) as -> by lia. cbn [andb].
        assert ((sx =? 0) = false) as -> by lia.
        destruct (x =? rcv mod sx); cbn [negb orb andb]; [|reflexivity].
        destruct (y =? rcv / sx); cbn [negb orb andb]; [|reflexivity].
        split; [reflexivity|]. cbn.
        split; [reflexivity|]. split.
        { rewrite Eh. f_equal. f_equal. lia. }
        split; [reflexivity|]. split; [|assumption].
        unfold frel. cbn. destruct (rem - cnt =? 0) eqn:E0.
        * lia.
        * repeat split; try reflexivity; try assumption; lia.
      + unfold frel in Hf. rewrite Hf.
        destruct (c_last c) as [l|]; cbn [bind].
        * destruct (negb (l =? n)); cbn [bind]; [rewrite ?andb_false_r; reflexivity|].
          assert ((0 <? cnt) = true) as -> by lia. cbn [bind]. reflexivity.
        * assert ((0 <? cnt) = true) as -> by lia. cbn [bind]. reflexivity.
    - (* padding *)
      assert (1 <= a1) by (pose proof (symbol_version_ge1 SPad); lia).
      unfold frag_step. rewrite Ek. cbn.
      split; [destruct (c_o c); reflexivity|]. rewrite Z.add_0_r.
      split; [reflexivity|]. split; [rewrite Eh; f_equal; f_equal; lia|]. split; [assumption|].
      split; [destruct (c_o c); assumption|assumption].
    - (* auxiliary data *)
      assert (1 <= a1) by (pose proof (symbol_version_ge1 SAux); lia).
      unfold frag_step. rewrite Ek. cbn.
      split; [destruct (c_o c); reflexivity|]. rewrite Z.add_0_r.
      split; [reflexivity|]. split; [rewrite Eh; f_equal; f_equal; lia|]. split; [assumption|].
      split; [destruct (c_o c); assumption|assumption].
    - discriminate.
  Qed.

  Notation Mend := (end_of_sequence gst gcomplete lst lcomplete).

  Definition fin (c : cst) (a1 : Z) (g1 : gst) (ls1 : lst) : bool :=
    ((h_major h0 <=? a1) || ((c_idx c =? 0) && (h_major h0 =? 3))) &&
    (negb fields || (c_idx c mod 2 =? 0)) &&
    match c_o c with None => true | Some _ => false end &&
    lcomplete (h_level h0) ls1 && gcomplete g1.

  Lemma end_spec s1 c a1 g1 ls1 : R1 s1 c a1 g1 ls1 ->
    match Mend s1 with
    | Ok _ => fin c a1 g1 ls1 = true
    | Reject _ => fin c a1 g1 ls1 = false
    | Crash _ => False
    end.
  Proof.
    intros (Eh & En & Hf & Em). unfold end_of_sequence, fin, fields.
    unfold chk_gen_complete, chk_lvl_complete, raise_if. rewrite Em. cbn [m_gen m_lvl].
    destruct (gcomplete g1); cbn [negb bind]; [|rewrite ?andb_false_r; reflexivity].
    destruct (lcomplete (h_level h0) ls1); cbn [negb bind]; [|rewrite ?andb_false_r; reflexivity].
    rewrite (chk_frag_closed_spec _ _ _ SequenceContainsIncompleteFragmentedPicture Hf).
    destruct (c_o c); cbn [bind]; [rewrite ?andb_false_r; reflexivity|].
    unfold chk_whole_frames, chk_version_minimal, raise_if, get. rewrite Eh, En. cbn [s_pcm s_major s_expected_major n_num_pictures].
    destruct (h_pcm h0 =? 1); cbn [andb negb orb].
    - destruct (c_idx c mod 2 =? 0); cbn [negb bind]; [|rewrite ?andb_false_r; reflexivity].
      destruct ((c_idx c =? 0) && (h_major h0 =? 3)); [rewrite orb_true_r; reflexivity|].
      rewrite orb_false_r. destruct (a1 <? h_major h0) eqn:E; [assert ((h_major h0 <=? a1) = false) as -> by lia|assert ((h_major h0 <=? a1) = true) as -> by lia]; reflexivity.
    - destruct ((c_idx c =? 0) && (h_major h0 =? 3)); [rewrite orb_true_r; reflexivity|].
      rewrite orb_false_r. destruct (a1 <? h_major h0) eqn:E; [assert ((h_major h0 <=? a1) = false) as -> by lia|assert ((h_major h0 <=? a1) = true) as -> by lia]; reflexivity.
  Qed.

  Definition desync_ok (u : dunit) : bool :=
    match u_kind u with KPad | KAux => u_npo u =? u_len u | _ => true end.

  Lemma head_decomp c npo u :
    pending_ok npo (c_prev c) && head_ok' c u = pi_conds c npo u && du_conds c u && desync_ok u.
  Proof.
    unfold head_ok', pi_conds, du_conds, npo_eager, npo_eager_pi, desync_ok.
    destruct (frag_step (c_o c) u); destruct (lstep (h_level h0) (c_ls c) (u_symbol u));
      destruct (gstep (c_g c) (u_symbol u)); btauto.
  Qed.

  Lemma symbol_le_unit_version u : symbol_version (u_symbol u) <= unit_version u.
  Proof. unfold unit_version. destruct (u_kind u); lia. Qed.

  Lemma step_spec s c npo u rest : R s c npo -> uvalid u -> step_post s c npo u (Mstep s u rest).
  Proof.
    intros HR Hv. pose proof (parse_info_spec s c npo u HR) as Hpi.
    destruct HR as (Ep & Eh & En & Hf & Em & Hacc).
    unfold step, step_post.
    destruct (Mparse_info s u) as [s1|e|cr]; [| |contradiction].
    2:{ split; [discriminate|]. rewrite head_decomp, Hpi. reflexivity. }
    destruct Hpi as (Hpi & g' & ls' & Eg & El & ->).
    set (a1 := Z.max (c_accv c) (symbol_version (u_symbol u))).
    match goal with |- context [is_eos_kind _] => idtac end.
    assert (R1 (mkV (mkP (Some (c_prev c)) (Some (u_npo u)))
                    (mkH (Some (h_id h0)) (Some (h_profile h0)) (Some (h_major h0)) (Some (h_pcm h0)) (Some a1))
                    (vn s) (vf s) (mkM g' (Some (h_level h0, ls')))) c a1 g' ls') as HR1.
    { unfold R1. cbn. repeat split; assumption. }
    pose proof (symbol_le_unit_version u) as Hsu.
    destruct (is_eos_kind (u_kind u)) eqn:Eeos.
    - pose proof (end_spec _ _ _ _ _ HR1) as Hend.
      assert (final_ok (cnext c u) = fin c a1 g' ls') as Efin.
      { unfold final_ok, fin, cnext, new_pic, is_new_picture, unit_version, frag_step, a1. rewrite (eos_symbol u Eeos).
        cbn [c_idx c_accv c_o c_ls c_g]. rewrite El, Eg, Z.add_0_r, (Z.max_comm (c_accv c)).
        destruct (c_o c); reflexivity. }
      assert (du_conds c u = true /\ desync_ok u = true) as (Edu & Eds).
      { unfold du_conds, desync_ok, hdr_same, picnum_head, frag_step. rewrite (eos_symbol u Eeos). destruct (c_o c); split; reflexivity. }
      destruct (Mend _) as [?|e|cr]; [| |contradiction].
      + assert (pending_ok npo (c_prev c) && head_ok' c u = true) as Hh by (rewrite head_decomp, Hpi, Edu, Eds; reflexivity).
        apply andb_prop in Hh. destruct Hh. repeat split; try assumption. rewrite Efin; assumption.
      + split; [discriminate|]. rewrite Efin, Hend. cbn. rewrite andb_false_r. reflexivity.
    - pose proof (data_unit_spec _ c a1 g' ls' u HR1 Hv) as Hdu.
      assert (hdr_version h0 <= a1) as Ha1 by (unfold a1; lia).
      assert (symbol_version (u_symbol u) <= a1) as Hs1 by (unfold a1; lia).
      specialize (Hdu Ha1 Hs1 Eeos).
      destruct (Mdata_unit _ u) as [s2|e|cr]; [| |contradiction].
      2:{ split; [discriminate|]. rewrite head_decomp, Hdu. rewrite andb_false_r. reflexivity. }
      destruct Hdu as (Hdu & Ep2 & Eh2 & En2 & Hf2 & Em2). cbn [vp] in Ep2.
      assert (desync_ok u = true ->
              pending_ok npo (c_prev c) = true /\ head_ok' c u = true /\ false = false /\
              R (mkV (mkP (Some (u_len u)) (p_npo (vp s2))) (vh s2) (vn s2) (vf s2) (vm s2)) (cnext c u) (u_npo u)) as Hcont.
      { intros Eds.
        assert (pending_ok npo (c_prev c) && head_ok' c u = true) as Hh by (rewrite head_decomp, Hpi, Hdu, Eds; reflexivity).
        apply andb_prop in Hh. destruct Hh. repeat split; try assumption.
        - cbn. rewrite Ep2. reflexivity.
        - cbn. rewrite Eh2. unfold cnext. cbn [c_accv]. f_equal. f_equal. unfold a1. lia.
        - cbn. rewrite Em2. unfold cnext. cbn [c_g c_ls]. rewrite El, Eg. reflexivity.
        - unfold cnext. cbn [c_accv]. lia. }
      unfold desync_ok in Hcont.
      destruct (u_kind u) eqn:Ek; try (apply Hcont; reflexivity).
      + destruct (u_npo u =? u_len u) eqn:Ed; [apply Hcont; reflexivity|].
        assert (desync_ok u = false) as Eds by (unfold desync_ok; rewrite Ek; assumption).
        destruct (_ <=? _); (split; [discriminate|]); rewrite head_decomp, Eds, andb_false_r; reflexivity.
      + destruct (u_npo u =? u_len u) eqn:Ed; [apply Hcont; reflexivity|].
        assert (desync_ok u = false) as Eds by (unfold desync_ok; rewrite Ek; assumption).
        destruct (_ <=? _); (split; [discriminate|]); rewrite head_decomp, Eds, andb_false_r; reflexivity.
  Qed.

  Lemma eof_not_accept (s : vstate gst lst) : eof_in_sequence gst lst s <> Accept.
  Proof.
    unfold eof_in_sequence. destruct (p_npo (vp s)); [|discriminate]. destruct (z =? 0); [discriminate|].
    destruct (p_prev_len (vp s)); [|discriminate]. destruct (negb _); discriminate.
  Qed.

  Lemma uvalid_len u : uvalid u -> PARSE_INFO_HEADER_BYTES <= u_len u.
  Proof. unfold uvalid, unit_valid. intros H. apply andb_prop in H. destruct H as (H & _). lia. Qed.

  Lemma run_from_cons fresh s u r :
    Mrun_from fresh s (u :: r) =
    match Mstep s u r with
    | Fail v => v
    | SeqDone => Mrun_from true (init_state gst gstart lst) r
    | Continue s' => Mrun_from false s' r
    end.
  Proof. reflexivity. Qed.
  Lemma run_from_nil fresh s :
    Mrun_from fresh s [] = if fresh then Accept else eof_in_sequence gst lst s.
  Proof. reflexivity. Qed.
  Lemma prod_ok_cons c u r :
    prod_ok c (u :: r) =
    if is_eos_kind (u_kind u)
    then match r with [] => head_ok c u && final_ok (cnext c u) | _ => false end
    else head_ok c u && prod_ok (cnext c u) r.
  Proof. reflexivity. Qed.

  Lemma tail_iff rest : forall s c npo,
    R s c npo -> forallb (unit_valid level_known (Some h0)) rest = true -> eos_at_most_last rest = true ->
    (Mrun_from false s rest = Accept <-> pending_ok npo (c_prev c) && prod_ok c rest = true).
  Proof.
    induction rest as [|u r IH]; intros s c npo HR Hval Hone.
    - rewrite run_from_nil. change (prod_ok c []) with false. rewrite andb_false_r.
      split; [intros H; exfalso; exact (eof_not_accept s H)|discriminate].
    - change (forallb (unit_valid level_known (Some h0)) (u :: r)) with
          (unit_valid level_known (Some h0) u && forallb (unit_valid level_known (Some h0)) r) in Hval.
      apply andb_prop in Hval. destruct Hval as (Hu & Hr).
      change (eos_at_most_last (u :: r)) with
          ((negb (is_eos_kind (u_kind u)) || match r with [] => true | _ => false end) && eos_at_most_last r) in Hone.
      apply andb_prop in Hone. destruct Hone as (Hone1 & Hone).
      pose proof (step_spec s c npo u r HR Hu) as Hs. pose proof (uvalid_len u Hu) as Hlen.
      rewrite run_from_cons, prod_ok_cons, (head_ok_split c u Hlen).
      destruct (Mstep s u r) as [s'| |v]; unfold step_post in Hs.
      + destruct Hs as (Hp & Hh & Heos & HR'). rewrite Heos, Hp, Hh. rewrite !andb_true_l.
        exact (IH s' (cnext c u) (u_npo u) HR' Hr Hone).
      + destruct Hs as (Hp & Hh & Heos & Hfin). rewrite Heos in *.
        destruct r; [|discriminate]. rewrite run_from_nil, Hp, Hh, Hfin.
        assert (pending_ok (u_npo u) (u_len u) = true) as ->.
        { clear - Hh Heos. unfold head_ok', npo_eager in Hh. rewrite Heos in Hh. unfold pending_ok.
          apply andb_prop in Hh. destruct Hh as (Hh & _). apply andb_prop in Hh. destruct Hh as (Hh & _).
          apply andb_prop in Hh. destruct Hh as (Hh & _). apply andb_prop in Hh. destruct Hh as (Hh & _).
          apply andb_prop in Hh. destruct Hh as (Hh & _). apply andb_prop in Hh. destruct Hh as (Hh & _).
          apply andb_prop in Hh. destruct Hh as (Hh & _). apply andb_prop in Hh. destruct Hh as (_ & Hh).
          apply andb_prop in Hh. destruct Hh as (Hh & _). apply andb_prop in Hh. destruct Hh as (Hh & _).
          rewrite Hh. reflexivity. }
        split; reflexivity.
      + destruct Hs as (Hv & Hc). split; [intros; contradiction|]. intros H. exfalso.
        clear - H Hc Hone1.
        destruct (is_eos_kind (u_kind u)).
        * destruct r; [|rewrite andb_false_r in H; discriminate].
          destruct (pending_ok npo (c_prev c)); destruct (head_ok' c u); destruct (final_ok (cnext c u));
            destruct (pending_ok (u_npo u) (u_len u)); discriminate.
        * destruct (pending_ok npo (c_prev c)); destruct (head_ok' c u); discriminate.
  Qed.
End Refine.

(* ------------------------------------------------------------------ the first data unit, and C01 *)
Section Main.
  Variable gst : Type.
  Variable gstart : gst.
  Variable gstep : gst -> symbol -> option gst.
  Variable gcomplete : gst -> bool.
  Variable lst : Type.
  Variable lstart : Z -> lst.
  Variable lstep : Z -> lst -> symbol -> option lst.
  Variable lcomplete : Z -> lst -> bool.
  Variable level_known : Z -> bool.
  Hypothesis Hgen : gen_first_is_seqhdr_b gstart gstep = true.

  Notation Mstep := (step gst gstep gcomplete lst lstart lstep lcomplete level_known false).
  Notation Mrun_from := (run_from gst gstart gstep gcomplete lst lstart lstep lcomplete level_known false).
  Notation Mrun := (run gst gstart gstep gcomplete lst lstart lstep lcomplete level_known false).
  Notation Mrules_ok := (rules_ok gst gstart gstep gcomplete lst lstart lstep lcomplete).
  Notation init := (init_state gst gstart lst).

  Definition first_conds (h0 : hdr) (u0 : dunit) : bool :=
    (u_ppo u0 =? 0) && npo_eager_pi u0 && (hdr_version h0 <=? h_major h0).

  Definition c0 (h0 : hdr) (u0 : dunit) (g1 : gst) (ls1 : lst) : cst gst lst :=
    mkC gst lst (u_len u0) None 0 None ls1 g1 (hdr_version h0).

  Lemma first_step u0 h0 rest :
    u_kind u0 = KSeqHdr h0 -> unit_valid level_known (Some h0) u0 = true ->
    match Mstep init u0 rest with
    | Continue s' => exists g1 ls1, gstep gstart SSeqHdr = Some g1 /\
                       lstep (h_level h0) (lstart (h_level h0)) SSeqHdr = Some ls1 /\
                       first_conds h0 u0 = true /\
                       R gst lst h0 s' (c0 h0 u0 g1 ls1) (u_npo u0)
    | SeqDone => False
    | Fail v => v <> Accept /\
                first_conds h0 u0 &&
                match gstep gstart SSeqHdr with Some _ => true | None => false end &&
                match lstep (h_level h0) (lstart (h_level h0)) SSeqHdr with Some _ => true | None => false end = false
    end.
  Proof.
    intros Ek Hv. unfold unit_valid in Hv. rewrite Ek in Hv.
    apply andb_prop in Hv. destruct Hv as (Hlen & Hv). apply andb_prop in Hv. destruct Hv as (Hv & _).
    apply andb_prop in Hv. destruct Hv as (Hpk & Hlk).
    unfold step, parse_info, first_conds. unfold u_symbol. rewrite Ek. cbn [kind_symbol is_eos_kind].
    unfold chk_prev_npo, chk_gen, chk_lvl, chk_profile, chk_version, chk_ppo. cbn [init_state vp vh vm p_npo p_prev_len m_gen m_lvl s_profile s_major bind].
    destruct (gstep gstart SSeqHdr) as [g1|] eqn:Eg; cbn [bind].
    2:{ split; [discriminate|]. rewrite andb_false_r. reflexivity. }
    unfold raise_if. assert ((MINIMUM_MAJOR_VERSION <? symbol_version SSeqHdr) = false) as -> by (vm_compute; reflexivity).
    cbn [bind].
    destruct (chk_npo_spec u0) as (e1 & ->).
    destruct (npo_eager_pi u0); cbn [bind]; [|split; [discriminate|rewrite ?andb_false_r; reflexivity]].
    destruct (u_ppo u0 =? 0); cbn [negb bind]; [|split; [discriminate|reflexivity]].
    unfold data_unit. rewrite Ek. unfold sequence_header, chk_hdr_params, raise_if.
    unfold hdr_version, MINIMUM_MAJOR_VERSION.
    destruct (h_major h0 <? 1) eqn:E1; cbn [bind].
    { split; [discriminate|]. assert ((Z.max 1 (Z.max (profile_version_implication (h_profile h0)) (h_pvmin h0)) <=? h_major h0) = false) as -> by lia. reflexivity. }
    rewrite Hpk. cbn [negb].
    destruct (h_major h0 <? profile_version_implication (h_profile h0)) eqn:E2; cbn [bind].
    { split; [discriminate|]. assert ((Z.max 1 (Z.max (profile_version_implication (h_profile h0)) (h_pvmin h0)) <=? h_major h0) = false) as -> by lia. reflexivity. }
    rewrite Hlk. cbn [negb bind].
    unfold make_lvl. cbn [vm m_lvl].
    destruct (lstep (h_level h0) (lstart (h_level h0)) SSeqHdr) as [ls1|] eqn:El; cbn [bind].
    2:{ split; [discriminate|]. rewrite andb_false_r. reflexivity. }
    unfold chk_lvl_value, chk_presets, chk_hdr_same, raise_if. cbn [fst vh s_last_hdr]. rewrite Z.eqb_refl. cbn [negb bind].
    destruct (h_major h0 <? h_pvmin h0) eqn:E3; cbn [bind].
    { split; [discriminate|]. assert ((Z.max 1 (Z.max (profile_version_implication (h_profile h0)) (h_pvmin h0)) <=? h_major h0) = false) as -> by lia. reflexivity. }
    exists g1, ls1. split; [reflexivity|]. split; [reflexivity|].
    split. { assert ((Z.max 1 (Z.max (profile_version_implication (h_profile h0)) (h_pvmin h0)) <=? h_major h0) = true) as -> by lia. reflexivity. }
    unfold R, c0, frel. cbn.
    repeat split.
    - f_equal. f_equal. unfold hdr_version, MINIMUM_MAJOR_VERSION. lia.
    - lia.
  Qed.

  Notation Mtail_rules := (tail_rules gst gstep gcomplete lst lstep lcomplete).

  Lemma needed_from_ge a us : a <= needed_from a us.
  Proof. unfold needed_from. induction us as [|u r IH]; cbn [fold_right]; lia. Qed.

  Lemma rules_ok_cons u0 h0 rest :
    u_kind u0 = KSeqHdr h0 ->
    Mrules_ok (u0 :: rest) =
    (u_ppo u0 =? 0) && npo_ok u0 && (hdr_version h0 <=? h_major h0) &&
    match gstep gstart SSeqHdr, lstep (h_level h0) (lstart (h_level h0)) SSeqHdr with
    | Some g1, Some ls1 => Mtail_rules h0 (c0 h0 u0 g1 ls1) rest
    | _, _ => false
    end.
  Proof.
    intros Ek.
    assert (is_eos_kind (u_kind u0) = false) as Eeos by (rewrite Ek; reflexivity).
    unfold rules_ok, ends_ok, offsets_ok, headers_identical, codes_allowed_in_profile, version_ok,
      picnums_ok, whole_frames, fragments_ok, level_pattern_ok, generic_pattern_ok.
    change (first_hdr (u0 :: rest)) with (match u_kind u0 with KSeqHdr h => Some h | _ => None end).
    rewrite Ek.
    assert (eos_only_last (u0 :: rest) = eos_only_last rest) as ->.
    { change (eos_only_last (u0 :: rest)) with
          (match rest with [] => is_eos_kind (u_kind u0) | _ => negb (is_eos_kind (u_kind u0)) && eos_only_last (rest) end).
      rewrite Eeos. destruct rest; reflexivity. }
    change (offsets_from 0 (u0 :: rest)) with ((u_ppo u0 =? 0) && npo_ok u0 && offsets_from (u_len u0) rest).
    assert (u_symbol u0 = SSeqHdr) as Esym by (unfold u_symbol; rewrite Ek; reflexivity).
    cbn [forallb map]. rewrite !Esym. cbn [profile_allows]. rewrite Ek.
    rewrite Z.eqb_refl. rewrite !andb_true_l.
    rewrite (count_pictures_cons u0 rest). unfold new_pic, is_new_picture. rewrite Ek.
    cbn [fold_right]. fold (needed_from (hdr_version h0) rest).
    assert (unit_version u0 = 1) as Euv by (unfold unit_version, u_symbol; rewrite Ek; vm_compute; reflexivity).
    rewrite Euv.
    assert (symbol_version SSeqHdr = 1) as -> by (vm_compute; reflexivity).
    pose proof (needed_from_ge (hdr_version h0) rest) as Hge.
    assert (1 <= hdr_version h0) as Hhv by (unfold hdr_version, MINIMUM_MAJOR_VERSION; lia).
    replace (Z.max 1 (needed_from (hdr_version h0) rest)) with (needed_from (hdr_version h0) rest) by lia.
    change (picnums_from (h_pcm h0 =? 1) None 0 (u0 :: rest)) with
        (match u_kind u0 with
         | KPic _ n _ | KFragFirst _ n _ =>
             true && (negb (h_pcm h0 =? 1) || negb (0 mod 2 =? 0) || (n mod 2 =? 0)) && picnums_from (h_pcm h0 =? 1) (Some n) (0 + 1) rest
         | _ => picnums_from (h_pcm h0 =? 1) None 0 rest end).
    change (frags_from None (u0 :: rest)) with
        (match frag_step None u0 with Some o' => frags_from o' rest | None => false end).
    unfold frag_step. rewrite Ek.
    cbn [automaton_accepts].
    unfold tail_rules, c0. cbn [c_prev c_last c_idx c_o c_ls c_g c_accv]. fold (fields h0).
    change (forallb (fun u => match u_kind u with KSeqHdr h => h_id h =? h_id h0 | _ => true end) rest)
      with (forallb (hdr_same h0) rest).
    change (forallb (fun u => profile_allows (h_profile h0) (u_symbol u)) rest) with (forallb (code_ok h0) rest).
    change (forallb (fun u => symbol_version (u_symbol u) <=? h_major h0) rest) with (forallb (supp_ok h0) rest).
    destruct (hdr_version h0 <=? h_major h0) eqn:Ev.
    - assert ((1 <=? h_major h0) = true) as -> by lia.
      destruct (gstep gstart SSeqHdr); destruct (lstep (h_level h0) (lstart (h_level h0)) SSeqHdr);
        rewrite ?andb_false_r; try reflexivity; btauto.
    - rewrite ?andb_false_r, ?andb_false_l. cbn [andb]. rewrite ?andb_false_r. reflexivity.
  Qed.

  Lemma not_header_rejected u0 rest : (forall h, u_kind u0 <> KSeqHdr h) ->
    Mrun (u0 :: rest) <> Accept /\ Mrules_ok (u0 :: rest) = false.
  Proof.
    intros Hk. split.
    - unfold run. rewrite run_from_cons. unfold step, parse_info, chk_prev_npo, chk_gen.
      cbn [init_state vp vm p_npo m_gen bind].
      destruct (gstep gstart (u_symbol u0)) as [g|] eqn:Eg; cbn [bind]; [|discriminate].
      exfalso. assert (u_symbol u0 = SSeqHdr) as Es by exact (gen_first gst gstart gstep gcomplete Hgen _ _ Eg).
      clear Eg. rename Es into Eg. unfold u_symbol in Eg.
      apply kind_symbol_seqhdr in Eg. destruct Eg as (h & Eh). exact (Hk h Eh).
    - unfold rules_ok, ends_ok.
      change (first_hdr (u0 :: rest)) with (match u_kind u0 with KSeqHdr h => Some h | _ => None end).
      destruct (u_kind u0) eqn:Ek; try reflexivity. exfalso. exact (Hk h eq_refl).
  Qed.

  Theorem iff_one_sequence us :
    units_valid level_known us = true -> one_sequence us = true ->
    (Mrun us = Accept <-> Mrules_ok us = true).
  Proof.
    destruct us as [|u0 rest]; [discriminate|]. intros Hval Hone.
    unfold one_sequence in Hone.
    change (eos_at_most_last (u0 :: rest)) with
        ((negb (is_eos_kind (u_kind u0)) || match rest with [] => true | _ => false end) && eos_at_most_last rest) in Hone.
    apply andb_prop in Hone. destruct Hone as (_ & Hone).
    destruct (u_kind u0) as [h0| | | | | |] eqn:Ek.
    2-7: (destruct (not_header_rejected u0 rest) as (H1 & H2); [intros h; rewrite Ek; discriminate|];
          rewrite H2; split; [intros; contradiction|discriminate]).
    unfold units_valid in Hval.
    change (first_hdr (u0 :: rest)) with (match u_kind u0 with KSeqHdr h => Some h | _ => None end) in Hval.
    rewrite Ek in Hval.
    change (forallb (unit_valid level_known (Some h0)) (u0 :: rest)) with
        (unit_valid level_known (Some h0) u0 && forallb (unit_valid level_known (Some h0)) rest) in Hval.
    apply andb_prop in Hval. destruct Hval as (Hv0 & Hrest).
    pose proof (first_step u0 h0 rest Ek Hv0) as Hfs.
    unfold run. rewrite run_from_cons, (rules_ok_cons u0 h0 rest Ek).
    assert (PARSE_INFO_HEADER_BYTES <= u_len u0) as Hlen0.
    { unfold unit_valid in Hv0. apply andb_prop in Hv0. destruct Hv0 as (H & _). lia. }
    assert (profile_known (h_profile h0) = true /\ level_known (h_level h0) = true) as (Hpk & Hlk).
    { unfold unit_valid in Hv0. rewrite Ek in Hv0.
      apply andb_prop in Hv0. destruct Hv0 as (_ & Hv0). apply andb_prop in Hv0. destruct Hv0 as (Hv0 & _).
      apply andb_prop in Hv0. exact Hv0. }
    assert (npo_ok u0 = npo_eager_pi u0 && pending_ok (u_npo u0) (u_len u0)) as Enpo.
    { rewrite (npo_ok_split level_known h0 Hpk Hlk u0 Hlen0). unfold npo_eager, npo_eager_pi. rewrite Ek. rewrite andb_true_r. reflexivity. }
    rewrite Enpo.
    destruct (Mstep init u0 rest) as [s'| |v].
    - destruct Hfs as (g1 & ls1 & Eg & El & Hfc & HR). rewrite Eg, El.
      unfold first_conds in Hfc.
      apply andb_prop in Hfc. destruct Hfc as (Hfc & Hver). apply andb_prop in Hfc. destruct Hfc as (Hppo & Heag).
      rewrite Hppo, Heag, Hver. rewrite !andb_true_l, andb_true_r.
      assert (hdr_version h0 <= h_major h0) as H0v by lia.
      pose proof (tail_iff gst gstart gstep gcomplete lst lstart lstep lcomplete level_known h0 H0v Hpk Hlk
                           rest s' (c0 h0 u0 g1 ls1) (u_npo u0) HR Hrest Hone) as Ht.
      rewrite prod_ok_tail_rules in Ht. exact Ht.
    - contradiction.
    - destruct Hfs as (Hv & Hc). split; [intros; contradiction|]. intros H. exfalso.
      unfold first_conds in Hc.
      destruct (gstep gstart SSeqHdr); destruct (lstep (h_level h0) (lstart (h_level h0)) SSeqHdr);
        destruct (u_ppo u0 =? 0); destruct (npo_eager_pi u0); destruct (hdr_version h0 <=? h_major h0);
        cbn in Hc; try discriminate; rewrite ?andb_false_r in H; cbn in H; try discriminate.
  Qed.
End Main.
